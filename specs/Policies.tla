------------------------------- MODULE Policies -------------------------------
(* Extension X05 -- twisted.protocols.policies: LimitTotalConnectionsFactory, ThrottlingFactory
   (with ThrottlingProtocol) and the ProtocolWrapper / WrappingFactory bookkeeping they share.

   cfg.kind = "limit"    LimitTotalConnectionsFactory(connectionLimit = cfg.lim, overflowProtocol iff cfg.ovf)
            = "throttle" ThrottlingFactory(maxConnectionCount = cfg.lim, readLimit = cfg.rl, writeLimit = cfg.wl)
            = "wrap"     plain WrappingFactory
   (None == -1 stands for "not given": no limit.)

   Connections are numbered by buildProtocol call (refused calls take a number too).  A connection is
   refused | built (buildProtocol returned a wrapper) | open (makeConnection done) | lost.
   Time is in ticks of 1/2 s; byte counts are in units chosen by the harness, so that every period the
   code computes ( bytes/limit - 1.0 seconds ) is a whole number of ticks for limits 1 and 2.

   The clock is twisted.internet.task.Clock: Adv(d) jumps the time, then every due call runs (Fire), in
   (time, creation) order, and sees the time after the jump.  Nothing else happens while a call is due.

   IMPLEMENTATION-SHAPED.  Deliberate deviations from what one would naively specify are marked ODDITY. *)
EXTENDS Naturals, Integers, Sequences, FiniteSets

None == -1
Dirs == {"r", "w"}            \* "r": reads (transport paused), "w": writes (registered producer paused)

VARIABLES cfg,      \* [kind, lim, ovf, rl, wl]
          now,      \* ticks
          nb,       \* number of buildProtocol calls so far
          st,       \* conn -> "refused" | "built" | "open" | "lost"
          typ,      \* conn -> "none" | "normal" | "overflow"   (which user protocol was instantiated)
          count,    \* the factory's connectionCount (limit, throttle)
          regq,     \* wrappers registered with the factory (WrappingFactory.protocols), in registration order
          closing,  \* open conns whose wrapped protocol called transport.loseConnection()
          prod,     \* open conns whose wrapped protocol has a producer registered on its transport
          pz,       \* dir -> conns currently told to pause ("r": transport.pauseProducing, "w": producer.pauseProducing)
          bytes,    \* dir -> units counted in the current interval (readThisSecond / writtenThisSecond)
          timers,   \* every callLater the factory ever made, in creation order: [k, at, st]
          uID, cID, \* dir -> timer id remembered as unthrottle*ID / check*BandwidthID (0 = None)
          swallowed,\* conns whose connectionLost raised before reaching the wrapped protocol (ODDITY 3)
          crashed,  \* a write (un)throttle has blown up on a connection without producer (ODDITY 5)
          cb,       \* conn -> [made, lost]: callbacks delivered to the wrapped protocol (history, for invariants)
          last      \* observation of the last step
vars == <<cfg, now, nb, st, typ, count, regq, closing, prod, pz, bytes, timers, uID, cID, swallowed, crashed, cb, last>>

InitWith(c) ==
    /\ cfg = c /\ now = 0 /\ nb = 0 /\ st = <<>> /\ typ = <<>> /\ count = 0
    /\ regq = <<>> /\ closing = {} /\ prod = {}
    /\ pz = [d \in Dirs |-> {}] /\ bytes = [d \in Dirs |-> 0]
    /\ timers = <<>> /\ uID = [d \in Dirs |-> 0] /\ cID = [d \in Dirs |-> 0]
    /\ swallowed = {} /\ crashed = FALSE /\ cb = <<>>
    /\ last = [e |-> "init"]

-----------------------------------------------------------------------------
RECURSIVE Sorted(_)
Sorted(S) == IF S = {} THEN <<>> ELSE LET m == CHOOSE x \in S : \A y \in S : x <= y IN <<m>> \o Sorted(S \ {m})
Calls(name, S) == LET s == Sorted(S) IN [i \in 1..Len(s) |-> <<name, s[i], 0>>]

reg == {regq[j] : j \in 1..Len(regq)}
IsThr == cfg.kind = "throttle"
Lim(d) == IF d = "r" THEN cfg.rl ELSE cfg.wl
Counted(d) == IsThr /\ Lim(d) # None
Live == {c \in 1..nb : st[c] \in {"built", "open"}}
Open == {c \in 1..nb : st[c] = "open"}

\* timer kinds: 1 checkReadBandwidth  2 unthrottleReads  3 checkWriteBandwidth  4 unthrottleWrites
KChk(d) == IF d = "r" THEN 1 ELSE 3
KUn(d)  == IF d = "r" THEN 2 ELSE 4
KName(k) == CASE k = 1 -> "checkReadBandwidth" [] k = 2 -> "unthrottleReads"
              [] k = 3 -> "checkWriteBandwidth" [] OTHER -> "unthrottleWrites"
PauseName(d)  == IF d = "r" THEN "tpause" ELSE "ppause"
ResumeName(d) == IF d = "r" THEN "tresume" ELSE "presume"
Tm(k, at) == [k |-> k, at |-> at, st |-> "pending"]

Due(i) == timers[i].st = "pending" /\ timers[i].at <= now
Quiet == \A i \in 1..Len(timers) : ~Due(i)
PendIdx(tm) == SelectSeq([i \in 1..Len(tm) |-> i], LAMBDA i : tm[i].st = "pending")
Pend(tm) == LET ix == PendIdx(tm) IN [j \in 1..Len(ix) |-> <<ix[j], tm[ix[j]].k, tm[ix[j]].at>>]

(* who is throttled: every registered wrapper's transport (reads); every registered wrapper's producer (writes).
   ODDITY 5: ThrottlingProtocol decides "do I have a producer" with hasattr(self, "producer"), which falls through
   ProtocolWrapper.__getattr__ to the transport's own `producer` attribute (None on twisted's transports): a registered
   connection WITHOUT a producer makes throttleWrites/unthrottleWrites raise AttributeError half way through the
   registration-ordered loop.  The delayed call dies: connections earlier in the loop are paused/resumed, later ones
   are not, and when it happens in checkWriteBandwidth neither the unthrottle nor the next check is scheduled and the
   counter is not reset.  *)
Targets(d) == IF d = "r" THEN reg ELSE reg \cap prod
FirstBad == IF \E j \in 1..Len(regq) : regq[j] \notin prod
              THEN CHOOSE j \in 1..Len(regq) : regq[j] \notin prod /\ \A j2 \in 1..(j - 1) : regq[j2] \in prod
              ELSE Len(regq) + 1
Crash(d) == d = "w" /\ FirstBad <= Len(regq)
Hit(d) == IF d = "r" THEN reg ELSE {regq[j] : j \in 1..(FirstBad - 1)}
CrashExc(d) == IF Crash(d) THEN "AttributeError" ELSE ""

(* check{Read,Write}Bandwidth(), run against timer list tm: over the limit => throttle every target and
   schedule the unthrottle after (bytes/limit - 1) s; reset the counter; schedule the next check in 1 s. *)
Over(d) == bytes[d] > Lim(d)
Abort(d) == Over(d) /\ Crash(d)
Period(d) == (2 * bytes[d]) \div Lim(d) - 2
ChkTm(d, tm) == IF Abort(d) THEN tm ELSE
                LET t1 == IF Over(d) THEN Append(tm, Tm(KUn(d), now + Period(d))) ELSE tm
                IN Append(t1, Tm(KChk(d), now + 2))
ChkObs(d) == IF Abort(d) THEN Calls(PauseName(d), Hit(d)) ELSE
             (IF Over(d) THEN Calls(PauseName(d), Hit(d)) \o << <<"later", KUn(d), Period(d)>> >> ELSE <<>>)
             \o << <<"later", KChk(d), 2>> >>
TmR(D, tm0) == IF "r" \in D THEN ChkTm("r", tm0) ELSE tm0
TmW(D, tm0) == IF "w" \in D THEN ChkTm("w", TmR(D, tm0)) ELSE TmR(D, tm0)
Base(d, D, tm0) == IF d = "r" THEN tm0 ELSE TmR(D, tm0)
RunChecks(D, tm0) ==      \* the checks for the directions in D, reads first
    /\ timers' = TmW(D, tm0)
    /\ bytes' = [d \in Dirs |-> IF d \in D /\ ~Abort(d) THEN 0 ELSE bytes[d]]
    /\ pz' = [d \in Dirs |-> IF d \in D /\ Over(d) THEN pz[d] \cup Hit(d) ELSE pz[d]]
    /\ uID' = [d \in Dirs |-> IF d \in D /\ Over(d) /\ ~Abort(d) THEN Len(Base(d, D, tm0)) + 1 ELSE uID[d]]
    /\ cID' = [d \in Dirs |-> IF d \in D /\ ~Abort(d) THEN Len(ChkTm(d, Base(d, D, tm0))) ELSE cID[d]]
    /\ crashed' = (crashed \/ \E d \in D : Abort(d))
ChecksObs(D) == (IF "r" \in D THEN ChkObs("r") ELSE <<>>) \o (IF "w" \in D THEN ChkObs("w") ELSE <<>>)

\* what the harness logs with every event (all primed: the situation after the step)
CountObs == IF cfg.kind = "wrap" THEN None ELSE count'
RegObs == IF cfg.kind = "limit" THEN None ELSE Len(regq')
Rec(e, c, x, res, obs, exc) ==
    [e |-> e, c |-> c, x |-> x, res |-> res, obs |-> obs, exc |-> exc, pend |-> Pend(timers'),
     count |-> CountObs, nreg |-> RegObs, disc |-> IF c \in closing' THEN 1 ELSE 0]
-----------------------------------------------------------------------------
(* factory.buildProtocol(addr).
   limit:    below the limit -> the normal protocol; otherwise the overflow protocol if configured, else None.
             ODDITY 1: overflow connections are counted too, so they keep the factory "full" after the
             normal connections have gone (new clients keep getting the overflow protocol).
   throttle: ODDITY 2: when connectionCount is 0 the bandwidth checks are (re)started BEFORE the connection
             limit is looked at, and they judge whatever the counters still hold from the previous session
             (counters are not reset when the last connection goes); with maxConnectionCount = 0 every refused
             call starts one more never-cancelled chain of checks. *)
Build ==
    /\ Quiet
    /\ LET c == nb + 1
           D == IF IsThr /\ count = 0 THEN {d \in Dirs : Lim(d) # None} ELSE {}
           room == cfg.lim = None \/ count < cfg.lim
           res == CASE cfg.kind = "limit" -> (IF room THEN "normal" ELSE IF cfg.ovf THEN "overflow" ELSE "none")
                    [] cfg.kind = "throttle" -> (IF room THEN "normal" ELSE "none")
                    [] OTHER -> "normal"
       IN /\ nb' = c
          /\ st' = Append(st, IF res = "none" THEN "refused" ELSE "built")
          /\ typ' = Append(typ, res)
          /\ count' = IF res # "none" /\ cfg.kind # "wrap" THEN count + 1 ELSE count
          /\ RunChecks(D, timers)
          /\ cb' = Append(cb, [made |-> 0, lost |-> 0])
          /\ UNCHANGED <<cfg, now, regq, closing, prod, swallowed>>
          /\ last' = Rec("build", c, 0, res,
                         ChecksObs(D) \o (IF res = "none" THEN <<>> ELSE << <<"new", c, IF res = "overflow" THEN 1 ELSE 0>> >>), "")

\* wrapper.makeConnection(transport): register with the factory, then connect the wrapped protocol to the wrapper
Connect(c) ==
    /\ Quiet /\ c \in 1..nb /\ st[c] = "built"
    /\ st' = [st EXCEPT ![c] = "open"]
    /\ regq' = Append(regq, c)
    /\ cb' = [cb EXCEPT ![c].made = @ + 1]
    /\ UNCHANGED <<cfg, now, nb, typ, count, closing, prod, pz, bytes, timers, uID, cID, swallowed, crashed>>
    /\ last' = Rec("connect", c, 0, "", << <<"made", c, 1>> >>, "")

\* wrapper.dataReceived(n units): relayed unchanged; the throttling factory counts it
Data(c, n) ==
    /\ Quiet /\ c \in Open
    /\ bytes' = [bytes EXCEPT !["r"] = IF Counted("r") THEN @ + n ELSE @]
    /\ UNCHANGED <<cfg, now, nb, st, typ, count, regq, closing, prod, pz, timers, uID, cID, swallowed, crashed, cb>>
    /\ last' = Rec("data", c, n, "", << <<"data", c, n>> >>, "")

\* the wrapped protocol writes n units through its transport (the wrapper): e = "write" | "wseq"
Write(c, n, e) ==
    /\ Quiet /\ c \in Open
    /\ bytes' = [bytes EXCEPT !["w"] = IF Counted("w") THEN @ + n ELSE @]
    /\ UNCHANGED <<cfg, now, nb, st, typ, count, regq, closing, prod, pz, timers, uID, cID, swallowed, crashed, cb>>
    /\ last' = Rec(e, c, n, "", << <<IF e = "write" THEN "twrite" ELSE "twseq", c, n>> >>, "")

\* the wrapped protocol calls transport.loseConnection(): relayed, and the wrapper reports disconnecting
Lose(c) ==
    /\ Quiet /\ c \in Open
    /\ closing' = closing \cup {c}
    /\ UNCHANGED <<cfg, now, nb, st, typ, count, regq, prod, pz, bytes, timers, uID, cID, swallowed, crashed, cb>>
    /\ last' = Rec("lose", c, 0, "", << <<"tlose", c, 0>> >>, "")

\* the wrapped protocol registers / unregisters a (streaming) producer on its transport
RegProd(c) ==
    /\ Quiet /\ c \in Open /\ c \notin prod
    /\ prod' = prod \cup {c}
    /\ pz' = [pz EXCEPT !["w"] = @ \ {c}]
    /\ UNCHANGED <<cfg, now, nb, st, typ, count, regq, closing, bytes, timers, uID, cID, swallowed, crashed, cb>>
    /\ last' = Rec("regprod", c, 0, "", << <<"treg", c, 1>> >>, "")
UnregProd(c) ==
    /\ Quiet /\ c \in Open /\ c \in prod
    /\ prod' = prod \ {c}
    /\ pz' = [pz EXCEPT !["w"] = @ \ {c}]
    /\ UNCHANGED <<cfg, now, nb, st, typ, count, regq, closing, bytes, timers, uID, cID, swallowed, crashed, cb>>
    /\ last' = Rec("unregprod", c, 0, "", << <<"tunreg", c, 0>> >>, "")

(* wrapper.connectionLost(reason): unregister from the factory, then tell the wrapped protocol.
   throttle: when the count reaches 0 the four remembered delayed calls are cancelled, in the order
   unthrottleReads, checkRead, unthrottleWrites, checkWrite.
   ODDITY 3: the remembered ids are not cleared after cancelling, so an unthrottle id left over from an
   earlier session is cancelled AGAIN at the end of the next one: AlreadyCancelled propagates out of
   connectionLost, the remaining cancels are skipped (those check chains keep running with no connection)
   and the wrapped protocol never hears connectionLost. *)
Lost(c) ==
    /\ Quiet /\ c \in Open
    /\ LET cnt == IF cfg.kind = "wrap" THEN count ELSE count - 1
           doCancel == IsThr /\ cnt = 0
           ids == <<uID["r"], cID["r"], uID["w"], cID["w"]>>
           Bad(j) == ids[j] # 0 /\ timers[ids[j]].st # "pending"
           firstBad == IF \E j \in 1..4 : Bad(j) THEN CHOOSE j \in 1..4 : Bad(j) /\ \A j2 \in 1..(j - 1) : ~Bad(j2) ELSE 5
           hit == IF doCancel THEN {ids[j] : j \in {jj \in 1..(firstBad - 1) : ids[jj] # 0}} ELSE {}
           exc == IF doCancel /\ firstBad <= 4
                    THEN (IF timers[ids[firstBad]].st = "fired" THEN "AlreadyCalled" ELSE "AlreadyCancelled") ELSE ""
       IN /\ count' = cnt
          /\ st' = [st EXCEPT ![c] = "lost"]
          /\ regq' = SelectSeq(regq, LAMBDA x : x # c)
          /\ closing' = closing \ {c}
          /\ prod' = prod \ {c}
          /\ pz' = [d \in Dirs |-> pz[d] \ {c}]
          /\ timers' = [i \in 1..Len(timers) |-> IF i \in hit THEN [timers[i] EXCEPT !.st = "cancelled"] ELSE timers[i]]
          /\ swallowed' = IF exc # "" THEN swallowed \cup {c} ELSE swallowed
          /\ cb' = IF exc = "" THEN [cb EXCEPT ![c].lost = @ + 1] ELSE cb
          /\ UNCHANGED <<cfg, now, nb, typ, bytes, uID, cID, crashed>>
          /\ last' = Rec("lost", c, 0, "", IF exc = "" THEN << <<"lost", c, 1>> >> ELSE <<>>, exc)

\* clock.advance(d ticks)
Adv(d) ==
    /\ Quiet /\ d \in Nat
    /\ now' = now + d
    /\ UNCHANGED <<cfg, nb, st, typ, count, regq, closing, prod, pz, bytes, timers, uID, cID, swallowed, crashed, cb>>
    /\ last' = Rec("adv", 0, d, "", <<>>, "")

(* the clock runs the earliest due call.
   ODDITY 4: a second throttle while an unthrottle is pending overwrites the remembered id; the older call
   still fires, resumes everybody early and clears the id of the newer one (which then survives the
   cancel at count 0). *)
First(i) == /\ i \in 1..Len(timers) /\ Due(i)
            /\ \A j \in 1..Len(timers) : (Due(j) /\ j # i) =>
                   (timers[i].at < timers[j].at \/ (timers[i].at = timers[j].at /\ i < j))
Fire(i) ==
    /\ First(i)
    /\ UNCHANGED <<cfg, now, nb, st, typ, count, regq, closing, prod, swallowed, cb>>
    /\ LET k == timers[i].k
           d == IF k \in {1, 2} THEN "r" ELSE "w"
           tm0 == [timers EXCEPT ![i].st = "fired"]
       IN IF k \in {1, 3}
            THEN /\ RunChecks({d}, tm0)
                 /\ last' = Rec("fire", 0, i, KName(k), ChecksObs({d}), IF Abort(d) THEN "AttributeError" ELSE "")
            ELSE /\ timers' = tm0
                 /\ uID' = [uID EXCEPT ![d] = 0]
                 /\ pz' = [pz EXCEPT ![d] = @ \ Hit(d)]
                 /\ crashed' = (crashed \/ Crash(d))
                 /\ UNCHANGED <<bytes, cID>>
                 /\ last' = Rec("fire", 0, i, KName(k), Calls(ResumeName(d), Hit(d)), CrashExc(d))

\* end of a recorded history: nothing may be left due
End ==
    /\ Quiet
    /\ UNCHANGED <<cfg, now, nb, st, typ, count, regq, closing, prod, pz, bytes, timers, uID, cID, swallowed, crashed, cb>>
    /\ last' = Rec("end", 0, 0, "", <<>>, "")

Sizes == {1, 3, 5}
Next == \/ Build
        \/ \E c \in 1..nb : Connect(c)
        \/ \E c \in 1..nb, n \in Sizes : Data(c, n)
        \/ \E c \in 1..nb, n \in Sizes : Write(c, n, "write")
        \/ \E c \in 1..nb, n \in Sizes : Write(c, n, "wseq")
        \/ \E c \in 1..nb : Lose(c)
        \/ \E c \in 1..nb : RegProd(c)
        \/ \E c \in 1..nb : UnregProd(c)
        \/ \E c \in 1..nb : Lost(c)
        \/ \E d \in 1..3 : Adv(d)
        \/ \E i \in 1..Len(timers) : Fire(i)

-----------------------------------------------------------------------------
(* What a user relies on. *)
PendingOf(k) == {i \in 1..Len(timers) : timers[i].st = "pending" /\ timers[i].k = k}

\* limit: never more than connectionLimit normal protocols alive; throttle: never more than maxConnectionCount
LimitRespected ==
    cfg.lim # None =>
        /\ cfg.kind = "limit" => Cardinality({c \in Live : typ[c] = "normal"}) <= cfg.lim
        /\ cfg.kind = "throttle" => Cardinality(Live) <= cfg.lim
\* no leak: the factory's count is exactly the connections handed out and not yet lost (so it is 0 when all are lost);
\* every accepted buildProtocol is matched by exactly one unregister
CountExact == cfg.kind # "wrap" => count = Cardinality(Live)
RegExact == reg = Open /\ Len(regq) = Cardinality(reg)
\* refused calls instantiate nothing; only the limit factory with an overflow protocol ever hands that out
TypSane == \A c \in 1..nb : /\ (st[c] = "refused") = (typ[c] = "none")
                            /\ typ[c] = "overflow" => cfg.kind = "limit" /\ cfg.ovf
\* relaying: the wrapped protocol sees makeConnection exactly once when the wrapper does, and connectionLost exactly
\* once when the wrapper does (except ODDITY 3, where connectionLost raised before relaying)
RelayOnce == \A c \in 1..nb :
    /\ cb[c].made = (IF st[c] \in {"open", "lost"} THEN 1 ELSE 0)
    /\ cb[c].lost = (IF st[c] = "lost" /\ c \notin swallowed THEN 1 ELSE 0)
\* throttle: while connections exist exactly one bandwidth check per limited direction is pending, and none is left
\* behind when the last one goes -- as long as no cancel has blown up (ODDITY 3) and maxConnectionCount # 0 (ODDITY 2)
OneChain == (IsThr /\ swallowed = {} /\ ~crashed /\ cfg.lim # 0) =>
    \A d \in Dirs : Cardinality(PendingOf(KChk(d))) = (IF Counted(d) /\ count > 0 THEN 1 ELSE 0)
\* nobody stays throttled for ever: whoever was told to pause has an unthrottle call pending
NoStuckPause == ~crashed => \A d \in Dirs : (pz[d] \cap Targets(d) # {}) => PendingOf(KUn(d)) # {}
\* only a throttling factory with that limit set ever pauses anybody or owns timers
NoSpuriousThrottle == \A d \in Dirs : ~Counted(d) => (pz[d] = {} /\ PendingOf(KChk(d)) = {} /\ PendingOf(KUn(d)) = {})
\* remembered ids point at calls of the right kind; timers are scheduled strictly in the future
IdsSane == \A d \in Dirs : /\ uID[d] # 0 => timers[uID[d]].k = KUn(d)
                           /\ cID[d] # 0 => timers[cID[d]].k = KChk(d)
Inv == LimitRespected /\ CountExact /\ RegExact /\ TypSane /\ RelayOnce /\ OneChain /\ NoStuckPause
       /\ NoSpuriousThrottle /\ IdsSane

(* step properties *)
\* somebody is newly told to pause only by a check that found the interval's count above the limit,
\* and every check resets the interval's counter
ThrottleOnlyWhenOver == \A d \in Dirs : (pz[d]' \ pz[d] # {}) => (Counted(d) /\ bytes[d] > Lim(d) /\ (bytes[d]' = 0 \/ crashed'))
\* a call scheduled in a step is never due in the same step (the clock cannot spin)
FutureOnly == \A i \in (Len(timers) + 1)..Len(timers') : timers'[i].at > now'
\* lost is final, the count moves by one
Monotone == /\ \A c \in 1..nb : st[c] = "lost" => st'[c] = "lost"
            /\ count' - count \in {-1, 0, 1}
StepInv == ThrottleOnlyWhenOver /\ FutureOnly /\ Monotone
=============================================================================
