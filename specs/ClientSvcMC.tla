----------------------------- MODULE ClientSvcMC -----------------------------
(* Exhaustive TLC run of the ClientSvc design: all 36 environment configurations
   (hook present?, transport closing synchronously?, endpoint answering async/ok/fail,
   hook answering ok/fail/async), all interleavings of calls, environment stimuli and
   re-entrant calls up to the bounds.  Mode switches (CMode/HMode) are exercised by the
   trace validation only; here the modes are fixed per behaviour.                    *)
EXTENDS ClientSvc, TLC
CONSTANTS Depth, MaxW, MaxS, MaxAtt, MaxNow
Modes == {"async", "ok", "fail"}
Init == \E h \in BOOLEAN, sc \in BOOLEAN, cm \in Modes, hm \in Modes :
           InitWith([hook |-> h, syncClose |-> sc, pol |-> <<1, 2>>, cmode |-> cm, hmode |-> hm])
WhenArgs == {<<0 - 1, "none">>, <<0, "none">>, <<1, "none">>, <<2, "none">>, <<0 - 1, "stop">>, <<0 - 1, "when">>, <<1, "start">>}
MCNext == \/ Start
          \/ \E t \in {"none", "start", "when"} : Stop(t)
          \/ \E a \in WhenArgs : When(a[1], a[2])
          \/ Succeed
          \/ Fail
          \/ \E c \in S.hooks : PrepOk(c)
          \/ \E c \in S.hooks : PrepFail(c)
          \/ \E c \in {S.conn} : Drop(c)
          \/ \E d \in 1..2 : Adv(d)
          \/ Nested
Spec == Init /\ [][MCNext]_vars
Bound == /\ S.nW <= MaxW /\ S.nS <= MaxS /\ S.nAtt <= MaxAtt /\ S.now <= MaxNow
         /\ TLCGet("level") <= Depth
View == <<cfg, [S EXCEPT !.obs = {}, !.nres = <<>>]>>
=============================================================================
