CONSTANT MaxOpen = 1
CONSTANT MaxReq = 2
CONSTANT MaxLevel = 11
SPECIFICATION Spec
CONSTRAINT Bound
VIEW View
INVARIANT OpenOutcomeOnce
INVARIANT ClosedAfterHandshake
INVARIANT MapsAgree
INVARIANT OpenOrder
INVARIANT HeadDeliverable
INVARIANT RequestsSettle
INVARIANT StopCleans
INVARIANT SettledWhenQuiet
PROPERTY StepProp
CHECK_DEADLOCK FALSE
