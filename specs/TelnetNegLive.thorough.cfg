SPECIFICATION FairSpec
CONSTANT NOpt = 1
CONSTANT Reent = TRUE
CONSTANT MaxReq = 5
PROPERTY Terminates
PROPERTY EveryRequestFires
CHECK_DEADLOCK FALSE
