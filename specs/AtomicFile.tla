------------------------------ MODULE AtomicFile ------------------------------
(* C52 -- atomic file replacement (FilePath.setContent, sob.Persistent.save) keeps
   the old or the new content at every crash point.

   Abs layer = the property.  State: the content the target path holds according to
   the completed replacements (`tgt`: <<>> = no file, <<id>> = the complete content
   number id), the replacement in flight, whether the process is up.  Actions: the
   public call (save), its normal return, a process crash, and `view` = what a reader
   of the target path finds: <<id, "all">> the complete content id, <<0, "absent">>
   no file, <<0, "part">> anything else (partial / mixed / foreign bytes).
   The property: the view is the committed content; right after a crash inside a
   replacement it is the complete old or the complete new content.  Other files in
   the directory ("only temporary files may be left behind") are not constrained.
   `ok` records whether every view so far was allowed; Inv == ok.                *)
EXTENDS Naturals, Integers, Sequences, FiniteSets

VARIABLES cfg,    \* [kind |-> "sc" | "sob", init |-> 0 | 1, ve |-> id of the empty content or 0, win |-> BOOLEAN]
          tgt,    \* committed content of the target: <<>> or <<id>>
          infl,   \* <<>> or <<id>> : content being saved
          mode,   \* "up" | "busy"
          nop, ncr, ok, last

absvars == <<cfg, tgt, infl, mode, nop, ncr, ok, last>>

InitWith(c) ==
    /\ cfg = c
    /\ tgt = IF c.init = 0 THEN <<>> ELSE <<1>>       \* content id 1 = what was there before
    /\ infl = <<>> /\ mode = "up" /\ nop = 0 /\ ncr = 0 /\ ok = TRUE
    /\ last = [e |-> "init"]

Shows(t, c) == IF c = <<>> THEN t = <<0, "absent">> ELSE t = <<c[1], "all">>
Allowed(t) == Shows(t, tgt) \/ (infl # <<>> /\ Shows(t, infl))

ASave(v) ==
    /\ mode = "up" /\ infl = <<>>
    /\ infl' = <<v>> /\ mode' = "busy" /\ nop' = nop + 1
    /\ last' = [e |-> "save", v |-> v]
    /\ UNCHANGED <<cfg, tgt, ncr, ok>>

ARetOk ==
    /\ mode = "busy"
    /\ tgt' = infl /\ infl' = <<>> /\ mode' = "up"
    /\ last' = [e |-> "ret", res |-> "ok"]
    /\ UNCHANGED <<cfg, nop, ncr, ok>>

(* the process dies inside the call; whoever looks next is a new process *)
ACrash ==
    /\ mode = "busy"
    /\ mode' = "up" /\ ncr' = ncr + 1
    /\ last' = [e |-> "crash"]
    /\ UNCHANGED <<cfg, tgt, infl, nop, ok>>

AView(t) ==
    /\ mode = "up"
    /\ ok' = (ok /\ Allowed(t))
    /\ tgt' = IF t[2] = "all" THEN <<t[1]>> ELSE IF t[2] = "absent" THEN <<>> ELSE tgt
    /\ infl' = <<>>
    /\ last' = [e |-> "view"]
    /\ UNCHANGED <<cfg, mode, nop, ncr>>

Inv == ok
=============================================================================
