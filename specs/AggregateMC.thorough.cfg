SPECIFICATION Spec
CONSTANT MaxN = 4
CONSTRAINT Bound
VIEW View
INVARIANT TypeOK
INVARIANT FiresOnce
INVARIANT ListForm
INVARIANT FirstSuccess
INVARIANT FirstFailure
INVARIANT Prompt
INVARIANT Cancels
PROPERTY Stable
CHECK_DEADLOCK FALSE
