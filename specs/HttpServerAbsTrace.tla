------------------------- MODULE HttpServerAbsTrace -------------------------
(* C21 trace validation: every recorded execution of a real HTTPChannel (one event
   per observable, in program order) must be a behaviour of HttpServerAbs.  Every
   logged field is a parameter of the spec action, so nothing logged goes unchecked. *)
EXTENDS HttpServerAbs, TLC, Json, IOUtils

Traces == JsonDeserialize(IOEnv.TRACE_FILE)
VARIABLES tid, l
ASSUME \A t \in 1..Len(Traces) : TLCSet(t, 1)

T == Traces[tid]
E == T.ev[l]

TInit == /\ tid \in 1..Len(Traces) /\ l = 1
         /\ InitWith([closing |-> Traces[tid].cfg.closing])

Step(A) == /\ l <= Len(T.ev) /\ A /\ Inv' /\ l' = l + 1 /\ UNCHANGED tid

TNext == \/ (E.e = "deliver" /\ Step(Deliver(E.k)))
         \/ (E.e = "recv"    /\ Step(Recv(E.r, E.nd)))
         \/ (E.e = "seg" /\ E.k \in {"head", "body"} /\ Step(Seg(E.k, E.r)))
         \/ (E.e = "seg" /\ E.k = "end"  /\ Step(Seg("end", tail)))
         \/ (E.e = "seg" /\ E.k = "r100" /\ Step(SegContinue))
         \/ (E.e = "write"   /\ Step(WriteCall(E.r)))
         \/ (E.e = "finish"  /\ Step(FinishCall(E.r) \/ LateFinish(E.r)))
         \/ (E.e = "notify"  /\ Step(Notify(E.r, E.d, E.v)))
         \/ (E.e = "nfreq"   /\ Step(NotifyRequest(E.r, E.d)))
         \/ (E.e = "lost"    /\ Step(Lose))
         \/ (E.e = "pause"   /\ Step(Pause))
         \/ (E.e = "resume"  /\ Step(Resume))
         \/ (E.e = "ret"     /\ Step(Ret(E.x)))
         \/ (E.e = "end"     /\ Step(End))

TSpec == TInit /\ [][l <= Len(T.ev) /\ TNext]_<<vars, tid, l>>

Progress == TLCSet(tid, IF TLCGet(tid) > l THEN TLCGet(tid) ELSE l)
Rejected == {<<t, TLCGet(t)>> : t \in {u \in 1..Len(Traces) : TLCGet(u) # Len(Traces[u].ev) + 1}}
Accepted == Rejected = {} \/ (PrintT(<<"REJECTED", Rejected>>) /\ FALSE)
=============================================================================
