SPECIFICATION Spec
CONSTANT MaxCalls = 3
CONSTANT MaxPerPeer = 2
CONSTANT KindSet = {"NowOk", "NowUndecl", "LaterOk", "LaterDecl", "Never"}
CONSTANT QC = {TRUE}
VIEW View
INVARIANT ExactlyOnce
INVARIANT OwnResult
INVARIANT NonePendingAfterLoss
INVARIANT NeverOnlyLoss
INVARIANT WhyOK
CHECK_DEADLOCK FALSE
