SPECIFICATION Spec
CONSTANT Units = {"RL11", "RL10", "HC1", "HC0", "HCB", "HTC", "HTX", "HNC", "HF", "K0", "K1", "KB", "NL", "B"}
CONSTANT MaxD = 3
CONSTANT MaxReq = 1
CONSTANT MaxHdr = 2
CONSTANT MaxBuf = 3
CONSTANT MaxSent = 16
CONSTANT NDs = {0}
CONSTRAINT Bound
VIEW View
CHECK_DEADLOCK FALSE
INVARIANT SegInv
INVARIANT NothingAfter400
INVARIANT DeliveredWellFramed
INVARIANT NothingAfterClose
