SPECIFICATION Spec
CONSTANT MaxCh = 3
CONSTANT MaxNow = 3
INVARIANT Equiv
INVARIANT OnePassword
INVARIANT NoncesUnique
VIEW View
CHECK_DEADLOCK FALSE
