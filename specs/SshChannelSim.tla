----------------------------- MODULE SshChannelSim -----------------------------
(* Behaviour generator (spec -> code): SshChannel plus a history variable holding the
   predicted observable event of every step; printed as JSON at Depth.  Behaviours stop
   at the first broken clause (they are replayed on the real objects either way).      *)
EXTENDS SshChannel, TLC, Json
CONSTANTS Depth, MaxWin, MaxPkt, MaxN, MaxAdj
VARIABLE hist
SInit == /\ \E w \in 1..MaxWin, p \in 1..MaxPkt :
              InitWith([win |-> w, pkt |-> p, maxops |-> Depth, maxn |-> MaxN, maxadj |-> MaxAdj])
         /\ hist = <<>>
SNext == Next /\ hist' = Append(hist, last')
SSpec == SInit /\ [][SNext]_<<vars, hist>>
Emit2 == (TLCGet("level") < Depth /\ obs.viol = {})
         \/ PrintT(<<"BEH", ToJson([cfg |-> [win |-> cfg.win, pkt |-> cfg.pkt], hist |-> hist, viol |-> obs.viol])>>)
Stop == TLCGet("level") <= Depth /\ obs.viol = {}
=============================================================================
