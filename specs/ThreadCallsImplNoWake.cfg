SPECIFICATION Spec
CONSTANT MaxN = 2
CONSTANT Waker = FALSE
INVARIANT IInv
PROPERTY Live
CHECK_DEADLOCK FALSE
