SPECIFICATION Spec
CONSTANT KeyLens = {0, 1, 3, 255, 256}
CONSTANT ValLens = {0, 1, 3, 65535, 65536}
CONSTANT NonBytesVals <- NBThorough
CONSTANT Shapes <- ShapesThorough
VIEW View
INVARIANT RoundTrip
INVARIANT NeverClosed
INVARIANT AllAtEnd
INVARIANT WireIsSer
CHECK_DEADLOCK FALSE
