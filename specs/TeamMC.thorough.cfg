SPECIFICATION Spec
CONSTANT MaxT = 3
CONSTANT MaxG = 1
CONSTANT MaxS = 1
CONSTANT MaxL = 1
CONSTANT MaxQ = 2
CONSTANT Depth = 60
CONSTRAINT Bound
VIEW View
INVARIANT AtMostOnce
INVARIANT OnlyAccepted
INVARIANT CreateBelowLimit
INVARIANT OneTaskAtOnce
INVARIANT NoRaise
INVARIANT AllRun
INVARIANT QuitStopsAll
INVARIANT NoIdleBacklog
CHECK_DEADLOCK FALSE
