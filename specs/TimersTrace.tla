----------------------------- MODULE TimersTrace -----------------------------
(* Batched trace validation for C08 (ReactorBase timers) and C09 (task.Clock): every
   recorded execution of the real object must be a behaviour of TimersAbs with every
   logged field matching, and every invariant of TimersProp must hold after every step. *)
EXTENDS TimersProp, TLC, Json, IOUtils

Traces == JsonDeserialize(IOEnv.TRACE_FILE)
VARIABLES tid, l
ASSUME \A t \in 1..Len(Traces) : TLCSet(t, 1)

T == Traces[tid]
E == T.ev[l]

TInit == /\ tid \in 1..Len(Traces) /\ l = 1
         /\ InitWith([flavour |-> Traces[tid].cfg.flavour, neg |-> Traces[tid].cfg.neg])

SeqSet(s) == {s[k] : k \in 1..Len(s)}
SameSet(s, S) == SeqSet(s) = S /\ Len(s) = Cardinality(S)      \* a list without duplicates of exactly S

\* every logged field is compared with what the spec action predicts
Matches ==
    /\ last'.e = E.e
    /\ E.e = "later"   => (last'.d = E.d /\ last'.id = E.id /\ last'.t = E.t)
    /\ E.e = "cancel"  => (last'.id = E.id /\ last'.res = E.res)
    /\ E.e \in {"reset", "delay"} => (last'.id = E.id /\ last'.d = E.d /\ last'.res = E.res /\ last'.t = E.t)
    /\ E.e = "gdc"     => SameSet(E.ids, last'.ids)
    /\ E.e = "timeout" => (last'.v = E.v /\ last'.none = E.none)
    /\ E.e = "adv"     => last'.d = E.d
    /\ E.e = "run"     => (last'.id = E.id /\ last'.now = E.now /\ SameSet(E.gdc, last'.gdc))

Step(A) == /\ l <= Len(T.ev) /\ A /\ Matches /\ Inv' /\ l' = l + 1 /\ UNCHANGED tid

TNext == \/ (E.e = "later"   /\ Step(PCallLater(E.d)))
         \/ (E.e = "cancel"  /\ Step(PCancelOk(E.id) \/ PCancelRefused(E.id)))
         \/ (E.e = "reset"   /\ Step(PResetOk(E.id, E.d) \/ PResetRefused(E.id, E.d)))
         \/ (E.e = "delay"   /\ Step(PDelayOk(E.id, E.d) \/ PDelayRefused(E.id, E.d)))
         \/ (E.e = "gdc"     /\ Step(PGdc))
         \/ (E.e = "timeout" /\ Step(PTimeout(E.v, E.none)))
         \/ (E.e = "adv"     /\ Step(PAdvanceReactor(E.d) \/ PAdvanceClock(E.d)))
         \/ (E.e = "iter"    /\ Step(PIterBegin))
         \/ (E.e = "run"     /\ Step(PRunBegin(E.id)))
         \/ (E.e = "ret"     /\ Step(PRunEnd))
         \/ (E.e = "iterend" /\ Step(PIterEnd))

TSpec == TInit /\ [][l <= Len(T.ev) /\ TNext]_<<vars, tid, l>>

Progress == TLCSet(tid, IF TLCGet(tid) > l THEN TLCGet(tid) ELSE l)
Rejected == {<<t, TLCGet(t)>> : t \in {u \in 1..Len(Traces) : TLCGet(u) # Len(Traces[u].ev) + 1}}
Accepted == Rejected = {} \/ (PrintT(<<"REJECTED", Rejected>>) /\ FALSE)
=============================================================================
