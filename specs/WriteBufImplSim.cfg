SPECIFICATION SSpec
CONSTANT Depth = 14
CONSTRAINT Emit
CONSTRAINT Stop
CHECK_DEADLOCK FALSE
