SPECIFICATION Spec
CONSTANT MaxLen = 2
CONSTANT RnfrLen = 1
CONSTANT Depth = 2
CONSTANT Symbols <- SymQuick
CONSTANT Wd0s <- WdRoot
CONSTANT Anons = {FALSE, TRUE}
CONSTANT Nul <- MCNul
CONSTANT PP <- MCPP
CONSTANT Modes = {"component", "string"}
VIEW View
ACTION_CONSTRAINT EmitCover
INVARIANT WdInside
INVARIANT TreeOk
PROPERTY StepConfined
CHECK_DEADLOCK FALSE
