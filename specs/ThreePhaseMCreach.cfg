SPECIFICATION Spec
CONSTANT MaxT = 4
CONSTANT MaxR = 1
CONSTANT MaxF = 1
CONSTANT KindSet = "simple"
INVARIANT ReachWaitingTwo
CHECK_DEADLOCK FALSE
