SPECIFICATION Spec
CONSTANT MaxT = 4
CONSTANT MaxR = 1
CONSTANT MaxF = 1
CONSTANT MCKinds = {"plain", "defer"}
INVARIANT ReachWaitingTwo
CHECK_DEADLOCK FALSE
