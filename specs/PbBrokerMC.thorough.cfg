SPECIFICATION Spec
CONSTANT MaxCalls = 3
CONSTANT MaxHandles = 2
CONSTANT KindSet = {"Now", "Later", "Never", "RaiseX", "Give", "GiveLater", "Take"}
CONSTANT Flags = {FALSE}
CONSTANT Hows = {"ok", "errx"}
CONSTANT Reasons = {1}
CONSTANT NObj = {1}
CONSTANT Depth = 11
CONSTRAINT Bound
VIEW View
INVARIANT ExactlyOnce
INVARIANT OwnResult
INVARIANT NothingPendingAfterLoss
INVARIANT WaitingExact
INVARIANT IdsDistinct
INVARIANT RefBalance
INVARIANT HandleDenotes
INVARIANT NoLeak
INVARIANT NeverBroken
PROPERTY ResultStable
CHECK_DEADLOCK FALSE
