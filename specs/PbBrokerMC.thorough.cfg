SPECIFICATION Spec
CONSTANT MaxCalls = 3
CONSTANT MaxHandles = 2
CONSTANT KindSet = {"Now", "Raise", "Later", "Give", "GiveLater", "Take"}
CONSTANT Flags = {TRUE, FALSE}
CONSTANT Hows = {"ok", "err"}
CONSTANT Reasons = {1}
CONSTANT NObj = {2}
CONSTANT Depth = 11
CONSTRAINT Bound
VIEW View
INVARIANT ExactlyOnce
INVARIANT OwnResult
INVARIANT NothingPendingAfterLoss
INVARIANT WaitingExact
INVARIANT IdsDistinct
INVARIANT RefBalance
INVARIANT HandleDenotes
INVARIANT NoLeak
INVARIANT NeverBroken
PROPERTY ResultStable
CHECK_DEADLOCK FALSE
