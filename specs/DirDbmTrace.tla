---------------------------- MODULE DirDbmTrace ----------------------------
(* C51 verdict layer.  Every recorded execution of the real DirDBM (operations,
   injected crashes, real recovery, what keys()/d[k] show) must be a behaviour of the
   Abs specification DirDbm with every view allowed by the property (Inv' in every
   step).  File-system events ("fs") and raw directory listings ("ls") are not part of
   the property: they are skipped here and checked by DirDbmImplTrace.          *)
EXTENDS DirDbm, TLC, Json, IOUtils

Traces == JsonDeserialize(IOEnv.TRACE_FILE)
VARIABLES tid, l
ASSUME \A t \in 1..Len(Traces) : TLCSet(t, 1)

T == Traces[tid]
E == T.ev[l]
Range(s) == {s[i] : i \in 1..Len(s)}

TInit == /\ tid \in 1..Len(Traces) /\ l = 1
         /\ InitWith([ve |-> Traces[tid].cfg.ve])

Step(A) == /\ l <= Len(T.ev) /\ A /\ Inv' /\ l' = l + 1 /\ UNCHANGED tid

Skip == UNCHANGED absvars

TNext == \/ (E.e = "set" /\ Step(ASet(E.k, E.v)))
         \/ (E.e = "del" /\ Step(ADel(E.k)))
         \/ (E.e = "ret" /\ E.res = "ok" /\ Step(ARetOk \/ AReopenOk))
         \/ (E.e = "ret" /\ E.res = "keyerror" /\ Step(ARetKeyError))
         \/ (E.e = "crash" /\ Step(ACrash))
         \/ (E.e = "reopen" /\ Step(AReopen))
         \/ (E.e = "view" /\ E.res = "ok" /\ Len(E.kv) = Cardinality(Range(E.kv))
                          /\ Step(AView(Range(E.kv))))
         \/ (E.e \in {"fs", "ls"} /\ Step(Skip))

TSpec == TInit /\ [][l <= Len(T.ev) /\ TNext]_<<absvars, tid, l>>

Progress == TLCSet(tid, IF TLCGet(tid) > l THEN TLCGet(tid) ELSE l)
Rejected == {<<t, TLCGet(t)>> : t \in {u \in 1..Len(Traces) : TLCGet(u) # Len(Traces[u].ev) + 1}}
Accepted == Rejected = {} \/ (PrintT(<<"REJECTED", Rejected>>) /\ FALSE)
=============================================================================
