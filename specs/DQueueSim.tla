------------------------------ MODULE DQueueSim ------------------------------
(* Behaviour generator (spec -> code): DQueue plus a history variable recording the
   predicted observable of every step; printed as JSON once a behaviour reaches Depth.
   Run with `tlc -simulate`; the harness replays each behaviour on the real object. *)
EXTENDS DQueue, TLC, Json
CONSTANT Depth
VARIABLE hist
Lims == {None, 0, 1, 2}
SInit == /\ \E s \in Lims, b \in Lims : InitWith([size |-> s, backlog |-> b])
         /\ hist = <<>>
SNext == Next /\ hist' = Append(hist, last')
SSpec == SInit /\ [][SNext]_<<vars, hist>>
Emit == TLCGet("level") < Depth \/ PrintT(<<"BEH", ToJson([cfg |-> cfg, hist |-> hist])>>)
Stop == TLCGet("level") <= Depth
=============================================================================
