------------------------------ MODULE FramingSim ------------------------------
(* Behaviour generator (spec -> code) for C16: FramingMC plus a history of the predicted observable
   of every call (printed from level 5 on: many streams end early); replayed on the real receivers.                              *)
EXTENDS FramingMC, Json
CONSTANT Depth
VARIABLE hist
SInit == MCInit /\ hist = <<>>
SNext == MCNext /\ hist' = IF last'.e = "extend" THEN hist ELSE Append(hist, last')
SSpec == SInit /\ [][SNext]_<<mcvars, hist>>
Emit == TLCGet("level") < 5 \/ PrintT(<<"BEH", ToJson([cfg |-> cfg, str |-> str, hist |-> hist])>>)
Stop == TLCGet("level") <= Depth
=============================================================================
