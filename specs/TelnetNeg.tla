------------------------------ MODULE TelnetNeg ------------------------------
(* C39 -- telnet option negotiation as coded in twisted/conch/telnet.py (class Telnet).

   Two endpoints (1, 2) joined by two FIFO channels.  Per endpoint e and option o
   the code keeps two perspectives, us[e][o] and him[e][o], each
       [st : "no"|"yes",  neg : negotiating flag,  d : id of onResult Deferred, 0 = None].
   One action per outcome of the four public requests will/wont/do/dont and one
   action per handler of willMap / wontMap / doMap / dontMap (16 handlers,
   transcribed statement by statement, including what happens when onResult is
   None or an assertion fails: the exception escapes dataReceived AFTER the
   assignments that precede it).

   Every action produces the observable event `last` (same record the harness logs
   from the real objects) and feeds it to the property observer of TelnetNegObs;
   the property is NoViol (plus the temporal properties in TelnetNegMC).

   Re-entrancy: the callback of a request Deferred may synchronously issue a follow-up request
   (any kind, any option, same endpoint).  In the code that call happens inside the handler, after
   the assignments that precede d.callback()/d.errback() and before the statements that follow it
   (enableLocal/disableRemote/assert: no effect on the option state).  Here the handler step sets
   reent = <<e, k, o>> and the only step possible next is that request (event field re = TRUE).

   cfg = [nopt, accL, accR, maxreq, reent]: accL[e][o] / accR[e][o] = result of the
   application's enableLocal / enableRemote; a side only issues will(o) if it
   accepts o locally and do(o) if it accepts o remotely ("policies accept the
   options they themselves request").                                         *)
EXTENDS TelnetNegObs

VARIABLES cfg, us, him, obs, last,
          reent   \* <<>>, or <<e, k, o>>: the callback of a Deferred that has just fired on e is about to call k(o)
vars == <<cfg, us, him, obs, last, reent>>

E2 == {1, 2}
Opts == 1..cfg.nopt
P0 == [st |-> "no", neg |-> FALSE, d |-> 0]

InitWith(c) ==
    /\ cfg = c
    /\ us = [e \in E2 |-> [o \in 1..c.nopt |-> P0]]
    /\ him = [e \in E2 |-> [o \in 1..c.nopt |-> P0]]
    /\ obs = ObsInit
    /\ last = [e |-> "init"]
    /\ reent = <<>>

Emit(ev) == /\ last' = ev
            /\ obs' = Observe(obs, cfg, ev)

-----------------------------------------------------------------------------
(* The four public requests.  id = number of this call's Deferred. *)
NextId == Len(obs.status) + 1
ReqEv(e, k, o, sent, fired) ==
    [e |-> "req", p |-> e, k |-> k, o |-> o, id |-> NextId, sent |-> sent, fired |-> fired, exc |-> "", re |-> reent # <<>>]
Busy(e, o) == us[e][o].neg \/ him[e][o].neg
CanReq(e, k, o) == /\ e \in E2 /\ o \in Opts /\ NextId <= cfg.maxreq
                   /\ (reent = <<>> \/ reent = <<e, k, o>>)
                   /\ reent' = <<>>

ReqFail(e, k, o, why) == Emit(ReqEv(e, k, o, <<>>, << <<NextId, why>> >>)) /\ UNCHANGED <<cfg, us, him>>

WillBusy(e, o) == CanReq(e, "will", o) /\ cfg.accL[e][o] /\ Busy(e, o) /\ ReqFail(e, "will", o, "AlreadyNegotiating")
WillAlready(e, o) == CanReq(e, "will", o) /\ cfg.accL[e][o] /\ ~Busy(e, o) /\ us[e][o].st = "yes"
                     /\ ReqFail(e, "will", o, "AlreadyEnabled")
WillSend(e, o) == /\ CanReq(e, "will", o) /\ cfg.accL[e][o] /\ ~Busy(e, o) /\ us[e][o].st = "no"
                  /\ us' = [us EXCEPT ![e][o].neg = TRUE, ![e][o].d = NextId]
                  /\ Emit(ReqEv(e, "will", o, << <<"WILL", o>> >>, <<>>))
                  /\ UNCHANGED <<cfg, him>>

WontBusy(e, o) == CanReq(e, "wont", o) /\ Busy(e, o) /\ ReqFail(e, "wont", o, "AlreadyNegotiating")
WontAlready(e, o) == CanReq(e, "wont", o) /\ ~Busy(e, o) /\ us[e][o].st = "no" /\ ReqFail(e, "wont", o, "AlreadyDisabled")
WontSend(e, o) == /\ CanReq(e, "wont", o) /\ ~Busy(e, o) /\ us[e][o].st = "yes"
                  /\ us' = [us EXCEPT ![e][o].neg = TRUE, ![e][o].d = NextId]
                  /\ Emit(ReqEv(e, "wont", o, << <<"WONT", o>> >>, <<>>))
                  /\ UNCHANGED <<cfg, him>>

DoBusy(e, o) == CanReq(e, "do", o) /\ cfg.accR[e][o] /\ Busy(e, o) /\ ReqFail(e, "do", o, "AlreadyNegotiating")
DoAlready(e, o) == CanReq(e, "do", o) /\ cfg.accR[e][o] /\ ~Busy(e, o) /\ him[e][o].st = "yes"
                   /\ ReqFail(e, "do", o, "AlreadyEnabled")
DoSend(e, o) == /\ CanReq(e, "do", o) /\ cfg.accR[e][o] /\ ~Busy(e, o) /\ him[e][o].st = "no"
                /\ him' = [him EXCEPT ![e][o].neg = TRUE, ![e][o].d = NextId]
                /\ Emit(ReqEv(e, "do", o, << <<"DO", o>> >>, <<>>))
                /\ UNCHANGED <<cfg, us>>

DontBusy(e, o) == CanReq(e, "dont", o) /\ Busy(e, o) /\ ReqFail(e, "dont", o, "AlreadyNegotiating")
DontAlready(e, o) == CanReq(e, "dont", o) /\ ~Busy(e, o) /\ him[e][o].st = "no" /\ ReqFail(e, "dont", o, "AlreadyDisabled")
DontSend(e, o) == /\ CanReq(e, "dont", o) /\ ~Busy(e, o) /\ him[e][o].st = "yes"
                  /\ him' = [him EXCEPT ![e][o].neg = TRUE, ![e][o].d = NextId]
                  /\ Emit(ReqEv(e, "dont", o, << <<"DONT", o>> >>, <<>>))
                  /\ UNCHANGED <<cfg, us>>

Req(e, k, o) ==
    \/ (k = "will" /\ (WillBusy(e, o) \/ WillAlready(e, o) \/ WillSend(e, o)))
    \/ (k = "wont" /\ (WontBusy(e, o) \/ WontAlready(e, o) \/ WontSend(e, o)))
    \/ (k = "do" /\ (DoBusy(e, o) \/ DoAlready(e, o) \/ DoSend(e, o)))
    \/ (k = "dont" /\ (DontBusy(e, o) \/ DontAlready(e, o) \/ DontSend(e, o)))

-----------------------------------------------------------------------------
(* Delivery of the oldest message in flight to e: telnet_WILL/WONT/DO/DONT look the
   handler up by (state, negotiating) of the perspective the command talks about. *)
HeadMsg(e) == Head(obs.chan[e])
Has(e, c) == reent = <<>> /\ e \in E2 /\ obs.chan[e] # <<>> /\ HeadMsg(e)[1] = c /\ HeadMsg(e)[2] \in Opts
(* what the callback of the Deferred d fired on e does next: nothing, or one follow-up request *)
Allowed(e, k, o) == (k = "will" => cfg.accL[e][o]) /\ (k = "do" => cfg.accR[e][o])
FollowUps(e) == {<<e, k, o>> : k \in {"will", "wont", "do", "dont"}, o \in Opts}
Follow(e, d) == IF d = 0 \/ ~cfg.reent \/ NextId > cfg.maxreq THEN reent' = <<>>
                ELSE reent' \in {<<>>} \cup {f \in FollowUps(e) : Allowed(e, f[2], f[3])}
RecvEv(e, sent, fired, exc) ==
    [e |-> "recv", p |-> e, m |-> HeadMsg(e), sent |-> sent, fired |-> fired, exc |-> exc]
One(c, o) == << <<c, o>> >>
\* d.callback(v) / d.errback(v) where d = onResult; d = 0 is None -> AttributeError, nothing fires
FireOf(d, v) == IF d = 0 THEN <<>> ELSE << <<d, v>> >>
NoneExc(d) == IF d = 0 THEN "AttributeError" ELSE ""
HimIs(e, o, st, neg) == him[e][o].st = st /\ him[e][o].neg = neg
UsIs(e, o, st, neg) == us[e][o].st = st /\ us[e][o].neg = neg

\* ---- WILL: about him
WillNoFalse(e) == /\ Has(e, "WILL")
    /\ LET o == HeadMsg(e)[2] IN
       /\ HimIs(e, o, "no", FALSE)
       /\ IF cfg.accR[e][o]
          THEN him' = [him EXCEPT ![e][o].st = "yes"] /\ Emit(RecvEv(e, One("DO", o), <<>>, ""))
          ELSE UNCHANGED him /\ Emit(RecvEv(e, One("DONT", o), <<>>, ""))
    /\ UNCHANGED <<cfg, us, reent>>
WillNoTrue(e) == /\ Has(e, "WILL")
    /\ LET o == HeadMsg(e)[2]  d == him[e][o].d IN
       /\ HimIs(e, o, "no", TRUE)
       /\ him' = [him EXCEPT ![e][o] = [st |-> "yes", neg |-> FALSE, d |-> 0]]
       /\ Emit(RecvEv(e, <<>>, FireOf(d, "True"),
                      IF d = 0 THEN "AttributeError" ELSE IF cfg.accR[e][o] THEN "" ELSE "AssertionError"))
    /\ UNCHANGED <<cfg, us>>
    /\ Follow(e, him[e][HeadMsg(e)[2]].d)
WillYesFalse(e) == /\ Has(e, "WILL")
    /\ HimIs(e, HeadMsg(e)[2], "yes", FALSE)
    /\ Emit(RecvEv(e, <<>>, <<>>, ""))
    /\ UNCHANGED <<cfg, us, him, reent>>
WillYesTrue(e) == /\ Has(e, "WILL")            \* "can never be entered": assert False
    /\ HimIs(e, HeadMsg(e)[2], "yes", TRUE)
    /\ Emit(RecvEv(e, <<>>, <<>>, "AssertionError"))
    /\ UNCHANGED <<cfg, us, him, reent>>

\* ---- WONT: about him
WontNoFalse(e) == /\ Has(e, "WONT")
    /\ HimIs(e, HeadMsg(e)[2], "no", FALSE)
    /\ Emit(RecvEv(e, <<>>, <<>>, ""))
    /\ UNCHANGED <<cfg, us, him, reent>>
WontNoTrue(e) == /\ Has(e, "WONT")
    /\ LET o == HeadMsg(e)[2]  d == him[e][o].d IN
       /\ HimIs(e, o, "no", TRUE)
       /\ him' = [him EXCEPT ![e][o] = [st |-> "no", neg |-> FALSE, d |-> 0]]
       /\ Emit(RecvEv(e, <<>>, FireOf(d, "OptionRefused"), NoneExc(d)))
    /\ UNCHANGED <<cfg, us>>
    /\ Follow(e, him[e][HeadMsg(e)[2]].d)
WontYesFalse(e) == /\ Has(e, "WONT")
    /\ LET o == HeadMsg(e)[2] IN
       /\ HimIs(e, o, "yes", FALSE)
       /\ him' = [him EXCEPT ![e][o].st = "no"]
       /\ Emit(RecvEv(e, One("DONT", o), <<>>, ""))
    /\ UNCHANGED <<cfg, us, reent>>
WontYesTrue(e) == /\ Has(e, "WONT")
    /\ LET o == HeadMsg(e)[2]  d == him[e][o].d IN
       /\ HimIs(e, o, "yes", TRUE)
       /\ him' = [him EXCEPT ![e][o] = [st |-> "no", neg |-> FALSE, d |-> 0]]
       /\ Emit(RecvEv(e, <<>>, FireOf(d, "True"), NoneExc(d)))
    /\ UNCHANGED <<cfg, us>>
    /\ Follow(e, him[e][HeadMsg(e)[2]].d)

\* ---- DO: about us
DoNoFalse(e) == /\ Has(e, "DO")
    /\ LET o == HeadMsg(e)[2] IN
       /\ UsIs(e, o, "no", FALSE)
       /\ IF cfg.accL[e][o]
          THEN us' = [us EXCEPT ![e][o].st = "yes"] /\ Emit(RecvEv(e, One("WILL", o), <<>>, ""))
          ELSE UNCHANGED us /\ Emit(RecvEv(e, One("WONT", o), <<>>, ""))
    /\ UNCHANGED <<cfg, him, reent>>
DoNoTrue(e) == /\ Has(e, "DO")
    /\ LET o == HeadMsg(e)[2]  d == us[e][o].d IN
       /\ UsIs(e, o, "no", TRUE)
       /\ us' = [us EXCEPT ![e][o] = [st |-> "yes", neg |-> FALSE, d |-> 0]]
       /\ Emit(RecvEv(e, <<>>, FireOf(d, "True"), NoneExc(d)))
    /\ UNCHANGED <<cfg, him>>
    /\ Follow(e, us[e][HeadMsg(e)[2]].d)
DoYesFalse(e) == /\ Has(e, "DO")
    /\ UsIs(e, HeadMsg(e)[2], "yes", FALSE)
    /\ Emit(RecvEv(e, <<>>, <<>>, ""))
    /\ UNCHANGED <<cfg, us, him, reent>>
DoYesTrue(e) == /\ Has(e, "DO")                \* "can never be entered": assert False
    /\ UsIs(e, HeadMsg(e)[2], "yes", TRUE)
    /\ Emit(RecvEv(e, <<>>, <<>>, "AssertionError"))
    /\ UNCHANGED <<cfg, us, him, reent>>

\* ---- DONT: about us
DontNoFalse(e) == /\ Has(e, "DONT")
    /\ UsIs(e, HeadMsg(e)[2], "no", FALSE)
    /\ Emit(RecvEv(e, <<>>, <<>>, ""))
    /\ UNCHANGED <<cfg, us, him, reent>>
DontNoTrue(e) == /\ Has(e, "DONT")
    /\ LET o == HeadMsg(e)[2]  d == us[e][o].d IN
       /\ UsIs(e, o, "no", TRUE)
       /\ us' = [us EXCEPT ![e][o] = [st |-> "no", neg |-> FALSE, d |-> 0]]
       /\ Emit(RecvEv(e, <<>>, FireOf(d, "OptionRefused"), NoneExc(d)))
    /\ UNCHANGED <<cfg, him>>
    /\ Follow(e, us[e][HeadMsg(e)[2]].d)
DontYesFalse(e) == /\ Has(e, "DONT")
    /\ LET o == HeadMsg(e)[2] IN
       /\ UsIs(e, o, "yes", FALSE)
       /\ us' = [us EXCEPT ![e][o].st = "no"]
       /\ Emit(RecvEv(e, One("WONT", o), <<>>, ""))
    /\ UNCHANGED <<cfg, him, reent>>
DontYesTrue(e) == /\ Has(e, "DONT")
    /\ LET o == HeadMsg(e)[2]  d == us[e][o].d IN
       /\ UsIs(e, o, "yes", TRUE)
       /\ us' = [us EXCEPT ![e][o] = [st |-> "no", neg |-> FALSE, d |-> 0]]
       /\ Emit(RecvEv(e, <<>>, FireOf(d, "True"), NoneExc(d)))
    /\ UNCHANGED <<cfg, him>>
    /\ Follow(e, us[e][HeadMsg(e)[2]].d)

Recv(e) == \/ WillNoFalse(e) \/ WillNoTrue(e) \/ WillYesFalse(e) \/ WillYesTrue(e)
           \/ WontNoFalse(e) \/ WontNoTrue(e) \/ WontYesFalse(e) \/ WontYesTrue(e)
           \/ DoNoFalse(e) \/ DoNoTrue(e) \/ DoYesFalse(e) \/ DoYesTrue(e)
           \/ DontNoFalse(e) \/ DontNoTrue(e) \/ DontYesFalse(e) \/ DontYesTrue(e)

(* Nothing in flight: the two sides' views of every option are compared. *)
Quiescent == obs.chan[1] = <<>> /\ obs.chan[2] = <<>>
StView == [e \in E2 |-> [o \in Opts |-> <<us[e][o].st = "yes", him[e][o].st = "yes">>]]
Quiet == /\ Quiescent /\ reent = <<>>
         /\ Emit([e |-> "quiet", st |-> StView])
         /\ UNCHANGED <<cfg, us, him, reent>>

Kinds == {"will", "wont", "do", "dont"}
Next == \/ \E e \in E2, o \in Opts : WillBusy(e, o)
        \/ \E e \in E2, o \in Opts : WillAlready(e, o)
        \/ \E e \in E2, o \in Opts : WillSend(e, o)
        \/ \E e \in E2, o \in Opts : WontBusy(e, o)
        \/ \E e \in E2, o \in Opts : WontAlready(e, o)
        \/ \E e \in E2, o \in Opts : WontSend(e, o)
        \/ \E e \in E2, o \in Opts : DoBusy(e, o)
        \/ \E e \in E2, o \in Opts : DoAlready(e, o)
        \/ \E e \in E2, o \in Opts : DoSend(e, o)
        \/ \E e \in E2, o \in Opts : DontBusy(e, o)
        \/ \E e \in E2, o \in Opts : DontAlready(e, o)
        \/ \E e \in E2, o \in Opts : DontSend(e, o)
        \/ \E e \in E2 : WillNoFalse(e)
        \/ \E e \in E2 : WillNoTrue(e)
        \/ \E e \in E2 : WillYesFalse(e)
        \/ \E e \in E2 : WillYesTrue(e)
        \/ \E e \in E2 : WontNoFalse(e)
        \/ \E e \in E2 : WontNoTrue(e)
        \/ \E e \in E2 : WontYesFalse(e)
        \/ \E e \in E2 : WontYesTrue(e)
        \/ \E e \in E2 : DoNoFalse(e)
        \/ \E e \in E2 : DoNoTrue(e)
        \/ \E e \in E2 : DoYesFalse(e)
        \/ \E e \in E2 : DoYesTrue(e)
        \/ \E e \in E2 : DontNoFalse(e)
        \/ \E e \in E2 : DontNoTrue(e)
        \/ \E e \in E2 : DontYesFalse(e)
        \/ \E e \in E2 : DontYesTrue(e)
        \/ Quiet

-----------------------------------------------------------------------------
(* The property. *)
NoViol == obs.viol = {}                     \* every clause of TelnetNegObs, at every step
(* the same clauses stated directly on the state (not only when a quiet event is taken) *)
AgreeWhenQuiet == Quiescent =>
    \A o \in Opts : /\ us[1][o].st = him[2][o].st /\ him[1][o].st = us[2][o].st
                    /\ us[2][o].st = him[1][o].st /\ him[2][o].st = us[1][o].st
AllFiredWhenQuiet == Quiescent => Pending(obs) = {}
NoException == last.e \in {"req", "recv"} => last.exc = ""     \* incl. the two "can never be entered" handlers
(* no message loops, quantitatively: a request causes at most its own message and one reply *)
MsgBound == obs.msgs <= 2 * Len(obs.status)
(* bookkeeping of the code: negotiating <=> an unfired onResult Deferred is stored *)
FlagsConsistent == \A e \in E2, o \in Opts :
    /\ us[e][o].neg = (us[e][o].d # 0) /\ him[e][o].neg = (him[e][o].d # 0)
    /\ us[e][o].d # 0 => us[e][o].d \in Pending(obs)
    /\ him[e][o].d # 0 => him[e][o].d \in Pending(obs)

Inv == NoViol /\ AgreeWhenQuiet /\ AllFiredWhenQuiet /\ NoException /\ MsgBound /\ FlagsConsistent
=============================================================================
