------------------------------- MODULE LockSem -------------------------------
(* C06 -- twisted.internet.defer.DeferredLock / DeferredSemaphore (Abs layer).

   State = what the property talks about: who holds capacity, who waits (in
   request order), which acquisitions were cancelled, which run() functions have
   their result, how often each acquisition gave capacity back.

   Acquisitions are numbered 1, 2, ... in request order; acquire() and run(f)
   both create one.  kinds[a] says what a is:
       "Plain"      acquire(); released by an explicit release() of the holder
       "SyncOk"     run(f), f returns a plain value
       "SyncRaise"  run(f), f raises
       "Async"      run(f), f returns a Deferred that the environment fires later
   One action per public call outcome (big step: everything the call causes
   before it returns, in particular the grants handed to waiters).
   cfg is a VARIABLE: [limit |-> 1..n, lock |-> BOOLEAN] (a lock has limit 1).  *)
EXTENDS Naturals, Sequences, FiniteSets

VARIABLES cfg,
          kinds,      \* sequence: kind of acquisition a
          waitq,      \* sequence of pending acquisition ids, oldest first
          holders,    \* set of acquisition ids currently holding one unit of capacity
          cancelled,  \* set of acquisition ids cancelled while pending
          grants,     \* sequence of acquisition ids in the order they were granted
          relcount,   \* sequence: how many times acquisition a gave its unit back
          resavail,   \* set of run() acquisitions whose function result is available
          last        \* observable outcome of the last call

vars == <<cfg, kinds, waitq, holders, cancelled, grants, relcount, resavail, last>>

RunKinds  == {"SyncOk", "SyncRaise", "Async"}
SyncKinds == {"SyncOk", "SyncRaise"}
Kinds     == {"Plain"} \cup RunKinds
Range(s)  == {s[i] : i \in 1..Len(s)}
InSeq(x, s) == \E i \in 1..Len(s) : s[i] = x
Remove(x, s) == SelectSeq(s, LAMBDA y : y # x)
SyncOutcome(k) == IF k = "SyncOk" THEN "OK" ELSE "ERR:Boom"
NAcq == Len(kinds)

InitWith(c) ==
    /\ cfg = c
    /\ kinds = <<>> /\ waitq = <<>> /\ holders = {} /\ cancelled = {}
    /\ grants = <<>> /\ relcount = <<>> /\ resavail = {}
    /\ last = [e |-> "init"]

(* What happens when capacity may have become free: the oldest waiter is granted
   while a unit is free.  A run() whose function completes synchronously has its
   result at once, gives the unit back at once, and the next waiter is served.
   Result: remaining holders/queue, the grants in order, the run results that
   became available, the runs that released. *)
RECURSIVE Casc(_, _, _, _, _)
Casc(hs, wq, gr, rr, rel) ==
    IF wq = <<>> \/ Cardinality(hs) >= cfg.limit
    THEN [hs |-> hs, wq |-> wq, gr |-> gr, rr |-> rr, rel |-> rel]
    ELSE LET a == Head(wq) IN
         IF kinds[a] \in SyncKinds
         THEN Casc(hs, Tail(wq), Append(gr, a), rr \cup {<<a, SyncOutcome(kinds[a])>>}, rel \cup {a})
         ELSE Casc(hs \cup {a}, Tail(wq), Append(gr, a), rr, rel)

Bump(S) == [i \in 1..Len(relcount) |-> IF i \in S THEN relcount[i] + 1 ELSE relcount[i]]

Obs(e, a, k, oc, gr, rr, nh) ==
    [e |-> e, a |-> a, k |-> k, oc |-> oc, exc |-> "none", gr |-> gr, rr |-> rr, nh |-> nh]
EvName(k) == IF k = "Plain" THEN "acquire" ELSE "run"

Free == Cardinality(holders) < cfg.limit /\ waitq = <<>>

(* acquire() / run(f) while capacity is free: granted before the call returns. *)
AcqGrant(k) ==
    LET a == NAcq + 1 IN
    /\ Free
    /\ kinds' = Append(kinds, k)
    /\ grants' = Append(grants, a)
    /\ IF k \in SyncKinds
       THEN /\ holders' = holders
            /\ relcount' = Append(relcount, 1)
            /\ resavail' = resavail \cup {a}
            /\ last' = Obs(EvName(k), a, k, "", <<a>>, {<<a, SyncOutcome(k)>>}, Cardinality(holders))
       ELSE /\ holders' = holders \cup {a}
            /\ relcount' = Append(relcount, 0)
            /\ resavail' = resavail
            /\ last' = Obs(EvName(k), a, k, "", <<a>>, {}, Cardinality(holders) + 1)
    /\ UNCHANGED <<cfg, waitq, cancelled>>

(* acquire() / run(f) while no capacity is free: queued behind the earlier requests. *)
AcqWait(k) ==
    LET a == NAcq + 1 IN
    /\ ~Free
    /\ kinds' = Append(kinds, k)
    /\ waitq' = Append(waitq, a)
    /\ relcount' = Append(relcount, 0)
    /\ last' = Obs(EvName(k), a, k, "", <<>>, {}, Cardinality(holders))
    /\ UNCHANGED <<cfg, holders, cancelled, grants, resavail>>

(* The unit held by `h` comes back (S = runs whose result became available now,
   rr0 = their results); waiters are served. *)
GiveBack(h, e, oc, rr0, S) ==
    LET c == Casc(holders \ {h}, waitq, <<>>, rr0, S \cup {h}) IN
    /\ holders' = c.hs
    /\ waitq' = c.wq
    /\ grants' = grants \o c.gr
    /\ relcount' = Bump(c.rel)
    /\ resavail' = resavail \cup (c.rel \ {x \in {h} : kinds[h] = "Plain"})
    /\ last' = Obs(e, h, "", oc, c.gr, c.rr, Cardinality(c.hs))
    /\ UNCHANGED <<cfg, kinds, cancelled>>

(* release() by the holder h of a plain acquisition. *)
Release(h) ==
    /\ h \in holders /\ kinds[h] = "Plain"
    /\ GiveBack(h, "release", "", {}, {})

(* The Deferred returned by the function of run r fires: the result of run r is
   that outcome, and r releases -- now, not earlier and not twice. *)
FireInner(r, oc) ==
    /\ r \in holders /\ kinds[r] = "Async"
    /\ oc \in {"OK", "ERR:Boom"}
    /\ GiveBack(r, "fire", oc, {<<r, oc>>}, {})

(* cancel() of the Deferred of a pending acquisition / pending run: withdrawn;
   it fails with CancelledError, is never granted, takes no capacity. *)
CancelPending(a) ==
    /\ InSeq(a, waitq)
    /\ waitq' = Remove(a, waitq)
    /\ cancelled' = cancelled \cup {a}
    /\ last' = Obs("cancel", a, "", "", <<>>, {<<a, "ERR:CancelledError">>}, Cardinality(holders))
    /\ UNCHANGED <<cfg, kinds, holders, grants, relcount, resavail>>

(* cancel() of the Deferred of a run whose function's Deferred has not fired:
   the cancellation reaches that Deferred, which thereby gets its (failure) result. *)
CancelRunning(r) ==
    /\ r \in holders /\ kinds[r] = "Async"
    /\ GiveBack(r, "cancel", "", {<<r, "ERR:CancelledError">>}, {})

(* cancel() of an acquisition that was already granted (plain holder, finished
   run), or was already cancelled: nothing changes; a holder keeps its unit. *)
CancelNoop(a) ==
    /\ a \in 1..NAcq /\ ~InSeq(a, waitq) /\ ~(a \in holders /\ kinds[a] = "Async")
    /\ last' = Obs("cancel", a, "", "", <<>>, {}, Cardinality(holders))
    /\ UNCHANGED <<cfg, kinds, waitq, holders, cancelled, grants, relcount, resavail>>

Next == \/ \E k \in Kinds : AcqGrant(k)
        \/ \E k \in Kinds : AcqWait(k)
        \/ \E h \in holders : Release(h)
        \/ \E r \in holders : \E oc \in {"OK", "ERR:Boom"} : FireInner(r, oc)
        \/ \E a \in 1..NAcq : CancelPending(a)
        \/ \E r \in holders : CancelRunning(r)
        \/ \E a \in 1..NAcq : CancelNoop(a)

-----------------------------------------------------------------------------
(* The property. *)
Granted == Range(grants)
Runs    == {a \in 1..NAcq : kinds[a] \in RunKinds}

Safe ==            \* the number of holders never exceeds the limit
    Cardinality(holders) <= cfg.limit
NoIdleWaiter ==    \* a pending acquisition is granted as soon as capacity is free
    waitq # <<>> => Cardinality(holders) = cfg.limit
Fifo ==            \* ... in request order
    /\ \A i, j \in 1..Len(grants) : i < j => grants[i] < grants[j]
    /\ \A i, j \in 1..Len(waitq) : i < j => waitq[i] < waitq[j]
    /\ \A g \in Granted : \A w \in Range(waitq) : g < w
NoCancelledGrant == \* a cancelled pending acquisition is never granted, takes no capacity
    /\ cancelled \cap Granted = {}
    /\ cancelled \cap holders = {}
    /\ cancelled \cap Range(waitq) = {}
Accounting ==      \* no capacity is lost or invented
    /\ holders = {a \in Granted : relcount[a] = 0}
    /\ \A a \in 1..NAcq : relcount[a] <= 1 /\ (relcount[a] = 1 => a \in Granted)
    /\ Granted \cup Range(waitq) \cup cancelled = 1..NAcq
    /\ Granted \cap Range(waitq) = {}
RunReleaseOnce ==  \* run() releases exactly once, after its function's result is available
    /\ resavail \subseteq Runs \cap Granted
    /\ \A r \in Runs : relcount[r] = (IF r \in resavail THEN 1 ELSE 0)
    /\ \A r \in Runs \cap Granted : (r \in resavail) = (r \notin holders)

Inv == Safe /\ NoIdleWaiter /\ Fifo /\ NoCancelledGrant /\ Accounting /\ RunReleaseOnce
=============================================================================
