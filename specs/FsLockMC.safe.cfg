SPECIFICATION Spec
CONSTANT Configs <- ConfigsSafe2
VIEW View
INVARIANT MutualExclusion
INVARIANT CanRelease
CHECK_DEADLOCK FALSE
