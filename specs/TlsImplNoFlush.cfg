SPECIFICATION Spec
CONSTANT MaxWrites = 2
CONSTANT Variant = "noflush"
VIEW View
INVARIANT OutInOrder
INVARIANT NothingAfterLose
INVARIANT CloseAfterData
INVARIANT ClosesWhenDone
INVARIANT AtMostOneClose
CHECK_DEADLOCK FALSE
