------------------------------ MODULE DirDbmImpl ------------------------------
(* C51, Impl layer: the algorithm of twisted/persisted/dirdbm.py as coded, over
   the file-system model FsModel, one action per file-system call.

     d[k] = v   k present:  open k.rpl (create/truncate), write v, remove k, rename k.rpl -> k
                k absent :  open k.new,                  write v,           rename k.new -> k
     del d[k]   remove k                      (OSError -> KeyError)
     DirDBM(p)  for f in glob "*.new": remove f
                for f in glob "*.rpl": remove f if its key file exists else rename f -> key file

   Every Impl action that is a public-call boundary is the corresponding Abs action
   of DirDbm conjoined with the program-counter bookkeeping, so a behaviour of this
   module projected on the Abs variables is a behaviour of DirDbm.  `Crash` is enabled
   between any two file-system calls, inside the write (classes none / part / all)
   and inside recovery.  TLC checks IdleOk: whenever the database is open and idle,
   the view computed from the directory is allowed by the property.               *)
EXTENDS DirDbm, FsModel

VARIABLES dir,     \* FsModel directory; names are <<key, ext>>, ext \in {"", "new", "rpl"}
          pc,      \* program counter
          ext,     \* "new" / "rpl": the temporary suffix chosen by the running set
          todoN,   \* recovery: *.new names still to remove
          todoR    \* recovery: *.rpl names still to process

implvars == <<dir, pc, ext, todoN, todoR>>
vars == <<cfg, db, infl, mode, nop, ncr, nre, ok, last, dir, pc, ext, todoN, todoR>>

ImplInitWith(c) ==
    /\ InitWith(c)
    /\ dir = FsEmptyDir /\ pc = "idle" /\ ext = "" /\ todoN = {} /\ todoR = {}

Plain(k) == <<k, "">>
Fs(op, a, b, v, cls, good) == [e |-> "fs", op |-> op, a |-> a, b |-> b, v |-> v, cls |-> cls, ok |-> good]

(* how the harness classifies the bytes of a file: the id of the value they are
   exactly, else 0/"part".  The empty file is the empty value, if the history has one. *)
ContV(c)   == IF c = <<>> THEN cfg.ve ELSE IF c[1][2] = "all" THEN c[1][1] ELSE 0
ContCls(c) == IF c = <<>> THEN (IF cfg.ve # 0 THEN "all" ELSE "part") ELSE c[1][2]
DirKv(d)   == {<<n[1], n[2], ContV(d[n]), ContCls(d[n])>> : n \in DOMAIN d}

K == infl[1].k
V == infl[1].v
Tmp == <<K, ext>>

(* ---- d[k] = v ---- *)
ISet(k, v) ==
    /\ pc = "idle" /\ ASet(k, v)
    /\ ext' = IF FsExists(dir, Plain(k)) THEN "rpl" ELSE "new"
    /\ pc' = "s_open"
    /\ UNCHANGED <<dir, todoN, todoR>>

SOpen ==
    /\ pc = "s_open"
    /\ dir' = FsCreate(dir, Tmp)
    /\ pc' = IF V = cfg.ve THEN "s_rm" ELSE "s_write"     \* writing b"" issues no write call
    /\ last' = Fs("open", Tmp, Tmp, 0, "", TRUE)
    /\ UNCHANGED <<cfg, db, infl, mode, nop, ncr, nre, ok, ext, todoN, todoR>>

SWrite(cls) ==
    /\ pc = "s_write"
    /\ dir' = FsWrite(dir, Tmp, V, cls)
    /\ pc' = IF cls = "all" THEN "s_rm" ELSE "torn"       \* a torn write is followed by the crash only
    /\ last' = Fs("write", Tmp, Tmp, V, cls, TRUE)
    /\ UNCHANGED <<cfg, db, infl, mode, nop, ncr, nre, ok, ext, todoN, todoR>>

SRemove ==
    /\ pc = "s_rm" /\ FsExists(dir, Plain(K))
    /\ dir' = FsRemove(dir, Plain(K))
    /\ pc' = "s_ren"
    /\ last' = Fs("remove", Plain(K), Plain(K), 0, "", TRUE)
    /\ UNCHANGED <<cfg, db, infl, mode, nop, ncr, nre, ok, ext, todoN, todoR>>

SRename ==
    /\ pc = "s_ren" \/ (pc = "s_rm" /\ ~FsExists(dir, Plain(K)))
    /\ dir' = FsRename(dir, Tmp, Plain(K))
    /\ pc' = "s_ret"
    /\ last' = Fs("rename", Tmp, Plain(K), 0, "", TRUE)
    /\ UNCHANGED <<cfg, db, infl, mode, nop, ncr, nre, ok, ext, todoN, todoR>>

SRet == pc = "s_ret" /\ ARetOk /\ pc' = "idle" /\ UNCHANGED <<dir, ext, todoN, todoR>>

(* ---- del d[k] ---- *)
IDel(k) == pc = "idle" /\ ADel(k) /\ pc' = "d_rm" /\ UNCHANGED <<dir, ext, todoN, todoR>>

DRemove ==
    /\ pc = "d_rm" /\ FsExists(dir, Plain(K))
    /\ dir' = FsRemove(dir, Plain(K))
    /\ pc' = "d_ret"
    /\ last' = Fs("remove", Plain(K), Plain(K), 0, "", TRUE)
    /\ UNCHANGED <<cfg, db, infl, mode, nop, ncr, nre, ok, ext, todoN, todoR>>

DRemoveFail ==
    /\ pc = "d_rm" /\ ~FsExists(dir, Plain(K))
    /\ pc' = "d_err"
    /\ last' = Fs("remove", Plain(K), Plain(K), 0, "", FALSE)
    /\ UNCHANGED <<cfg, db, infl, mode, nop, ncr, nre, ok, dir, ext, todoN, todoR>>

DRet    == pc = "d_ret" /\ ARetOk /\ pc' = "idle" /\ UNCHANGED <<dir, ext, todoN, todoR>>
DRetErr == pc = "d_err" /\ ARetKeyError /\ pc' = "idle" /\ UNCHANGED <<dir, ext, todoN, todoR>>

(* ---- crash: anywhere inside a call ---- *)
ICrash ==
    /\ pc \notin {"idle", "down"} /\ ACrash
    /\ pc' = "down"
    /\ UNCHANGED <<dir, ext, todoN, todoR>>

(* ---- DirDBM(path): recovery ---- *)
IsNew(n) == n[2] = "new"
IsRpl(n) == n[2] = "rpl"
IReopen ==
    /\ pc \in {"idle", "down"} /\ AReopen
    /\ pc' = "rec"
    /\ todoN' = FsGlob(dir, IsNew)
    /\ todoR' = FsGlob(dir, IsRpl)       \* nothing between the two globs touches *.rpl
    /\ UNCHANGED <<dir, ext>>

RNew(n) ==
    /\ pc = "rec" /\ n \in todoN
    /\ dir' = FsRemove(dir, n)
    /\ todoN' = todoN \ {n}
    /\ last' = Fs("remove", n, n, 0, "", TRUE)
    /\ UNCHANGED <<cfg, db, infl, mode, nop, ncr, nre, ok, pc, ext, todoR>>

RRpl(n) ==
    /\ pc = "rec" /\ todoN = {} /\ n \in todoR
    /\ IF FsExists(dir, Plain(n[1]))
       THEN /\ dir' = FsRemove(dir, n)
            /\ last' = Fs("remove", n, n, 0, "", TRUE)
       ELSE /\ dir' = FsRename(dir, n, Plain(n[1]))
            /\ last' = Fs("rename", n, Plain(n[1]), 0, "", TRUE)
    /\ todoR' = todoR \ {n}
    /\ UNCHANGED <<cfg, db, infl, mode, nop, ncr, nre, ok, pc, ext, todoN>>

RRet ==
    /\ pc = "rec" /\ todoN = {} /\ todoR = {}
    /\ AReopenOk /\ pc' = "idle"
    /\ UNCHANGED <<dir, ext, todoN, todoR>>

(* ---- reading back ---- *)
IView == pc = "idle" /\ AView(DirKv(dir)) /\ UNCHANGED implvars

(* the property on the design: open and idle => the directory shows an allowed view *)
IdleOk == pc = "idle" => Allowed(DirKv(dir))
(* a crashed process does nothing; mode and pc agree *)
PcMode == /\ (pc = "idle") = (mode = "up")
          /\ (pc = "down") = (mode = "down")
          /\ (pc = "rec") = (mode = "rec")
=============================================================================
