---------------------------- MODULE ThreadCallsAioMC ----------------------------
EXTENDS ThreadCallsAio, TLC
CONSTANTS Clock, MaxN
Ns == {<<a>> : a \in 0..MaxN + 1} \cup {<<a, b>> : a, b \in 0..MaxN}
Init == \E n \in Ns : AInitWith([n |-> n, clock |-> Clock])
Spec == Init /\ [][ANext]_avars
=============================================================================
