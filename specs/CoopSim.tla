------------------------------- MODULE CoopSim -------------------------------
(* Behaviour generator (spec -> code): Coop plus a history variable recording every step. *)
EXTENDS Coop, TLC, Json
CONSTANTS Depth, MaxT
VARIABLE hist
SInit == InitWith([started |-> TRUE]) /\ hist = <<>>
Next == \/ (Len(tk) < MaxT /\ \E cw \in BOOLEAN : Create(cw))
        \/ (Len(wd) < 6 /\ \E t \in Tasks : WhenDone(t))
        \/ \E t \in Tasks : (tk[t].pc < 2 /\ PauseOk(t)) \/ PauseFinished(t) \/ StopFinished(t) \/ StopOk(t)
        \/ \E t \in Tasks : ResumePaused(t) \/ ResumeNotPaused(t) \/ ResumeFinished(t)
        \/ \E d \in DOMAIN dfr, ok \in BOOLEAN : Fire(d, ok)
        \/ \E b \in 1..4 : (RunSet # {} /\ TickBegin(b))
        \/ \E t \in Tasks, o \in Outcomes : Step(t, o)
        \/ TickEnd
SNext == Next /\ hist' = Append(hist, [last' EXCEPT !.res = "-", !.wdf = "-"])
SSpec == SInit /\ [][SNext]_<<vars, hist>>
Emit == TLCGet("level") < Depth \/ PrintT(<<"BEH", ToJson([cfg |-> cfg, hist |-> hist])>>)
Stop == TLCGet("level") <= Depth
=============================================================================
