----------------------------- MODULE ImapSexpMC -----------------------------
(* Exhaustive run of ImapSexp: every structure with at most MaxItems non-parenthesis tokens,
   MaxOctets string octets in total, nesting MaxDepth, over the class alphabet; RoundTrip invariant.
   Stepwise = TRUE : the tokeniser runs one octet per action (one named action per step kind:
                     vacuity guard for every branch of the tokeniser) -- small bounds.
   Stepwise = FALSE: serialise + tokenise in one action -- larger bounds.                         *)
EXTENDS ImapSexp, TLC, Json
CONSTANTS MaxOctets, MaxItems, MaxDepth, MaxLists, Stepwise

Alphabet == {DQUOTE, BSLASH, CR, LF, LBRACE, RBRACE, LPAREN, RPAREN, SP, 78, 73, 76, 120, 200, 49, 91}
IntVals  == {0, 12, 0 - 7}

RECURSIVE Octets(_)
Octets(x) == IF Len(x) = 0 THEN 0 ELSE (IF Head(x)[1] = "s" THEN Len(Head(x)[2]) ELSE 0) + Octets(Tail(x))
Items(x) == Cardinality({i \in 1..Len(x) : x[i][1] \in {"s", "nil", "i"}})
Lists(x) == Cardinality({i \in 1..Len(x) : x[i][1] = "("})
NOct == Octets(toks) + (IF cur = NoStr THEN 0 ELSE Len(cur[1]))
NIt  == Items(toks) + (IF cur = NoStr THEN 0 ELSE 1)

Init == InitWith([stepwise |-> Stepwise])
AddOctet == \E b \in Alphabet : NOct < MaxOctets /\ BAddOctet(b)
OpenStr  == NIt < MaxItems /\ BOpenStr
AddNil   == NIt < MaxItems /\ BNil
AddInt   == \E n \in IntVals : NIt < MaxItems /\ BInt(n)
OpenList == depth < MaxDepth /\ Lists(toks) < MaxLists /\ BOpen
P_space == /\ phase = "parse" /\ pos <= Len(stream) /\ PKind(pm, stream[pos]) = "space"
          /\ pm' = PStep(pm, stream[pos]) /\ pos' = pos + 1
          /\ UNCHANGED <<cfg, toks, cur, depth, phase, stream>>
P_open == /\ phase = "parse" /\ pos <= Len(stream) /\ PKind(pm, stream[pos]) = "open"
          /\ pm' = PStep(pm, stream[pos]) /\ pos' = pos + 1
          /\ UNCHANGED <<cfg, toks, cur, depth, phase, stream>>
P_close == /\ phase = "parse" /\ pos <= Len(stream) /\ PKind(pm, stream[pos]) = "close"
          /\ pm' = PStep(pm, stream[pos]) /\ pos' = pos + 1
          /\ UNCHANGED <<cfg, toks, cur, depth, phase, stream>>
P_qstart == /\ phase = "parse" /\ pos <= Len(stream) /\ PKind(pm, stream[pos]) = "qstart"
          /\ pm' = PStep(pm, stream[pos]) /\ pos' = pos + 1
          /\ UNCHANGED <<cfg, toks, cur, depth, phase, stream>>
P_lstart == /\ phase = "parse" /\ pos <= Len(stream) /\ PKind(pm, stream[pos]) = "lstart"
          /\ pm' = PStep(pm, stream[pos]) /\ pos' = pos + 1
          /\ UNCHANGED <<cfg, toks, cur, depth, phase, stream>>
P_astart == /\ phase = "parse" /\ pos <= Len(stream) /\ PKind(pm, stream[pos]) = "astart"
          /\ pm' = PStep(pm, stream[pos]) /\ pos' = pos + 1
          /\ UNCHANGED <<cfg, toks, cur, depth, phase, stream>>
P_aend == /\ phase = "parse" /\ pos <= Len(stream) /\ PKind(pm, stream[pos]) = "aend"
          /\ pm' = PStep(pm, stream[pos]) /\ pos' = pos + 1
          /\ UNCHANGED <<cfg, toks, cur, depth, phase, stream>>
P_aendclose == /\ phase = "parse" /\ pos <= Len(stream) /\ PKind(pm, stream[pos]) = "aendclose"
          /\ pm' = PStep(pm, stream[pos]) /\ pos' = pos + 1
          /\ UNCHANGED <<cfg, toks, cur, depth, phase, stream>>
P_achar == /\ phase = "parse" /\ pos <= Len(stream) /\ PKind(pm, stream[pos]) = "achar"
          /\ pm' = PStep(pm, stream[pos]) /\ pos' = pos + 1
          /\ UNCHANGED <<cfg, toks, cur, depth, phase, stream>>
P_qesc == /\ phase = "parse" /\ pos <= Len(stream) /\ PKind(pm, stream[pos]) = "qesc"
          /\ pm' = PStep(pm, stream[pos]) /\ pos' = pos + 1
          /\ UNCHANGED <<cfg, toks, cur, depth, phase, stream>>
P_qend == /\ phase = "parse" /\ pos <= Len(stream) /\ PKind(pm, stream[pos]) = "qend"
          /\ pm' = PStep(pm, stream[pos]) /\ pos' = pos + 1
          /\ UNCHANGED <<cfg, toks, cur, depth, phase, stream>>
P_qchar == /\ phase = "parse" /\ pos <= Len(stream) /\ PKind(pm, stream[pos]) = "qchar"
          /\ pm' = PStep(pm, stream[pos]) /\ pos' = pos + 1
          /\ UNCHANGED <<cfg, toks, cur, depth, phase, stream>>
P_qescaped == /\ phase = "parse" /\ pos <= Len(stream) /\ PKind(pm, stream[pos]) = "qescaped"
          /\ pm' = PStep(pm, stream[pos]) /\ pos' = pos + 1
          /\ UNCHANGED <<cfg, toks, cur, depth, phase, stream>>
P_ldigit == /\ phase = "parse" /\ pos <= Len(stream) /\ PKind(pm, stream[pos]) = "ldigit"
          /\ pm' = PStep(pm, stream[pos]) /\ pos' = pos + 1
          /\ UNCHANGED <<cfg, toks, cur, depth, phase, stream>>
P_lbrace == /\ phase = "parse" /\ pos <= Len(stream) /\ PKind(pm, stream[pos]) = "lbrace"
          /\ pm' = PStep(pm, stream[pos]) /\ pos' = pos + 1
          /\ UNCHANGED <<cfg, toks, cur, depth, phase, stream>>
P_lcr == /\ phase = "parse" /\ pos <= Len(stream) /\ PKind(pm, stream[pos]) = "lcr"
          /\ pm' = PStep(pm, stream[pos]) /\ pos' = pos + 1
          /\ UNCHANGED <<cfg, toks, cur, depth, phase, stream>>
P_llf == /\ phase = "parse" /\ pos <= Len(stream) /\ PKind(pm, stream[pos]) = "llf"
          /\ pm' = PStep(pm, stream[pos]) /\ pos' = pos + 1
          /\ UNCHANGED <<cfg, toks, cur, depth, phase, stream>>
P_lchar == /\ phase = "parse" /\ pos <= Len(stream) /\ PKind(pm, stream[pos]) = "lchar"
          /\ pm' = PStep(pm, stream[pos]) /\ pos' = pos + 1
          /\ UNCHANGED <<cfg, toks, cur, depth, phase, stream>>

PSteps == P_space \/ P_open \/ P_close \/ P_qstart \/ P_lstart \/ P_astart \/ P_aend \/ P_aendclose \/ P_achar \/ P_qesc \/ P_qend \/ P_qchar \/ P_qescaped \/ P_ldigit \/ P_lbrace \/ P_lcr \/ P_llf \/ P_lchar
Next == AddOctet \/ OpenStr \/ BCloseStr \/ AddNil \/ AddInt \/ OpenList \/ BClose \/ Serialize \/ PSteps \/ PFinish
Spec == Init /\ [][Next]_vars

\* spec -> code: print every completed structure with the REFERENCE serialisation (the harness feeds it to the real parser)
EmitSer == phase # "done" \/ PrintT(<<"BEH", ToJson([x |-> toks, out |-> stream])>>)
=============================================================================
