SPECIFICATION Spec
CONSTANT Ops = 4
CONSTANT MaxD = 2
CONSTANT MaxPause = 1
CONSTANT Fixed = FALSE
CONSTANT Against = "known"
CONSTANT Plain <- PlainSmall
VIEW View
INVARIANT Refines
INVARIANT RefinesObs
INVARIANT DepthOne
INVARIANT ChainBounded
INVARIANT ITypeOK
CHECK_DEADLOCK FALSE
