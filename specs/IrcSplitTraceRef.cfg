SPECIFICATION TSpec
CONSTANT CheckLen = TRUE
CONSTANT Strict = TRUE
CONSTRAINT Progress
POSTCONDITION Accepted
CHECK_DEADLOCK FALSE
