SPECIFICATION Spec
CONSTANT Depth = 11
CONSTRAINT Bound
VIEW View
INVARIANT ExactlyOnce
INVARIANT FifoOrder
INVARIANT NoLoss
INVARIANT NoCancelledDelivery
INVARIANT NoIdleWaiter
INVARIANT Bounds
CHECK_DEADLOCK FALSE
