---------------------------- MODULE LogRotateTrace ----------------------------
(* C53 verdict layer: every recorded execution of the real LogFile (writes of bytes
   and text, reopenings, crashes injected inside rotate(), the directory listing after
   every call) must be a behaviour of LogRotate with every listing allowed by the
   property (Inv' in every step).  "fs" events are checked by LogRotateImplTrace only. *)
EXTENDS LogRotate, TLC, Json, IOUtils

Traces == JsonDeserialize(IOEnv.TRACE_FILE)
VARIABLES tid, l
ASSUME \A t \in 1..Len(Traces) : TLCSet(t, 1)

T == Traces[tid]
E == T.ev[l]

TInit == /\ tid \in 1..Len(Traces) /\ l = 1
         /\ InitWith([L |-> Traces[tid].cfg.L, N |-> Traces[tid].cfg.N])

Step(A) == /\ l <= Len(T.ev) /\ A /\ Inv' /\ l' = l + 1 /\ UNCHANGED tid

TNext == \/ (E.e = "write" /\ Step(AWrite(E.c, E.sz)))
         \/ (E.e = "ret" /\ E.res = "ok" /\ Step(ARetOk))
         \/ (E.e = "crash" /\ Step(ACrash))
         \/ (E.e = "restart" /\ Step(ARestart))
         \/ (E.e = "reopen" /\ Step(AReopen))
         \/ (E.e = "view" /\ Step(AView(E.v)))
         \/ (E.e = "fs" /\ Step(UNCHANGED absvars))

TSpec == TInit /\ [][l <= Len(T.ev) /\ TNext]_<<absvars, tid, l>>

Progress == TLCSet(tid, IF TLCGet(tid) > l THEN TLCGet(tid) ELSE l)
Rejected == {<<t, TLCGet(t)>> : t \in {u \in 1..Len(Traces) : TLCGet(u) # Len(Traces[u].ev) + 1}}
Accepted == Rejected = {} \/ (PrintT(<<"REJECTED", Rejected>>) /\ FALSE)
=============================================================================
