SPECIFICATION Spec
CONSTANT MaxNow = 3
CONSTANT MaxLevel = 5
CONSTRAINT Bound
VIEW View
INVARIANT NeverLate
INVARIANT NeverEarly
INVARIANT Current
INVARIANT OneTimer
INVARIANT Tracked
INVARIANT NoOverdue
CHECK_DEADLOCK FALSE
