----------------------------- MODULE H2FlowImpl -----------------------------
(* C29, Impl layer: the send scheduling of twisted.web._http2.H2Connection as coded --
   what the liveness clause depends on:
     blocked[s]  the stream's flag in the priority tree (set at _requestReceived and when the
                 stream's queue runs empty; cleared by writeDataToStream *if the window is > 0*,
                 by endRequest, and by _handleWindowUpdate if the stream has something queued)
     parked      _sendingDeferred is set: the loop found every stream blocked and waits;
                 fired by writeDataToStream (window > 0) and endRequest -- and, as coded, NOT
                 by _handleWindowUpdate, and SETTINGS changes are not looked at at all
     armed       a reactor.callLater(0, _sendPrioritisedData) is pending
     dead        the loop raised (conn.send_data refused the frame) and was not rescheduled
   The abstract variables are those of H2Flow; TLC checks that every step of this model is a
   step of H2Flow (or stutters), that the loop never dies, and the liveness property Resume.
   The per-stream queue is the sequence of written chunk sizes, cut into frames as the code does.  *)
EXTENDS H2Flow, TLC

VARIABLES chunks, blocked, parked, armed, dead
ivars == <<vars, chunks, blocked, parked, armed, dead>>

(* chunks[s]: the stream's deque of written chunks (sizes); the END sentinel is represented by
   finished[s] /\ ~ended[s] (endRequest always appends it last) *)
HasQueued(s) == chunks[s] # <<>> \/ (finished[s] /\ ~ended[s])
Live(s) == Opened(s) /\ ~ended[s]

IInitWith(c) ==
    /\ InitWith(c)
    /\ chunks = [s \in 1..c.ns |-> <<>>]
    /\ blocked = [s \in 1..c.ns |-> TRUE] /\ parked = FALSE /\ armed = TRUE /\ dead = FALSE

(* one iteration of _sendPrioritisedData on (ch, f, b) = (chunks, finished, blocked) as left by the caller *)
LoopBody(ch, f, b) ==
    LET Unblocked == {s \in Streams : Live(s) /\ ~b[s]}
    IN IF Unblocked = {}
       THEN /\ parked' = TRUE /\ armed' = FALSE /\ dead' = dead /\ blocked' = b /\ chunks' = ch
            /\ UNCHANGED <<connWin, strWin, sent, ended>>
       ELSE \E s \in Unblocked :
              IF ch[s] = <<>>
              THEN IF f[s]
                   THEN \* the END_STREAM sentinel is at the head of the queue
                        /\ ended' = [ended EXCEPT ![s] = TRUE]
                        /\ parked' = FALSE /\ armed' = TRUE /\ dead' = dead /\ blocked' = b /\ chunks' = ch
                        /\ UNCHANGED <<connWin, strWin, sent>>
                   ELSE \* popleft() on an empty deque
                        /\ dead' = TRUE /\ parked' = FALSE /\ armed' = FALSE /\ blocked' = b /\ chunks' = ch
                        /\ UNCHANGED <<connWin, strWin, sent, ended>>
              ELSE LET c == Head(ch[s])
                       m == Min(maxFrame, Win(s))
                       \* len(frameData[:m]) when len(frameData) > m, else the whole chunk
                       k == IF c > m THEN (IF m >= 0 THEN m ELSE (IF c + m > 0 THEN c + m ELSE 0)) ELSE c
                   IN
                   IF k > 0 /\ k > Win(s)
                   THEN \* conn.send_data refuses the frame; the exception leaves the loop unscheduled.
                        \* (the popped chunk is lost: left out of the model, the loop is dead anyway)
                        /\ dead' = TRUE /\ parked' = FALSE /\ armed' = FALSE /\ blocked' = b /\ chunks' = ch
                        /\ UNCHANGED <<connWin, strWin, sent, ended>>
                   ELSE LET rest == IF c > k THEN <<c - k>> \o Tail(ch[s]) ELSE Tail(ch[s]) IN
                        /\ sent' = [sent EXCEPT ![s] = @ + k]
                        /\ connWin' = connWin - k
                        /\ strWin' = [strWin EXCEPT ![s] = @ - k]
                        /\ chunks' = [ch EXCEPT ![s] = rest]
                        /\ blocked' = [b EXCEPT ![s] = (rest = <<>> /\ ~f[s])]
                        /\ parked' = FALSE /\ armed' = TRUE /\ dead' = dead
                        /\ UNCHANGED ended

NoLoop(ch) == chunks' = ch /\ UNCHANGED <<connWin, strWin, sent, ended, parked, armed, dead>>

IOpen ==
    /\ nOpen < cfg.ns
    /\ nOpen' = nOpen + 1
    /\ strWin' = [strWin EXCEPT ![nOpen + 1] = initWin]
    /\ blocked' = [blocked EXCEPT ![nOpen + 1] = TRUE]
    /\ last' = [e |-> "open", s |-> nOpen + 1]
    /\ UNCHANGED <<cfg, connWin, written, sent, finished, ended, initWin, maxFrame, chunks, parked, armed, dead>>

IWrite(s, n) ==      \* H2Stream.write -> writeDataToStream
    /\ Opened(s) /\ ~finished[s] /\ ~ended[s] /\ n >= 1
    /\ written' = [written EXCEPT ![s] = @ + n]
    /\ last' = [e |-> "write", s |-> s, n |-> n]
    /\ LET b == IF Win(s) > 0 THEN [blocked EXCEPT ![s] = FALSE] ELSE blocked
           ch == [chunks EXCEPT ![s] = Append(@, n)] IN
         IF Win(s) > 0 /\ parked /\ ~dead
         THEN LoopBody(ch, finished, b)                  \* _sendingDeferred fired: the loop runs synchronously
         ELSE blocked' = b /\ NoLoop(ch)
    /\ UNCHANGED <<cfg, nOpen, finished, initWin, maxFrame>>

IFinish(s) ==        \* Request.finish -> endRequest
    /\ Opened(s) /\ ~finished[s] /\ ~ended[s]
    /\ finished' = [finished EXCEPT ![s] = TRUE]
    /\ last' = [e |-> "finish", s |-> s]
    /\ LET b == [blocked EXCEPT ![s] = FALSE] IN
         IF parked /\ ~dead THEN LoopBody(chunks, finished', b) ELSE blocked' = b /\ NoLoop(chunks)
    /\ UNCHANGED <<cfg, nOpen, written, initWin, maxFrame>>

IWindowUpdate(s, n) ==     \* _handleWindowUpdate: unblocks, never wakes the parked loop
    /\ n >= 1
    /\ IF s = 0 THEN /\ connWin' = connWin + n /\ UNCHANGED strWin
                     /\ blocked' = [t \in Streams |-> IF Live(t) /\ HasQueued(t) THEN FALSE ELSE blocked[t]]
                ELSE /\ Live(s)
                     /\ strWin' = [strWin EXCEPT ![s] = @ + n] /\ UNCHANGED connWin
                     /\ blocked' = [blocked EXCEPT ![s] = IF HasQueued(s) THEN FALSE ELSE @]
    /\ last' = [e |-> "wu", s |-> s, n |-> n]
    /\ UNCHANGED <<cfg, nOpen, written, sent, finished, ended, initWin, maxFrame, chunks, parked, armed, dead>>

ISettings(iw, mf) ==       \* h2 adjusts the windows; H2Connection.dataReceived ignores RemoteSettingsChanged
    /\ iw >= 0 /\ mf >= 1
    /\ strWin' = [s \in Streams |-> IF Live(s) THEN strWin[s] + (iw - initWin) ELSE strWin[s]]
    /\ initWin' = iw /\ maxFrame' = mf
    /\ last' = [e |-> "settings", iw |-> iw, mf |-> mf]
    /\ UNCHANGED <<cfg, connWin, nOpen, written, sent, finished, ended, chunks, blocked, parked, armed, dead>>

ILoop ==                   \* the reactor runs the pending callLater(0, _sendPrioritisedData)
    /\ armed /\ ~dead
    /\ last' = [e |-> "loop"]
    /\ LoopBody(chunks, finished, blocked)
    /\ UNCHANGED <<cfg, nOpen, written, finished, initWin, maxFrame>>

-----------------------------------------------------------------------------
(* refinement: every Impl step is an H2Flow step on the abstract variables, or leaves them unchanged *)
absvars == <<cfg, connWin, strWin, nOpen, written, sent, finished, ended, initWin, maxFrame>>
AbsStep ==
    \/ \E s \in Streams : \E n \in 0..Queue(s) :
          /\ Opened(s) /\ ~ended[s] /\ n <= connWin /\ n <= strWin[s] /\ n <= maxFrame
          /\ sent' = [sent EXCEPT ![s] = @ + n] /\ connWin' = connWin - n /\ strWin' = [strWin EXCEPT ![s] = @ - n]
          /\ UNCHANGED <<cfg, nOpen, written, finished, ended, initWin, maxFrame>>
    \/ \E s \in Streams :
          /\ Opened(s) /\ ~ended[s] /\ finished[s] /\ Queue(s) = 0
          /\ ended' = [ended EXCEPT ![s] = TRUE]
          /\ UNCHANGED <<cfg, connWin, strWin, nOpen, written, sent, finished, initWin, maxFrame>>
(* server output produced inside an application call (the woken loop runs synchronously) is the
   composition  application step ; send step : it is checked on the state after the application step *)
AppThenSend(s, w, f) ==
    LET Q == w[s] - sent[s] IN
    \/ /\ ended' = ended /\ \E n \in 0..Q : /\ n <= connWin /\ n <= strWin[s] /\ n <= maxFrame
                                            /\ sent' = [sent EXCEPT ![s] = @ + n]
                                            /\ connWin' = connWin - n /\ strWin' = [strWin EXCEPT ![s] = @ - n]
    \/ /\ Q = 0 /\ f[s] /\ ~ended[s] /\ ended' = [ended EXCEPT ![s] = TRUE]
       /\ UNCHANGED <<connWin, strWin, sent>>

NotDead == ~dead
OutputLegal ==      \* action property: whatever the loop emits is a legal H2Flow send
    [][ \/ UNCHANGED <<connWin, strWin, sent, ended>>
        \/ (last'.e \in {"open", "wu", "settings"})
        \/ \E s \in Streams : AppThenSend(s, written', finished') ]_ivars
=============================================================================
