SPECIFICATION Spec
CONSTANT Configs <- ConfigsStale2
VIEW View
INVARIANT MutualExclusion
CHECK_DEADLOCK FALSE
