----------------------------- MODULE IrcSplitMC -----------------------------
(* Exhaustive run of IrcSplit.
   Mode = "split": every text up to MaxLen over {1,2,3,4-octet char, SP, TAB, LF, CR}, every limit leaving
                   0..MaxAvail octets for the message part; both octet-counting splitters meet the relation
                   (SplitOK invariant), refusal only when unsatisfiable.
   Mode = "chars": control -- the word splitter counting characters; SplitOK is NOT an invariant here: every
                   (limit, text) on which the relation is violated is printed (Report) and the harness replays
                   those inputs on the real client.
   Mode = "fifo" : up to MaxMsgs messages, split and queued, a timer writes the oldest line per tick, sends and ticks
                   interleaved in every way: QueueOK / QueueSafe invariants.  Mode = "lifo": control, newest first --
                   violations of QueueOK are printed (the relation notices reordering).
   Mode = "quote": every text up to MaxLen over the quoting alphabets: Dequote(Quote(t)) = t, quoted text clean. *)
EXTENDS IrcSplit, TLC, Json
CONSTANTS MaxLen, MaxAvail, Mode, Kinds, MaxMsgs

SplitAlpha == {97, 233, 8364, 128512, SPC, TAB, LF, CR}
LowAlpha   == {MQ, NUL, LF, CR, 48, 110, 114, 120}
CtcpAlpha  == {XQ, XD, 97, 120}
User == <<117>>

QueueAlpha == {97, 233, SPC}
MkMsg(n, a) == [kind |-> "msg", user |-> <<117, 48 + n>>, limit |-> 14 + a]     \* "PRIVMSG uN :" + CRLF = 14 octets
Init == IF Mode \in {"fifo", "lifo"}
        THEN InitWith([mode |-> Mode, kind |-> "msg", user |-> <<>>, limit |-> 0])
        ELSE IF Mode = "quote"
        THEN \E m \in {"low", "ctcp"} : InitWith([mode |-> m, kind |-> "msg", user |-> <<>>, limit |-> 0])
        ELSE \E k \in Kinds, a \in 0..MaxAvail :
                 InitWith([mode |-> Mode, kind |-> k, user |-> User,
                           limit |-> Len(CmdText(k)) + Len(User) + 5 + a])
Alpha == IF cfg.mode \in {"fifo", "lifo"} THEN QueueAlpha ELSE IF cfg.mode = "low" THEN LowAlpha ELSE IF cfg.mode = "ctcp" THEN CtcpAlpha ELSE SplitAlpha
ExtendAny == /\ phase = "build" /\ Len(text) < MaxLen
             /\ \E sym \in Alpha : text' = Append(text, sym)
             /\ UNCHANGED <<cfg, phase, stream, lines, err, q, back, msgs, queue>>
EnqueueAny == \E a \in 1..MaxAvail : Len(msgs) < MaxMsgs /\ text # <<>> /\ Enqueue(MkMsg(Len(msgs) + 1, a))
Next == EnqueueAny \/ TickFifo \/ TickLifo \/ ExtendAny \/ SendPack \/ SendWords \/ SendRefuse \/ SendCharCount \/ DoQuote
Spec == Init /\ [][Next]_vars

Report == phase # "sent" \/ Accepts(cfg, text, lines, err)
          \/ PrintT(<<"CEX", ToJson([kind |-> cfg.kind, user |-> cfg.user, limit |-> cfg.limit, text |-> text])>>)
ReportQ == QueueOK \/ PrintT(<<"CEXQ", ToJson([msgs |-> msgs, stream |-> stream])>>)
=============================================================================
