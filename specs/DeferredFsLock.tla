---------------------------- MODULE DeferredFsLock ----------------------------
(* Extension X11 -- twisted.internet.defer.DeferredFilesystemLock.deferUntilLocked on a controlled clock.

   One DeferredFilesystemLock object ("self") polls a lock file that a second FilesystemLock object ("other")
   may hold.  deferUntilLocked(timeout) tries lock() at once and then every `iv` time units until it succeeds
   (Deferred fires with the lock held), the timeout passes (TimeoutError) or the caller cancels the Deferred
   (CancelledError); a second call while one is pending fails with AlreadyTryingToLockError.
   Times are integers: one unit is 1/cfg.iv of the retry interval (the harness advances task.Clock by d/iv seconds).

   The spec is implementation-shaped.  Deliberate deviations from what a user would expect (notes/X11.md, Oddities):
     O1  after a timeout call has FIRED the object keeps a reference to the spent call (`stale`); the next poll that
         acquires the lock then raises AlreadyCalled out of deferUntilLocked() itself (CallRaise) ...
     O2  ... and a later deferUntilLocked(timeout) arms no timeout at all (CallWait with stale);
     O3  ... and when the acquiring poll is a retry on the clock the exception escapes from Clock.advance(), the lock IS
         held, the Deferred never fires and the object answers AlreadyTryingToLockError forever (`wedged`, AdvWedge);
     O4  cancelling the Deferred of a wedged object raises AlreadyCalled out of Deferred.cancel() (the canceller tries to
         cancel the spent retry call) and changes nothing: that Deferred NEVER fires (exactly-once is only
         at-most-once on this path);
     O5  cancel() and the timeout both try lock() one last time: if the file is free at that moment the Deferred
         SUCCEEDS with the lock held (CancelAcquire, AdvLastChance).                                                  *)
EXTENDS Naturals, Integers, Sequences

None == -1
VARIABLES cfg,      \* [iv |-> retry interval in time units]
          now,
          holder,   \* who owns the lock file: "none" | "self" | "other"
          dst,      \* the most recent Deferred handed out: "none" | "pending" | "ok" | "timeout" | "cancelled"
          tryAt,    \* time of the scheduled retry poll (None = no retry on the clock)
          toAt,     \* time of the scheduled timeout (None = no timeout on the clock)
          stale,    \* O1: a timeout call has fired on this object
          wedged,   \* O3: a retry poll raised; the object believes it is still trying
          t0, tmo,  \* time and timeout argument of the most recent accepted deferUntilLocked
          last      \* what the caller observes after the step
core == <<cfg, now, holder, dst, tryAt, toAt, stale, wedged, t0, tmo>>
vars == <<cfg, now, holder, dst, tryAt, toAt, stale, wedged, t0, tmo, last>>

Final == {"ok", "timeout", "cancelled"}
Bit(b) == IF b THEN 1 ELSE 0
Busy == tryAt # None \/ wedged

(* everything the harness logs after a call; must be the last conjunct of an action (uses primed variables) *)
Obs(e, ret, exc, lg) ==
    [e |-> e, ret |-> ret, exc |-> exc, logged |-> lg,
     res |-> dst', nf |-> Bit(dst' \in Final),
     calls |-> Bit(tryAt' # None) + Bit(toAt' # None),
     locked |-> (holder' = "self"), exists |-> (holder' # "none")]

InitWith(c) ==
    /\ cfg = c /\ now = 0 /\ holder = "none" /\ dst = "none"
    /\ tryAt = None /\ toAt = None /\ stale = FALSE /\ wedged = FALSE
    /\ t0 = 0 /\ tmo = None
    /\ last = [e |-> "init"]

\* ==== deferUntilLocked(t) ====
CallAlready(t) ==                      \* returns a Deferred that has already failed with AlreadyTryingToLockError
    /\ Busy
    /\ UNCHANGED core
    /\ last' = Obs("call", "already", "", 0)

CallOk(t) ==                           \* the lock is free: acquired at once
    /\ ~Busy /\ holder = "none" /\ ~stale
    /\ holder' = "self" /\ dst' = "ok" /\ t0' = now /\ tmo' = t
    /\ UNCHANGED <<cfg, now, tryAt, toAt, stale, wedged>>
    /\ last' = Obs("call", "new", "", 0)

CallRaise(t) ==                        \* O1: lock acquired, then cancelling the spent timeout call raises; no Deferred
    /\ ~Busy /\ holder = "none" /\ stale
    /\ holder' = "self"
    /\ UNCHANGED <<cfg, now, dst, tryAt, toAt, stale, wedged, t0, tmo>>
    /\ last' = Obs("call", "raise", "AlreadyCalled", 0)

CallWait(t) ==                         \* the lock is taken: start polling (O2: no timeout once stale)
    /\ ~Busy /\ holder # "none"
    /\ dst' = "pending" /\ tryAt' = now + cfg.iv
    /\ toAt' = IF t # None /\ ~stale THEN now + t ELSE None
    /\ t0' = now /\ tmo' = t
    /\ UNCHANGED <<cfg, now, holder, stale, wedged>>
    /\ last' = Obs("call", "new", "", 0)

Call(t) == CallAlready(t) \/ CallOk(t) \/ CallRaise(t) \/ CallWait(t)

\* ==== Clock.advance(d): due calls run in time order, the timeout before a retry due at the same instant ====
TryDue(t) == tryAt # None /\ tryAt <= t
ToDue(t)  == toAt # None /\ toAt <= t
ToFirst(t) == ToDue(t) /\ (~TryDue(t) \/ toAt <= tryAt)

AdvIdle(d) ==
    /\ ~TryDue(now + d) /\ ~ToDue(now + d)
    /\ now' = now + d
    /\ UNCHANGED <<cfg, holder, dst, tryAt, toAt, stale, wedged, t0, tmo>>
    /\ last' = Obs("adv", "", "", 0)

AdvRetry(d) ==                         \* poll finds the lock taken: next poll one interval after the NEW now
    /\ TryDue(now + d) /\ ~ToDue(now + d) /\ holder # "none"
    /\ now' = now + d /\ tryAt' = now + d + cfg.iv
    /\ UNCHANGED <<cfg, holder, dst, toAt, stale, wedged, t0, tmo>>
    /\ last' = Obs("adv", "", "", 0)

AdvAcquire(d) ==                       \* poll finds the lock free: acquired, timeout cancelled, Deferred fires
    /\ TryDue(now + d) /\ ~ToFirst(now + d) /\ holder = "none" /\ ~stale
    /\ now' = now + d /\ holder' = "self" /\ dst' = "ok" /\ tryAt' = None /\ toAt' = None
    /\ UNCHANGED <<cfg, stale, wedged, t0, tmo>>
    /\ last' = Obs("adv", "", "", 0)

AdvWedge(d) ==                         \* O3
    /\ TryDue(now + d) /\ ~ToFirst(now + d) /\ holder = "none" /\ stale
    /\ now' = now + d /\ holder' = "self" /\ tryAt' = None /\ wedged' = TRUE
    /\ UNCHANGED <<cfg, dst, toAt, stale, t0, tmo>>
    /\ last' = Obs("adv", "", "AlreadyCalled", 0)

AdvTimeout(d) ==                       \* timeout reached with the lock still taken
    /\ ToDue(now + d) /\ holder # "none"
    /\ now' = now + d /\ dst' = "timeout" /\ tryAt' = None /\ toAt' = None /\ stale' = TRUE
    /\ UNCHANGED <<cfg, holder, wedged, t0, tmo>>
    /\ last' = Obs("adv", "", "", 0)

AdvLastChance(d) ==                    \* O5: the timeout's own final lock() succeeds
    /\ ToFirst(now + d) /\ holder = "none"
    /\ now' = now + d /\ holder' = "self" /\ dst' = "ok" /\ tryAt' = None /\ toAt' = None /\ stale' = TRUE
    /\ UNCHANGED <<cfg, wedged, t0, tmo>>
    /\ last' = Obs("adv", "", "", 0)

Advance(d) == AdvIdle(d) \/ AdvRetry(d) \/ AdvAcquire(d) \/ AdvWedge(d) \/ AdvTimeout(d) \/ AdvLastChance(d)

\* ==== cancel() of the most recent Deferred ====
CancelNoop ==
    /\ dst \in Final
    /\ UNCHANGED core
    /\ last' = Obs("cancel", "", "", 0)

CancelErr ==
    /\ dst = "pending" /\ ~wedged /\ holder # "none"
    /\ dst' = "cancelled" /\ tryAt' = None /\ toAt' = None
    /\ UNCHANGED <<cfg, now, holder, stale, wedged, t0, tmo>>
    /\ last' = Obs("cancel", "", "", 0)

CancelAcquire ==                       \* O5
    /\ dst = "pending" /\ ~wedged /\ holder = "none"
    /\ holder' = "self" /\ dst' = "ok" /\ tryAt' = None /\ toAt' = None
    /\ UNCHANGED <<cfg, now, stale, wedged, t0, tmo>>
    /\ last' = Obs("cancel", "", "", 0)

CancelWedged ==                        \* O4: the canceller raises AlreadyCalled out of cancel(); the Deferred stays unfired
    /\ dst = "pending" /\ wedged
    /\ UNCHANGED core
    /\ last' = Obs("cancel", "", "AlreadyCalled", 0)

Cancel == CancelNoop \/ CancelErr \/ CancelAcquire \/ CancelWedged

\* ==== the other FilesystemLock object, and our own unlock() ====
OtherAcqOk ==
    /\ holder = "none" /\ holder' = "other"
    /\ UNCHANGED <<cfg, now, dst, tryAt, toAt, stale, wedged, t0, tmo>>
    /\ last' = Obs("oacq", "T", "", 0)
OtherAcqBusy ==
    /\ holder # "none"
    /\ UNCHANGED core
    /\ last' = Obs("oacq", "F", "", 0)
OtherAcq == OtherAcqOk \/ OtherAcqBusy

OtherRel ==
    /\ holder = "other" /\ holder' = "none"
    /\ UNCHANGED <<cfg, now, dst, tryAt, toAt, stale, wedged, t0, tmo>>
    /\ last' = Obs("orel", "", "", 0)

Unlock ==
    /\ holder = "self" /\ holder' = "none"
    /\ UNCHANGED <<cfg, now, dst, tryAt, toAt, stale, wedged, t0, tmo>>
    /\ last' = Obs("unlock", "", "", 0)

Tmos == {None, 0, 1, 2, 3}
Ds == 0..3
Next == \/ \E t \in Tmos : CallAlready(t)
        \/ \E t \in Tmos : CallOk(t)
        \/ \E t \in Tmos : CallRaise(t)
        \/ \E t \in Tmos : CallWait(t)
        \/ \E d \in Ds : AdvIdle(d)
        \/ \E d \in Ds : AdvRetry(d)
        \/ \E d \in Ds : AdvAcquire(d)
        \/ \E d \in Ds : AdvWedge(d)
        \/ \E d \in Ds : AdvTimeout(d)
        \/ \E d \in Ds : AdvLastChance(d)
        \/ CancelNoop \/ CancelErr \/ CancelAcquire \/ CancelWedged
        \/ OtherAcqOk \/ OtherAcqBusy \/ OtherRel \/ Unlock
-----------------------------------------------------------------------------
(* What a user relies on *)
\* no timer leak: once the Deferred has a result (or before any call) nothing of ours is left on the clock
NoLeak == dst # "pending" => (tryAt = None /\ toAt = None)
\* while waiting, the next poll is always scheduled, at most one interval away (except in the wedged state, O3)
RetryArmed == (dst = "pending" /\ ~wedged) => (tryAt # None /\ tryAt > now /\ tryAt <= now + cfg.iv)
\* while waiting with a timeout, the timeout is on the clock at exactly (call time + timeout) (except after O1/O2)
TimeoutArmed == (dst = "pending" /\ ~stale) => toAt = (IF tmo = None THEN None ELSE t0 + tmo)
TimeoutNotPast == toAt # None => toAt >= now
\* TimeoutError only for a call that asked for a timeout, and never before it
NoEarlyTimeout == dst = "timeout" => (tmo # None /\ now >= t0 + tmo)
\* extent of the deviations: they need a timeout call to have fired first
\* and a wedged Deferred stays pending for ever (O3/O4: at-most-once, not exactly-once, on that path)
OddShape == (wedged => (stale /\ dst = "pending" /\ tryAt = None)) /\ (stale => toAt = None)
Inv == NoLeak /\ RetryArmed /\ TimeoutArmed /\ TimeoutNotPast /\ NoEarlyTimeout /\ OddShape

(* step properties *)
Fresh == last'.ret = "new"
StepOK ==
    \* at most once: a Deferred's result never changes (exactly once except for a wedged Deferred, which never fires)
    /\ (dst \in Final /\ ~Fresh) => dst' = dst
    \* success means: the lock was free and we hold it now
    /\ (dst' = "ok" /\ (dst # "ok" \/ Fresh)) => (holder = "none" /\ holder' = "self")
    \* TimeoutError / CancelledError only while the lock is not free, and never from a wedged object
    /\ (dst' \in {"timeout", "cancelled"} /\ dst = "pending") => (holder # "none" /\ ~wedged)
    \* once wedged, always wedged, and nothing observable but the lock file ever changes again (O3/O4)
    /\ wedged => (wedged' /\ dst' = dst /\ tryAt' = tryAt /\ toAt' = toAt)
    \* acquired at the first poll at which it is free: a poll that leaves us waiting found it taken
    /\ (dst = "pending" /\ dst' = "pending" /\ ~wedged' /\ tryAt' # tryAt) => holder # "none"
    \* AlreadyTryingToLockError exactly while an attempt is outstanding; it changes nothing
    /\ (last'.ret = "already") => (Busy /\ core' = core)
    \* time never goes back; our object never steals the lock
    /\ now' >= now
    /\ (holder = "other" /\ holder' # "other") => last'.e = "orel"
StepProp == [][StepOK]_vars
=============================================================================
