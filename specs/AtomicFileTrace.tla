--------------------------- MODULE AtomicFileTrace ---------------------------
(* C52 verdict layer: every recorded execution of the real FilePath.setContent /
   sob.Persistent.save (saves, injected crashes, what a reader finds at the target
   path) must be a behaviour of AtomicFile with every view allowed (Inv' in every
   step).  "fs" and "ls" events are checked by AtomicFileImplTrace only.          *)
EXTENDS AtomicFile, TLC, Json, IOUtils

Traces == JsonDeserialize(IOEnv.TRACE_FILE)
VARIABLES tid, l
ASSUME \A t \in 1..Len(Traces) : TLCSet(t, 1)

T == Traces[tid]
E == T.ev[l]
Cfg(t) == [kind |-> Traces[t].cfg.kind, init |-> Traces[t].cfg.init, ve |-> Traces[t].cfg.ve, win |-> FALSE]

TInit == /\ tid \in 1..Len(Traces) /\ l = 1 /\ InitWith(Cfg(tid))

Step(A) == /\ l <= Len(T.ev) /\ A /\ Inv' /\ l' = l + 1 /\ UNCHANGED tid

TNext == \/ (E.e = "save" /\ Step(ASave(E.v)))
         \/ (E.e = "ret" /\ E.res = "ok" /\ Step(ARetOk))
         \/ (E.e = "crash" /\ Step(ACrash))
         \/ (E.e = "view" /\ Step(AView(E.t)))
         \/ (E.e \in {"fs", "ls"} /\ Step(UNCHANGED absvars))

TSpec == TInit /\ [][l <= Len(T.ev) /\ TNext]_<<absvars, tid, l>>

Progress == TLCSet(tid, IF TLCGet(tid) > l THEN TLCGet(tid) ELSE l)
Rejected == {<<t, TLCGet(t)>> : t \in {u \in 1..Len(Traces) : TLCGet(u) # Len(Traces[u].ev) + 1}}
Accepted == Rejected = {} \/ (PrintT(<<"REJECTED", Rejected>>) /\ FALSE)
=============================================================================
