SPECIFICATION Spec
CONSTANT MaxNow = 7
CONSTANT MaxLevel = 8
CONSTRAINT Bound
VIEW View
INVARIANT NeverLate
INVARIANT NeverEarly
INVARIANT Current
INVARIANT OneTimer
INVARIANT Tracked
INVARIANT NoOverdue
CHECK_DEADLOCK FALSE
