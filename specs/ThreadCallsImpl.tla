---------------------------- MODULE ThreadCallsImpl ----------------------------
(* C13, Impl layer: the algorithm of ReactorBase.callFromThread / runUntilCurrent / mainLoop
   with the self-pipe waker (base.py, posixbase.py, _signals.py), one action per critical section.

     callFromThread(f):   threadCallQueue.append(f)            -- Enqueue(p)
                          self.wakeUp()  (write a byte)        -- WakeUp(p)
     mainLoop:  runUntilCurrent():
                   if threadCallQueue:                          -- Check
                       total = len(queue)                       --   (snapshot)
                       for f in queue: f(); count += 1;         -- RunOne
                           if count == total: break
                       del queue[:count]                        -- DrainEnd
                       if queue: self.wakeUp()                  --   (self wake-up)
                doIteration(timeout)    (select/poll/epoll)     -- Block, then Wake / Unrelated
                   waker.doRead() empties the pipe

   cfg.waker = FALSE removes the producers' wakeUp(): the model must then violate the
   liveness property (vacuity check of the liveness clause).
   `Unrelated` (the event wait returning for an unrelated reason: another descriptor, a timer)
   exists but has no fairness: liveness may not depend on it.                        *)
EXTENDS Naturals, Sequences, FiniteSets

VARIABLES cfg,      \* [n |-> <<..>>, waker |-> BOOLEAN]
          pc,       \* pc[p] \in {"idle", "appended"}
          issuedI,  \* issuedI[p] : appends made by p
          queue,    \* threadCallQueue : sequence of <<p, i>>
          rs,       \* reactor: "Top" | "Draining" | "Checked" | "Blocked"
          total, count,
          wake,     \* a byte is in the waker pipe
          doneI,    \* doneI[p] : number of p's calls run
          ranI      \* history of calls run, in order

ivars == <<cfg, pc, issuedI, queue, rs, total, count, wake, doneI, ranI>>
PI == 1..Len(cfg.n)

IInitWith(c) ==
    /\ cfg = c
    /\ pc = [p \in 1..Len(c.n) |-> "idle"]
    /\ issuedI = [p \in 1..Len(c.n) |-> 0]
    /\ doneI = [p \in 1..Len(c.n) |-> 0]
    /\ queue = <<>> /\ rs = "Top" /\ total = 0 /\ count = 0 /\ wake = FALSE /\ ranI = <<>>

Enqueue(p) ==
    /\ pc[p] = "idle" /\ issuedI[p] < cfg.n[p]
    /\ queue' = Append(queue, <<p, issuedI[p] + 1>>)
    /\ issuedI' = [issuedI EXCEPT ![p] = @ + 1]
    /\ pc' = [pc EXCEPT ![p] = "appended"]
    /\ UNCHANGED <<cfg, rs, total, count, wake, doneI, ranI>>

WakeUp(p) ==
    /\ pc[p] = "appended"
    /\ wake' = (wake \/ cfg.waker)
    /\ pc' = [pc EXCEPT ![p] = "idle"]
    /\ UNCHANGED <<cfg, issuedI, queue, rs, total, count, doneI, ranI>>

Check ==
    /\ rs = "Top"
    /\ IF queue = <<>>
         THEN rs' = "Checked" /\ UNCHANGED <<total, count>>
         ELSE rs' = "Draining" /\ total' = Len(queue) /\ count' = 0
    /\ UNCHANGED <<cfg, pc, issuedI, queue, wake, doneI, ranI>>

RunOne ==
    /\ rs = "Draining" /\ count < total
    /\ ranI' = Append(ranI, queue[count + 1])
    /\ doneI' = [doneI EXCEPT ![queue[count + 1][1]] = @ + 1]
    /\ count' = count + 1
    /\ UNCHANGED <<cfg, pc, issuedI, queue, rs, total, wake>>

DrainEnd ==
    /\ rs = "Draining" /\ count = total
    /\ queue' = SubSeq(queue, count + 1, Len(queue))
    /\ wake' = (wake \/ (queue' # <<>>))
    /\ rs' = "Checked"
    /\ UNCHANGED <<cfg, pc, issuedI, total, count, doneI, ranI>>

Block ==
    /\ rs = "Checked" /\ rs' = "Blocked"
    /\ UNCHANGED <<cfg, pc, issuedI, queue, total, count, wake, doneI, ranI>>

Wake ==
    /\ rs = "Blocked" /\ wake
    /\ wake' = FALSE /\ rs' = "Top"
    /\ UNCHANGED <<cfg, pc, issuedI, queue, total, count, doneI, ranI>>

Unrelated ==
    /\ rs = "Blocked" /\ ~wake
    /\ rs' = "Top"
    /\ UNCHANGED <<cfg, pc, issuedI, queue, total, count, wake, doneI, ranI>>

EnqueueStep == \E p \in PI : Enqueue(p)
WakeUpStep == \E p \in PI : WakeUp(p)
Reactor == Check \/ RunOne \/ DrainEnd \/ Block \/ Wake
INext == EnqueueStep \/ WakeUpStep \/ Check \/ RunOne \/ DrainEnd \/ Block \/ Wake \/ Unrelated

(* fairness: the reactor thread keeps running, a producer that appended goes on to wakeUp();
   nothing is assumed about when producers issue, nor about unrelated events *)
Fair == WF_ivars(Reactor) /\ \A p \in 1..3 : WF_ivars(p \in PI /\ WakeUp(p))

-----------------------------------------------------------------------------
(* safety, over the history *)
RI == 1..Len(ranI)
IExactlyOnce      == \A a, b \in RI : a # b => ranI[a] # ranI[b]
IPerProducerOrder == \A a, b \in RI : (a < b /\ ranI[a][1] = ranI[b][1]) => ranI[a][2] < ranI[b][2]
IOnlyIssued       == \A a \in RI : ranI[a][2] \in 1..issuedI[ranI[a][1]]
INoLoss           == \* every appended call is either run or still in the queue (beyond what this drain has run)
    \A p \in PI : \A i \in 1..issuedI[p] :
        \/ \E a \in RI : ranI[a] = <<p, i>>
        \/ \E k \in 1..Len(queue) : queue[k] = <<p, i>> /\ (rs = "Draining" => k > count)
ITypeOK == /\ rs \in {"Top", "Draining", "Checked", "Blocked"} /\ wake \in BOOLEAN
           /\ count <= total /\ (rs = "Draining" => total <= Len(queue))
IInv == IExactlyOnce /\ IPerProducerOrder /\ IOnlyIssued /\ INoLoss /\ ITypeOK

(* the sleeping reactor always has a wake-up pending when there is work: the waker's purpose *)
NoLostWakeup == (cfg.waker /\ rs = "Blocked" /\ queue # <<>>) => (wake \/ \E p \in PI : pc[p] = "appended")

(* liveness: every issued call eventually runs, without help from unrelated events *)
Live == \A p \in 1..3 : \A i \in 1..3 :
           (p \in PI /\ issuedI[p] >= i) ~> (p \in PI /\ doneI[p] >= i)

(* refinement: Impl implements the Abs layer (idle/latency are not modelled here) *)
Abs == INSTANCE ThreadCalls WITH cfg <- [n |-> cfg.n], issued <- issuedI, done <- doneI, idl <- {}
AbsSpec == Abs!InitWith([n |-> cfg.n]) /\ [][Abs!Next]_<<cfg.n, issuedI, doneI>>
=============================================================================
