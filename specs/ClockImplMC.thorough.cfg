SPECIFICATION Spec
CONSTANT MaxCalls = 4
CONSTANT Ds = {0, 1}
CONSTANT NegMax = 1
CONSTANT MaxNow = 2
CONSTANT Depth = 10
CONSTRAINT Bound
VIEW View
PROPERTY Refines
INVARIANT ListIsLive
INVARIANT SortedInLoop
INVARIANT DelayNonNeg
CHECK_DEADLOCK FALSE
