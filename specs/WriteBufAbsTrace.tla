--------------------------- MODULE WriteBufAbsTrace ---------------------------
(* Batched trace validation: every recorded execution of the real FileDescriptor (micro-events in
   program order) must be accepted by WriteBufAbs, every logged field matched: call names, sizes,
   nesting depth, results, and for every offer to the OS its position, length, contiguity and the
   accepted count.                                                                            *)
EXTENDS WriteBufAbs, TLC, Json, IOUtils

Traces == JsonDeserialize(IOEnv.TRACE_FILE)
VARIABLES tid, l
ASSUME \A t \in 1..Len(Traces) : TLCSet(t, 1)

T == Traces[tid]
E == T.ev[l]

TInit == /\ tid \in 1..Len(Traces) /\ l = 1
         /\ InitWith([bufferSize |-> Traces[tid].cfg.bufferSize])

Step(A) == /\ l <= Len(T.ev) /\ A /\ Inv' /\ l' = l + 1 /\ UNCHANGED tid
Call(A) == Step(A) /\ E.d = Len(stack)            \* logged nesting depth = the acceptor's

TNext == \/ (E.e = "write"    /\ Call(Write(E.n)))
         \/ (E.e = "writeseq" /\ Call(WriteSeq(E.ns)))
         \/ (E.e = "reg"      /\ Call(Reg(E.r)))
         \/ (E.e = "unreg"    /\ Call(Unreg))
         \/ (E.e = "lose"     /\ Call(Lose))
         \/ (E.e = "losew"    /\ Call(LoseW))
         \/ (E.e \in {"ppause", "presume"} /\ Call(Other(E.e)))
         \/ (E.e = "dowrite"  /\ Call(DoWrite))
         \/ (E.e = "lost"     /\ Call(Lost))
         \/ (E.e = "wsd"      /\ Step(Wsd(E.off, E.len, E.acc, E.contig)))
         \/ (E.e = "pause"    /\ Step(Pause))
         \/ (E.e = "resume"   /\ Step(Resume))
         \/ (E.e = "pstop"    /\ Step(PStop))
         \/ (E.e = "addw"     /\ Step(AddW))
         \/ (E.e = "rmw"      /\ Step(RmW))
         \/ (E.e = "wclose"   /\ Step(WClose))
         \/ (E.e = "closed"   /\ Step(Closed))
         \/ (E.e = "end"      /\ Step(End(E.of, E.r)) /\ E.d = Len(stack'))

TSpec == TInit /\ [][l <= Len(T.ev) /\ TNext]_<<vars, tid, l>>

Progress == TLCSet(tid, IF TLCGet(tid) > l THEN TLCGet(tid) ELSE l)
RejectedT == {<<t, TLCGet(t)>> : t \in {u \in 1..Len(Traces) : TLCGet(u) # Len(Traces[u].ev) + 1}}
Accepted == RejectedT = {} \/ (PrintT(<<"REJECTED", RejectedT>>) /\ FALSE)
=============================================================================
