SPECIFICATION Spec
CONSTANT CMin = 1
CONSTANT MaxCalls = 3
CONSTANT Ds = {0, 1}
CONSTANT NegMax = 1
CONSTANT MaxNow = 2
CONSTANT Depth = 7
CONSTRAINT Bound
VIEW View
PROPERTY Refines
INVARIANT HeapOrdered
INVARIANT NoDuplicates
INVARIANT LiveQueued
INVARIANT NoCalledQueued
INVARIANT DelayNonNeg
INVARIANT StagedOnlyBetween
CHECK_DEADLOCK FALSE
