SPECIFICATION Spec
CONSTRAINT DeepBound
VIEW View
INVARIANT Forest
INVARIANT RunConsistent
INVARIANT NoDouble
INVARIANT NameIndex
INVARIANT Watchers
PROPERTY StepInv
CHECK_DEADLOCK FALSE
