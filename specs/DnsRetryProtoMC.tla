--------------------------- MODULE DnsRetryProtoMC ---------------------------
EXTENDS DnsRetryProto
Init == InitWith([idmax |-> 3])
Spec == Init /\ [][Next]_vars
Sizes == Len(qs) <= 3 /\ now <= 6 /\ stops <= 1
Bound  == Sizes /\ TLCGet("level") <= 8
BoundT == Sizes /\ TLCGet("level") <= 12
View == <<cfg, now, qs, live, resends, timers, listening, stops>>
=============================================================================
