SPECIFICATION ASpec
INVARIANT ArgRoundTrip
INVARIANT CanonOK
INVARIANT RefusedOnlyIfUnfit
CHECK_DEADLOCK FALSE
