SPECIFICATION Spec
CONSTANT Configs <- ConfigsStale3
VIEW View
INVARIANT MutualExclusion
CHECK_DEADLOCK FALSE
