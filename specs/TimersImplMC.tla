---------------------------- MODULE TimersImplMC ----------------------------
(* TLC: the reactor algorithm (TimersImpl) refines the abstract timer semantics (TimersAbs). *)
EXTENDS TimersImpl, TLC
CONSTANTS MaxCalls, Ds, NegMax, MaxNow, Depth
NegDs == {0 - k : k \in 1..NegMax}

Init == \E n \in BOOLEAN : IInitWith([flavour |-> "reactor", neg |-> n])

NCallLater     == \E d \in Ds : ICallLater(d)
NCancelOk      == \E i \in 1..N : ICancelOk(i)
NCancelRefused == \E i \in 1..N : ICancelRefused(i)
NResetOk       == \E i \in 1..N, d \in Ds : IResetOk(i, d)
NResetRefused  == \E i \in 1..N : IResetRefused(i, 1)
NDelayOk       == \E i \in 1..N, d \in Ds \cup NegDs : IDelayOk(i, d)
NDelayRefused  == \E i \in 1..N : IDelayRefused(i, 1)
NGdc           == IGdc
NTimeout       == ITimeout
NAdvance       == \E d \in Ds : d > 0 /\ IAdvance(d)
NIterBegin     == IIterBegin
NLoopSkipCancelled == ILoopSkipCancelled
NLoopReactivate == ILoopReactivate
NLoopRun       == ILoopRun
NRunEnd        == IRunEnd
NIterEndCompact == IIterEndCompact
NIterEndPlain  == IIterEndPlain

Next == \/ NCallLater \/ NCancelOk \/ NCancelRefused \/ NResetOk \/ NResetRefused
        \/ NDelayOk \/ NDelayRefused \/ NGdc \/ NTimeout \/ NAdvance \/ NIterBegin
        \/ NLoopSkipCancelled \/ NLoopReactivate \/ NLoopRun \/ NRunEnd
        \/ NIterEndCompact \/ NIterEndPlain
Spec == Init /\ [][Next]_ivars

(* `last` (the observable outcome) is compared by Refines on every transition but kept out of the state identity *)
View == <<cfg, now, cs, heap, staged, ncanc, iter, pc, running>>
Bound == N <= MaxCalls /\ now <= MaxNow /\ TLCGet("level") <= Depth

(* refinement: every Impl step is a step of TimersAbs with the same observable outcome, or a stutter *)
A == INSTANCE TimersAbs
Refines == [][\/ UNCHANGED A!avars
              \/ (last'.e = "later"   /\ A!CallLater(last'.d))
              \/ (last'.e = "cancel"  /\ (A!CancelOk(last'.id) \/ A!CancelRefused(last'.id)))
              \/ (last'.e = "reset"   /\ (A!ResetOk(last'.id, last'.d) \/ A!ResetRefused(last'.id, last'.d)))
              \/ (last'.e = "delay"   /\ (A!DelayOk(last'.id, last'.d) \/ A!DelayRefused(last'.id, last'.d)))
              \/ (last'.e = "gdc"     /\ A!Gdc)
              \/ (last'.e = "timeout" /\ A!Timeout(last'.v, last'.none))
              \/ (last'.e = "adv"     /\ A!AdvanceReactor(last'.d))
              \/ (last'.e = "iter"    /\ A!IterBegin)
              \/ (last'.e = "run"     /\ A!RunBegin(last'.id))
              \/ (last'.e = "ret"     /\ A!RunEnd)
              \/ (last'.e = "iterend" /\ A!IterEnd)]_ivars
=============================================================================
