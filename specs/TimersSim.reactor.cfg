SPECIFICATION SSpec
CONSTANT Flavours = {"reactor"}
CONSTANT MaxCalls = 4
CONSTANT Ds = {0, 1, 2}
CONSTANT NegMax = 2
CONSTANT MaxNow = 6
CONSTANT Depth = 24
CONSTRAINT Emit
CONSTRAINT Stop
CHECK_DEADLOCK FALSE
