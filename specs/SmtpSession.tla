----------------------------- MODULE SmtpSession -----------------------------
(* Extension X12 -- twisted.mail.smtp.SMTP / ESMTP server: the command / envelope state machine.
   One connection.  HELO/EHLO, MAIL FROM, RCPT TO, DATA, RSET, QUIT, unknown/blank/over-long lines,
   the idle timeout, connection loss, with an IMessageDelivery whose validateFrom / validateTo
   accept, reject or answer later (a Deferred the environment fires), message factories that may
   refuse at DATA, IMessage objects that may refuse a line, and eomReceived that succeeds / fails
   now or later.  Body transparency (dot-unstuffing) is C40's and is not modelled: body lines are
   classes 1 = header-like (has ':'), 2 = text, 3 = empty, 4 = text that a "picky" message refuses;
   0 is the Received: line produced by IMessageDelivery.receivedHeader.

   Implementation-shaped.  Deliberate deviations from RFC 5321 4.1.4 that the code has (notes/X12.md):
     D1  MAIL is accepted without a preceding HELO/EHLO.
     D2  a validation answered later does not hold the command stream: following commands are
         processed and answered first, and the late answer is applied to whatever envelope exists
         then (a recipient accepted late joins the next transaction; a sender accepted late
         overwrites / resurrects the sender, also after RSET and in the middle of DATA).
     D3  the reply to the end of DATA is sent when every eomReceived Deferred has fired; commands
         received meanwhile are answered before it.
     D4  a message that saw a line refused (all messages of the transaction get connectionLost) gets
         connectionLost a second time if the connection drops / an over-long line arrives before '.'.
     D5  there is no NOOP/VRFY/HELP: they are answered 500 like any unknown word.               *)
EXTENDS Naturals, Integers, Sequences, FiniteSets

VARIABLES cfg,      \* [esmtp : BOOLEAN, mk : Seq(BOOLEAN) (factory of rcpt r refuses), eom : Seq({"ok","fail","later"}), picky : Seq(BOOLEAN)]
          conn,     \* "new" | "open" | "lost"
          closing,  \* the server asked the transport to close (QUIT, timeout): further lines are not read
          timer,    \* the idle timeout is armed
          helo,     \* 0 = none yet, else the id of the HELO/EHLO argument
          from,     \* 0 = no sender, else sender id
          to,       \* accepted recipients of the open envelope: Seq([r, o]) (o = sender when RCPT was given)
          mode,     \* "cmd" | "data"
          cur,      \* message ids receiving the body (mode = "data")
          failed,   \* a message refused a line of this body
          inhdr, inbody,
          msgs,     \* message id -> [r, s, o, tx, lines, eom, lost, dfail, batch]   (history of every IMessage made)
          pend,     \* Deferreds handed to the server, in creation order: [k : "from"|"to"|"eom", a, o, done]
          batches,  \* per finished DATA: [n, fails, wait]
          ntx,
          acc,      \* rcpt id -> number of times validateTo accepted it (observation)
          last      \* what the last step made observable
vars == <<cfg, conn, closing, timer, helo, from, to, mode, cur, failed, inhdr, inbody, msgs, pend, batches, ntx, acc, last>>
connV == <<conn, closing, timer>>
envV  == <<helo, from, to, acc>>
dataV == <<mode, cur, failed, inhdr, inbody>>
objV  == <<msgs, pend, batches, ntx>>

NRcpt == Len(cfg.eom)
HeloIds == 1..2
SenderIds == 0..2          \* 0 = a MAIL line that does not parse
RcptIds == 0..NRcpt        \* 0 = a RCPT line that does not parse
Verdicts == {"ok", "bad", "later"}
Range(s) == {s[i] : i \in 1..Len(s)}
R(code, tag, a, b) == <<code, tag, a, b>>
RECURSIVE CatN(_, _)
CatN(f, n) == IF n = 0 THEN <<>> ELSE CatN(f, n - 1) \o f[n]
FirstIdx(s, P(_)) == IF \E i \in 1..Len(s) : P(s[i])
                     THEN CHOOSE i \in 1..Len(s) : P(s[i]) /\ \A j \in 1..(i - 1) : ~P(s[j])
                     ELSE 0
Emit(kind, cmd, calls, out) == last' = [kind |-> kind, cmd |-> cmd, calls |-> calls, out |-> out]
DoneReply(n, f) == IF f = 0 THEN R(250, "delivered", 0, 0)
                   ELSE IF n > 1 THEN R(550, "undelivered", f, n) ELSE R(550, "undelivered", 0, 0)
LostCalls(ms) == [i \in 1..Len(ms) |-> <<"lost", ms[i], 0, 0, 0>>]
MarkLost(ms) == [m \in 1..Len(msgs) |-> IF m \in Range(ms) THEN [msgs[m] EXCEPT !.lost = @ + 1] ELSE msgs[m]]

InitWith(c) ==
    /\ cfg = c /\ conn = "new" /\ closing = FALSE /\ timer = FALSE
    /\ helo = 0 /\ from = 0 /\ to = <<>>
    /\ mode = "cmd" /\ cur = <<>> /\ failed = FALSE /\ inhdr = FALSE /\ inbody = FALSE
    /\ msgs = <<>> /\ pend = <<>> /\ batches = <<>> /\ ntx = 0
    /\ acc = [r \in 1..Len(c.eom) |-> 0]
    /\ last = [kind |-> "init", cmd |-> FALSE, calls |-> <<>>, out |-> <<>>]

(* makeConnection: the greeting *)
Connect ==
    /\ conn = "new" /\ conn' = "open" /\ timer' = TRUE
    /\ Emit("connect", TRUE, <<>>, <<R(220, "greet", 0, 0)>>)
    /\ UNCHANGED <<cfg, closing, envV, dataV, objV>>

Quiet == Emit("line", FALSE, <<>>, <<>>) /\ UNCHANGED <<cfg, connV, envV, dataV, objV>>
Simple(r) == Emit("line", TRUE, <<>>, <<r>>) /\ UNCHANGED <<cfg, connV, envV, dataV, objV>>
Unknown == Simple(R(500, "unknown", 0, 0))

(* one received line: ignored once the server is closing; a body line in DATA mode; else a command *)
Line(D, C) == IF closing THEN Quiet ELSE IF mode = "data" THEN D ELSE C
Open == conn = "open"

(* a body line of class c *)
DataLine(c) ==
    IF failed THEN Quiet
    ELSE LET first == ~inhdr /\ ~inbody
             blank == first /\ c \in {2, 4}         \* a separator is inserted before a body that starts without headers
             k     == IF c = 4 THEN FirstIdx(cur, LAMBDA m : cfg.picky[msgs[m].r]) ELSE 0
             recv  == IF k = 0 THEN cur ELSE SubSeq(cur, 1, k - 1)
             add(m) == (IF blank THEN <<3>> ELSE <<>>) \o (IF m \in Range(recv) THEN <<c>> ELSE <<>>)
             calls == (IF blank THEN [i \in 1..Len(cur) |-> <<"line", cur[i], 3, 0, 0>>] ELSE <<>>)
                      \o [i \in 1..Len(recv) |-> <<"line", recv[i], c, 0, 0>>]
                      \o (IF k # 0 THEN <<<<"line!", cur[k], c, 0, 0>>>> \o LostCalls(cur) ELSE <<>>)
         IN /\ inhdr' = (inhdr \/ (first /\ c = 1))
            /\ inbody' = (inbody \/ blank \/ c = 3)
            /\ failed' = (k # 0)
            /\ msgs' = [m \in 1..Len(msgs) |->
                          IF m \in Range(cur)
                          THEN [msgs[m] EXCEPT !.lines = @ \o add(m), !.lost = IF k # 0 THEN @ + 1 ELSE @, !.dfail = (k # 0)]
                          ELSE msgs[m]]
            /\ Emit("line", FALSE, calls, <<>>)
            /\ UNCHANGED <<cfg, connV, envV, mode, cur, pend, batches, ntx>>

(* "." in DATA mode: end of the body *)
DotData ==
    IF failed
    THEN /\ mode' = "cmd" /\ cur' = <<>> /\ failed' = FALSE
         /\ Emit("line", TRUE, <<>>, <<R(552, "poison", 0, 0)>>)
         /\ UNCHANGED <<cfg, connV, envV, inhdr, inbody, objV>>
    ELSE LET n == Len(cur)
             res(m) == cfg.eom[msgs[m].r]
             later == SelectSeq(cur, LAMBDA m : res(m) = "later")
             nf == Cardinality({i \in 1..n : res(cur[i]) = "fail"})
             b == Len(batches) + 1
         IN /\ mode' = "cmd" /\ cur' = <<>> /\ failed' = FALSE
            /\ msgs' = [m \in 1..Len(msgs) |-> IF m \in Range(cur) THEN [msgs[m] EXCEPT !.eom = @ + 1, !.batch = b] ELSE msgs[m]]
            /\ batches' = Append(batches, [n |-> n, fails |-> nf, wait |-> Range(later)])
            /\ pend' = pend \o [i \in 1..Len(later) |-> [k |-> "eom", a |-> later[i], o |-> 0, done |-> FALSE]]
            /\ Emit("line", TRUE, [i \in 1..n |-> <<"eom", cur[i], 0, 0, 0>>],
                    IF later = <<>> THEN <<DoneReply(n, nf)>> ELSE <<>>)
            /\ UNCHANGED <<cfg, connV, envV, inhdr, inbody, ntx>>

HeloCmd(h) ==
    /\ helo' = h /\ from' = 0 /\ to' = <<>>
    /\ Emit("line", TRUE, <<>>, <<R(250, "hello", 0, 0)>>)
    /\ UNCHANGED <<cfg, connV, acc, dataV, objV>>

MailCmd(s, v) ==
    IF from # 0 THEN Simple(R(503, "one-sender", 0, 0))
    ELSE /\ to' = <<>>                                            \* "clear old recipient list", before parsing
         /\ IF s = 0
              THEN Emit("line", TRUE, <<>>, <<R(501, "syntax", 0, 0)>>) /\ UNCHANGED <<from, pend>>
              ELSE LET call == <<<<"vfrom", s, helo, 0, 0>>>> IN
                   CASE v = "ok"    -> from' = s /\ UNCHANGED pend /\ Emit("line", TRUE, call, <<R(250, "sender-ok", 0, 0)>>)
                     [] v = "bad"   -> UNCHANGED <<from, pend>> /\ Emit("line", TRUE, call, <<R(550, "bad-sender", 0, 0)>>)
                     [] v = "later" -> /\ UNCHANGED from
                                       /\ pend' = Append(pend, [k |-> "from", a |-> s, o |-> 0, done |-> FALSE])
                                       /\ Emit("line", TRUE, call, <<>>)
         /\ UNCHANGED <<cfg, connV, helo, acc, dataV, msgs, batches, ntx>>

RcptCmd(r, v) ==
    IF from = 0 THEN Simple(R(503, "need-sender", 0, 0))
    ELSE IF r = 0 THEN Simple(R(501, "syntax", 0, 0))
    ELSE LET call == <<<<"vto", r, from, helo, 0>>>> IN
         /\ CASE v = "ok"    -> /\ to' = Append(to, [r |-> r, o |-> from]) /\ acc' = [acc EXCEPT ![r] = @ + 1]
                                /\ UNCHANGED pend /\ Emit("line", TRUE, call, <<R(250, "rcpt-ok", 0, 0)>>)
              [] v = "bad"   -> UNCHANGED <<to, acc, pend>> /\ Emit("line", TRUE, call, <<R(550, "bad-rcpt", 0, 0)>>)
              [] v = "later" -> /\ UNCHANGED <<to, acc>>
                                /\ pend' = Append(pend, [k |-> "to", a |-> r, o |-> from, done |-> FALSE])
                                /\ Emit("line", TRUE, call, <<>>)
         /\ UNCHANGED <<cfg, connV, helo, from, dataV, msgs, batches, ntx>>

(* DATA: needs a sender and at least one accepted recipient; the envelope is consumed; one IMessage per
   recipient is made (factory, then receivedHeader, then the Received line); a factory that refuses
   aborts the transaction: the messages already made are told connectionLost *)
DataCmd ==
    IF from = 0 \/ to = <<>> THEN Simple(R(503, "need-rcpt", 0, 0))
    ELSE LET k == FirstIdx(to, LAMBDA t : cfg.mk[t.r])
             made == IF k = 0 THEN to ELSE SubSeq(to, 1, k - 1)
             n == Len(made)
             base == Len(msgs)
             mids == [i \in 1..n |-> base + i]
             per == [i \in 1..n |-> << <<"mk", base + i, made[i].r, 0, 0>>,
                                      <<"hdr", from, helo, made[i].r, made[i].o>>,
                                      <<"line", base + i, 0, 0, 0>> >>]
             calls == CatN(per, n) \o (IF k # 0 THEN <<<<"mk!", 0, to[k].r, 0, 0>>>> \o LostCalls(mids) ELSE <<>>)
         IN /\ from' = 0 /\ to' = <<>> /\ failed' = FALSE /\ ntx' = ntx + 1
            /\ msgs' = msgs \o [i \in 1..n |-> [r |-> made[i].r, s |-> from, o |-> made[i].o, tx |-> ntx + 1, lines |-> <<0>>,
                                               eom |-> 0, lost |-> IF k # 0 THEN 1 ELSE 0, dfail |-> FALSE, batch |-> 0]]
            /\ IF k = 0
                 THEN /\ mode' = "data" /\ cur' = mids /\ inhdr' = FALSE /\ inbody' = FALSE
                      /\ Emit("line", TRUE, calls, <<R(354, "continue", 0, 0)>>)
                 ELSE /\ UNCHANGED <<mode, cur, inhdr, inbody>>
                      /\ Emit("line", TRUE, calls, <<R(452, "mkfail", 0, 0)>>)
            /\ UNCHANGED <<cfg, connV, helo, acc, pend, batches>>

RsetCmd ==
    /\ from' = 0 /\ to' = <<>>
    /\ Emit("line", TRUE, <<>>, <<R(250, "rset", 0, 0)>>)
    /\ UNCHANGED <<cfg, connV, helo, acc, dataV, objV>>

QuitCmd ==
    /\ closing' = TRUE
    /\ Emit("line", TRUE, <<>>, <<R(221, "bye", 0, 0)>>)
    /\ UNCHANGED <<cfg, conn, timer, envV, dataV, objV>>

(* a line longer than MAX_LENGTH: in DATA mode the transaction is aborted *)
LongData ==
    /\ mode' = "cmd" /\ cur' = <<>> /\ failed' = FALSE
    /\ msgs' = MarkLost(cur)
    /\ Emit("line", TRUE, LostCalls(cur), <<R(500, "toolong", 0, 0)>>)
    /\ UNCHANGED <<cfg, connV, envV, inhdr, inbody, pend, batches, ntx>>

\* the lines the harness sends, by the class they have when they arrive in DATA mode
Helo(h)    == Open /\ Line(DataLine(2), HeloCmd(h))
Ehlo(h)    == Open /\ Line(DataLine(2), IF cfg.esmtp THEN HeloCmd(h) ELSE Unknown)
Mail(s, v) == Open /\ Line(DataLine(IF s = 0 THEN 2 ELSE 1), MailCmd(s, v))
Rcpt(r, v) == Open /\ Line(DataLine(IF r = 0 THEN 2 ELSE 1), RcptCmd(r, v))
Data       == Open /\ Line(DataLine(2), DataCmd)
Rset       == Open /\ Line(DataLine(2), RsetCmd)
Quit       == Open /\ Line(DataLine(2), QuitCmd)
Dot        == Open /\ Line(DotData, Unknown)
Body(c)    == Open /\ Line(DataLine(c), IF c = 3 THEN Simple(R(500, "badsyntax", 0, 0)) ELSE Unknown)
Long       == Open /\ Line(LongData, Simple(R(500, "toolong", 0, 0)))

(* nothing arrives for a full timeout period *)
Idle ==
    /\ conn = "open"
    /\ IF timer THEN /\ closing' = TRUE /\ timer' = FALSE
                     /\ Emit("idle", TRUE, <<>>, <<R(421, "timeout", 0, 0)>>)
       ELSE UNCHANGED <<closing, timer>> /\ Emit("idle", FALSE, <<>>, <<>>)
    /\ UNCHANGED <<cfg, conn, envV, dataV, objV>>

(* the environment fires the i-th Deferred it handed out (D2, D3) *)
Fire(i, ok) ==
    /\ conn = "open" /\ i \in 1..Len(pend) /\ ~pend[i].done
    /\ LET p == pend[i] IN
       /\ pend' = [pend EXCEPT ![i].done = TRUE]
       /\ CASE p.k = "from" ->
                 /\ from' = IF ok THEN p.a ELSE from
                 /\ Emit("fire", FALSE, <<>>, <<IF ok THEN R(250, "sender-ok", 0, 0) ELSE R(550, "bad-sender", 0, 0)>>)
                 /\ UNCHANGED <<to, acc, batches>>
            [] p.k = "to" ->
                 /\ to' = IF ok THEN Append(to, [r |-> p.a, o |-> p.o]) ELSE to
                 /\ acc' = IF ok THEN [acc EXCEPT ![p.a] = @ + 1] ELSE acc
                 /\ Emit("fire", FALSE, <<>>, <<IF ok THEN R(250, "rcpt-ok", 0, 0) ELSE R(550, "bad-rcpt", 0, 0)>>)
                 /\ UNCHANGED <<from, batches>>
            [] p.k = "eom" ->
                 LET b == msgs[p.a].batch
                     w == batches[b].wait \ {p.a}
                     f == batches[b].fails + (IF ok THEN 0 ELSE 1)
                 IN /\ batches' = [batches EXCEPT ![b] = [@ EXCEPT !.wait = w, !.fails = f]]
                    /\ Emit("fire", FALSE, <<>>, IF w = {} THEN <<DoneReply(batches[b].n, f)>> ELSE <<>>)
                    /\ UNCHANGED <<from, to, acc>>
    /\ UNCHANGED <<cfg, connV, helo, dataV, msgs, ntx>>

(* the transport reports the connection gone: a message still receiving is told so *)
Lost ==
    /\ conn = "open" /\ conn' = "lost" /\ timer' = FALSE
    /\ IF mode = "data"
         THEN msgs' = MarkLost(cur) /\ cur' = <<>> /\ Emit("lost", FALSE, LostCalls(cur), <<>>)
         ELSE UNCHANGED <<msgs, cur>> /\ Emit("lost", FALSE, <<>>, <<>>)
    /\ UNCHANGED <<cfg, closing, envV, mode, failed, inhdr, inbody, pend, batches, ntx>>

Next == \/ Connect
        \/ \E h \in HeloIds : Helo(h)
        \/ \E h \in HeloIds : Ehlo(h)
        \/ \E s \in SenderIds, v \in Verdicts : Mail(s, v)
        \/ \E r \in RcptIds, v \in Verdicts : Rcpt(r, v)
        \/ Data \/ Rset \/ Quit \/ Dot
        \/ \E c \in 1..4 : Body(c)
        \/ Long \/ Idle
        \/ \E i \in 1..Len(pend), ok \in BOOLEAN : Fire(i, ok)
        \/ Lost
-----------------------------------------------------------------------------
M == 1..Len(msgs)
Live(m) == mode = "data" /\ conn = "open" /\ m \in Range(cur)
NoLate == \A i \in 1..Len(pend) : pend[i].k = "eom"        \* every validateFrom / validateTo answered at once
Owed == Cardinality({i \in 1..Len(pend) : ~pend[i].done /\ pend[i].k # "eom"})
        + Cardinality({b \in 1..Len(batches) : batches[b].wait # {}})

\* exactly one end: every IMessage gets at most one eomReceived, never both eomReceived and connectionLost,
\* connectionLost once (twice only in the D4 case)
EomOnce    == \A m \in M : msgs[m].eom <= 1
EomXorLost == \A m \in M : ~(msgs[m].eom = 1 /\ msgs[m].lost > 0)
LostOnce   == \A m \in M : msgs[m].lost <= (IF msgs[m].dfail THEN 2 ELSE 1)
\* no leak: an IMessage is receiving, or it was finished (eomReceived) or abandoned (connectionLost)
NoLeak     == \A m \in M : Live(m) \/ msgs[m].eom = 1 \/ msgs[m].lost >= 1
LiveClean  == (mode = "data" /\ conn = "open" /\ ~failed) => \A m \in Range(cur) : msgs[m].eom = 0 /\ msgs[m].lost = 0
DataShape  == mode = "data" /\ conn = "open" => cur # <<>>      \* DATA is entered only with >= 1 recipient
\* all recipients of one transaction see the same lines (unless a line was refused)
SameBody   == \A m1, m2 \in M : (msgs[m1].tx = msgs[m2].tx /\ ~msgs[m1].dfail /\ ~msgs[m2].dfail) => msgs[m1].lines = msgs[m2].lines
\* nothing is delivered for a recipient that was not accepted
OnlyAccepted == \A r \in 1..NRcpt :
                  Cardinality({m \in M : msgs[m].r = r}) + Cardinality({i \in 1..Len(to) : to[i].r = r}) <= acc[r]
\* with validators that answer at once the RFC ordering holds: recipients only under a sender, and the
\* sender a recipient was accepted under is the sender of the message it receives
SyncEnvelope == NoLate => ((to # <<>> => from # 0) /\ \A i \in 1..Len(to) : to[i].o = from)
SyncSender   == NoLate => \A m \in M : msgs[m].o = msgs[m].s
BatchShape   == \A b \in 1..Len(batches) : batches[b].n >= 1 /\ batches[b].fails + Cardinality(batches[b].wait) <= batches[b].n
Inv == EomOnce /\ EomXorLost /\ LostOnce /\ NoLeak /\ LiveClean /\ DataShape /\ SameBody /\ OnlyAccepted
       /\ SyncEnvelope /\ SyncSender /\ BatchShape

\* ---- step predicates (checked on every TLC transition and on every step of every real execution)
\* exactly one reply per command: a command is answered in its own step or owes exactly one later answer
ReplyStep == Len(last'.out) + Owed' - Owed = (IF last'.cmd THEN 1 ELSE 0)
\* lines reach only messages that are receiving; a finished / abandoned message is never touched again
LinesStep == \A m \in M : /\ msgs'[m].lines # msgs[m].lines => (Live(m) /\ msgs[m].eom = 0 /\ msgs[m].lost = 0)
                          /\ msgs[m].eom = 1 => msgs'[m] = msgs[m]
                          /\ msgs'[m].eom >= msgs[m].eom /\ msgs'[m].lost >= msgs[m].lost
\* messages are made only by a DATA that had a sender and recipients, one per recipient in order, and consume the envelope
MakeStep  == Len(msgs') > Len(msgs) =>
                /\ from # 0 /\ to # <<>> /\ from' = 0 /\ to' = <<>>
                /\ Len(msgs') - Len(msgs) <= Len(to)
                /\ \A i \in 1..(Len(msgs') - Len(msgs)) : msgs'[Len(msgs) + i].r = to[i].r /\ msgs'[Len(msgs) + i].s = from
\* after QUIT / timeout nothing that arrives has any effect
QuitStep  == (closing /\ last'.kind = "line") =>
                last'.calls = <<>> /\ last'.out = <<>> /\ UNCHANGED <<helo, from, to, mode, msgs, pend>>
\* outside DATA no line touches a message; only DATA makes one
CmdStep   == (mode = "cmd" /\ last'.kind = "line" /\ mode' = "cmd") => \A m \in M : msgs'[m] = msgs[m]
StepOK == ReplyStep /\ LinesStep /\ MakeStep /\ QuitStep /\ CmdStep
StepProp == [][StepOK]_vars
=============================================================================
