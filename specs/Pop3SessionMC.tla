---------------------------- MODULE Pop3SessionMC ----------------------------
EXTENDS Pop3Session, TLC
\* the same three messages the harness serves (harness/props/x13.py MSGS)
Catalog == << [size |-> 37, hl |-> 3, bl |-> 2, tail |-> FALSE],
              [size |-> 28, hl |-> 2, bl |-> 1, tail |-> TRUE],
              [size |-> 13, hl |-> 2, bl |-> 0, tail |-> FALSE] >>
CONSTANTS MaxN, MaxQ, MaxSess, MaxLater, Depth, Full
Idx == 0..(MaxN + 1)
\* quick alphabet: one representative per behaviour class; Full adds the remaining users / indexes / line counts
Core == {<<"USER", 1, -1>>, <<"PASS", 0, -1>>, <<"PASS", 1, -1>>, <<"APOP", 1, 1>>, <<"APOP", 3, 1>>, <<"APOP", 4, 1>>,
         <<"STAT", -1, -1>>, <<"LIST", -1, -1>>, <<"UIDL", -1, -1>>, <<"RSET", -1, -1>>, <<"LAST", -1, -1>>,
         <<"QUIT", -1, -1>>, <<"XYZZY", -1, -1>>, <<"DELE", -2, -1>>, <<"LIST", 1, -1>>, <<"UIDL", 1, -1>>, <<"TOP", 1, 1>>}
        \cup {<<nm, i, -1>> : nm \in {"RETR", "DELE"}, i \in Idx}
More == {<<"USER", 3, -1>>, <<"USER", 4, -1>>, <<"APOP", 2, 1>>, <<"NOOP", -1, -1>>}
        \cup {<<nm, i, -1>> : nm \in {"LIST", "UIDL"}, i \in Idx}
        \cup {<<"TOP", i, n>> : i \in 1..MaxN, n \in {0, 1}}
Cmds == IF Full THEN Core \cup More ELSE Core
\* Two starting points: a fresh protocol, and the state reached by  connect; USER good; PASS <right password>
\* (TLC reaches the very same state at level 4 from the fresh start; starting there as well buys three more levels
\* of TRANSACTION-state exploration for the same Depth).
LoggedIn == [S0 EXCEPT !.up = TRUE, !.cur = 1, !.nsess = 1, !.onLogout = 1]
Init == \E n \in 0..MaxN : /\ InitWith([msgs |-> SubSeq(Catalog, 1, n)]) \/ (cfg = [msgs |-> SubSeq(Catalog, 1, n)] /\ s = LoggedIn /\ last = [e |-> "init", cmd |-> NoCmd, obs |-> <<>>, exc |-> "", closing |-> FALSE])
LineAny == \E c \in Cmds : Line(c)
FireAny == \E k \in s.waiting, ok \in BOOLEAN : Fire(k, ok)
Next == Connect \/ LineAny \/ FireAny \/ Run \/ Lost
Spec == Init /\ [][Next]_vars
Bound == Len(s.q) <= MaxQ /\ s.nsess <= MaxSess /\ s.nlater <= MaxLater /\ TLCGet("level") <= Depth
View == <<cfg, s>>
Props == [][ActProps]_vars
=============================================================================
