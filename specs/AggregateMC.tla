----------------------------- MODULE AggregateMC -----------------------------
(* Exhaustive TLC run of Aggregate: every configuration, every n <= MaxN, every
   pre-fired subset, firing order, outcome assignment, canceller kind and every
   order in which the aggregate may cancel its inputs; cancel at every point. *)
EXTENDS Aggregate, TLC
CONSTANT MaxN

B == {TRUE, FALSE}
Cfgs == {[kind |-> "dlist", foc |-> a, foe |-> b, ce |-> c, n |-> m] : a \in B, b \in B, c \in B, m \in 1..MaxN}
        \cup {[kind |-> "gather", foc |-> FALSE, foe |-> TRUE, ce |-> c, n |-> m] : c \in B, m \in 1..MaxN}
        \cup {[kind |-> "race", foc |-> FALSE, foe |-> FALSE, ce |-> FALSE, n |-> m] : m \in 1..MaxN}
Init == \E c \in Cfgs : InitWith(c)

PermSeqs(S) == {f \in [1..Cardinality(S) -> S] : \A a, b \in 1..Cardinality(S) : a # b => f[a] # f[b]}
Total(S, kc) == [j \in Inputs |-> IF j \in S THEN kc[j] ELSE 0]

FireA == \E i \in Inputs, o \in {"ok", "err"} :
           LET S == CascadeSet(<<Firing(i, <<o, i>>, Direct)>>, built, FALSE) IN
           \E order \in PermSeqs(S), kc \in [S -> Kinds] : Fire(i, o, order, Total(S, kc))
CancelInputA == \E i \in Inputs, k \in Kinds :
           LET S == CascadeSet(<<CancelF(i, k)>>, built, FALSE) IN
           \E order \in PermSeqs(S), kc \in [S -> Kinds] : CancelInput(i, k, order, Total(S, kc))
CancelInputNoopA == \E i \in Inputs : CancelInputNoop(i)
ConstructA == LET S == CascadeSet(<<>>, TRUE, FALSE) IN
           \E order \in PermSeqs(S), kc \in [S -> Kinds] : Construct(order, Total(S, kc))
CancelAggA == LET S == CascadeSet(<<>>, TRUE, TRUE) IN
           \E order \in PermSeqs(S), kc \in [S -> Kinds] : CancelAgg(order, Total(S, kc))

Next == FireA \/ CancelInputA \/ CancelInputNoopA \/ ConstructA \/ CancelAggA
Spec == Init /\ [][Next]_vars

\* once fired the aggregate's result never changes (action property)
Stable == [][agg # NoAgg => agg' = agg]_vars

Bound == TLCGet("level") <= 2 * MaxN + 4
View == <<cfg, built, st, ord, agg, nAgg, aggCanc, wasCanc>>
=============================================================================
