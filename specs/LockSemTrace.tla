---------------------------- MODULE LockSemTrace ----------------------------
(* Batched trace validation: every recorded execution of the real DeferredLock /
   DeferredSemaphore must be a behaviour of LockSem, every logged field matching,
   every invariant of LockSem holding after every step.                        *)
EXTENDS LockSem, TLC, Json, IOUtils

Traces == JsonDeserialize(IOEnv.TRACE_FILE)
VARIABLES tid, l
ASSUME \A t \in 1..Len(Traces) : TLCSet(t, 1)

T == Traces[tid]
E == T.ev[l]

TInit == /\ tid \in 1..Len(Traces) /\ l = 1
         /\ InitWith([limit |-> Traces[tid].cfg.limit, lock |-> Traces[tid].cfg.lock])

\* every logged field is compared.  gr (grants seen during the call) is ordered; rr (results of
\* run() Deferreds / failures of acquisition Deferreds seen during the call) is compared as a set
\* without duplicates: the property does not order a run's result against the grants to later waiters.
SetOf(s) == {s[i] : i \in 1..Len(s)}
Matches == /\ last'.e = E.e /\ last'.a = E.a /\ last'.k = E.k /\ last'.oc = E.oc
           /\ last'.exc = E.exc
           /\ last'.gr = E.gr
           /\ last'.rr = SetOf(E.rr) /\ Len(E.rr) = Cardinality(last'.rr)
           /\ last'.nh = E.nh

Step(A) == /\ l <= Len(T.ev) /\ A /\ Matches /\ Inv' /\ l' = l + 1 /\ UNCHANGED tid

TNext == \/ (E.e = "acquire" /\ Step(AcqGrant("Plain") \/ AcqWait("Plain")))
         \/ (E.e = "run" /\ E.k \in RunKinds /\ Step(AcqGrant(E.k) \/ AcqWait(E.k)))
         \/ (E.e = "release" /\ Step(Release(E.a)))
         \/ (E.e = "fire" /\ Step(FireInner(E.a, E.oc)))
         \/ (E.e = "cancel" /\ Step(CancelPending(E.a) \/ CancelRunning(E.a) \/ CancelNoop(E.a)))

TSpec == TInit /\ [][l <= Len(T.ev) /\ TNext]_<<vars, tid, l>>

Progress == TLCSet(tid, IF TLCGet(tid) > l THEN TLCGet(tid) ELSE l)
Rejected == {<<t, TLCGet(t)>> : t \in {u \in 1..Len(Traces) : TLCGet(u) # Len(Traces[u].ev) + 1}}
Accepted == Rejected = {} \/ (PrintT(<<"REJECTED", Rejected>>) /\ FALSE)
=============================================================================
