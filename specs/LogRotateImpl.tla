---------------------------- MODULE LogRotateImpl ----------------------------
(* C53, Impl layer: twisted/python/logfile.py LogFile as coded, over FsModel.

     write(data):  if rotateLength and size >= rotateLength: rotate()
                   file.write(data);  size += len(data)        (len of the *argument*: characters for str)
     rotate():     for i in reversed(listLogs()):               (numeric suffixes > 0, descending)
                       remove path.i  if maxRotatedFiles is not None and i >= maxRotatedFiles
                       else rename path.i -> path.(i+1)
                   close; rename path -> path.1; open a new path ("wb+"); size = 0
     LogFile(..) / reopen():  open path (created when missing), size = its length in bytes

   Names are <<"log", i>>, i = 0 the current file.  A crash is enabled between any two
   file-system calls of rotate() (before the first, after the last).              *)
EXTENDS LogRotate, FsModel

VARIABLES dir, pc,
          size,     \* LogFile.size, the tracked length
          tszp,     \* len(data) of the running write
          todo,     \* suffixes still to shift/remove, descending
          didrot    \* the running write went through rotate()
implvars == <<dir, pc, size, tszp, todo, didrot>>
vars == <<cfg, rot, cur, written, szs, pend, mode, dirty, ncr, nre, ok, last, dir, pc, size, tszp, todo, didrot>>

Log(i) == <<"log", i>>
Fs(op, a, b, v, cls, good) == [e |-> "fs", op |-> op, a |-> a, b |-> b, v |-> v, cls |-> cls, ok |-> good]

ImplInitWith(c) ==
    /\ InitWith(c)
    /\ dir = FsCreate(FsEmptyDir, Log(0))         \* LogFile(...) on an empty directory creates the file
    /\ pc = "idle" /\ size = 0 /\ tszp = 0 /\ todo = <<>> /\ didrot = FALSE

RECURSIVE SortDesc(_)
SortDesc(S) == IF S = {} THEN <<>>
               ELSE LET m == CHOOSE x \in S : \A y \in S : y <= x IN <<m>> \o SortDesc(S \ {m})
Idx(d) == {n[2] : n \in DOMAIN d}
DirView(d) == LET s == SortDesc(Idx(d)) IN [i \in 1..Len(s) |-> <<s[i], FsIds(d[Log(s[i])])>>]
Bytes(d, n) == IF FsExists(d, n) THEN Size(FsIds(d[n])) ELSE 0

C == pend[2]

IWrite(c, sz, tsz) ==
    /\ pc = "idle" /\ AWrite(c, sz)
    /\ tszp' = tsz
    /\ IF L > 0 /\ size >= L
       THEN pc' = "rot" /\ todo' = SortDesc(Idx(dir) \ {0}) /\ didrot' = TRUE
       ELSE pc' = "data" /\ todo' = <<>> /\ didrot' = FALSE
    /\ UNCHANGED <<dir, size>>

RotStep ==
    /\ pc = "rot" /\ todo # <<>>
    /\ LET i == Head(todo) IN
         IF N > 0 /\ i >= N
         THEN /\ dir' = FsRemove(dir, Log(i))
              /\ last' = Fs("remove", Log(i), Log(i), 0, "", TRUE)
         ELSE /\ dir' = FsRename(dir, Log(i), Log(i + 1))
              /\ last' = Fs("rename", Log(i), Log(i + 1), 0, "", TRUE)
    /\ todo' = Tail(todo)
    /\ UNCHANGED <<cfg, rot, cur, written, szs, pend, mode, dirty, ncr, nre, ok, pc, size, tszp, didrot>>

RotMove ==
    /\ pc = "rot" /\ todo = <<>>
    /\ dir' = FsRename(dir, Log(0), Log(1))
    /\ pc' = "rot_open"
    /\ last' = Fs("rename", Log(0), Log(1), 0, "", TRUE)
    /\ UNCHANGED <<cfg, rot, cur, written, szs, pend, mode, dirty, ncr, nre, ok, size, tszp, todo, didrot>>

RotOpen ==
    /\ pc = "rot_open"
    /\ dir' = FsCreate(dir, Log(0))
    /\ size' = 0 /\ pc' = "data"
    /\ last' = Fs("open", Log(0), Log(0), 0, "", TRUE)
    /\ UNCHANGED <<cfg, rot, cur, written, szs, pend, mode, dirty, ncr, nre, ok, tszp, todo, didrot>>

Data ==
    /\ pc = "data"
    /\ dir' = FsWrite(dir, Log(0), C, "all")
    /\ size' = size + tszp /\ pc' = "ret"
    /\ last' = Fs("write", Log(0), Log(0), C, "all", TRUE)
    /\ UNCHANGED <<cfg, rot, cur, written, szs, pend, mode, dirty, ncr, nre, ok, tszp, todo, didrot>>

Ret == pc = "ret" /\ ARetOk /\ pc' = "idle" /\ UNCHANGED <<dir, size, tszp, todo, didrot>>

ICrash ==
    /\ pc \in {"rot", "rot_open"} \/ (pc = "data" /\ didrot)
    /\ ACrash /\ pc' = "down"
    /\ UNCHANGED <<dir, size, tszp, todo, didrot>>

(* the constructor of the next process creates the current file if the crash removed it ... *)
RestartCreate ==
    /\ pc = "down" /\ ~FsExists(dir, Log(0))
    /\ dir' = FsCreate(dir, Log(0))
    /\ last' = Fs("open", Log(0), Log(0), 0, "", TRUE)
    /\ UNCHANGED <<cfg, rot, cur, written, szs, pend, mode, dirty, ncr, nre, ok, pc, size, tszp, todo, didrot>>

(* ... and positions itself at its end *)
IRestart ==
    /\ pc = "down" /\ FsExists(dir, Log(0)) /\ ARestart
    /\ size' = Bytes(dir, Log(0)) /\ pc' = "idle"
    /\ UNCHANGED <<dir, tszp, todo, didrot>>

IReopen ==
    /\ pc = "idle" /\ AReopen
    /\ size' = Bytes(dir, Log(0))
    /\ UNCHANGED <<dir, pc, tszp, todo, didrot>>

IView == pc = "idle" /\ AView(DirView(dir)) /\ UNCHANGED implvars

IdleOk == pc = "idle" => Allowed(DirView(dir))
=============================================================================
