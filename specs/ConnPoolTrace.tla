---------------------------- MODULE ConnPoolTrace ----------------------------
EXTENDS ConnPool, TLC, Json, IOUtils
Traces == JsonDeserialize(IOEnv.TRACE_FILE)
VARIABLES tid, l
ASSUME \A t \in 1..Len(Traces) : TLCSet(t, 1)
T == Traces[tid]
E == T.ev[l]
TInit == tid \in 1..Len(Traces) /\ l = 1 /\ InitWith([max |-> Traces[tid].cfg.max, timeout |-> Traces[tid].cfg.timeout])
Step(A) == l <= Len(T.ev) /\ A /\ Inv' /\ last'.closed = E.closed /\ l' = l + 1 /\ UNCHANGED tid
TNext == \/ (E.e = "get" /\ Step(Get(E.k)) /\ last'.c = E.c /\ last'.new = E.new)
         \/ (E.e = "finish" /\ Step(Finish(E.c)))
         \/ (E.e = "finishclose" /\ Step(FinishClose(E.c)))
         \/ (E.e = "die" /\ Step(Die(E.c)))
         \/ (E.e = "advance" /\ Step(Advance(E.d)))
         \/ (E.e = "closeall" /\ Step(CloseAll))
TSpec == TInit /\ [][l <= Len(T.ev) /\ TNext]_<<vars, tid, l>>
Progress == TLCSet(tid, IF TLCGet(tid) > l THEN TLCGet(tid) ELSE l)
Rejected == {<<t, TLCGet(t)>> : t \in {u \in 1..Len(Traces) : TLCGet(u) # Len(Traces[u].ev) + 1}}
Accepted == Rejected = {} \/ (PrintT(<<"REJECTED", Rejected>>) /\ FALSE)
=============================================================================
