SPECIFICATION Spec
CONSTRAINT Bound
VIEW View
INVARIANT LimitRespected
INVARIANT CountExact
INVARIANT RegExact
INVARIANT TypSane
INVARIANT RelayOnce
INVARIANT OneChain
INVARIANT NoStuckPause
INVARIANT NoSpuriousThrottle
INVARIANT IdsSane
PROPERTY StepProp
CHECK_DEADLOCK FALSE
