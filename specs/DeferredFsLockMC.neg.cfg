SPECIFICATION Spec
CONSTRAINT Bound
VIEW View
PROPERTY NegProp
CHECK_DEADLOCK FALSE
