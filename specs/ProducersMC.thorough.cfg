SPECIFICATION Spec
CONSTANT MaxPlan = 4
CONSTANT MaxPc = 3
CONSTANT MaxStops = 3
CONSTANT Depth = 22
CONSTRAINT Bound
VIEW View
INVARIANT InOrderOnce
INVARIANT Complete
INVARIANT FireOnce
INVARIANT SchedExact
INVARIANT FileClosed
INVARIANT UnregOnce
INVARIANT StopForwarded
INVARIANT FailedMeansError
PROPERTY Quiet
PROPERTY Stable
PROPERTY Silent
CHECK_DEADLOCK FALSE
