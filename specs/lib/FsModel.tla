------------------------------- MODULE FsModel -------------------------------
(* Shared file-system model of the crash-consistency specifications (Pattern D:
   DirDbm, AtomicFile, LogRotate).

   A directory is a function   name -> content   whose DOMAIN is the set of the
   names that exist ("absent" = not in the domain; no sentinel value, so TLC never
   has to compare values of different types).  Names are whatever the client spec
   chooses (tuples such as <<key, "rpl">> or <<"log", 3>>), uniformly typed.

   A content is a sequence of pieces <<id, cls>>: `id` identifies the run of bytes
   handed to one write call, `cls` says how much of it reached the file:
       "all"   the complete run,
       "part"  a non-empty proper prefix of it (the process died inside the write),
   and a write in class "none" (died before the first byte) leaves the content as it
   was.  These are the three write granularities of DESIGN.md 1.3 Pattern D.

   Every operation is atomic and takes effect in program order: the model is a
   *process* crash (kill -9), not a power failure; nothing is reordered or lost by
   the file system itself.                                                       *)
EXTENDS Naturals, Sequences, FiniteSets

FsEmptyDir == <<>>                       \* the function with the empty domain

FsWriteClasses == {"none", "part", "all"}

FsExists(d, n) == n \in DOMAIN d

(* open(n, "w") : create, or truncate an existing file *)
FsCreate(d, n) == [x \in DOMAIN d \cup {n} |-> IF x = n THEN <<>> ELSE d[x]]

(* open(n, O_CREAT|O_EXCL) : only when the name is free *)
FsCanCreateExcl(d, n) == n \notin DOMAIN d

(* open(n, "a"/"r+") and create-if-missing without truncation *)
FsTouch(d, n) == IF n \in DOMAIN d THEN d ELSE FsCreate(d, n)

(* one write call of the byte run `id` at the end of file n *)
FsWrite(d, n, id, cls) ==
    IF cls = "none" THEN d ELSE [d EXCEPT ![n] = Append(@, <<id, cls>>)]

(* rename(a, b): atomic; replaces b when it exists (POSIX) *)
FsRename(d, a, b) ==
    IF a = b THEN d
    ELSE [x \in (DOMAIN d \ {a}) \cup {b} |-> IF x = b THEN d[a] ELSE d[x]]

FsRemove(d, a) == [x \in DOMAIN d \ {a} |-> d[x]]

(* glob: the existing names satisfying a predicate on names *)
FsGlob(d, P(_)) == {n \in DOMAIN d : P(n)}

(* a content all of whose pieces arrived completely *)
FsComplete(c) == \A i \in 1..Len(c) : c[i][2] = "all"

(* the ids of a content, in file order *)
FsIds(c) == [i \in 1..Len(c) |-> c[i][1]]
=============================================================================
