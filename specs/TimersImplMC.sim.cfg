SPECIFICATION Spec
CONSTANT CMin = 1
CONSTANT MaxCalls = 5
CONSTANT Ds = {0, 1, 2}
CONSTANT NegMax = 2
CONSTANT MaxNow = 8
CONSTANT Depth = 90
CONSTRAINT Bound
VIEW View
PROPERTY Refines
INVARIANT HeapOrdered
INVARIANT NoDuplicates
INVARIANT LiveQueued
INVARIANT NoCalledQueued
INVARIANT DelayNonNeg
INVARIANT StagedOnlyBetween
CHECK_DEADLOCK FALSE
