SPECIFICATION Spec
CONSTANT Budget = 4
CONSTANT MaxField = 2
CONSTANT NegControl = FALSE
CONSTANT Rich = FALSE
VIEW View
INVARIANT OracleAccepts
INVARIANT OracleRejects
INVARIANT Inv
CHECK_DEADLOCK FALSE
