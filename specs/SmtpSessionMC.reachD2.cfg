SPECIFICATION SpecDeep
CONSTANT MaxLevel = 9
CONSTANT Deep = TRUE
CONSTRAINT Bound
VIEW View
INVARIANT NoOrphanRcpt
CHECK_DEADLOCK FALSE
