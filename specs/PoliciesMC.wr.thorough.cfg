SPECIFICATION Spec
CONSTRAINT Bound
VIEW View
CONSTANT Configs <- ConfigsWr
CONSTANT Ops <- OpsWr
CONSTANT MSizes <- SizesWr
CONSTANT Depth <- DepthWrT
CONSTANT MaxConn <- MaxConnWrT
INVARIANT LimitRespected
INVARIANT CountExact
INVARIANT RegExact
INVARIANT TypSane
INVARIANT RelayOnce
INVARIANT OneChain
INVARIANT NoStuckPause
INVARIANT NoSpuriousThrottle
INVARIANT IdsSane
PROPERTY StepProp
CHECK_DEADLOCK FALSE
