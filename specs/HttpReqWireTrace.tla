-------------------------- MODULE HttpReqWireTrace --------------------------
(* Batched trace validation for C24: every recorded run of the real
   twisted.web._newclient.Request (header set built with the real Headers,
   Request(...), optional attribute assignment, writeTo(StringTransport), body
   producer writes, completion of the Deferred) must be a behaviour of HttpReqWire.
   Every event carries the octets that reached the transport during that call.   *)
EXTENDS HttpReqWire, TLC, Json, IOUtils

Traces == JsonDeserialize(IOEnv.TRACE_FILE)
VARIABLES tid, l
ASSUME \A t \in 1..Len(Traces) : TLCSet(t, 1)

T == Traces[tid]
E == T.ev[l]

TInit == /\ tid \in 1..Len(Traces) /\ l = 1
         /\ InitWith([persistent |-> Traces[tid].cfg.persistent])

Matches == last'.e = E.e /\ last'.res = E.res
\* Inv': its first conjunct is the guard of Done (not evaluated twice); the second is checked here
Step(A) == /\ l <= Len(T.ev) /\ A /\ Matches /\ (phase' = "refused" => wire' = <<>>) /\ l' = l + 1 /\ UNCHANGED tid

TNext == \/ (E.e = "hdr" /\ Step(AddHeaderOk(E.name, E.val, E.txt) \/ AddHeaderRefused(E.name, E.val, E.txt)))
         \/ (E.e = "construct" /\ Step(ConstructOk(E.method, E.target, E.body) \/ ConstructRefused(E.method, E.target, E.body)))
         \/ (E.e = "assign" /\ Step(Assign(E.method, E.target)))
         \/ (E.e = "writeTo" /\ \E o \in {E.out} : Step(WriteToOk(o) \/ WriteToRefused(o)))
         \/ (E.e = "produce" /\ \E o \in {E.out} : Step(Produce(E.data, o)))
         \/ (E.e = "done" /\ \E o \in {E.out} : Step(Done(o)))

TSpec == TInit /\ [][l <= Len(T.ev) /\ TNext]_<<vars, tid, l>>

Progress == TLCSet(tid, IF TLCGet(tid) > l THEN TLCGet(tid) ELSE l)
Rejected == {<<t, TLCGet(t)>> : t \in {u \in 1..Len(Traces) : TLCGet(u) # Len(Traces[u].ev) + 1}}
Accepted == Rejected = {} \/ (PrintT(<<"REJECTED", Rejected>>) /\ FALSE)
=============================================================================
