SPECIFICATION Spec
CONSTANT MaxOctets = 2
CONSTANT MaxItems = 2
CONSTANT MaxDepth = 1
CONSTANT MaxLists = 1
CONSTANT Stepwise = FALSE
INVARIANT RoundTrip
CONSTRAINT EmitSer
CHECK_DEADLOCK FALSE
