------------------------------- MODULE Reconnect -------------------------------
(* Extension X09 -- twisted.internet.protocol.ReconnectingClientFactory driving ONE real
   twisted.internet.base.BaseConnector on a stepped clock (task.Clock).

   The user starts a connector; whenever the attempt fails (refused, connector timeout) or an established
   connection is lost the factory schedules exactly one connector.connect() `delay` seconds later, where
   delay = min(previous * factor, maxDelay) (then optionally jittered), resetDelay() restarts the back-off,
   stopTrying() cancels the scheduled retry / stops the connecting connector and suppresses further retries,
   and after maxRetries consecutive retries the factory gives up.

   Times are integer seconds (factor is an integer; with jitter the harness supplies the random draw
   j so that normalvariate(mu, mu/2) = mu*(2+j)/2 is an integer).  A call scheduled while the clock is being
   advanced is relative to the END of the advance (task.Clock bumps its time before running calls).

   Deliberate, implementation-shaped deviations from what the docstrings suggest (see notes/X09.md, Oddities):
     D1  the first retry waits delay*factor, not initialDelay; before the first resetDelay() the back-off
         starts from the CLASS attribute delay = 1.0, whatever the instance's initialDelay is;
     D2  resetDelay() forgets the scheduled retry without cancelling it (the call is "orphaned"): it still fires,
         and a later stopTrying() cannot cancel it;
     D3  stopTrying() only stops a connector the factory has already seen fail/lose a connection (`known`);
         the very first attempt is not stopped;
     D4  jitter is applied AFTER clamping to maxDelay and feeds back into the next delay, so a jittered delay may
         exceed maxDelay;
     D5  the retry counter keeps counting after the factory gave up; only resetDelay() revives it.              *)
EXTENDS Naturals, Integers, Sequences, FiniteSets

None == -1
VARIABLES cfg,    \* [init, factor, maxd, maxr (None = unlimited), tmo (0 = connector has no timeout), jit (0/1)]
          now,
          conn,   \* connector state: "disconnected" | "connecting" | "connected"
          tmoAt,  \* deadline of the connector's own connection timeout, or None
          f,      \* factory: cont, known, retries, delay, rcalls (times of scheduled retry calls), tracked (the one
                  \*   stopTrying can cancel) + ghosts: sched (retries scheduled since last reset), lastDl, base, orphaned
          last    \* observation of the last step
vars == <<cfg, now, conn, tmoAt, f, last>>

Min(a, b) == IF a <= b THEN a ELSE b
RECURSIVE Asc(_)
Asc(S) == IF S = {} THEN <<>> ELSE LET m == CHOOSE x \in S : \A y \in S : x <= y IN <<m>> \o Asc(S \ {m})
TmoSet(tm) == IF tm = None THEN {} ELSE {tm}
Pend(rc, tm) == Asc(rc \cup TmoSet(tm))            \* every call scheduled on the clock
Obs(e, c, g, tm, nc, nr) == [e |-> e, conn |-> c, pend |-> Pend(g.rcalls, tm), nconn |-> nc, nrand |-> nr]
NewTmo(t) == IF cfg.tmo > 0 THEN t + cfg.tmo ELSE None

InitWith(c) ==
    /\ cfg = c /\ now = 0 /\ conn = "disconnected" /\ tmoAt = None
    /\ f = [cont |-> TRUE, known |-> FALSE, retries |-> 0, delay |-> 1 (* D1: class attribute *), rcalls |-> {},
            tracked |-> None, sched |-> 0, lastDl |-> 0, base |-> 1, orphaned |-> FALSE]
    /\ last = [e |-> "init"]

(* ---- the factory is told that the connector went down at clock time t; j is the jitter draw ---- *)
GiveUp(g) == cfg.maxr # None /\ g.retries + 1 > cfg.maxr
WillSched(g) == g.cont /\ ~GiveUp(g)
NRand(g) == IF WillSched(g) /\ cfg.jit = 1 THEN 1 ELSE 0
NextDelay(g, j) == LET mu == Min(g.delay * cfg.factor, cfg.maxd)
                   IN IF cfg.jit = 1 THEN (mu * (2 + j)) \div 2 (* D4 *) ELSE mu
Notify(g, t, j) ==
    IF ~g.cont THEN g
    ELSE IF GiveUp(g) THEN [g EXCEPT !.known = TRUE, !.retries = @ + 1 (* D5 *)]
    ELSE LET dl == NextDelay(g, j) IN
         [g EXCEPT !.known = TRUE, !.retries = @ + 1, !.delay = dl,
                   !.rcalls = @ \cup {t + dl}, !.tracked = t + dl, !.sched = @ + 1, !.lastDl = dl]
ResetF(g) == [g EXCEPT !.delay = cfg.init, !.retries = 0, !.tracked = None (* D2: not cancelled *), !.cont = TRUE,
                       !.sched = 0, !.lastDl = 0, !.base = cfg.init, !.orphaned = (g.rcalls # {})]

(* the user (reactor.connectTCP, or a manual restart) calls connector.connect(); only while no retry is scheduled *)
Start ==
    /\ conn = "disconnected" /\ f.rcalls = {}
    /\ conn' = "connecting" /\ tmoAt' = NewTmo(now)
    /\ last' = Obs("start", "connecting", f, tmoAt', 1, 0)
    /\ UNCHANGED <<cfg, now, f>>

(* the attempt is refused *)
Fail(j) ==
    /\ conn = "connecting"
    /\ conn' = "disconnected" /\ tmoAt' = None
    /\ f' = Notify(f, now, j)
    /\ last' = Obs("fail", "disconnected", f', None, 0, NRand(f))
    /\ UNCHANGED <<cfg, now>>

(* the attempt succeeds; r = 1: the protocol calls factory.resetDelay() from connectionMade *)
Made(r) ==
    /\ conn = "connecting"
    /\ conn' = "connected" /\ tmoAt' = None
    /\ f' = IF r = 1 THEN ResetF(f) ELSE f
    /\ last' = Obs("made", "connected", f', None, 0, 0)
    /\ UNCHANGED <<cfg, now>>

(* the established connection is lost *)
Lost(j) ==
    /\ conn = "connected"
    /\ conn' = "disconnected"
    /\ f' = Notify(f, now, j)
    /\ last' = Obs("lost", "disconnected", f', tmoAt, 0, NRand(f))
    /\ UNCHANGED <<cfg, now, tmoAt>>

(* resetDelay() at an arbitrary moment *)
Reset ==
    /\ f' = ResetF(f)
    /\ last' = Obs("reset", conn, f', tmoAt, 0, 0)
    /\ UNCHANGED <<cfg, now, conn, tmoAt>>

(* stopTrying(): cancel the tracked retry, stop a known connecting connector (which reports a failure that is ignored) *)
Stop ==
    LET rc == IF f.tracked = None THEN f.rcalls ELSE f.rcalls \ {f.tracked}
        halt == f.known (* D3 *) /\ conn = "connecting"
    IN
    /\ f' = [f EXCEPT !.rcalls = rc, !.tracked = None, !.cont = FALSE, !.orphaned = (@ /\ rc # {})]
    /\ conn' = IF halt THEN "disconnected" ELSE conn
    /\ tmoAt' = IF halt THEN None ELSE tmoAt
    /\ last' = Obs("stop", conn', f', tmoAt', 0, 0)
    /\ UNCHANGED <<cfg, now>>

(* clock.advance(d): at most one call is due (OnePending); a retry that fires calls connector.connect() exactly once *)
Advance(d, j) ==
    LET t == now + d
        dueT == tmoAt # None /\ tmoAt <= t
        dueR == {c \in f.rcalls : c <= t}
    IN
    /\ d \in Nat /\ now' = t
    /\ Cardinality(dueR) + (IF dueT THEN 1 ELSE 0) <= 1
    /\ IF dueT
         THEN /\ conn = "connecting"                    \* the connector's timeout: same as a refused attempt, at time t
              /\ conn' = "disconnected" /\ tmoAt' = None
              /\ f' = Notify(f, t, j)
              /\ last' = Obs("adv", "disconnected", f', None, 0, NRand(f))
         ELSE IF dueR # {}
         THEN /\ conn = "disconnected"                  \* otherwise connect() would raise out of the clock
              /\ conn' = "connecting" /\ tmoAt' = NewTmo(t)
              /\ f' = [f EXCEPT !.rcalls = @ \ dueR, !.tracked = None, !.orphaned = FALSE]
              /\ last' = Obs("adv", "connecting", f', tmoAt', 1, 0)
         ELSE /\ UNCHANGED <<conn, tmoAt, f>>
              /\ last' = Obs("adv", conn, f, tmoAt, 0, 0)
    /\ UNCHANGED cfg

JS == IF cfg.jit = 1 THEN {-1, 0, 1} ELSE {0}
DS == {0, 1, 2, 4, 8}
AJS == IF tmoAt # None THEN JS ELSE {0}          \* the draw only matters when the connector's timeout may fire
Next == \/ Start
        \/ \E j \in JS : Fail(j)
        \/ \E r \in {0, 1} : Made(r)
        \/ \E j \in JS : Lost(j)
        \/ Reset
        \/ Stop
        \/ \E d \in DS, j \in AJS : Advance(d, j)
-----------------------------------------------------------------------------
(* ---- what a user relies on ---- *)
\* at most one call (retry or connection timeout) is scheduled at any time
OnePending == Cardinality(f.rcalls) + Cardinality(TmoSet(tmoAt)) <= 1
\* a retry is only ever pending for a connector that is down, so the delayed connect() cannot raise; never overdue
RetryOnlyWhenDown == f.rcalls # {} => (conn = "disconnected" /\ \A c \in f.rcalls : c >= now)
TimeoutOnlyConnecting == tmoAt # None => (conn = "connecting" /\ tmoAt >= now)
\* after stopTrying() nothing is scheduled (except an orphan of resetDelay, D2)
StopHolds == (~f.cont /\ ~f.orphaned) => f.rcalls = {}
\* never more than maxRetries retries between two resetDelay() calls
RetriesBounded == cfg.maxr # None => f.sched <= cfg.maxr
\* what stopTrying can cancel is really scheduled
TrackedIsPending == f.tracked # None => f.tracked \in f.rcalls
Inv == OnePending /\ RetryOnlyWhenDown /\ TimeoutOnlyConnecting /\ StopHolds /\ RetriesBounded /\ TrackedIsPending

(* ---- step properties (conjoined primed into every trace step; PROPERTY [][StepOK]_vars in MC) ---- *)
Scheduled == f'.sched = f.sched + 1
StepOK ==
    \* a retry is scheduled only while the factory is (and stays) trying, by a step that took the connector down
    /\ Scheduled => (f.cont /\ f'.cont /\ conn # "disconnected" /\ conn' = "disconnected" /\ f'.rcalls \ f.rcalls # {})
    \* and a connector that goes down while the factory is trying and has retries left IS retried (exactly one new call)
    /\ (conn # "disconnected" /\ conn' = "disconnected" /\ f.cont /\ f'.cont /\ ~GiveUp(f))
           => (Scheduled /\ Cardinality(f'.rcalls \ f.rcalls) = 1)
    \* back-off law without jitter: min(previous * factor, maxDelay), starting from base * factor (D1); bounded by maxDelay
    /\ (Scheduled /\ cfg.jit = 0) =>
           /\ f'.lastDl <= cfg.maxd /\ f'.lastDl >= 1
           /\ f'.lastDl = Min((IF f.lastDl = 0 THEN f.base ELSE f.lastDl) * cfg.factor, cfg.maxd)
           /\ f'.rcalls \ f.rcalls = {now' + f'.lastDl}
    \* with jitter (|j| <= 2 sigma, sigma = mu/2) the delay stays within (0, 2*maxDelay] (D4)
    /\ (Scheduled /\ cfg.jit = 1) => (f'.lastDl >= 1 /\ f'.lastDl <= 2 * cfg.maxd)
    \* connect() is called exactly when the user starts the connector or a scheduled retry comes due, once
    /\ (last'.nconn = 1) <=> (conn = "disconnected" /\ conn' = "connecting")
    /\ (conn = "disconnected" /\ conn' = "connecting") =>
           (last'.e = "start" \/ (\E c \in f.rcalls : c <= now' /\ c \notin f'.rcalls))
    \* stopTrying() does not leave a connector it knows (D3) connecting, and while stopped the connector is
    \* connected again only by the user (or by an orphan of resetDelay, D2)
    /\ (last'.e = "stop" /\ f.known) => conn' # "connecting"
    /\ (~f.cont /\ conn = "disconnected" /\ conn' = "connecting") => (last'.e = "start" \/ f.orphaned)
    \* a scheduled call disappears only by firing at/after its time, or by stopTrying
    /\ \A c \in f.rcalls \ f'.rcalls : (c <= now' \/ last'.e = "stop")
    \* time never goes back
    /\ now' >= now
=============================================================================
