---------------------------- MODULE SshChanLifeMC ----------------------------
(* Exhaustive run.  MCNext is Next with the parameter sets narrowed (request kinds, calls that cannot have an
   effect are tried through loseConnection only) and the first openChannel fixed to side 1 when the two sides
   are configured alike (symmetry). *)
EXTENDS SshChanLife, TLC
Init == \E a \in {<<TRUE, TRUE>>, <<TRUE, FALSE>>, <<FALSE, FALSE>>} : InitWith([auto |-> a])
CONSTANTS MaxOpen, MaxReq, MaxLevel
Useful(s, c) == C(s, c).st = "open" /\ ~C(s, c).lc
MCReqs == {<<"ok", 1>>, <<"defer", 1>>, <<"no", 1>>, <<"none", 0>>}
MCEof(s, c) == Useful(s, c) /\ Eof(s, c)
MCWrite(s, c) == Useful(s, c) /\ Write(s, c)
MCRequest(s, c, kw) == Useful(s, c) /\ Request(s, c, kw[1], kw[2])
MCOpen(s, k) == ((cnt.open = 0 /\ cfg.auto[1] = cfg.auto[2]) => s = 1) /\ Open(s, k)
MCNext ==
    \/ \E s \in S, k \in {"ok", "bad"} : MCOpen(s, k)
    \/ \E s \in S : DeliverOpen(s)
    \/ \E s \in S : DeliverConf(s)
    \/ \E s \in S : DeliverFail(s)
    \/ \E s \in S : DeliverEofData(s)
    \/ \E s \in S : DeliverClose(s)
    \/ \E s \in S : DeliverReq(s)
    \/ \E s \in S : DeliverReply(s)
    \/ \E s \in S : \E c \in Ids(s) : MCEof(s, c)
    \/ \E s \in S : \E c \in Ids(s) : MCWrite(s, c)
    \/ \E s \in S : \E c \in Ids(s) : Close(s, c)
    \/ \E s \in S : \E c \in Ids(s) : \E kw \in MCReqs : MCRequest(s, c, kw)
    \/ \E s \in S : \E c \in Ids(s) : \E i \in 1..Len(C(s, c).pend), ok \in {0, 1} : Resolve(s, c, i, ok)
    \/ \E s \in S : Stop(s)
Spec == Init /\ [][MCNext]_vars
Bound == /\ cnt.open <= MaxOpen /\ cnt.eof <= 1 /\ cnt.wr <= 1 /\ cnt.req <= MaxReq
         /\ TLCGet("level") <= MaxLevel
View == <<cfg, ch, q, stopped, oorder, dfr, cnt>>
StepProp == [][StepOK]_vars
=============================================================================
