---------------------------- MODULE SshChanLifeMC ----------------------------
EXTENDS SshChanLife, TLC
Init == \E a \in {<<TRUE, TRUE>>, <<TRUE, FALSE>>, <<FALSE, FALSE>>} : InitWith([auto |-> a])
Spec == Init /\ [][Next]_vars
MaxOpen == 2
MaxLevel == 11
Bound == /\ cnt.open <= MaxOpen /\ cnt.eof <= 1 /\ cnt.wr <= 1 /\ cnt.req <= 2 /\ cnt.res <= 2
         /\ TLCGet("level") <= MaxLevel
View == <<cfg, ch, q, stopped, oorder, dfr, cnt>>
StepProp == [][StepOK]_vars
=============================================================================
