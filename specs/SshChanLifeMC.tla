---------------------------- MODULE SshChanLifeMC ----------------------------
(* Exhaustive run.  MCNext is Next with the parameter sets narrowed (request kinds, calls that cannot have an
   effect are tried through loseConnection only) and the first openChannel fixed to side 1 when the two sides
   are configured alike (symmetry). *)
EXTENDS SshChanLife, TLC
Init == \E a \in {<<TRUE, TRUE>>, <<TRUE, FALSE>>, <<FALSE, FALSE>>} : InitWith([auto |-> a])
MaxOpen == 2
MaxLevel == 8
Useful(s, c) == C(s, c).st = "open" /\ ~C(s, c).lc
MCReqs == {<<"ok", 1>>, <<"defer", 1>>, <<"no", 1>>, <<"none", 0>>}
MCNext ==
    \/ \E s \in S, k \in {"ok", "bad"} : ((cnt.open = 0 /\ cfg.auto[1] = cfg.auto[2]) => s = 1) /\ Open(s, k)
    \/ \E s \in S : DeliverOpen(s)
    \/ \E s \in S : DeliverConf(s)
    \/ \E s \in S : DeliverFail(s)
    \/ \E s \in S : DeliverEofData(s)
    \/ \E s \in S : DeliverClose(s)
    \/ \E s \in S : DeliverReq(s)
    \/ \E s \in S : DeliverReply(s)
    \/ \E s \in S : \E c \in Ids(s) : Useful(s, c) /\ Eof(s, c)
    \/ \E s \in S : \E c \in Ids(s) : Useful(s, c) /\ Write(s, c)
    \/ \E s \in S : \E c \in Ids(s) : Close(s, c)
    \/ \E s \in S : \E c \in Ids(s) : \E kw \in MCReqs : Useful(s, c) /\ Request(s, c, kw[1], kw[2])
    \/ \E s \in S : \E c \in Ids(s) : \E i \in 1..Len(C(s, c).pend), ok \in {0, 1} : Resolve(s, c, i, ok)
    \/ \E s \in S : Stop(s)
Spec == Init /\ [][MCNext]_vars
Bound == /\ cnt.open <= MaxOpen /\ cnt.eof <= 1 /\ cnt.wr <= 1 /\ cnt.req <= 2
         /\ TLCGet("level") <= MaxLevel
View == <<cfg, ch, q, stopped, oorder, dfr, cnt>>
StepProp == [][StepOK]_vars
=============================================================================
