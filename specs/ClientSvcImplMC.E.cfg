SPECIFICATION Spec
CONSTANT Depth = 3
CONSTANT Assume = {"C", "D"}
CONSTRAINT Bound
VIEW View
INVARIANT Accepted
CHECK_DEADLOCK FALSE
