SPECIFICATION Spec
CONSTRAINT Bound
VIEW View
INVARIANT Inv
CHECK_DEADLOCK FALSE
