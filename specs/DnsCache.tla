------------------------------- MODULE DnsCache -------------------------------
(* Extension X28 -- twisted.names.cache.CacheResolver on a controlled clock (task.Clock).

   A cache maps a query (name, type, IN) to a payload = <<answers, authority, additional>>, each a
   sequence of records [t |-> ttl, p |-> payload id, a |-> auth bit].  cacheResult(q, pl, cacheTime)
   stores the payload and schedules ONE expiry call min-TTL seconds from now; a lookup is answered
   from the cache with every TTL reduced by the age of the entry; re-caching replaces payload and
   expiry and cancels the previous expiry call; clearEntry(q) drops the entry.

   What a user relies on is stated twice: mechanically (cache + pending expiry calls, as coded) and
   declaratively in the ghost variable `want` (what was cached last, when, and until when it should
   be served).  The invariants say the two agree: never served late, never dropped early, payload is
   the latest one, at most one pending expiry call per cached query and none for absent ones.

   Implementation-shaped; deliberate deviations from the naive reading are marked DEVIATION.        *)
EXTENDS Naturals, Integers, Sequences, FiniteSets

VARIABLES now,
          cache,     \* q -> [on, when, cat, pl]  when = effective caching time, cat = instant of the call (ghost)
          timers,    \* pending expiry calls [q, at, tr], sorted by at (ties: scheduling order); tr = still tracked
          want,      \* q -> [on, when, cat, m, pl, adv]   ghost: the user's expectation
          cleared,   \* q -> number of user clearEntry calls whose orphaned expiry call may still be around
          last
vars == <<now, cache, timers, want, cleared, last>>

Q == 1..4                                  \* 2 names x {A, AAAA}
NoPl == <<<<>>, <<>>, <<>>>>
Off  == [on |-> FALSE, when |-> 0, cat |-> 0, pl |-> NoPl]
WOff == [on |-> FALSE, when |-> 0, cat |-> 0, m |-> 0, pl |-> NoPl, adv |-> FALSE]

Init == /\ now = 0
        /\ cache = [q \in Q |-> Off]
        /\ timers = <<>>
        /\ want = [q \in Q |-> WOff]
        /\ cleared = [q \in Q |-> 0]
        /\ last = [e |-> "init"]

-----------------------------------------------------------------------------
Recs(pl) == pl[1] \o pl[2] \o pl[3]
Min(S) == CHOOSE x \in S : \A y \in S : x <= y
MinTTL(pl) == LET r == Recs(pl) IN IF r = <<>> THEN 0 ELSE Min({r[i].t : i \in 1..Len(r)})

Ats(tm) == [i \in 1..Len(tm) |-> tm[i].at]                  \* observable: times of the reactor's pending calls
InsertSorted(tm, x) == LET k == Cardinality({i \in 1..Len(tm) : tm[i].at <= x.at})
                       IN SubSeq(tm, 1, k) \o <<x>> \o SubSeq(tm, k + 1, Len(tm))
RemoveTracked(tm, q) == SelectSeq(tm, LAMBDA x : ~(x.q = q /\ x.tr))
Untrack(tm, q) == [i \in 1..Len(tm) |-> IF tm[i].q = q THEN [tm[i] EXCEPT !.tr = FALSE] ELSE tm[i]]
TimersOf(q) == {i \in 1..Len(timers) : timers[i].q = q}
TrackedOf(q) == {i \in TimersOf(q) : timers[i].tr}

\* the user-visible predicate: would lookup(q) be answered from the cache right now?
\* (RRHeader refuses a negative TTL; the code turns that ValueError into a miss)
Fresh(pl, when, t) == \A i \in 1..Len(Recs(pl)) : Recs(pl)[i].t >= t - when
   \* (an EMPTY payload has no TTL to exhaust: it is served, as three empty sections, for as long as it is cached)
Hit(q) == cache[q].on /\ Fresh(cache[q].pl, cache[q].when, now)
\* ... and the declarative expectation: cached, the expiry instant cat+m not yet reached by an advance,
\* and no record's TTL exhausted relative to the effective caching time
Expected(q, t) == want[q].on /\ (t < want[q].cat + want[q].m \/ ~want[q].adv) /\ Fresh(want[q].pl, want[q].when, t)

Age(sec, diff) == [i \in 1..Len(sec) |-> [t |-> sec[i].t - diff, p |-> sec[i].p, a |-> FALSE]]
   \* DEVIATION: the served copy is built from (name, type, cls, ttl, payload) only - the auth bit is dropped
Served(q) == LET diff == now - cache[q].when  pl == cache[q].pl
             IN <<Age(pl[1], diff), Age(pl[2], diff), Age(pl[3], diff)>>

-----------------------------------------------------------------------------
(* cacheResult(query, payload, cacheTime); ct = -1 stands for None *)
CacheResult(q, pl, ct) ==
    LET when == IF ct <= 0 THEN now ELSE ct      \* DEVIATION: `cacheTime or seconds()` - cacheTime 0 means "now"
        m    == MinTTL(pl)                        \* empty payload: expiry 0 seconds from now
        tm1  == IF cache[q].on THEN RemoveTracked(timers, q) ELSE timers
                 \* the previous expiry call is cancelled only if the query is still cached;
                 \* orphans left by clearEntry stay (see ClearEntry)
    IN /\ q \in Q /\ ct <= now
       /\ cache' = [cache EXCEPT ![q] = [on |-> TRUE, when |-> when, cat |-> now, pl |-> pl]]
       /\ timers' = InsertSorted(tm1, [q |-> q, at |-> now + m, tr |-> TRUE])
                 \* DEVIATION: the expiry call is m seconds from NOW even when cacheTime lies in the past
       /\ want' = [want EXCEPT ![q] = [on |-> TRUE, when |-> when, cat |-> now, m |-> m, pl |-> pl, adv |-> FALSE]]
       /\ last' = [e |-> "cache", out |-> "ok", pend |-> Ats(timers')]
       /\ UNCHANGED <<now, cleared>>

(* lookupAddress / lookupIPV6Address / query(): answered from the cache, the cache is not changed *)
LookupHit(q) ==
    /\ Hit(q)
    /\ last' = [e |-> "lookup", res |-> "hit", recs |-> Served(q), pend |-> Ats(timers)]
    /\ UNCHANGED <<now, cache, timers, want, cleared>>
LookupMiss(q) ==
    /\ ~cache[q].on
    /\ last' = [e |-> "lookup", res |-> "miss", recs |-> NoPl, pend |-> Ats(timers)]
    /\ UNCHANGED <<now, cache, timers, want, cleared>>
(* cached but some TTL would be negative (only reachable with a cacheTime in the past): a miss *)
LookupStale(q) ==
    /\ cache[q].on /\ ~Hit(q)
    /\ last' = [e |-> "lookup", res |-> "miss", recs |-> NoPl, pend |-> Ats(timers)]
    /\ UNCHANGED <<now, cache, timers, want, cleared>>
(* lookupAllRecords never consults the cache *)
LookupAll(q) ==
    /\ last' = [e |-> "lookup", res |-> "miss", recs |-> NoPl, pend |-> Ats(timers)]
    /\ UNCHANGED <<now, cache, timers, want, cleared>>
Lookup(q, all) == q \in Q /\ IF all THEN LookupAll(q) ELSE (LookupHit(q) \/ LookupMiss(q) \/ LookupStale(q))

(* the user calls clearEntry(q) *)
ClearEntry(q) ==
    /\ q \in Q
    /\ IF cache[q].on
         THEN /\ cache' = [cache EXCEPT ![q] = Off]
              /\ timers' = Untrack(timers, q)
                    \* DEVIATION: clearEntry does not cancel the expiry call, which stays pending as an
                    \* orphan; when it fires it runs clearEntry(q) again (see Fire)
              /\ cleared' = [cleared EXCEPT ![q] = @ + 1]
              /\ want' = [want EXCEPT ![q] = WOff]
              /\ last' = [e |-> "clear", out |-> "ok", pend |-> Ats(timers')]
         ELSE /\ last' = [e |-> "clear", out |-> "KeyError", pend |-> Ats(timers)]
              /\ UNCHANGED <<cache, timers, cleared, want>>
    /\ UNCHANGED now

(* the reactor runs every expiry call due at time t, in time order.  An expiry call for q is clearEntry(q):
   it removes whatever entry q has now (DEVIATION: an orphan removes a NEWER entry before its time and
   orphans that entry's own expiry call in turn) or raises KeyError if there is none (counted in n). *)
RECURSIVE Fire(_, _, _, _)
Fire(c, tm, n, t) ==
    IF tm = <<>> \/ Head(tm).at > t THEN [c |-> c, tm |-> tm, n |-> n]
    ELSE LET q == Head(tm).q IN
         IF c[q].on THEN Fire([c EXCEPT ![q] = Off], Untrack(Tail(tm), q), n, t)
                    ELSE Fire(c, Tail(tm), n + 1, t)

Advance(d) ==
    /\ d \in Nat
    /\ now' = now + d
    /\ \E r \in {Fire(cache, timers, 0, now + d)} :
         /\ cache' = r.c
         /\ timers' = r.tm
         /\ last' = [e |-> "advance", errs |-> r.n, pend |-> Ats(r.tm)]
         /\ cleared' = [q \in Q |-> IF ~r.c[q].on /\ ~\E i \in 1..Len(r.tm) : r.tm[i].q = q THEN 0 ELSE cleared[q]]
    /\ want' = [q \in Q |-> IF Expected(q, now + d) /\ now + d < want[q].cat + want[q].m
                              THEN [want[q] EXCEPT !.adv = TRUE] ELSE WOff]

-----------------------------------------------------------------------------
(* What a user relies on *)
\* a lookup is never answered from an entry past its time ...
NeverLate  == \A q \in Q : Hit(q) => Expected(q, now)
\* ... and never refused before it (unless the user cleared q and the orphaned call is still around)
NeverEarly == \A q \in Q : (cleared[q] = 0 /\ Expected(q, now)) => Hit(q)
\* what is served is the payload cached last, aged from its caching time; TTLs served are never negative
Current    == \A q \in Q : Hit(q) => /\ cache[q].pl = want[q].pl /\ cache[q].when = want[q].when
                                      /\ \A s \in 1..3 : \A i \in 1..Len(Served(q)[s]) : Served(q)[s][i].t >= 0
\* no timer leak: one pending expiry call per cached query, none for absent ones; each user clearEntry
\* may leave at most one orphan behind
OneTimer   == \A q \in Q : /\ Cardinality(TimersOf(q)) <= (IF cache[q].on THEN 1 ELSE 0) + cleared[q]
                           /\ cleared[q] = 0 => Cardinality(TimersOf(q)) = (IF cache[q].on THEN 1 ELSE 0)
\* the expiry call of a cached query is the one scheduled by the latest cacheResult, min-TTL after that call
Tracked    == \A q \in Q : /\ Cardinality(TrackedOf(q)) = (IF cache[q].on THEN 1 ELSE 0)
                           /\ \A i \in TrackedOf(q) : timers[i].at = cache[q].cat + MinTTL(cache[q].pl)
\* the reactor owes nothing: no pending call is overdue
NoOverdue  == \A i \in 1..Len(timers) : timers[i].at >= now
Inv == NeverLate /\ NeverEarly /\ Current /\ OneTimer /\ Tracked /\ NoOverdue
=============================================================================
