---------------------------- MODULE ReactorLifeMC ----------------------------
EXTENDS ReactorLife, TLC
Spec == Init /\ [][Next]_vars
CONSTANTS MaxF, MaxNow, MaxStack, Depth
Bound == nf <= MaxF /\ now <= MaxNow /\ Len(stack) <= MaxStack /\ Len(trg.su.during) <= 3 /\ TLCGet("level") <= Depth
View == <<started, stopped, justStopped, startedBefore, running, trg, dls, fired, pend, newc, now, stack, mode, nf,
          fnk, ran, sdlog, sdMark, userCrash, suCrash>>
=============================================================================
