SPECIFICATION Spec
CONSTANT Depth = 8
CONSTRAINT Bound
VIEW View
INVARIANT ExactlyOnce
INVARIANT FifoOrder
INVARIANT NoLoss
INVARIANT NoCancelledDelivery
INVARIANT NoIdleWaiter
INVARIANT Bounds
CHECK_DEADLOCK FALSE
