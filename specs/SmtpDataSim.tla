----------------------------- MODULE SmtpDataSim -----------------------------
(* Behaviour generator (spec -> code) for SmtpData: TLC chooses the body symbol by symbol, the mode,
   the pipelined tail and the wire segmentation, and predicts what the message object sees.    *)
EXTENDS SmtpDataMC, Json
CONSTANT Depth
VARIABLE hist

SInit == Init /\ hist = <<>>
SNext == /\ Next
         /\ hist' = IF last' = last /\ draft' # draft THEN hist      \* choosing the body is not an observable step
                    ELSE Append(hist,
                          [e    |-> last'.e,
                           body |-> body',
                           wire |-> IF last'.e \in {"send", "inject"} THEN wire' ELSE <<>>,
                           k    |-> consumed' - consumed,
                           out  |-> IF last'.e = "deliver" THEN last'.out ELSE <<>>])
SSpec == SInit /\ [][SNext]_<<vars, draft, hist>>
EmitBeh == TLCGet("level") < Depth \/ PrintT(<<"BEH", ToJson([cfg |-> cfg, hist |-> hist])>>)
Stop == TLCGet("level") <= Depth
=============================================================================
