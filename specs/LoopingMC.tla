------------------------------ MODULE LoopingMC ------------------------------
(* Exhaustive TLC run of Looping: every configuration (interval 1..MaxIv, now flag,
   withCount, two start offsets) and every history of advances (sub-interval steps and
   jumps over several intervals), function behaviours, Deferred firings, stop, reset up
   to the horizon. *)
EXTENDS Looping, TLC
CONSTANTS MaxIv, Horizon, MaxD, MaxOps, T0s, Stricts

Init == \E iv \in 1..MaxIv, nf \in BOOLEAN, w \in BOOLEAN, s \in T0s, st \in Stricts :
            InitWith([iv |-> iv, nowFlag |-> nf, wc |-> w, t0 |-> s, strict |-> st])

NStartNow   == \E bh \in Behs : StartNow(bh)
NAdvCall    == \E d \in 1..MaxD, bh \in Behs, xc \in 0..1 : AdvanceCall(d, bh, xc)
NAdvQuiet   == \E d \in 1..MaxD : AdvanceQuiet(d)

Next == \/ NStartNow \/ StartLater \/ NAdvCall \/ NAdvQuiet
        \/ FireOk \/ FireFail
        \/ StopScheduled \/ StopInCall \/ StopNotRunning
        \/ ResetScheduled \/ ResetInCall \/ ResetNotRunning

Spec == Init /\ [][Next]_vars
Bound == now <= cfg.t0 + Horizon /\ TLCGet("level") <= MaxOps
View == <<cfg, now, run, inner, base, due, lastDone, missed, fuzzy, nreset, lc, ncalls, sumc, sd>>
=============================================================================
