SPECIFICATION Spec
CONSTRAINT BoundT
VIEW View
INVARIANT Gate530
INVARIANT Seq503
INVARIANT NoDtp503
INVARIANT AuthOnly
INVARIANT Accounting
INVARIANT OnePort
INVARIANT NoLeak
INVARIANT AcceptOnce
INVARIANT XferAttached
INVARIANT Waiting
INVARIANT LogoutOnce
INVARIANT PauseInv
PROPERTY Monotone
CHECK_DEADLOCK FALSE
