SPECIFICATION ISpec
CONSTANT MaxN = 2
CONSTRAINT Bound
VIEW IView
INVARIANT ImplRefines
INVARIANT ImplBook
INVARIANT FiresOnce
CHECK_DEADLOCK FALSE
