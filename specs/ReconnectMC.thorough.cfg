SPECIFICATION SpecT
CONSTRAINT BoundT
VIEW View
INVARIANT OnePending
INVARIANT RetryOnlyWhenDown
INVARIANT TimeoutOnlyConnecting
INVARIANT StopHolds
INVARIANT RetriesBounded
INVARIANT TrackedIsPending
PROPERTY StepProp
CHECK_DEADLOCK FALSE
