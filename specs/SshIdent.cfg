SPECIFICATION Spec
CONSTANT MaxBanners = 2
CONSTANT NPackets = 2
CONSTANT Fixed = FALSE
VIEW View
INVARIANT NoSpuriousDisconnect
INVARIANT SegInv
CHECK_DEADLOCK FALSE
