------------------------------- MODULE TcpStream -------------------------------
(* C15 -- one TCP connection between two protocols (side 1 = client, side 2 = server).

   "for any pattern of writes (including large ones and writeSequence) on a real loopback TCP
    connection followed by loseConnection, half-close or abortConnection, the peer receives exactly
    the bytes written, in order (a prefix of them after abortConnection).  Each protocol's
    connectionLost is called exactly once, with a clean ConnectionDone after an orderly close, and no
    data is delivered after it."

   Bytes are positions: the stream a side writes is a fixed function of the byte offset, so a
   delivery is described by (offset, length) and "exactly the bytes written, in order" is: every
   delivery starts where the previous one ended and stays within what was written.
   State = what the statement talks about.  Nothing is said about segmentation, timing, the reason
   reported after an abort, or what a side that closes the connection itself still receives.   *)
EXTENDS Naturals, Sequences, FiniteSets

VARIABLES cfg,     \* [hc |-> <<BOOLEAN, BOOLEAN>>] : side implements IHalfCloseableProtocol
          sent,    \* sent[s]  : bytes side s has written (write / writeSequence)
          rcvd,    \* rcvd[s]  : bytes delivered to side s's dataReceived (they come from the peer's stream)
          req,     \* req[s]   : "none" | "half" (loseWriteConnection) | "lose" (loseConnection) | "abort"
          lost,    \* lost[s]  : number of connectionLost calls on side s's protocol
          why,     \* why[s]   : class name of the reason of that call ("" before)
          rdl,     \* rdl[s]   : readConnectionLost was called on s
          wrl      \* wrl[s]   : writeConnectionLost was called on s

vars == <<cfg, sent, rcvd, req, lost, why, rdl, wrl>>

Sides == {1, 2}
Peer(s) == 3 - s
Orderly == \A t \in Sides : req[t] # "abort"       \* nobody asked for an abortive close (so far)

InitWith(c) ==
    /\ cfg = c
    /\ sent = <<0, 0>> /\ rcvd = <<0, 0>>
    /\ req = <<"none", "none">> /\ lost = <<0, 0>> /\ why = <<"", "">>
    /\ rdl = <<FALSE, FALSE>> /\ wrl = <<FALSE, FALSE>>

(* transport.write / writeSequence of n bytes in total, before any close request of that side *)
Write(s, n) ==
    /\ lost[s] = 0 /\ req[s] = "none"
    /\ sent' = [sent EXCEPT ![s] = @ + n]
    /\ UNCHANGED <<cfg, rcvd, req, lost, why, rdl, wrl>>

(* dataReceived on side s with len bytes which are the peer's stream from offset off *)
Recv(s, off, len) ==
    /\ lost[s] = 0                          \* no data after connectionLost
    /\ len >= 1
    /\ off = rcvd[s]                        \* in order, nothing skipped, nothing repeated
    /\ off + len <= sent[Peer(s)]           \* only bytes that were written
    /\ rcvd' = [rcvd EXCEPT ![s] = @ + len]
    /\ UNCHANGED <<cfg, sent, req, lost, why, rdl, wrl>>

(* loseWriteConnection / loseConnection / abortConnection *)
Req(s, k) ==
    /\ lost[s] = 0
    /\ \/ req[s] = "none" /\ k \in {"half", "lose", "abort"}
       \/ req[s] = "half" /\ k \in {"lose", "abort"}
       \/ req[s] = "lose" /\ k = "abort"
    /\ req' = [req EXCEPT ![s] = k]
    /\ UNCHANGED <<cfg, sent, rcvd, lost, why, rdl, wrl>>

(* IHalfCloseableProtocol.readConnectionLost: the peer closed its sending direction.  After an
   orderly close of that direction everything written has been delivered before. *)
ReadLost(s) ==
    /\ cfg.hc[s] /\ lost[s] = 0 /\ ~rdl[s]
    /\ req[Peer(s)] # "none"
    /\ (Orderly => rcvd[s] = sent[Peer(s)])
    /\ rdl' = [rdl EXCEPT ![s] = TRUE]
    /\ UNCHANGED <<cfg, sent, rcvd, req, lost, why, wrl>>

(* IHalfCloseableProtocol.writeConnectionLost after loseWriteConnection *)
WriteLost(s) ==
    /\ cfg.hc[s] /\ lost[s] = 0 /\ ~wrl[s]
    /\ req[s] = "half"
    /\ wrl' = [wrl EXCEPT ![s] = TRUE]
    /\ UNCHANGED <<cfg, sent, rcvd, req, lost, why, rdl>>

(* protocol.connectionLost(reason) on side s *)
ConnLost(s, r) ==
    /\ lost[s] = 0                                        \* exactly once: never a second time
    /\ (req[s] \in {"lose", "abort"} \/ req[Peer(s)] # "none")   \* somebody asked for it
    /\ (Orderly => r = "ConnectionDone")                  \* clean after an orderly close
    /\ ((Orderly /\ req[s] \in {"none", "half"}) => rcvd[s] = sent[Peer(s)])
           \* a side that did not close the connection itself loses it only after it has received
           \* everything the peer wrote before closing
    /\ lost' = [lost EXCEPT ![s] = 1]
    /\ why' = [why EXCEPT ![s] = r]
    /\ UNCHANGED <<cfg, sent, rcvd, req, rdl, wrl>>

(* end of the observation: both protocols have seen connectionLost (exactly once each) *)
Ended == lost = <<1, 1>>

Reasons == {"ConnectionDone", "ConnectionLost", "ConnectionAborted"}
NextWith(N) ==
    \/ \E s \in Sides, n \in N : Write(s, n)
    \/ \E s \in Sides, off \in N, len \in N : Recv(s, off, len)
    \/ \E s \in Sides, k \in {"half", "lose", "abort"} : Req(s, k)
    \/ \E s \in Sides : ReadLost(s)
    \/ \E s \in Sides : WriteLost(s)
    \/ \E s \in Sides, r \in Reasons : ConnLost(s, r)

-----------------------------------------------------------------------------
TypeOK == /\ \A s \in Sides : lost[s] \in {0, 1} /\ req[s] \in {"none", "half", "lose", "abort"}
Integrity == \A s \in Sides : rcvd[s] <= sent[Peer(s)]
LostHasReason == \A s \in Sides : (lost[s] = 1) = (why[s] # "")
Inv == TypeOK /\ Integrity /\ LostHasReason
=============================================================================
