-------------------------- MODULE HappyEyeballsTrace --------------------------
EXTENDS HappyEyeballs, TLC, Json, IOUtils
Traces == JsonDeserialize(IOEnv.TRACE_FILE)
VARIABLES tid, l
ASSUME \A t \in 1..Len(Traces) : TLCSet(t, 1)
T == Traces[tid]
E == T.ev[l]
TInit == tid \in 1..Len(Traces) /\ l = 1 /\ InitWith([n |-> Traces[tid].cfg.n, delay |-> Traces[tid].cfg.delay])
Step(A) == /\ l <= Len(T.ev) /\ A /\ Inv' /\ (res[1] # "none" => res' = res)
           /\ last'.started = E.started /\ last'.cancelled = E.cancelled /\ last'.res = E.res
           /\ l' = l + 1 /\ UNCHANGED tid
TNext == \/ (E.e = "connect" /\ Step(Connect))
         \/ (E.e = "advance" /\ Step(Advance(E.d)))
         \/ (E.e = "succeed" /\ Step(Succeed(E.i)))
         \/ (E.e = "fail" /\ Step(Fail(E.i)))
         \/ (E.e = "cancel" /\ Step(Cancel))
TSpec == TInit /\ [][l <= Len(T.ev) /\ TNext]_<<vars, tid, l>>
Progress == TLCSet(tid, IF TLCGet(tid) > l THEN TLCGet(tid) ELSE l)
Rejected == {<<t, TLCGet(t)>> : t \in {u \in 1..Len(Traces) : TLCGet(u) # Len(Traces[u].ev) + 1}}
Accepted == Rejected = {} \/ (PrintT(<<"REJECTED", Rejected>>) /\ FALSE)
=============================================================================
