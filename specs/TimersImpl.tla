------------------------------ MODULE TimersImpl ------------------------------
(* C08 -- the reactor's timed-call machinery as coded in ReactorBase / DelayedCall
   (src/twisted/internet/base.py), one action per public call or loop iteration:

     heap     _pendingTimedCalls : binary heap (heapq algorithms transcribed below) ordered by the
              *unadjusted* DelayedCall.time
     staged   _newTimedCalls     : calls created since the last timeout()/runUntilCurrent()
     ncanc    _cancellations     : lazy-deletion counter; compaction when > CMin and > len(heap) >> 1
     cs[i]    the DelayedCall    : time, dt (delayed_time), canc, called  (+ ghosts born, moved)

   TimersImplMC checks that this refines TimersAbs (every step is a TimersAbs step or changes nothing
   TimersAbs can see), i.e. the algorithm satisfies every clause of C08 for small bounds.            *)
EXTENDS Naturals, Integers, Sequences, FiniteSets

VARIABLES cfg, now, cs, heap, staged, ncanc, iter, pc, running, last
CONSTANT CMin           \* the compaction threshold (50 in the code)

ivars == <<cfg, now, cs, heap, staged, ncanc, iter, pc, running, last>>

N      == Len(cs)
Key(c) == [i \in 1..Len(c) |-> c[i].time]
SeqSet(s) == {s[k] : k \in 1..Len(s)}

---------------------------------------------------------------------------
(* heapq, transcribed (positions are 0-based as in the C/Python source; h[p + 1] is heap[p]) *)
RECURSIVE SiftDown(_, _, _, _, _)
SiftDown(h, K, item, startpos, pos) ==          \* heapq._siftdown
    IF pos > startpos
    THEN LET pp == (pos - 1) \div 2 IN
         IF K[item] < K[h[pp + 1]]
         THEN SiftDown([h EXCEPT ![pos + 1] = h[pp + 1]], K, item, startpos, pp)
         ELSE [h EXCEPT ![pos + 1] = item]
    ELSE [h EXCEPT ![pos + 1] = item]

RECURSIVE SiftUpLoop(_, _, _, _, _, _)
SiftUpLoop(h, K, item, pos, startpos, endpos) ==   \* heapq._siftup
    LET child == 2 * pos + 1 IN
    IF child < endpos
    THEN LET right == child + 1
             c == IF right < endpos /\ ~(K[h[child + 1]] < K[h[right + 1]]) THEN right ELSE child
         IN SiftUpLoop([h EXCEPT ![pos + 1] = h[c + 1]], K, item, c, startpos, endpos)
    ELSE SiftDown([h EXCEPT ![pos + 1] = item], K, item, startpos, pos)
SiftUp(h, K, pos) == SiftUpLoop(h, K, h[pos + 1], pos, pos, Len(h))

HeapPush(h, K, x) == SiftDown(Append(h, x), K, x, 0, Len(h))
PopItem(h) == h[1]                                  \* the item heappop returns (h non-empty)
PopRest(h, K) ==                                    \* the heap heappop leaves
    LET lastelt == h[Len(h)]
        rest == SubSeq(h, 1, Len(h) - 1)
    IN IF rest = <<>> THEN <<>> ELSE SiftUp([rest EXCEPT ![1] = lastelt], K, 0)

RECURSIVE HeapifyFrom(_, _, _)
HeapifyFrom(h, K, i) == IF i < 0 THEN h ELSE HeapifyFrom(SiftUp(h, K, i), K, i - 1)
Heapify(h, K) == HeapifyFrom(h, K, (Len(h) \div 2) - 1)

(* ReactorBase._moveCallLaterSooner *)
Index(h, x) == CHOOSE p \in 1..Len(h) : h[p] = x /\ \A q \in 1..(p - 1) : h[q] # x
RECURSIVE MoveLoop(_, _, _, _)
MoveLoop(h, K, elt, pos) ==
    IF pos # 0
    THEN LET parent == (pos - 1) \div 2 IN
         IF K[h[parent + 1]] <= K[elt]
         THEN [h EXCEPT ![pos + 1] = elt]
         ELSE MoveLoop([h EXCEPT ![pos + 1] = h[parent + 1]], K, elt, parent)
    ELSE [h EXCEPT ![pos + 1] = elt]
MoveSooner(h, K, x) == IF x \in SeqSet(h) THEN MoveLoop(h, K, x, Index(h, x) - 1) ELSE h

(* ReactorBase._insertNewDelayedCalls: fold over the staging list; st = [c, h, n] *)
RECURSIVE InsertNew(_, _)
InsertNew(st, s) ==
    IF s = <<>> THEN st
    ELSE LET x == Head(s) IN
         IF st.c[x].canc
         THEN InsertNew([st EXCEPT !.n = st.n - 1], Tail(s))
         ELSE LET c2 == [st.c EXCEPT ![x].time = st.c[x].time + st.c[x].dt, ![x].dt = 0]
              IN InsertNew([c |-> c2, h |-> HeapPush(st.h, Key(c2), x), n |-> st.n], Tail(s))
Inserted == InsertNew([c |-> cs, h |-> heap, n |-> ncanc], staged)

---------------------------------------------------------------------------
IInitWith(c) ==
    /\ cfg = c /\ now = 0 /\ cs = <<>> /\ heap = <<>> /\ staged = <<>> /\ ncanc = 0
    /\ iter = 0 /\ pc = "idle" /\ running = 0 /\ last = [e |-> "init"]

UserCtx == pc = "idle" \/ running # 0
Listed(h, s, c) == {x \in SeqSet(h) \cup SeqSet(s) : ~c[x].canc}     \* getDelayedCalls()

ICallLater(d) ==
    /\ UserCtx /\ d >= 0
    /\ cs' = Append(cs, [time |-> now + d, dt |-> 0, canc |-> FALSE, called |-> FALSE, born |-> iter, moved |-> FALSE])
    /\ staged' = Append(staged, N + 1)
    /\ last' = [e |-> "later", d |-> d, id |-> N + 1, t |-> now + d]
    /\ UNCHANGED <<cfg, now, heap, ncanc, iter, pc, running>>

Refused(i) == IF cs[i].canc THEN "AlreadyCancelled" ELSE "AlreadyCalled"
Live(i)    == ~cs[i].canc /\ ~cs[i].called

ICancelOk(i) ==
    /\ UserCtx /\ i \in 1..N /\ Live(i)
    /\ ncanc' = ncanc + 1
    /\ cs' = [cs EXCEPT ![i].canc = TRUE]
    /\ last' = [e |-> "cancel", id |-> i, res |-> "ok"]
    /\ UNCHANGED <<cfg, now, heap, staged, iter, pc, running>>
ICancelRefused(i) ==
    /\ UserCtx /\ i \in 1..N /\ ~Live(i)
    /\ last' = [e |-> "cancel", id |-> i, res |-> Refused(i)]
    /\ UNCHANGED <<cfg, now, cs, heap, staged, ncanc, iter, pc, running>>

IResetOk(i, d) ==
    /\ UserCtx /\ i \in 1..N /\ Live(i) /\ d >= 0
    /\ LET newTime == now + d IN
       IF newTime < cs[i].time
       THEN /\ cs' = [cs EXCEPT ![i].dt = 0, ![i].time = newTime, ![i].moved = TRUE]
            /\ heap' = MoveSooner(heap, Key(cs'), i)
       ELSE /\ cs' = [cs EXCEPT ![i].dt = newTime - cs[i].time, ![i].moved = TRUE]
            /\ heap' = heap
    /\ last' = [e |-> "reset", id |-> i, d |-> d, res |-> "ok", t |-> cs'[i].time + cs'[i].dt]
    /\ UNCHANGED <<cfg, now, staged, ncanc, iter, pc, running>>
IResetRefused(i, d) ==
    /\ UserCtx /\ i \in 1..N /\ ~Live(i)
    /\ last' = [e |-> "reset", id |-> i, d |-> d, res |-> Refused(i), t |-> 0]
    /\ UNCHANGED <<cfg, now, cs, heap, staged, ncanc, iter, pc, running>>

IDelayOk(i, d) ==
    /\ UserCtx /\ i \in 1..N /\ Live(i) /\ (d < 0 => cfg.neg)
    /\ LET nd == cs[i].dt + d IN
       IF nd < 0
       THEN /\ cs' = [cs EXCEPT ![i].time = cs[i].time + nd, ![i].dt = 0, ![i].moved = TRUE]
            /\ heap' = MoveSooner(heap, Key(cs'), i)
       ELSE /\ cs' = [cs EXCEPT ![i].dt = nd, ![i].moved = TRUE]
            /\ heap' = heap
    /\ last' = [e |-> "delay", id |-> i, d |-> d, res |-> "ok", t |-> cs'[i].time + cs'[i].dt]
    /\ UNCHANGED <<cfg, now, staged, ncanc, iter, pc, running>>
IDelayRefused(i, d) ==
    /\ UserCtx /\ i \in 1..N /\ ~Live(i)
    /\ last' = [e |-> "delay", id |-> i, d |-> d, res |-> Refused(i), t |-> 0]
    /\ UNCHANGED <<cfg, now, cs, heap, staged, ncanc, iter, pc, running>>

IGdc ==
    /\ UserCtx
    /\ last' = [e |-> "gdc", ids |-> Listed(heap, staged, cs)]
    /\ UNCHANGED <<cfg, now, cs, heap, staged, ncanc, iter, pc, running>>

(* timeout(): stage-in, then heap top's unadjusted time (cancelled or delayed entries included) *)
ITimeout ==
    /\ pc = "idle"
    /\ cs' = Inserted.c /\ heap' = Inserted.h /\ ncanc' = Inserted.n /\ staged' = <<>>
    /\ last' = IF heap' = <<>> THEN [e |-> "timeout", v |-> 0, none |-> TRUE]
               ELSE LET dl == cs'[heap'[1]].time - now IN
                    [e |-> "timeout", v |-> IF dl > 0 THEN dl ELSE 0, none |-> FALSE]
    /\ UNCHANGED <<cfg, now, iter, pc, running>>

IAdvance(d) ==
    /\ pc = "idle" /\ d >= 0
    /\ now' = now + d
    /\ last' = [e |-> "adv", d |-> d]
    /\ UNCHANGED <<cfg, cs, heap, staged, ncanc, iter, pc, running>>

(* runUntilCurrent(): stage-in, then the loop *)
IIterBegin ==
    /\ pc = "idle"
    /\ cs' = Inserted.c /\ heap' = Inserted.h /\ ncanc' = Inserted.n /\ staged' = <<>>
    /\ pc' = "loop" /\ iter' = iter + 1
    /\ last' = [e |-> "iter"]
    /\ UNCHANGED <<cfg, now, running>>

LoopOn == pc = "loop" /\ running = 0 /\ (IF heap = <<>> THEN FALSE ELSE cs[heap[1]].time <= now)
Top    == PopItem(heap)

ILoopSkipCancelled ==
    /\ LoopOn /\ cs[Top].canc
    /\ heap' = PopRest(heap, Key(cs)) /\ ncanc' = ncanc - 1
    /\ UNCHANGED <<cfg, now, cs, staged, iter, pc, running, last>>

ILoopReactivate ==          \* delayed_time > 0: activate_delay, push back
    /\ LoopOn /\ ~cs[Top].canc /\ cs[Top].dt > 0
    /\ cs' = [cs EXCEPT ![Top].time = cs[Top].time + cs[Top].dt, ![Top].dt = 0]
    /\ heap' = HeapPush(PopRest(heap, Key(cs)), Key(cs'), Top)
    /\ UNCHANGED <<cfg, now, staged, ncanc, iter, pc, running, last>>

ILoopRun ==
    /\ LoopOn /\ ~cs[Top].canc /\ cs[Top].dt <= 0
    /\ heap' = PopRest(heap, Key(cs))
    /\ cs' = [cs EXCEPT ![Top].called = TRUE]
    /\ running' = Top
    /\ last' = [e |-> "run", id |-> Top, now |-> now, gdc |-> Listed(heap', staged, cs')]
    /\ UNCHANGED <<cfg, now, staged, ncanc, iter, pc>>

IRunEnd ==
    /\ running # 0
    /\ running' = 0
    /\ last' = [e |-> "ret"]
    /\ UNCHANGED <<cfg, now, cs, heap, staged, ncanc, iter, pc>>

LoopOff == pc = "loop" /\ running = 0 /\ (IF heap = <<>> THEN TRUE ELSE cs[heap[1]].time > now)
Compact == ncanc > CMin /\ ncanc > Len(heap) \div 2

IIterEndCompact ==
    /\ LoopOff /\ Compact
    /\ ncanc' = 0
    /\ heap' = Heapify(SelectSeq(heap, LAMBDA x : ~cs[x].canc), Key(cs))
    /\ pc' = "idle"
    /\ last' = [e |-> "iterend"]
    /\ UNCHANGED <<cfg, now, cs, staged, iter, running>>

IIterEndPlain ==
    /\ LoopOff /\ ~Compact
    /\ pc' = "idle"
    /\ last' = [e |-> "iterend"]
    /\ UNCHANGED <<cfg, now, cs, heap, staged, ncanc, iter, running>>

---------------------------------------------------------------------------
(* what TimersAbs sees of this state *)
calls == [i \in 1..N |-> [t |-> cs[i].time + cs[i].dt,
                          st |-> IF cs[i].canc THEN "C" ELSE IF cs[i].called THEN "R" ELSE "P",
                          born |-> cs[i].born, moved |-> cs[i].moved]]
phase == IF pc = "idle" THEN "idle" ELSE "iter"

(* structural invariants of the data structure *)
HeapOrdered == \A p \in 2..Len(heap) : cs[heap[p \div 2]].time <= cs[heap[p]].time
NoDuplicates == /\ Cardinality(SeqSet(heap) \cup SeqSet(staged)) = Len(heap) + Len(staged)
LiveQueued  == \A i \in 1..N : Live(i) => i \in SeqSet(heap) \cup SeqSet(staged)
NoCalledQueued == \A x \in SeqSet(heap) \cup SeqSet(staged) : ~cs[x].called
DelayNonNeg == \A i \in 1..N : cs[i].dt >= 0
StagedOnlyBetween == pc = "loop" => \A x \in SeqSet(staged) : cs[x].born = iter
=============================================================================
