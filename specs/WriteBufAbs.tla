----------------------------- MODULE WriteBufAbs -----------------------------
(* C14 -- twisted.internet.abstract.FileDescriptor, write side: the PROPERTY, over what is observable.

   Bytes are positions in the stream of everything ever passed to write/writeSequence.  A write
   is ACCEPTED while the transport is connected and its write side has not been shut down;
   accepted bytes are the prefix [0, written) of that stream (once a write is refused all later
   ones are, because neither condition is ever undone).  The property:

     P1  every offer to the OS (writeSomeData) is the slice of the stream that starts at the first
         byte not yet handed over and lies inside the accepted bytes ("exactly the bytes written
         while connected, in order, each once"); nothing is offered after the connection is gone;
     P2  an orderly close (doWrite returning CONNECTION_DONE) happens only after loseConnection,
         when every accepted byte has been handed over, and not while a pull producer is
         registered; a write-side shutdown only when every accepted byte has been handed over;
     P3  after every write/writeSequence that buffered data while a streaming producer is registered: buffered
         (written - handed) > bufferSize => the producer is paused; a paused streaming producer is
         resumed by the doWrite that drains the buffer (it is never left paused on an empty
         buffer of a live connection), and it is not resumed while more than bufferSize is buffered;
     P4  (what "handed over" needs to ever happen) whenever control is back in the reactor, bytes
         still buffered on a live connection imply the descriptor is registered for writing.

   The module is an acceptor with one action per observable micro-event, in program order; calls are
   bracketed (begin .. End) and may nest (a producer's resumeProducing calling write, ...).  What
   the property does not constrain (how much is offered, when pauseProducing is called early,
   pull-producer resumes, writer registration beyond P4, the error path) is left free.          *)
EXTENDS Naturals, Integers, Sequences, FiniteSets

VARIABLES cfg,        \* [bufferSize |-> n]
          written,    \* accepted bytes
          handed,     \* bytes the OS accepted
          connected,  \* connectionLost has not begun
          wclosed,    \* write side shut down
          disc,       \* loseConnection requested
          wdisc,      \* loseWriteConnection requested
          prod,       \* "none" | "push" | "pull"
          paused,     \* the push producer was paused and not resumed since
          inW,        \* descriptor is in the reactor's writer set
          stack,      \* open calls, innermost last
          werr        \* the OS reported an error in the current doWrite

vars == <<cfg, written, handed, connected, wclosed, disc, wdisc, prod, paused, inW, stack, werr>>

InitWith(c) == /\ cfg = c /\ written = 0 /\ handed = 0 /\ connected = TRUE /\ wclosed = FALSE
               /\ disc = FALSE /\ wdisc = FALSE /\ prod = "none" /\ paused = FALSE /\ inW = FALSE
               /\ stack = <<>> /\ werr = FALSE

Top == IF stack = <<>> THEN "" ELSE stack[Len(stack)]
Push(x) == stack' = Append(stack, x)
Buffered == written - handed
Accepting == connected /\ ~wclosed
Sum(s) == LET F[i \in 0..Len(s)] == IF i = 0 THEN 0 ELSE F[i - 1] + s[i] IN F[Len(s)]

(* ---- calls ---- *)
Write(n) ==       \* write(data), len(data) = n
    /\ Push(IF Accepting /\ n > 0 THEN "write+" ELSE "write")       \* "+": the call buffered data
    /\ written' = IF Accepting THEN written + n ELSE written
    /\ UNCHANGED <<cfg, handed, connected, wclosed, disc, wdisc, prod, paused, inW, werr>>
WriteSeq(ns) ==   \* writeSequence(iovec)
    /\ Push(IF Accepting /\ Sum(ns) > 0 THEN "writeseq+" ELSE "writeseq")
    /\ written' = IF Accepting THEN written + Sum(ns) ELSE written
    /\ UNCHANGED <<cfg, handed, connected, wclosed, disc, wdisc, prod, paused, inW, werr>>
Reg(kind) ==      \* registerProducer: refused when one is registered; only told to stop when the connection is gone
    /\ Push(IF prod # "none" THEN "reg!" ELSE "reg")
    /\ prod' = IF prod = "none" /\ connected THEN kind ELSE prod
    /\ paused' = IF prod = "none" THEN FALSE ELSE paused
    /\ UNCHANGED <<cfg, written, handed, connected, wclosed, disc, wdisc, inW, werr>>
Unreg ==
    /\ Push("unreg") /\ prod' = "none" /\ paused' = FALSE
    /\ UNCHANGED <<cfg, written, handed, connected, wclosed, disc, wdisc, inW, werr>>
Lose ==           \* loseConnection
    /\ Push("lose")
    /\ disc' = (disc \/ (connected /\ ~wclosed))
    /\ UNCHANGED <<cfg, written, handed, connected, wclosed, wdisc, prod, paused, inW, werr>>
LoseW ==          \* loseWriteConnection
    /\ Push("losew") /\ wdisc' = TRUE
    /\ UNCHANGED <<cfg, written, handed, connected, wclosed, disc, prod, paused, inW, werr>>
Other(name) ==    \* pauseProducing / resumeProducing of the transport itself: read side only
    /\ name \in {"ppause", "presume"} /\ Push(name)
    /\ UNCHANGED <<cfg, written, handed, connected, wclosed, disc, wdisc, prod, paused, inW, werr>>
DoWrite ==        \* the reactor found the descriptor writable
    /\ stack = <<>> /\ inW /\ connected
    /\ Push("dowrite") /\ werr' = FALSE
    /\ UNCHANGED <<cfg, written, handed, connected, wclosed, disc, wdisc, prod, paused, inW>>
Lost ==           \* the reactor acts on a non-None doWrite result: connectionLost
    /\ stack = <<>> /\ connected
    /\ Push("lost") /\ connected' = FALSE
    /\ UNCHANGED <<cfg, written, handed, wclosed, disc, wdisc, prod, paused, inW, werr>>

(* ---- effects ---- *)
Wsd(off, len, acc, contig) ==                                                     \* P1
    /\ Top = "dowrite" /\ connected
    /\ contig /\ (len = 0 \/ off = handed) /\ handed + len <= written
    /\ acc \in (0 - 1)..len
    /\ handed' = IF acc > 0 THEN handed + acc ELSE handed
    /\ werr' = (werr \/ acc < 0)
    /\ UNCHANGED <<cfg, written, connected, wclosed, disc, wdisc, prod, paused, inW, stack>>
Pause ==
    /\ prod = "push" /\ stack # <<>> /\ paused' = TRUE
    /\ UNCHANGED <<cfg, written, handed, connected, wclosed, disc, wdisc, prod, inW, stack, werr>>
Resume ==                                                                         \* P3 (no resume above the limit)
    /\ prod # "none" /\ stack # <<>>
    /\ (prod = "push" => Buffered <= cfg.bufferSize)
    /\ paused' = FALSE
    /\ UNCHANGED <<cfg, written, handed, connected, wclosed, disc, wdisc, prod, inW, stack, werr>>
PStop ==          \* stopProducing: the connection is gone (or going, inside the loseConnection that closes at once)
    /\ stack # <<>> /\ (~connected \/ (Top = "lose" /\ wclosed /\ ~disc))
    /\ prod' = "none" /\ paused' = FALSE
    /\ UNCHANGED <<cfg, written, handed, connected, wclosed, disc, wdisc, inW, stack, werr>>
AddW == /\ ~inW /\ inW' = TRUE  /\ UNCHANGED <<cfg, written, handed, connected, wclosed, disc, wdisc, prod, paused, stack, werr>>
RmW  == /\ inW  /\ inW' = FALSE /\ UNCHANGED <<cfg, written, handed, connected, wclosed, disc, wdisc, prod, paused, stack, werr>>
WClose ==                                                                         \* P2 (half-close)
    /\ Top = "dowrite" /\ wdisc /\ connected /\ handed = written      \* (a repeated shutdown after a repeated request is not forbidden)
    /\ wclosed' = TRUE
    /\ UNCHANGED <<cfg, written, handed, connected, disc, wdisc, prod, paused, inW, stack, werr>>
Closed ==         \* connectionLost ran: by the reactor ("lost"), or by loseConnection itself once the write side is shut down
    /\ \/ Top = "lost"
       \/ (Top = "lose" /\ connected /\ wclosed /\ ~disc)
    /\ connected' = FALSE
    /\ UNCHANGED <<cfg, written, handed, wclosed, disc, wdisc, prod, paused, inW, stack, werr>>

(* ---- returns ---- *)
Quiet ==          \* control is back in the reactor (evaluated on the state after the return)
    /\ (connected' /\ written' > handed' => inW')                                  \* P4
    /\ ~(connected' /\ prod' = "push" /\ paused' /\ written' = handed')           \* P3 (resumed once drained)
End(of, r) ==
    /\ stack # <<>> /\ stack' = SubSeq(stack, 1, Len(stack) - 1)
    /\ CASE Top = "reg!"    -> of = "reg" /\ r = "EXC:RuntimeError"
         [] Top = "dowrite" -> /\ of = "dowrite" /\ r \in {"none", "done", "lost"}
                               /\ (r = "lost" => werr)
                               /\ (r = "done" => disc /\ handed = written /\ prod # "pull")   \* P2
         [] Top = "write+"  -> of = "write" /\ r = "ok"
         [] Top = "writeseq+" -> of = "writeseq" /\ r = "ok"
         [] OTHER           -> of = Top /\ r = "ok"
    /\ (Top \in {"write+", "writeseq+"} /\ prod = "push" /\ Buffered > cfg.bufferSize => paused)  \* P3
    /\ UNCHANGED <<cfg, written, handed, connected, wclosed, disc, wdisc, prod, paused, inW, werr>>
    /\ (Len(stack) = 1 => Quiet)

-----------------------------------------------------------------------------
(* State invariants: consequences of the above, checked by TLC on every reachable state of the
   acceptor (WriteBufAbsMC) and, primed, at every step of every real execution (WriteBufAbsTrace). *)
PrefixInv == 0 <= handed /\ handed <= written                    \* handed bytes are a prefix of the accepted ones
ProdInv   == paused => prod = "push"
CloseInv  == wclosed => wdisc
Inv == PrefixInv /\ ProdInv /\ CloseInv
=============================================================================
