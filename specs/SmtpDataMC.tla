----------------------------- MODULE SmtpDataMC -----------------------------
(* Exhaustive check of SmtpData: every body of up to MaxBody symbols over {DOT, COLON, X, LF}
   (so "", ".", "..", ".x", "x.", "a:b", blank lines ... all occur), with and without a Received:
   line, the reference stuffing, optionally a pipelined command after the terminator, and every
   segmentation of the wire.  `draft` is the body being chosen symbol by symbol.             *)
EXTENDS SmtpData, TLC
CONSTANT MaxBody
VARIABLE draft

Alphabet == {DOT, COLON, 120, LF}
Tails == {<<>>, RSET \o <<CR, LF>>, <<88, 89>> \o <<CR, LF>>, <<CR, LF>>}

Init == /\ \E m \in {"client", "server"}, r \in {<<>>, <<82, COLON>>} : InitWith([mode |-> m, rcvd |-> r])
        /\ draft = <<>>

Extend == /\ ~sent /\ Len(draft) < MaxBody
          /\ \E s \in Alphabet : draft' = Append(draft, s)
          /\ UNCHANGED vars
SendRef == /\ WellFormedBody(draft) /\ Send(draft, DataWire(draft)) /\ UNCHANGED draft
InjectRef == /\ WellFormedBody(draft) /\ \E tl \in Tails : Inject(draft, tl, DataWire(draft) \o tl)
             /\ UNCHANGED draft
DeliverK == (\E k \in 1..(Len(wire) - consumed) : Deliver(k)) /\ UNCHANGED draft
Finish == End /\ UNCHANGED draft

Next == Extend \/ SendRef \/ InjectRef \/ DeliverK \/ Finish
Spec == Init /\ [][Next]_<<vars, draft>>

\* vacuity: the interesting line shapes do occur
View == <<cfg, body, wire, sent, exp, consumed, mach, out, draft>>
=============================================================================
