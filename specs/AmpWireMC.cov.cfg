SPECIFICATION Spec
CONSTANT KeyLens = {0, 1}
CONSTANT ValLens = {0, 65536}
CONSTANT NonBytesVals <- NBQuick
CONSTANT Shapes <- ShapesQuick
VIEW View
INVARIANT RoundTrip
CHECK_DEADLOCK FALSE
INVARIANT NeverClosed
INVARIANT AllAtEnd
INVARIANT WireIsSer
