------------------------------ MODULE ThreadCalls ------------------------------
(* C13 -- IReactorFromThreads.callFromThread, Abs layer = the property, nothing more.

   "While a reactor runs, for any number of threads each issuing any sequence of
    callFromThread calls, every call runs exactly once, in the reactor thread, and
    the calls issued by any one thread run in the order issued.  A call issued
    while the reactor is idle is run promptly rather than waiting for an
    unrelated event."

   Producers are numbered 1..Len(cfg.n); producer p issues cfg.n[p] calls, numbered
   1..cfg.n[p] in issue order (identity kept, payload abstracted).  The state is
   what the statement talks about: how many calls each producer has issued, how many
   of them have run.  Nothing is said about the order of calls of different
   producers: Run(p, ...) is enabled for every producer that has an issued call
   which has not run yet.

   idle / lat:  a call is "issued while the reactor is idle" when every call
   issued before it has already run (the reactor has nothing left to do: it is
   blocked in, or about to enter, its event wait).  Latency is measured in units
   of the promptness bound; lat = 0 means "ran within one bound".             *)
EXTENDS Naturals, Sequences, FiniteSets

VARIABLES cfg,      \* [n |-> <<n_1, ..., n_P>>]
          issued,   \* issued[p] : number of callFromThread calls producer p has made
          done,     \* done[p]   : number of p's calls that have run
          idl       \* set of <<p, i>> : calls issued while the reactor was idle and not run yet

vars == <<cfg, issued, done, idl>>

P == 1..Len(cfg.n)
Threads == {"R", "T"}        \* R = the thread that called reactor.run(), T = any other thread

RECURSIVE SumTo(_, _)
SumTo(s, k) == IF k = 0 THEN 0 ELSE s[k] + SumTo(s, k - 1)
Sum(s) == SumTo(s, Len(s))
Outstanding == Sum(issued) - Sum(done)

InitWith(c) ==
    /\ cfg = c
    /\ issued = [p \in 1..Len(c.n) |-> 0]
    /\ done = [p \in 1..Len(c.n) |-> 0]
    /\ idl = {}

(* producer p's next callFromThread call; idle = "nothing issued earlier is still waiting" *)
Issue(p, idle) ==
    /\ p \in P /\ issued[p] < cfg.n[p]
    /\ idle \in BOOLEAN
    /\ idle => Outstanding = 0
    /\ issued' = [issued EXCEPT ![p] = @ + 1]
    /\ idl' = IF idle THEN idl \cup {<<p, issued[p] + 1>>} ELSE idl
    /\ UNCHANGED <<cfg, done>>

(* call number i of producer p is executed by thread thr, lat promptness-bounds after it was issued.
   exactly once + per-thread order : only the oldest not-yet-run call of p may run, and only once issued;
   in the reactor thread           : thr = "R";
   promptly when idle              : an idle-issued call runs within the bound. *)
Run(p, i, thr, lat) ==
    /\ p \in P
    /\ i = done[p] + 1
    /\ i <= issued[p]
    /\ thr = "R"
    /\ (<<p, i>> \in idl => lat = 0)
    /\ done' = [done EXCEPT ![p] = i]
    /\ idl' = idl \ {<<p, i>>}
    /\ UNCHANGED <<cfg, issued>>

MaxLat == 2
Next == \/ \E p \in P, idle \in BOOLEAN : Issue(p, idle)
        \/ \E p \in P : \E i \in 1..cfg.n[p], thr \in Threads, lat \in 0..MaxLat : Run(p, i, thr, lat)

(* every issued call has run: the condition at the end of an execution (reactor stopped after
   all producers finished and a grace period of several promptness bounds elapsed) *)
Quiescent == \A p \in P : done[p] = issued[p] /\ issued[p] = cfg.n[p]

-----------------------------------------------------------------------------
Bounds == /\ \A p \in P : done[p] <= issued[p] /\ issued[p] <= cfg.n[p]
          /\ \A x \in idl : x[1] \in P /\ done[x[1]] < x[2] /\ x[2] <= issued[x[1]]
Inv == Bounds
=============================================================================
