SPECIFICATION Spec
CONSTANT MaxLen = 2
CONSTANT MaxAvail = 2
CONSTANT Mode = "fifo"
CONSTANT MaxMsgs = 2
CONSTANT Kinds = {"msg"}
INVARIANT QueueOK
INVARIANT QueueSafe
CHECK_DEADLOCK FALSE
