--------------------------- MODULE DeferredFsLockMC ---------------------------
EXTENDS DeferredFsLock, TLC
Init == \E iv \in {1, 2} : InitWith([iv |-> iv])
Spec == Init /\ [][Next]_vars
Bound == now <= 8 /\ TLCGet("level") <= 10
BoundT == now <= 12 /\ TLCGet("level") <= 14
View == core
\* negative control (DeferredFsLockMC.neg.cfg): FALSE in the model (CancelAcquire, O5); TLC must report it, which shows that
\* step properties reading last' are evaluated although the VIEW hides `last`
NegProp == [][(dst' = "ok" /\ (dst # "ok" \/ Fresh)) => last'.e # "cancel"]_vars
=============================================================================
