------------------------------- MODULE LogObs -------------------------------
(* C57 -- twisted.logger: LogPublisher, LogLevelFilterPredicate (FilteringLogObserver),
   LimitedHistoryLogObserver.  Three independent components in one module; an execution
   may exercise any of them.

   PUBLISHER.  Observers are numbered in creation order; obs is the registration order of
   the currently registered ones.  A kind says how an observer behaves when called:
       "ok"       returns            "raise"    raises on every event it is given
       "raiseEv"  raises on published events but accepts failure reports
       "rmself"   a one-shot observer: removes itself from the publisher (removeObserver)
                  whenever it is given a published event, and returns
   One publish call is observed as the sequence dl of deliveries it made, each
       [o |-> observer, k |-> "ev" (the published event) | "rep" (a failure report),
        ev |-> id of the published event, about |-> index in dl of the raising delivery the
        report is about (0 for "ev"), bo |-> the observer the report names (0 for "ev"),
        raised |-> whether the observer raised on it].
   The property (ValidDelivery) fixes: the published event goes to every registered
   observer exactly once in registration order whatever raises; every raising delivery is
   reported exactly once to every other observer, naming the culprit, in registration
   order.  "Every registered observer" means registered when the publish call starts; an
   observer that removes itself while being given the event leaves the registration
   afterwards (whether it still gets failure reports of that call is left free).  It does not fix *when* reports are made relative to other deliveries, nor
   whether a failure that occurred while delivering a report is also reported to the
   observers whose own failure that report was about: both are left free.
   ImplDelivery is the sequence the code's algorithm produces (walk the live observer list
   by position, then for each broken observer publish a report through a new publisher
   holding the others, recursively); LogObsMC checks whether it always satisfies
   ValidDelivery (invariant ImplRefines).

   FILTER.  Namespaces are sequences of segments; the configuration maps namespaces to
   levels (1..5 = debug..critical), <<>> being the root ("" namespace, the default).
   An event with a non-empty namespace passes iff its level is at least the level
   configured for the longest configured prefix of its namespace.

   BUFFER.  A limited-history observer of size cfg.size (None = unbounded) replays the
   last cfg.size events it was given, in order.                                       *)
EXTENDS Naturals, Integers, Sequences, FiniteSets

None == -1

VARIABLES cfg,     \* [default |-> 1..5, size |-> None | 0..]
          obs,     \* registered observers, registration order
          okind,   \* okind[o] : kind of observer o (sequence over 1..nO)
          nO,      \* observers created
          nEv,     \* events published
          seen,    \* seen[o] : published events observer o received, in order
          due,     \* due[o]  : events published while o was registered, in order
          flt,     \* filter configuration: function from namespaces (sequences) to levels; <<>> always present
          buf,     \* content of the history buffer (event ids)
          nBuf,    \* events given to the buffer
          last     \* observable outcome of the last call

vars == <<cfg, obs, okind, nO, nEv, seen, due, flt, buf, nBuf, last>>

OKinds == {"ok", "raise", "raiseEv", "rmself"}
Levels == 1..5

InitWith(c) ==
    /\ cfg = c
    /\ obs = <<>> /\ okind = <<>> /\ nO = 0 /\ nEv = 0 /\ seen = <<>> /\ due = <<>>
    /\ flt = [x \in {<<>>} |-> c.default]
    /\ buf = <<>> /\ nBuf = 0
    /\ last = [e |-> "init"]

Range(s) == {s[i] : i \in 1..Len(s)}
Without(s, x) == SelectSeq(s, LAMBDA y : y # x)
Pos(s, x) == CHOOSE i \in 1..Len(s) : s[i] = x
Max(S) == CHOOSE x \in S : \A y \in S : y <= x

-----------------------------------------------------------------------------
(* PUBLISHER *)
Raises(kd, k) == kd = "raise" \/ (kd = "raiseEv" /\ k = "ev")

\* addObserver of a new observer of kind kd, or of an existing one (registered: no change)
AddObs(o, kd) ==
    /\ \/ (o = nO + 1 /\ kd \in OKinds)
       \/ (o \in 1..nO /\ kd = okind[o])
    /\ nO' = IF o = nO + 1 THEN nO + 1 ELSE nO
    /\ okind' = IF o = nO + 1 THEN Append(okind, kd) ELSE okind
    /\ seen' = IF o = nO + 1 THEN Append(seen, <<>>) ELSE seen
    /\ due' = IF o = nO + 1 THEN Append(due, <<>>) ELSE due
    /\ obs' = IF o \in Range(obs) THEN obs ELSE Append(obs, o)
    /\ last' = [e |-> "addobs", o |-> o, kd |-> kd, res |-> "ok"]
    /\ UNCHANGED <<cfg, nEv, flt, buf, nBuf>>

\* removeObserver (of an unregistered observer: no change)
RemoveObs(o) ==
    /\ o \in 1..nO
    /\ obs' = Without(obs, o)
    /\ last' = [e |-> "rmobs", o |-> o, res |-> "ok"]
    /\ UNCHANGED <<cfg, okind, nO, nEv, seen, due, flt, buf, nBuf>>

RECURSIVE Culprits(_, _)
Culprits(dl, j) == {dl[j].o} \cup (IF dl[j].k = "rep" THEN Culprits(dl, dl[j].about) ELSE {})

\* observers that removed themselves during the call that made deliveries dl
Leaves(O, kinds, dl) == {o \in Range(O) : kinds[o] = "rmself" /\ \E i \in 1..Len(dl) : dl[i].o = o /\ dl[i].k = "ev"}

ValidDelivery(O, kinds, evid, dl) ==
    LET N == Len(dl)
        origIdx == {i \in 1..N : dl[i].k = "ev"}
        orig == SelectSeq(dl, LAMBDA r : r.k = "ev")
        RepsAbout(j) == {i \in 1..N : dl[i].k = "rep" /\ dl[i].about = j}
    IN
    /\ \A i \in 1..N : /\ dl[i].o \in Range(O)
                       /\ dl[i].ev = evid
                       /\ dl[i].k \in {"ev", "rep"}
                       /\ dl[i].raised = Raises(kinds[dl[i].o], dl[i].k)     \* observers behave as their kind says
    \* the event: every registered observer, once, in registration order, whatever raised
    /\ Len(orig) = Len(O)
    /\ \A i \in 1..Len(O) : orig[i].o = O[i] /\ orig[i].about = 0 /\ orig[i].bo = 0
    \* a report is about an earlier raising delivery, names its culprit, and is not given to the culprit
    /\ \A i \in 1..N : dl[i].k = "rep" =>
           /\ dl[i].about \in 1..(i - 1)
           /\ dl[dl[i].about].raised
           /\ dl[i].bo = dl[dl[i].about].o
           /\ dl[i].o # dl[i].bo
    \* every failure is reported exactly once to every other observer, in registration order
    /\ \A j \in 1..N : dl[j].raised =>
           /\ \A o \in Range(O) :
                 LET c == Cardinality({i \in RepsAbout(j) : dl[i].o = o})
                 IN IF o = dl[j].o THEN c = 0
                    ELSE IF o \in Culprits(dl, j) \/ kinds[o] = "rmself" THEN c <= 1
                    ELSE c = 1
           /\ \A i1, i2 \in RepsAbout(j) : i1 < i2 => Pos(O, dl[i1].o) < Pos(O, dl[i2].o)
    /\ \A j \in 1..N : ~dl[j].raised => RepsAbout(j) = {}

\* publisher(event): observed as the delivery sequence dl
Publish(dl) ==
    /\ ValidDelivery(obs, okind, nEv + 1, dl)
    /\ nEv' = nEv + 1
    /\ seen' = [o \in 1..nO |-> seen[o] \o SelectSeq([i \in 1..Len(dl) |-> IF dl[i].k = "ev" /\ dl[i].o = o THEN dl[i].ev ELSE 0],
                                                     LAMBDA x : x # 0)]
    /\ due' = [o \in 1..nO |-> IF o \in Range(obs) THEN Append(due[o], nEv + 1) ELSE due[o]]
    /\ obs' = SelectSeq(obs, LAMBDA o : o \notin Leaves(obs, okind, dl))
    /\ last' = [e |-> "publish", ev |-> nEv + 1, res |-> "ok", dl |-> dl]
    /\ UNCHANGED <<cfg, okind, nO, flt, buf, nBuf>>

(* The algorithm of LogPublisher.__call__ as coded: `for observer in self._observers` walks
   the live list by position (a list that shrinks under the walk shifts its tail left); every
   raising observer is remembered; afterwards, for each of them, a report is published
   through a new publisher holding the observers then registered except that one. *)
RECURSIVE ImplPass(_, _, _, _, _, _, _, _)
RECURSIVE ImplPub(_, _, _, _, _, _)
RECURSIVE ImplReports(_, _, _, _, _)
ImplPass(L, i, kinds, evid, k, src, acc, broken) ==      \* src = <<about, bo>>; broken = <<index in acc, observer>>...
    IF i > Len(L) THEN [acc |-> acc, broken |-> broken, L |-> L]
    ELSE LET o == L[i]
             acc2 == Append(acc, [o |-> o, k |-> k, ev |-> evid, about |-> src[1], bo |-> src[2],
                                  raised |-> Raises(kinds[o], k)])
         IN ImplPass(IF kinds[o] = "rmself" /\ k = "ev" THEN Without(L, o) ELSE L, i + 1, kinds, evid, k, src, acc2,
                     IF Raises(kinds[o], k) THEN Append(broken, <<Len(acc2), o>>) ELSE broken)
ImplPub(O, kinds, evid, k, src, acc) ==
    LET r == ImplPass(O, 1, kinds, evid, k, src, acc, <<>>)
    IN ImplReports(r.L, kinds, evid, r.broken, r.acc)
ImplReports(L, kinds, evid, broken, acc) ==
    IF broken = <<>> THEN acc
    ELSE LET b == Head(broken)
         IN ImplReports(L, kinds, evid, Tail(broken),
                        ImplPub(Without(L, b[2]), kinds, evid, "rep", b, acc))
ImplDelivery(O, kinds, evid) == ImplPub(O, kinds, evid, "ev", <<0, 0>>, <<>>)

-----------------------------------------------------------------------------
(* FILTER *)
Prefixes(ns) == {SubSeq(ns, 1, k) : k \in 0..Len(ns)}
Effective(ns) ==      \* level of the most specific (longest) configured prefix; <<>> is always configured
    LET ks == {k \in 0..Len(ns) : SubSeq(ns, 1, k) \in DOMAIN flt}
    IN flt[SubSeq(ns, 1, Max(ks))]

SetLevel(ns, lv) ==
    /\ lv \in Levels
    /\ flt' = [x \in DOMAIN flt \cup {ns} |-> IF x = ns THEN lv ELSE flt[x]]
    /\ last' = [e |-> "setlevel", ns |-> ns, lv |-> lv, res |-> "ok"]
    /\ UNCHANGED <<cfg, obs, okind, nO, nEv, seen, due, buf, nBuf>>

ClearLevels ==
    /\ flt' = [x \in {<<>>} |-> cfg.default]
    /\ last' = [e |-> "clearlevels", res |-> "ok"]
    /\ UNCHANGED <<cfg, obs, okind, nO, nEv, seen, due, buf, nBuf>>

\* an event with namespace ns (non-empty) and level lv offered to the filtering observer
FilterEvent(ns, lv) ==
    /\ ns # <<>> /\ lv \in Levels
    /\ last' = [e |-> "filter", ns |-> ns, lv |-> lv, pass |-> (lv >= Effective(ns)), res |-> "ok"]
    /\ UNCHANGED <<cfg, obs, okind, nO, nEv, seen, due, flt, buf, nBuf>>

\* logLevelForNamespace(ns)
QueryLevel(ns) ==
    /\ last' = [e |-> "level", ns |-> ns, lv |-> Effective(ns), res |-> "ok"]
    /\ UNCHANGED <<cfg, obs, okind, nO, nEv, seen, due, flt, buf, nBuf>>

-----------------------------------------------------------------------------
(* BUFFER *)
LastN(s, n) == IF n = None \/ Len(s) <= n THEN s ELSE SubSeq(s, Len(s) - n + 1, Len(s))

BufEvent ==
    /\ nBuf' = nBuf + 1
    /\ buf' = LastN(Append(buf, nBuf + 1), cfg.size)
    /\ last' = [e |-> "buf", ev |-> nBuf + 1, res |-> "ok"]
    /\ UNCHANGED <<cfg, obs, okind, nO, nEv, seen, due, flt>>

Replay ==
    /\ last' = [e |-> "replay", dl |-> buf, res |-> "ok"]
    /\ UNCHANGED <<cfg, obs, okind, nO, nEv, seen, due, flt, buf, nBuf>>

-----------------------------------------------------------------------------
(* The property as invariants. *)
PubExactlyOnce ==    \* each observer has received exactly the events published while it was registered, in order
    \A o \in 1..nO : seen[o] = due[o]
PubNoDuplicates ==
    /\ \A i, j \in 1..Len(obs) : i # j => obs[i] # obs[j]
    /\ \A o \in 1..nO : \A i, j \in 1..Len(seen[o]) : i < j => seen[o][i] < seen[o][j]

RECURSIVE Chop(_)    \* the same level, found by dropping trailing segments one at a time
Chop(ns) == IF ns \in DOMAIN flt THEN flt[ns] ELSE Chop(SubSeq(ns, 1, Len(ns) - 1))
FilterDecision ==
    /\ <<>> \in DOMAIN flt
    /\ last.e = "filter" => last.pass = (last.lv >= Chop(last.ns))
    /\ last.e = "level" => last.lv = Chop(last.ns)

BufferLastN ==       \* the buffer is the last min(size, nBuf) events, in order
    LET m == IF cfg.size = None \/ nBuf <= cfg.size THEN nBuf ELSE cfg.size
    IN /\ buf = [i \in 1..m |-> nBuf - m + i]
       /\ last.e = "replay" => last.dl = buf

Inv == PubExactlyOnce /\ PubNoDuplicates /\ FilterDecision /\ BufferLastN
=============================================================================
