------------------------------ MODULE IrcSplit ------------------------------
(* C43 -- IRC client: splitting of messages / notices within an octet limit, and the
   CTCP / low-level quoting round trip.

   Characters are code points; what goes to the transport is octets (UTF-8).  The
   character classes that matter: 1-, 2-, 3-, 4-octet characters, SP, TAB, LF, CR.

   Abs layer (the property) is a RELATION between (command, target, text, limit) and the
   octets written -- no algorithm:
     * the octets are a sequence of lines, each ending CR LF;
     * every line, terminator included, is at most `limit` octets;
     * no CR / LF inside a line;
     * every line is  <COMMAND> SP <target> SP ':' <message part>;
     * the message parts concatenated, whitespace removed, are the text's non-whitespace
       characters in order.
   A refusal (exception, nothing written) is accepted only when nothing had to be sent or the
   relation is unsatisfiable (some character alone does not fit into a line).

   Quoting: Dequote(Quote(t)) = t  (CTCP-level: '\' and \001; low-level: \020, NUL, LF, CR).

   The exhaustive run shows the relation is satisfiable (two different splitters defined
   here, both counting octets, meet it for every text/limit) and discriminating (the same
   splitter counting characters does not).                                              *)
EXTENDS Naturals, Integers, Sequences, FiniteSets

SPC == 32   TAB == 9   LF == 10   CR == 13   VT == 11   FF == 12   COLON == 58
WS == {SPC, TAB, LF, CR, VT, FF}

VARIABLES cfg,     \* [mode |-> "split"|"low"|"ctcp", kind |-> "msg"|"notice", user |-> code points, limit |-> Int]
          text,    \* code points
          phase,   \* "build" | "sent" | "quoted"
          stream,  \* octets written
          lines,   \* the octets written, cut after every LF (kept in the state so that it is evaluated once)
          err,     \* the call raised
          q, back, \* quoted text, dequoted text
          msgs,    \* history mode: the messages sent so far, records [kind, user, limit, text, err]
          queue    \* exhaustive run only: rendered lines waiting in a rate-limited send queue
vars == <<cfg, text, phase, stream, lines, err, q, back, msgs, queue>>

-----------------------------------------------------------------------------
RECURSIVE Flat(_)
Flat(ss) == IF Len(ss) = 0 THEN <<>> ELSE Head(ss) \o Flat(Tail(ss))

W(c) == IF c < 128 THEN 1 ELSE IF c < 2048 THEN 2 ELSE IF c < 65536 THEN 3 ELSE 4
Utf8(c) == IF c < 128 THEN <<c>>
           ELSE IF c < 2048 THEN <<192 + (c \div 64), 128 + (c % 64)>>
           ELSE IF c < 65536 THEN <<224 + (c \div 4096), 128 + ((c \div 64) % 64), 128 + (c % 64)>>
           ELSE <<240 + (c \div 262144), 128 + ((c \div 4096) % 64), 128 + ((c \div 64) % 64), 128 + (c % 64)>>
Enc(t) == Flat([i \in 1..Len(t) |-> Utf8(t[i])])
NonWs(s) == SelectSeq(s, LAMBDA b : b \notin WS)

CmdText(kind) == IF kind = "msg" THEN <<80, 82, 73, 86, 77, 83, 71>>      \* PRIVMSG
                                 ELSE <<78, 79, 84, 73, 67, 69>>          \* NOTICE
Fmt(c) == CmdText(c.kind) \o <<SPC>> \o c.user \o <<SPC, COLON>>
Overhead(c) == Len(Enc(Fmt(c))) + 2
Avail(c) == c.limit - Overhead(c)

(* ---- the relation ---- *)
\* split an octet stream after every LF; the last piece is whatever remains (must be empty)
RECURSIVE CutLF(_, _, _)
CutLF(s, i, acc) == IF i > Len(s) THEN (IF acc = <<>> THEN <<>> ELSE << acc >>)
                    ELSE IF s[i] = LF THEN << Append(acc, LF) >> \o CutLF(s, i + 1, <<>>)
                    ELSE CutLF(s, i + 1, Append(acc, s[i]))
Lines(s) == CutLF(s, 1, <<>>)

IsPrefix(p, s) == Len(p) <= Len(s) /\ SubSeq(s, 1, Len(p)) = p
LineOK(c, L, checklen) ==
                /\ Len(L) >= 2 /\ L[Len(L)] = LF /\ L[Len(L) - 1] = CR
                /\ (checklen => Len(L) <= c.limit)
                /\ \A i \in 1..(Len(L) - 2) : L[i] # CR /\ L[i] # LF
                /\ IsPrefix(Enc(Fmt(c)), SubSeq(L, 1, Len(L) - 2))
Part(c, L) == SubSeq(L, Len(Enc(Fmt(c))) + 1, Len(L) - 2)

\* checklen = FALSE drops the octet-limit clause (used only to classify a rejection, never for a verdict).
\* ls must be Lines(s); it is passed in evaluated (a state variable) because TLC re-evaluates LET bodies at every use.
RelX(c, t, ls, checklen) ==
                /\ \A i \in 1..Len(ls) : LineOK(c, ls[i], checklen)
                /\ NonWs(Flat([i \in 1..Len(ls) |-> Part(c, ls[i])])) = NonWs(Enc(t))

Unsat(c, t) == \E i \in 1..Len(t) : t[i] \notin WS /\ W(t[i]) > Avail(c)
AcceptsX(c, t, ls, e, checklen) == IF e THEN ls = <<>> /\ (NonWs(Enc(t)) = <<>> \/ Unsat(c, t))
                                        ELSE RelX(c, t, ls, checklen)
Accepts(c, t, ls, e) == AcceptsX(c, t, ls, e, TRUE)

(* ---- several messages on one connection (history mode; with lineRate set the client queues lines and a timer
   writes them one by one).  Every message has its own <COMMAND> SP <target> SP ':' prefix, so its lines are
   identifiable; the relation must hold for each message on its own lines once the queue has drained, and every
   line written belongs to some message.  The order of lines of DIFFERENT messages is left free. ---- *)
Mine(m, ls) == SelectSeq(ls, LAMBDA L : IsPrefix(Enc(Fmt(m)), L))
Owned(ms, L) == \E i \in 1..Len(ms) : IsPrefix(Enc(Fmt(ms[i])), L)
DistinctPrefixes(ms) == \A i, j \in 1..Len(ms) : i # j => Fmt(ms[i]) # Fmt(ms[j])
\* at any moment: what has been written consists of whole, well-formed lines of known messages
LinesSafeX(ms, ls, checklen) == \A j \in 1..Len(ls) : \E i \in 1..Len(ms) : LineOK(ms[i], ls[j], checklen)
LinesSafe(ms, ls) == LinesSafeX(ms, ls, TRUE)
\* once drained: each message's own lines satisfy the relation
HistOKX(ms, ls, checklen) ==
                  /\ LinesSafeX(ms, ls, checklen)
                  /\ \A i \in 1..Len(ms) : AcceptsX(ms[i], ms[i].text, Mine(ms[i], ls), ms[i].err, checklen)
HistOK(ms, ls) == HistOKX(ms, ls, TRUE)

(* ---- splitters (exhaustive run only): width "octets" or "chars" ---- *)
Wd(ch, wm) == IF wm = "octets" THEN W(ch) ELSE 1
\* pack characters greedily into lines of at most avail
RECURSIVE Pack(_, _, _, _, _, _)
Pack(cs, i, line, w, avail, wm) ==
    IF i > Len(cs) THEN (IF line = <<>> THEN <<>> ELSE << line >>)
    ELSE IF w + Wd(cs[i], wm) <= avail THEN Pack(cs, i + 1, Append(line, cs[i]), w + Wd(cs[i], wm), avail, wm)
    ELSE << line >> \o Pack(cs, i, <<>>, 0, avail, wm)
NonWsChars(t) == SelectSeq(t, LAMBDA ch : ch \notin WS)
\* words = maximal runs of non-whitespace
RECURSIVE Words(_, _, _)
Words(t, i, acc) == IF i > Len(t) THEN (IF acc = <<>> THEN <<>> ELSE << acc >>)
                    ELSE IF t[i] \in WS THEN (IF acc = <<>> THEN <<>> ELSE << acc >>) \o Words(t, i + 1, <<>>)
                    ELSE Words(t, i + 1, Append(acc, t[i]))
SplitPack(t, avail, wm)  == Pack(NonWsChars(t), 1, <<>>, 0, avail, wm)
SplitWords(t, avail, wm) == LET ws == Words(t, 1, <<>>) IN Flat([k \in 1..Len(ws) |-> Pack(ws[k], 1, <<>>, 0, avail, wm)])
Render(c, ls) == Flat([k \in 1..Len(ls) |-> Enc(Fmt(c) \o ls[k]) \o <<CR, LF>>])
Fits(c, t, wm) == \A i \in 1..Len(t) : t[i] \in WS \/ Wd(t[i], wm) <= Avail(c)

(* ---- quoting references ---- *)
MQ == 16   NUL == 0   XQ == 92   XD == 1
QChar(kind)   == IF kind = "low" THEN MQ ELSE XQ
QuoteOf(kind, ch) == IF kind = "low"
                     THEN (IF ch = MQ THEN <<MQ, MQ>> ELSE IF ch = NUL THEN <<MQ, 48>> ELSE IF ch = LF THEN <<MQ, 110>>
                           ELSE IF ch = CR THEN <<MQ, 114>> ELSE <<ch>>)
                     ELSE (IF ch = XQ THEN <<XQ, XQ>> ELSE IF ch = XD THEN <<XQ, 97>> ELSE <<ch>>)
Unq(kind, ch) == IF kind = "low"
                 THEN (IF ch = 48 THEN NUL ELSE IF ch = 110 THEN LF ELSE IF ch = 114 THEN CR ELSE ch)
                 ELSE (IF ch = 97 THEN XD ELSE ch)
RefQuote(kind, t) == Flat([i \in 1..Len(t) |-> QuoteOf(kind, t[i])])
RECURSIVE Deq(_, _, _)
Deq(kind, s, i) == IF i > Len(s) THEN <<>>
                   ELSE IF s[i] = QChar(kind) /\ i < Len(s) THEN <<Unq(kind, s[i + 1])>> \o Deq(kind, s, i + 2)
                   ELSE <<s[i]>> \o Deq(kind, s, i + 1)
RefDequote(kind, s) == Deq(kind, s, 1)
Forbidden(kind) == IF kind = "low" THEN {NUL, LF, CR} ELSE {XD}

-----------------------------------------------------------------------------
InitWith(c) == /\ cfg = c /\ text = <<>> /\ phase = "build" /\ stream = <<>> /\ lines = <<>> /\ err = FALSE
               /\ q = <<>> /\ back = <<>> /\ msgs = <<>> /\ queue = <<>>

Extend(sym) == /\ phase = "build" /\ text' = Append(text, sym)
               /\ UNCHANGED <<cfg, phase, stream, lines, err, q, back, msgs, queue>>

SendPack  == /\ phase = "build" /\ cfg.mode = "split" /\ Fits(cfg, text, "octets")
             /\ stream' = Render(cfg, SplitPack(text, Avail(cfg), "octets")) /\ lines' = Lines(stream') /\ err' = FALSE /\ phase' = "sent"
             /\ UNCHANGED <<cfg, text, q, back, msgs, queue>>
SendWords == /\ phase = "build" /\ cfg.mode = "split" /\ Fits(cfg, text, "octets")
             /\ stream' = Render(cfg, SplitWords(text, Avail(cfg), "octets")) /\ lines' = Lines(stream') /\ err' = FALSE /\ phase' = "sent"
             /\ UNCHANGED <<cfg, text, q, back, msgs, queue>>
SendRefuse == /\ phase = "build" /\ cfg.mode = "split" /\ ~Fits(cfg, text, "octets")
              /\ stream' = <<>> /\ lines' = <<>> /\ err' = TRUE /\ phase' = "sent"
              /\ UNCHANGED <<cfg, text, q, back, msgs, queue>>
\* control: the same word splitter counting characters instead of octets
SendCharCount == /\ phase = "build" /\ cfg.mode = "chars" /\ Fits(cfg, text, "chars")
                 /\ stream' = Render(cfg, SplitWords(text, Avail(cfg), "chars")) /\ lines' = Lines(stream') /\ err' = FALSE /\ phase' = "sent"
                 /\ UNCHANGED <<cfg, text, q, back, msgs, queue>>

DoQuote == /\ phase = "build" /\ cfg.mode \in {"low", "ctcp"}
           /\ q' = RefQuote(cfg.mode, text) /\ back' = RefDequote(cfg.mode, RefQuote(cfg.mode, text))
           /\ phase' = "quoted"
           /\ UNCHANGED <<cfg, text, stream, lines, err, msgs, queue>>

(* queue mode (exhaustive run): messages are split by the octet-counting word splitter and their rendered lines
   queued; a timer writes one line per tick -- the oldest first ("fifo") or, as a control, the newest first ("lifo") *)
RenderLines(c, ls) == [k \in 1..Len(ls) |-> Enc(Fmt(c) \o ls[k]) \o <<CR, LF>>]
Enqueue(m) == /\ phase = "build" /\ cfg.mode \in {"fifo", "lifo"} /\ Fits(m, text, "octets")
              /\ msgs' = Append(msgs, [kind |-> m.kind, user |-> m.user, limit |-> m.limit, text |-> text, err |-> FALSE])
              /\ queue' = queue \o RenderLines(m, SplitWords(text, Avail(m), "octets"))
              /\ text' = <<>>
              /\ UNCHANGED <<cfg, phase, stream, lines, err, q, back>>
TickFifo == /\ cfg.mode = "fifo" /\ queue # <<>>
            /\ stream' = stream \o Head(queue) /\ lines' = Lines(stream') /\ queue' = Tail(queue)
            /\ UNCHANGED <<cfg, text, phase, err, q, back, msgs>>
TickLifo == /\ cfg.mode = "lifo" /\ queue # <<>>
            /\ stream' = stream \o queue[Len(queue)] /\ lines' = Lines(stream') /\ queue' = SubSeq(queue, 1, Len(queue) - 1)
            /\ UNCHANGED <<cfg, text, phase, err, q, back, msgs>>
QueueOK == (cfg.mode \in {"fifo", "lifo"} /\ queue = <<>> /\ text = <<>>) => HistOK(msgs, lines)
QueueSafe == cfg.mode \in {"fifo", "lifo"} => LinesSafe(msgs, lines)

SplitOK     == phase = "sent" => (lines = Lines(stream) /\ Accepts(cfg, text, lines, err))
QuoteOK     == phase = "quoted" => back = text
QuoteClean  == phase = "quoted" => \A i \in 1..Len(q) : q[i] \notin Forbidden(cfg.mode)
=============================================================================
