SPECIFICATION Spec
CONSTANT MaxIv = 3
CONSTANT Horizon = 6
CONSTANT MaxD = 4
CONSTANT MaxOps = 6
CONSTANT T0s = {2}
CONSTRAINT Bound
VIEW View
INVARIANT NoOverlap
INVARIANT NoDrift
INVARIANT FirstCall
INVARIANT CountSum
INVARIANT CountPositive
INVARIANT StartDOnce
INVARIANT NoCallAfter
CHECK_DEADLOCK FALSE
