SPECIFICATION Spec
CONSTANTS MaxS = 2
          MaxCb = 2
          MaxReq = 1
          MaxNow = 4
          MaxLevel = 6
CONSTRAINT Bound
VIEW View
INVARIANT LiveArmed
INVARIANT NoOverdue
INVARIANT NoEarly
INVARIANT NoLeak
INVARIANT CbOnce
INVARIANT CbAtExpiry
INVARIANT RGetLive
INVARIANT ReqSane
PROPERTY Final
CHECK_DEADLOCK FALSE
