----------------------------- MODULE LogRotateMC -----------------------------
(* Exhaustive TLC run of the LogFile algorithm: every history of <= MaxW writes
   (1 or 2 bytes, or one 2-byte character counted as length 1), reopenings, and a crash
   at every point of rotate(), for every rotateLength in Ls and retention in Ns. *)
EXTENDS LogRotateImpl, TLC
CONSTANTS MaxW, MaxCrash, MaxRe, Ls, Ns
Init == \E l \in Ls, n \in Ns : ImplInitWith([L |-> l, N |-> n])
MWrite == \E s \in {<<1, 1>>, <<2, 2>>, <<2, 1>>} : IWrite(Len(szs) + 1, s[1], s[2])
Next == MWrite \/ RotStep \/ RotMove \/ RotOpen \/ Data \/ Ret \/ ICrash \/ RestartCreate \/ IRestart \/ IReopen \/ IView
Spec == Init /\ [][Next]_vars
Bound == Len(szs) <= MaxW /\ ncr <= MaxCrash /\ nre <= MaxRe /\ TLCGet("level") <= 10 * MaxW + 10
View == <<cfg, rot, cur, written, szs, pend, mode, dirty, ncr, nre, ok, dir, pc, size, tszp, todo, didrot>>
=============================================================================
