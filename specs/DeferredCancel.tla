--------------------------- MODULE DeferredCancel ---------------------------
(* C03 -- twisted.internet.defer.Deferred: one result; the cancellation protocol.

   A small population of Deferreds 1..N (N = Len(cfg.kinds)).  Deferred 1 exists
   from the start; AddInner(x) creates the next one, y, and adds to x a callback
   that returns y (so that x, once it has a result and reaches that callback,
   waits on y).  cfg.kinds[x] is the canceller x was constructed with:
       "None"     no canceller
       "Noop"     a canceller that does nothing
       "FiresCb"  a canceller that calls x.callback(1000 + x)
       "FiresEb"  a canceller that calls x.errback(Boom(1000 + x))
       "Raises"   a canceller that raises
   Public calls (the actions): Callback(x), Errback(x), Cancel(x), AddInner(x).
   Results are tokens <<"OK", n>> / <<"ERR", n>>; the k-th callback/errback call
   on x passes token 100*x + k, so *which* call was accepted is visible.
   <<"OK", 0>> is None, <<"ERR", 9000>> is CancelledError.

   What user code observes during a call (last.obs, a set):
       <<"cc", x, 0, "", 0>>     the canceller of x was invoked
       <<"p0", x, 0, tag, n>>    the first callback of x (added at construction) ran with that result
       <<"st", x, y, tag, n>>    x resumed after the callback that returned y, with that result
   plus last.exc, the exception class the call raised ("none" if it returned).   *)
EXTENDS Naturals, Sequences, FiniteSets

VARIABLES cfg,
          nD,        \* Deferreds 1..nD exist
          called,    \* called[x]: x has been given its result
          suppress,  \* suppress[x]: the next callback/errback on x will be silently ignored
          ccalls,    \* ccalls[x]: number of invocations of x's canceller
          res,       \* res[x]: <<"NONE",0>> | <<"OK",n>> | <<"ERR",n>> | <<"DEF",y>> (x is waiting on y)
          cbs,       \* cbs[x]: callbacks of x not yet run: <<"S",y>> returns Deferred y; <<"C",p>> hands the result to p, which waits on x
          att,       \* att[x]: callback/errback calls made on x
          nfire,     \* nfire[x]: times x was given a result          (history, for the invariants)
          ign,       \* ign[x]: callback/errback calls silently ignored (history)
          rej,       \* rej[x]: callback/errback calls that raised AlreadyCalledError (history)
          cu,        \* cu[x]: cancel() reached x while x was unfired   (history)
          last

vars == <<cfg, nD, called, suppress, ccalls, res, cbs, att, nfire, ign, rej, cu, last>>

N == Len(cfg.kinds)
CKinds == {"None", "Noop", "FiresCb", "FiresEb", "Raises"}
NoRes        == <<"NONE", 0>>
NoneRes      == <<"OK", 0>>
CancelledRes == <<"ERR", 9000>>
Plain(r) == r[1] \in {"OK", "ERR"}

InitWith(c) ==
    /\ cfg = c
    /\ nD = 1
    /\ called   = [i \in 1..Len(c.kinds) |-> FALSE]
    /\ suppress = [i \in 1..Len(c.kinds) |-> FALSE]
    /\ ccalls   = [i \in 1..Len(c.kinds) |-> 0]
    /\ res      = [i \in 1..Len(c.kinds) |-> NoRes]
    /\ cbs      = [i \in 1..Len(c.kinds) |-> <<>>]
    /\ att      = [i \in 1..Len(c.kinds) |-> 0]
    /\ nfire    = [i \in 1..Len(c.kinds) |-> 0]
    /\ ign      = [i \in 1..Len(c.kinds) |-> 0]
    /\ rej      = [i \in 1..Len(c.kinds) |-> 0]
    /\ cu       = [i \in 1..Len(c.kinds) |-> FALSE]
    /\ last = [e |-> "init"]

(* The part of the state a call may change, as a record, so that the effect of a
   call (which can ripple through Deferreds waiting on each other) is a function. *)
Cur == [called |-> called, suppress |-> suppress, ccalls |-> ccalls, res |-> res,
        cbs |-> cbs, nfire |-> nfire, cu |-> cu, obs |-> {}]

(* x has a plain result: run its remaining callbacks. *)
RECURSIVE Run(_, _)
Run(s, x) ==
    IF s.cbs[x] = <<>> THEN s
    ELSE LET it == Head(s.cbs[x])
             s1 == [s EXCEPT !.cbs[x] = Tail(@)]
             r  == s.res[x]
         IN IF it[1] = "C"
            THEN \* p was waiting on x: p takes x's result (x keeps None), p continues, then x
                 LET p  == it[2]
                     s2 == [s1 EXCEPT !.res[p] = r, !.res[x] = NoneRes,
                                      !.obs = @ \cup {<<"st", p, x, r[1], r[2]>>}]
                 IN Run(Run(s2, p), x)
            ELSE \* the callback returns Deferred y
                 LET y == it[2] IN
                 IF s1.called[y] /\ Plain(s1.res[y])
                 THEN \* y already has a result: x continues with it at once
                      Run([s1 EXCEPT !.res[x] = s1.res[y], !.res[y] = NoneRes,
                                     !.obs = @ \cup {<<"st", x, y, s1.res[y][1], s1.res[y][2]>>}], x)
                 ELSE \* x waits on y
                      [s1 EXCEPT !.res[x] = <<"DEF", y>>, !.cbs[y] = Append(@, <<"C", x>>)]

(* x (unfired) is given result r. *)
Fire(s, x, r) ==
    Run([s EXCEPT !.called[x] = TRUE, !.res[x] = r, !.nfire[x] = @ + 1,
                  !.obs = @ \cup {<<"p0", x, 0, r[1], r[2]>>}], x)

(* cancel() reaching x. *)
RECURSIVE Canc(_, _)
Canc(s, x) ==
    IF ~s.called[x]
    THEN LET k  == cfg.kinds[x]
             s0 == [s EXCEPT !.cu[x] = TRUE]
             s1 == IF k = "None" THEN [s0 EXCEPT !.suppress[x] = TRUE]
                   ELSE [s0 EXCEPT !.ccalls[x] = @ + 1, !.obs = @ \cup {<<"cc", x, 0, "", 0>>}]
         IN CASE k = "FiresCb" -> Fire(s1, x, <<"OK", 1000 + x>>)
              [] k = "FiresEb" -> Fire(s1, x, <<"ERR", 1000 + x>>)
              [] OTHER         -> Fire(s1, x, CancelledRes)    \* the canceller did not fire it
    ELSE IF s.res[x][1] = "DEF" THEN Canc(s, s.res[x][2])      \* fired, waiting on another Deferred
    ELSE s                                                      \* fired, not waiting: no effect

(* the unfired Deferred a cancel() of x ends at, or 0 *)
RECURSIVE Target(_)
Target(x) == IF ~called[x] THEN x ELSE IF res[x][1] = "DEF" THEN Target(res[x][2]) ELSE 0

Install(s) ==
    /\ called' = s.called /\ suppress' = s.suppress /\ ccalls' = s.ccalls /\ res' = s.res
    /\ cbs' = s.cbs /\ nfire' = s.nfire /\ cu' = s.cu

Obs(e, x, y, exc, obs) == [e |-> e, x |-> x, y |-> y, exc |-> exc, obs |-> obs]

(* callback(v) / errback(e) on x. *)
Give(e, tag, x) ==
    /\ x \in 1..nD
    /\ att' = [att EXCEPT ![x] = @ + 1]
    /\ UNCHANGED <<cfg, nD>>
    /\ IF ~called[x]
       THEN LET s == Fire(Cur, x, <<tag, 100 * x + att[x] + 1>>) IN
            /\ Install(s)
            /\ last' = Obs(e, x, 0, "none", s.obs)
            /\ UNCHANGED <<ign, rej>>
       ELSE IF suppress[x]
       THEN /\ suppress' = [suppress EXCEPT ![x] = FALSE]      \* silently ignored, once
            /\ ign' = [ign EXCEPT ![x] = @ + 1]
            /\ last' = Obs(e, x, 0, "none", {})
            /\ UNCHANGED <<called, ccalls, res, cbs, nfire, cu, rej>>
       ELSE /\ rej' = [rej EXCEPT ![x] = @ + 1]
            /\ last' = Obs(e, x, 0, "AlreadyCalledError", {})
            /\ UNCHANGED <<called, suppress, ccalls, res, cbs, nfire, cu, ign>>

Callback(x) == Give("callback", "OK", x)
Errback(x)  == Give("errback", "ERR", x)

(* cancel() on x.  Whether cancel() lets the exception of a raising canceller
   escape is not fixed by the property; that the Deferred gets CancelledError is. *)
Cancel(x) ==
    /\ x \in 1..nD
    /\ LET s == Canc(Cur, x)
           t == Target(x)
       IN /\ Install(s)
          /\ \E exc \in (IF t # 0 /\ cfg.kinds[t] = "Raises" THEN {"none", "CancellerBoom"} ELSE {"none"}) :
                last' = Obs("cancel", x, 0, exc, s.obs)
    /\ UNCHANGED <<cfg, nD, att, ign, rej>>

(* a new Deferred y; x gets a callback returning y. *)
AddInner(x) ==
    /\ x \in 1..nD /\ nD < N
    /\ LET y  == nD + 1
           s0 == [Cur EXCEPT !.cbs[x] = Append(@, <<"S", y>>)]
           s  == IF called[x] /\ Plain(res[x]) THEN Run(s0, x) ELSE s0
       IN /\ nD' = y
          /\ Install(s)
          /\ last' = Obs("addinner", x, y, "none", s.obs)
    /\ UNCHANGED <<cfg, att, ign, rej>>

Next == \/ \E x \in 1..nD : Callback(x)
        \/ \E x \in 1..nD : Errback(x)
        \/ \E x \in 1..nD : Cancel(x)
        \/ \E x \in 1..nD : AddInner(x)

-----------------------------------------------------------------------------
(* The property. *)
D == 1..nD

OneResult ==        \* a Deferred is given a result at most once; every call is accepted, ignored or refused
    \A x \in D : /\ nfire[x] <= 1 /\ (called[x] <=> nfire[x] = 1)
                 /\ att[x] = ign[x] + rej[x] + (IF called[x] /\ ~cu[x] THEN 1 ELSE 0)
                 /\ (rej[x] > 0 => called[x])
SwallowOnce ==      \* only after a canceller-less cancel that took effect, exactly one late call is ignored
    \A x \in D : /\ ign[x] <= 1
                 /\ (ign[x] = 1 \/ suppress[x]) => (cfg.kinds[x] = "None" /\ cu[x])
                 /\ (cfg.kinds[x] = "None" /\ cu[x]) => (suppress[x] <=> ign[x] = 0)
                 /\ (suppress[x] => rej[x] = 0)
CancellerOnce ==    \* the canceller is called exactly once, by the cancel that finds the Deferred unfired
    \A x \in D : ccalls[x] = (IF cu[x] /\ cfg.kinds[x] # "None" THEN 1 ELSE 0)
CancelFires ==      \* after cancel() reached an unfired Deferred it is fired
    \A x \in D : cu[x] => called[x]
Waits ==            \* structure: x waits on y iff y will hand its result to x
    \A x \in D : /\ (res[x][1] = "DEF" => res[x][2] \in D /\ res[x][2] # x /\ called[x])
                 /\ (res[x][1] = "NONE" <=> ~called[x])
                 /\ \A i \in 1..Len(cbs[x]) : cbs[x][i][1] = "C" => res[cbs[x][i][2]] = <<"DEF", x>>
                 /\ (called[x] /\ Plain(res[x]) => cbs[x] = <<>>)

Inv == OneResult /\ SwallowOnce /\ CancellerOnce /\ CancelFires /\ Waits

(* cancel() on a fired Deferred that is not waiting on another one has no effect (action property) *)
CancelFiredNoEffect ==
    [][\A x \in D : (last'.e = "cancel" /\ last'.x = x /\ called[x] /\ Plain(res[x]))
                        => UNCHANGED <<called, suppress, ccalls, res, cbs, nfire, cu, att, ign, rej>>]_vars
=============================================================================
