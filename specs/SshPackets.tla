----------------------------- MODULE SshPackets -----------------------------
(* C35 -- twisted.conch.ssh.transport: binary packet protocol as seen by the peer.

   The wire from sender to receiver is a sequence of items
        banner lines*  version line  packets*
   each item described by its kind, the wire offset of its end and, for packets
   whose delivery is observable at the receiving application, an identity
   (1, 2, 3.. in send order).  Ciphers and MACs are treated as perfect: the only
   things the specification knows about a packet are where it ends, whether it
   is protected by a MAC and whether (and where) one of its bytes was altered.

   The receiver is fed the wire in pieces chosen by the environment
   (Deliver(k)).  The property (properties.jsonl C35):
     * whatever the segmentation, the receiver dispatches exactly the observable
       packets that are completely contained in the delivered prefix, in order,
       and never disconnects on an unaltered wire;
     * if a byte of a MAC-protected packet was altered, that packet and nothing
       after it is ever dispatched, and the receiver disconnects: for an altered
       byte after the first cipher block (payload, padding, MAC) at the delivery
       that completes the packet; for an altered byte in the first cipher block
       (which may change the announced length, so the receiver may legitimately
       wait for the bytes the corrupted length announces) at the latest once the
       sender has sent more than the maximum packet size of further data (Flood).
   cfg is a variable: one TLC run covers all wires / validates all traces.     *)
EXTENDS Naturals, Integers, Sequences, FiniteSets

VARIABLES cfg,         \* [mac, items, tj, treg, tpos]
          pos,         \* number of wire units (bytes) delivered so far
          dispatched,  \* ids handed to the receiving application, in order
          disc,        \* receiver asked its transport to close
          flooded,     \* more than a maximum packet of further data has been delivered after the wire
          phase,       \* "run" | "ended"
          last         \* observable of the last action

vars == <<cfg, pos, dispatched, disc, flooded, phase, last>>

Items == cfg.items
NItems == Len(Items)
Total == Items[NItems].end
StartOf(i) == IF i = 1 THEN 0 ELSE Items[i - 1].end
Tampered == cfg.tj # 0

InitWith(c) ==
    /\ cfg = c
    /\ pos = 0 /\ dispatched = <<>> /\ disc = FALSE /\ flooded = FALSE /\ phase = "run"
    /\ last = [e |-> "init"]

(* well-formed configuration (checked for every trace in TInit and for every MC config) *)
WellFormed(c) ==
    /\ Len(c.items) >= 1
    /\ \A i \in 1..Len(c.items) :
          /\ c.items[i].end > (IF i = 1 THEN 0 ELSE c.items[i - 1].end)
          /\ c.items[i].k \in {"banner", "version", "hs", "ign", "svc", "dbg"}
          /\ (c.items[i].id > 0) = (c.items[i].k \in {"svc", "dbg"})
    /\ \A i, j \in 1..Len(c.items) : (i < j /\ c.items[i].id > 0 /\ c.items[j].id > 0) => c.items[i].id < c.items[j].id
    /\ \E v \in 1..Len(c.items) :
          /\ c.items[v].k = "version"
          /\ \A i \in 1..Len(c.items) : (i < v) = (c.items[i].k = "banner")
    /\ c.tj \in 0..Len(c.items)
    /\ (c.tj = 0) = (c.treg = "none")
    /\ c.tj # 0 =>
          /\ c.mac                                   \* the clause speaks about MAC-protected packets only
          /\ c.items[c.tj].k \in {"ign", "svc", "dbg"}
          /\ c.treg \in {"first", "rest", "mac"}
          /\ c.tpos >= (IF c.tj = 1 THEN 0 ELSE c.items[c.tj - 1].end)
          /\ c.tpos < c.items[c.tj].end

RECURSIVE IdsFrom(_, _)
IdsFrom(i, S) ==     \* ids of the observable items with index in S, index >= i, in wire order
    IF i > NItems THEN <<>>
    ELSE (IF i \in S /\ Items[i].id > 0 THEN <<Items[i].id>> ELSE <<>>) \o IdsFrom(i + 1, S)

SentIds == IdsFrom(1, 1..NItems)
Intact(i) == ~Tampered \/ i < cfg.tj
(* the reference: what the application must have seen once `p` units were consumed *)
Ref(p) == IdsFrom(1, {i \in 1..NItems : Items[i].end <= p /\ Intact(i)})

DiscCodes == 1..15

(* may/must the receiver have disconnected once np units are consumed? *)
DiscOK(np, d) ==
    IF ~Tampered THEN d = FALSE
    ELSE IF cfg.treg \in {"rest", "mac"} THEN d = (Items[cfg.tj].end <= np)
    ELSE (d => np > cfg.tpos)            \* "first": not before the altered byte arrived; no later bound here

Deliver(k) ==
    /\ phase = "run" /\ ~disc /\ k >= 1 /\ pos + k <= Total
    /\ LET np == pos + k
           newly == {i \in 1..NItems : Items[i].end > pos /\ Items[i].end <= np /\ Intact(i)}
           ids == IdsFrom(1, newly)
       IN /\ pos' = np
          /\ dispatched' = dispatched \o ids
          /\ \E d \in BOOLEAN, c \in {0} \cup DiscCodes :
                /\ DiscOK(np, d)
                /\ (c > 0) => d                     \* a DISCONNECT message only together with closing
                /\ disc' = d
                /\ last' = [e |-> "deliver", k |-> k, dl |-> ids, disc |-> d, code |-> c]
    /\ UNCHANGED <<cfg, flooded, phase>>

(* the sender keeps sending valid packets, more than the maximum packet size in total *)
Flood ==
    /\ phase = "run" /\ Tampered /\ cfg.treg = "first" /\ pos = Total /\ ~disc /\ ~flooded
    /\ flooded' = TRUE /\ disc' = TRUE
    /\ \E c \in {0} \cup DiscCodes :
          last' = [e |-> "flood", k |-> 0, dl |-> <<>>, disc |-> TRUE, code |-> c]
    /\ UNCHANGED <<cfg, pos, dispatched, phase>>

(* quiescence: everything delivered, or the receiver stopped reading *)
End ==
    /\ phase = "run"
    /\ pos = Total \/ disc
    /\ (Tampered /\ cfg.treg = "first" /\ ~disc) => flooded
    /\ phase' = "ended"
    /\ last' = [e |-> "end", k |-> 0, dl |-> dispatched, disc |-> disc, code |-> 0]
    /\ UNCHANGED <<cfg, pos, dispatched, disc, flooded>>

Next == (\E k \in 1..Total : Deliver(k)) \/ Flood \/ End

-----------------------------------------------------------------------------
(* The property. *)
IsPrefix(s, t) == Len(s) <= Len(t) /\ \A i \in 1..Len(s) : s[i] = t[i]

InOrderPrefix == IsPrefix(dispatched, SentIds)                 \* exactly those payloads, in order
SegInv == dispatched = Ref(pos)                                \* a function of the consumed prefix only
NoSpuriousDisconnect == disc => Tampered
AlteredNeverDelivered ==
    Tampered => \A n \in 1..Len(dispatched) :
                   \A i \in cfg.tj..NItems : Items[i].id # dispatched[n]
TamperDisconnects ==
    Tampered =>
       /\ (cfg.treg \in {"rest", "mac"} /\ pos >= Items[cfg.tj].end) => disc
       /\ flooded => disc
AtEnd ==
    phase = "ended" =>
       /\ ~Tampered => (pos = Total /\ dispatched = SentIds /\ ~disc)
       /\ Tampered => disc

Inv == InOrderPrefix /\ SegInv /\ NoSpuriousDisconnect /\ AlteredNeverDelivered /\ TamperDisconnects /\ AtEnd
=============================================================================
