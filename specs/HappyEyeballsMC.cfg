SPECIFICATION Spec
CONSTRAINT Bound
VIEW View
INVARIANT OneWinner
INVARIANT NoStragglers
INVARIANT InOrder
INVARIANT Staggered
INVARIANT FailOnlyAfterAll
INVARIANT OkMeansOk
PROPERTY ResultStable
CHECK_DEADLOCK FALSE
