SPECIFICATION TSpec
CONSTANT CheckLen = FALSE
CONSTANT Strict = FALSE
CONSTRAINT Progress
POSTCONDITION Accepted
CHECK_DEADLOCK FALSE
