SPECIFICATION Spec
CONSTANT MaxCmds = 2
CONSTANT MaxLevel = 6
CONSTANT Group = 3
CONSTRAINT Bound
VIEW View
INVARIANT ExactlyOnce
INVARIANT QueueOrder
INVARIANT Fifo
INVARIANT Matched
INVARIANT Guarded
INVARIANT NoIdleTimer
INVARIANT Dead
INVARIANT ServerSync
PROPERTY TimeoutFailsAll
PROPERTY LossFailsAll
PROPERTY RejectsUnwritten
CHECK_DEADLOCK FALSE
