SPECIFICATION TSpec
CONSTANT Strict = FALSE
CONSTRAINT Progress
POSTCONDITION Accepted
CHECK_DEADLOCK FALSE
