SPECIFICATION Spec
VIEW View
INVARIANT DeliveredOK
INVARIANT ClosedOK
INVARIANT CfgOK
INVARIANT MachineOK
CHECK_DEADLOCK FALSE
