SPECIFICATION Spec
CONSTANT NOpt = 2
CONSTANT Reent = TRUE
CONSTANT MaxReq = 4
VIEW View
INVARIANT NoViol
INVARIANT AgreeWhenQuiet
INVARIANT AllFiredWhenQuiet
INVARIANT NoException
INVARIANT MsgBound
INVARIANT FlagsConsistent
CHECK_DEADLOCK FALSE
