SPECIFICATION Spec
CONSTANT CMin = 1
CONSTANT MaxCalls = 4
CONSTANT Ds = {0, 1}
CONSTANT NegMax = 1
CONSTANT MaxNow = 2
CONSTANT Depth = 9
CONSTRAINT Bound
VIEW View
PROPERTY Refines
INVARIANT HeapOrdered
INVARIANT NoDuplicates
INVARIANT LiveQueued
INVARIANT NoCalledQueued
INVARIANT DelayNonNeg
INVARIANT StagedOnlyBetween
CHECK_DEADLOCK FALSE
