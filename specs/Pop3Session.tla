------------------------------- MODULE Pop3Session -------------------------------
(* Extension X13 -- twisted.mail.pop3.POP3 (server) session state machine, as coded.

   One connection.  AUTHORIZATION: USER/PASS/APOP against a cred Portal whose checker accepts, rejects, denies
   or answers later (Fire).  TRANSACTION: STAT LIST UIDL RETR TOP DELE RSET NOOP LAST on the avatar mailbox.
   UPDATE: QUIT calls mailbox.sync() and closes.  "Long" commands (STAT, LIST, UIDL, RETR, TOP) finish in a later
   step (Run: the cooperative iterator / the FileSender pull producer completes); until then every further command
   is queued (pipelining) and the queue is drained when the long command finishes.

   Observables of one step (last.obs, in order): lines written to the transport as <<tag, a, b>> and calls received
   by the realm / mailbox / logout callable as <<"c:...", session, arg>>.

   Implementation-shaped.  DELIBERATE DEVIATIONS from what RFC 1939 / a user would expect (see notes/X13.md, Oddities):
     D1  USER/PASS/APOP are accepted again after authentication; the new avatar replaces the old one whose logout
         callable is then never called (superseded).
     D2  a login that completes after the connection was lost installs an avatar that is never logged out (late).
     D3  a queued command that raises while the queue is drained gets no reply and silently discards every command
         queued behind it (Unblock).
     D4  QUIT does not flush the queue: commands queued behind it are still executed (and answered) after UPDATE.
     D5  an exception whose args are str ("DELE x") escapes lineReceived with no reply (hard).
     D6  deleted messages are still counted by STAT, listed (size 0) by LIST, listed by UIDL, and LIST n / UIDL n
         succeed for them; only RETR/TOP refuse them.
     D7  _highest (LAST) survives a re-login; DELE 0 reaches the mailbox as index -1.
     D8  APOP can never succeed: APOPCredentials.checkPassword compares a str hexdigest with the bytes digest.
     D9  a LoginDenied is reported as "Access denied: <class ...LoginDenied>" (tag err:denied is that exact text).  *)
EXTENDS Naturals, Integers, Sequences, FiniteSets

VARIABLES cfg,    \* [msgs |-> <<[size, hl, bl, tail], ...>>]  hl = header lines incl. the blank one, bl = complete body lines
          s,      \* protocol + environment state (record, see S0)
          last    \* observation of the last step
vars == <<cfg, s, last>>

AuthCmds == {"USER", "PASS", "APOP", "QUIT"}
MboxCalls == {"c:delete", "c:undelete", "c:sync"}
N == Len(cfg.msgs)
Tag(t) == <<t, -1, -1>>
Ok(a, b) == <<"ok", a, b>>
Dot == Tag("dot")
NoPend == [kind |-> "none", out |-> <<>>, msg |-> 0]
NoCmd == <<"", 0, 0>>
Min(a, b) == IF a < b THEN a ELSE b
Range(q) == {q[i] : i \in 1..Len(q)}

S0 == [up |-> FALSE, cur |-> 0, nsess |-> 0, onLogout |-> 0, loggedOut |-> <<>>, superseded |-> {}, late |-> {},
       marks |-> {}, expg |-> {}, quitDone |-> FALSE, user |-> 0, q |-> <<>>, blocking |-> FALSE, pend |-> NoPend,
       highest |-> 0, closing |-> FALSE, lost |-> FALSE, gone |-> FALSE, waiting |-> {}, nlater |-> 0, owe |-> 0,
       obs |-> <<>>, raised |-> ""]

InitWith(c) == cfg = c /\ s = S0 /\ last = [e |-> "init", cmd |-> NoCmd, obs |-> <<>>, exc |-> "", closing |-> FALSE]

-----------------------------------------------------------------------------
(* pure helpers on the state record *)
Emit(st, lines) == IF st.lost THEN st ELSE [st EXCEPT !.obs = @ \o lines]     \* a lost transport drops writes
Reply(st, line) == [Emit(st, <<line>>) EXCEPT !.owe = @ - 1]                  \* the status line answering one command
Call(st, name, a) == [st EXCEPT !.obs = Append(@, <<name, st.cur, a>>)]
Raise(st, tag) == [st EXCEPT !.raised = tag]
Gone(st) == st.marks \cup st.expg
Size(st, i) == IF i \in Gone(st) THEN 0 ELSE cfg.msgs[i].size
RECURSIVE Total(_, _)
Total(st, i) == IF i = 0 THEN 0 ELSE Size(st, i) + Total(st, i - 1)
ListLines(st) == [i \in 1..N |-> <<"ln", i, Size(st, i)>>]
UidLines == [i \in 1..N |-> <<"uid", i, i>>]
MsgLines(k, nb) == [j \in 1..(cfg.msgs[k].hl + nb) |-> IF j = cfg.msgs[k].hl THEN Tag("blank") ELSE <<"msg", k, j>>]

\* users: 1 good (password checked), 2 unknown, 3 answered later, 4 denied
Outcome(u, pwok) == CASE u = 1 -> (IF pwok = 1 THEN "ok" ELSE "fail") [] u = 2 -> "fail" [] u = 3 -> "later" [] OTHER -> "denied"

Login(st, outcome) ==
    CASE outcome = "ok" ->
           LET k == st.nsess + 1 IN
           Reply([st EXCEPT !.nsess = k, !.cur = k, !.onLogout = k, !.marks = {}, !.expg = {}, !.quitDone = FALSE,
                            !.superseded = IF st.onLogout # 0 THEN @ \cup {st.onLogout} ELSE @,     \* D1
                            !.late = IF st.gone THEN @ \cup {k} ELSE @,                              \* D2
                            !.obs = Append(@, <<"c:avatar", k, -1>>)],
                 Tag("ok:auth"))
      [] outcome = "fail"   -> Reply(st, Tag("err:authfail"))
      [] outcome = "denied" -> Reply(st, Tag("err:denied"))
      [] OTHER              -> [st EXCEPT !.nlater = @ + 1, !.waiting = @ \cup {st.nlater + 1}]

StartSched(st, out) == [st EXCEPT !.blocking = TRUE, !.pend = [kind |-> "sched", out |-> out, msg |-> 0]]
StartFile(st, okline, k, nb) ==
    LET t == Reply([st EXCEPT !.highest = IF k > @ THEN k ELSE @], okline) IN
    IF st.lost THEN [t EXCEPT !.closing = TRUE]   \* dead transport stops the producer at once -> ebFileTransfer -> loseConnection
    ELSE [t EXCEPT !.blocking = TRUE, !.pend = [kind |-> "file", out |-> MsgLines(k, nb) \o <<Dot>>, msg |-> k]]
SendMsg(st, i, okline, nb) ==
    IF i < 1 \/ i > N THEN Reply(st, Tag("err:badnum"))
    ELSE IF i \in Gone(st) THEN Reply(st, Tag("err:deleted"))
    ELSE StartFile(st, okline, i, nb)

(* processCommand for one command that is not being queued *)
Do(st, c) ==
    LET nm == c[1]  a == c[2]  b == c[3] IN
    IF st.cur = 0 /\ nm \notin AuthCmds THEN Raise(st, "err:noauth")
    ELSE CASE nm = "USER" -> Reply([st EXCEPT !.user = a], Tag("ok:user"))
           [] nm = "PASS" -> IF st.user = 0 THEN Reply(st, Tag("err:nouser"))
                             ELSE Login([st EXCEPT !.user = 0], Outcome(st.user, a))
           [] nm = "APOP" -> Login(st, IF a = 1 THEN "fail" ELSE Outcome(a, b))      \* D8: a right digest never matches
           [] nm = "QUIT" -> LET t == IF st.cur # 0
                                      THEN [Call(st, "c:sync", -1) EXCEPT !.expg = @ \cup st.marks, !.marks = {}, !.quitDone = TRUE]
                                      ELSE st
                             IN [Reply(t, Ok(-1, -1)) EXCEPT !.closing = TRUE]
           [] nm = "NOOP" -> Reply(st, Ok(-1, -1))
           [] nm = "LAST" -> Reply(st, Ok(st.highest, -1))
           [] nm = "RSET" -> Reply([Call(st, "c:undelete", -1) EXCEPT !.marks = {}, !.highest = 0], Ok(-1, -1))
           [] nm = "DELE" -> IF a = -2 THEN Raise(st, "hard")                          \* "DELE x": D5
                             ELSE LET t == Call(st, "c:delete", a - 1) IN
                                  IF a < 1 \/ a > N \/ a \in Gone(st) THEN Raise(t, "err:valueerror")
                                  ELSE Reply([t EXCEPT !.marks = @ \cup {a}], Ok(-1, -1))
           [] nm = "STAT" -> StartSched(st, <<Ok(N, Total(st, N))>>)                   \* D6: counts deleted ones
           [] nm = "LIST" -> IF a = -1 THEN StartSched(st, <<Ok(N, -1)>> \o ListLines(st) \o <<Dot>>)
                             ELSE IF a < 1 \/ a > N THEN Reply(st, <<"err:invnum", a, -1>>)
                             ELSE Reply(st, Ok(a, Size(st, a)))
           [] nm = "UIDL" -> IF a = -1 THEN StartSched(st, <<Ok(-1, -1)>> \o UidLines \o <<Dot>>)
                             ELSE IF a < 1 \/ a > N THEN Reply(st, Tag("err:badnum"))
                             ELSE Reply(st, <<"okuid", a, -1>>)
           [] nm = "RETR" -> SendMsg(st, a, Ok(IF a \in 1..N THEN cfg.msgs[a].size ELSE 0, -1),
                                     IF a \in 1..N THEN cfg.msgs[a].bl + (IF cfg.msgs[a].tail THEN 1 ELSE 0) ELSE 0)
           [] nm = "TOP"  -> SendMsg(st, a, Tag("ok:top"), IF a \in 1..N THEN Min(b, cfg.msgs[a].bl) ELSE 0)
           [] OTHER       -> Raise(st, "err:unknown")

(* _unblock: drain the queue until it is empty or a command starts a new long operation *)
RECURSIVE Unblock(_)
Unblock(st) ==
    IF st.q = <<>> \/ st.blocking THEN st
    ELSE LET t == Do([st EXCEPT !.q = Tail(@)], Head(st.q)) IN
         IF t.raised # "" THEN [t EXCEPT !.raised = "", !.q = <<>>, !.owe = @ - Len(st.q)]     \* D3
         ELSE Unblock(t)

Finish(e, c, res, exc) ==
    \E t \in {res} :
    /\ s' = [t EXCEPT !.obs = <<>>]
    /\ last' = [e |-> e, cmd |-> c, obs |-> t.obs, exc |-> exc, closing |-> t.closing]
    /\ UNCHANGED cfg

-----------------------------------------------------------------------------
Connect == ~s.up /\ Finish("connect", NoCmd, [s EXCEPT !.up = TRUE, !.obs = <<Tag("ok:greet")>>], "")

(* one complete line arrives *)
Line(c) ==
    /\ s.up /\ ~s.lost
    /\ IF s.closing THEN Finish("line", c, s, "")            \* LineOnlyReceiver drops lines once loseConnection was called
       ELSE IF s.blocking THEN Finish("line", c, [s EXCEPT !.q = Append(@, c), !.owe = @ + 1], "")
       ELSE \E t \in {Do([s EXCEPT !.owe = @ + 1], c)} :       \* (bound once: TLC re-evaluates LET bodies at every use)
            IF t.raised = "" THEN Finish("line", c, t, "")
            ELSE IF t.raised = "hard" THEN Finish("line", c, [t EXCEPT !.raised = "", !.owe = @ - 1], "TypeError")
            ELSE Finish("line", c, Reply([t EXCEPT !.raised = ""], Tag(t.raised)), "")

(* a pending login Deferred fires *)
Fire(k, ok) ==
    /\ k \in s.waiting
    /\ Finish("fire", NoCmd, Login([s EXCEPT !.waiting = @ \ {k}], IF ok THEN "ok" ELSE "fail"), "")

(* the pending long operation completes: its remaining output is written, then the queue is drained *)
Run ==
    /\ s.pend.kind # "none"
    /\ LET t0 == IF s.pend.kind = "sched" THEN [Emit(s, s.pend.out) EXCEPT !.owe = @ - 1] ELSE Emit(s, s.pend.out)
       IN Finish("run", NoCmd, Unblock([t0 EXCEPT !.pend = NoPend, !.blocking = FALSE]), "")

(* the connection is lost: a registered producer is stopped first (queue drained), then logout.
   lost = the transport is dead (writes dropped); gone = protocol.connectionLost has run *)
Lost ==
    /\ s.up /\ ~s.lost
    /\ LET t0 == [s EXCEPT !.lost = TRUE]
           t1 == IF s.pend.kind = "file"
                 THEN Unblock([t0 EXCEPT !.pend = NoPend, !.blocking = FALSE, !.closing = TRUE]) ELSE t0
           t2 == IF t1.onLogout # 0
                 THEN [t1 EXCEPT !.obs = Append(@, <<"c:logout", t1.onLogout, -1>>),
                                 !.loggedOut = Append(@, t1.onLogout), !.onLogout = 0]
                 ELSE t1
       IN Finish("lost", NoCmd, [t2 EXCEPT !.gone = TRUE], "")

-----------------------------------------------------------------------------
(* what a user relies on *)
Owed(st) == Len(st.q) + (IF st.pend.kind = "sched" THEN 1 ELSE 0) + Cardinality(st.waiting)
\* every accepted command is answered exactly once, is still waiting (queue / long op / login), or fell to D3 / D5
ReplyConservation == s.owe = Owed(s)
\* nothing waits in the queue unless a long operation is in progress
NoStuckQueue == (s.q # <<>> => s.blocking) /\ (s.blocking <=> s.pend.kind # "none")
MarksSane == /\ s.marks \subseteq 1..N /\ s.expg \subseteq 1..N /\ s.marks \cap s.expg = {}
             /\ (s.gone => s.lost)
             /\ (s.cur = 0 => s.marks = {} /\ s.expg = {} /\ s.pend.kind = "none")
\* deletion becomes permanent only by a QUIT executed in TRANSACTION state
ExpungeOnlyAfterQuit == s.expg # {} => s.quitDone /\ s.closing
\* the message being transferred is not a deleted one
PendingMsgLive == s.pend.msg # 0 => s.pend.msg \in 1..N /\ s.pend.msg \notin Gone(s)
Leaked(st) == {k \in 1..st.nsess : k \notin Range(st.loggedOut) /\ (k # st.cur \/ st.gone)}
LogoutDiscipline ==
    /\ (s.loggedOut # <<>> => s.lost)                         \* never while the connection is up
    /\ Len(s.loggedOut) <= 1                                  \* at most once (a fortiori per avatar)
    /\ (~s.lost => s.onLogout = s.cur)
    /\ (s.lost => s.onLogout = 0 \/ s.onLogout \in s.late)
    /\ Leaked(s) = s.superseded \cup s.late                   \* exactly once, except D1 / D2
Inv == ReplyConservation /\ NoStuckQueue /\ MarksSane /\ ExpungeOnlyAfterQuit /\ PendingMsgLive /\ LogoutDiscipline

Tags(o) == {o[i][1] : i \in 1..Len(o)}
\* TRANSACTION commands are refused before authentication, and leave no trace
RefusedBeforeAuth == (last'.e = "line" /\ s.cur = 0 /\ ~s.closing /\ last'.cmd[1] \notin AuthCmds)
                         => (last'.obs = <<Tag("err:noauth")>> /\ s' = s)
\* permanent deletion happens only in a step that calls sync, and takes exactly the marked messages
SyncOnlyOnQuit == (s'.expg # s.expg /\ s'.nsess = s.nsess) => ("c:sync" \in Tags(last'.obs) /\ s'.expg \subseteq s.expg \cup s.marks
                                                                    \cup {c[2] : c \in {d \in Range(s.q) : d[1] = "DELE"}})
\* the mailbox is only touched on behalf of an authenticated session
MailboxNeedsAuth == \A i \in 1..Len(last'.obs) : last'.obs[i][1] \in MboxCalls => last'.obs[i][2] > 0 /\ last'.obs[i][2] <= s'.nsess
\* content of a message that is deleted at the start of the step is never sent
DeletedStaysHidden == \A i \in 1..Len(last'.obs) : last'.obs[i][1] = "msg" => last'.obs[i][2] \notin Gone(s)
\* a lost connection writes nothing and never comes back
LostIsFinal == s.lost => (s'.lost /\ Tags(last'.obs) \subseteq {"c:avatar", "c:delete", "c:undelete", "c:sync", "c:logout"})
ActProps == RefusedBeforeAuth /\ SyncOnlyOnQuit /\ MailboxNeedsAuth /\ DeletedStaysHidden /\ LostIsFinal
=============================================================================
