SPECIFICATION TSpec
CONSTANT CMin = 50
CONSTRAINT Progress
POSTCONDITION Accepted
CHECK_DEADLOCK FALSE
