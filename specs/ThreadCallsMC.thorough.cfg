SPECIFICATION Spec
CONSTANT MaxN = 3
INVARIANT Inv
INVARIANT ExactlyOnce
INVARIANT PerProducerOrder
INVARIANT OnlyIssued
INVARIANT NoGap
INVARIANT ReactorThread
INVARIANT IdlePrompt
INVARIANT AtQuiescence
CHECK_DEADLOCK FALSE
