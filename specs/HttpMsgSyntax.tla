--------------------------- MODULE HttpMsgSyntax ---------------------------
(* Shared by HttpRespWire (C20), HttpReqWire (C24) and HttpClient (C23).

   HTTP/1.1 message syntax -- RFC 9110 (fields) and RFC 9112 (message format,
   framing, chunked coding) -- written as pure TLA+ operators over octets 0..255.
   This is the reference ("independent") parser of the three checks: it shares no
   code with twisted and none with h11.  The byte classes are the grammar's own
   partition (CR, LF, SP, HTAB, DIGIT, HEXDIG, tchar, VCHAR, obs-text, NUL, CTL).

   Strictness chosen (recorded in notes/C20.md):
     * lines end with CR LF only; a bare CR or bare LF anywhere in the head makes
       the message invalid (RFC 9112 2.2: a sender MUST NOT generate a bare CR;
       a recipient MAY treat a bare LF as a terminator -- so a message whose
       meaning depends on that choice does not "parse as exactly one message");
     * field values and the reason phrase must not contain NUL, CR, LF
       (RFC 9110 5.5 "invalid and dangerous"); other CTLs are tolerated
       (RFC 9110 5.5 "recipients MAY retain such characters");
     * obs-fold is rejected (a line starting with SP/HTAB has no field name);
     * no whitespace between field name and colon.                              *)
EXTENDS Naturals, Sequences, FiniteSets, SequencesExt

CR == 13
LF == 10
SP == 32
HTAB == 9
COLON == 58
SEMI == 59
EQUALS == 61
NUL == 0

IsDigit(b) == b \in 48..57
IsAlpha(b) == b \in 65..90 \/ b \in 97..122
TcharPunct == {33, 35, 36, 37, 38, 39, 42, 43, 45, 46, 94, 95, 96, 124, 126}
IsTchar(b) == IsDigit(b) \/ IsAlpha(b) \/ b \in TcharPunct
IsVchar(b) == b \in 33..126
IsObs(b) == b \in 128..255
IsWs(b) == b = SP \/ b = HTAB
IsHex(b) == IsDigit(b) \/ b \in 65..70 \/ b \in 97..102
HexVal(b) == IF IsDigit(b) THEN b - 48 ELSE IF b \in 65..70 THEN b - 55 ELSE b - 87
Lower(b) == IF b \in 65..90 THEN b + 32 ELSE b
LowerSeq(s) == [i \in 1..Len(s) |-> Lower(s[i])]
IsLineBreakOctet(b) == b = CR \/ b = LF
\* octet a conformant recipient may keep inside a field value / reason phrase
IsFieldOctet(b) == b # NUL /\ b # CR /\ b # LF

AllOf(s, P(_)) == \A i \in 1..Len(s) : P(s[i])
Has(s, b) == \E i \in 1..Len(s) : s[i] = b
IsToken(s) == Len(s) > 0 /\ AllOf(s, IsTchar)

\* strip leading and trailing SP / HTAB (OWS around a field value)
RECURSIVE FirstNonWs(_, _)
FirstNonWs(s, i) == IF i > Len(s) THEN 0 ELSE IF IsWs(s[i]) THEN FirstNonWs(s, i + 1) ELSE i
RECURSIVE LastNonWs(_, _)
LastNonWs(s, i) == IF i < 1 THEN 0 ELSE IF IsWs(s[i]) THEN LastNonWs(s, i - 1) ELSE i
Trim(s) == LET a == FirstNonWs(s, 1) IN IF a = 0 THEN <<>> ELSE SubSeq(s, a, LastNonWs(s, Len(s)))
\* index of the first occurrence of octet b in s at or after i, 0 if none
RECURSIVE IndexOf(_, _, _)
IndexOf(s, b, i) == IF i > Len(s) THEN 0 ELSE IF s[i] = b THEN i ELSE IndexOf(s, b, i + 1)

RECURSIVE DecFold(_, _, _)
DecFold(s, i, acc) == IF i > Len(s) THEN acc ELSE DecFold(s, i + 1, acc * 10 + (s[i] - 48))
IsDec(s) == Len(s) \in 1..9 /\ AllOf(s, IsDigit)
DecVal(s) == DecFold(s, 1, 0)
RECURSIVE HexFold(_, _, _)
HexFold(s, i, acc) == IF i > Len(s) THEN acc ELSE HexFold(s, i + 1, acc * 16 + HexVal(s[i]))
IsHexNum(s) == Len(s) \in 1..7 /\ AllOf(s, IsHex)
HexNum(s) == HexFold(s, 1, 0)

NContentLength == <<99,111,110,116,101,110,116,45,108,101,110,103,116,104>>
NTransferEncoding == <<116,114,97,110,115,102,101,114,45,101,110,99,111,100,105,110,103>>
NConnection == <<99,111,110,110,101,99,116,105,111,110>>
NSetCookie == <<115,101,116,45,99,111,111,107,105,101>>
NHost == <<104,111,115,116>>
VChunked == <<99,104,117,110,107,101,100>>
FramingNames == {NContentLength, NTransferEncoding, NConnection}

Bad(why) == [ok |-> FALSE, why |-> why]

\* With(v, F) = F(v), with v evaluated exactly once.  (TLC re-evaluates a LET definition at every
\* use when it evaluates an action; nested LETs made the parser ~50 times slower.  A bound variable
\* of a set constructor is bound to a value.)
With(v, F(_)) == CHOOSE x \in {F(h) : h \in {v}} : TRUE

-----------------------------------------------------------------------------
(* Lines.  Every occurrence of the pair CR LF terminates a line. *)
IsCRLFAt(w, i) == i >= 1 /\ i < Len(w) /\ w[i] = CR /\ w[i + 1] = LF
RECURSIVE NextCRLF(_, _)
NextCRLF(w, p) ==     \* smallest i >= p with CR LF at i, 0 if none
    IF p >= Len(w) THEN 0 ELSE IF w[p] = CR /\ w[p + 1] = LF THEN p ELSE NextCRLF(w, p + 1)
\* the lines of the head: HeadLines(w, 1, <<>>) = [ok, lines, body (index of the first octet after the empty line)]
RECURSIVE HeadLines(_, _, _)
HeadLines(w, p, acc) ==
    LET e == NextCRLF(w, p)
    IN IF e = 0 THEN [ok |-> FALSE, why |-> "no-end-of-head"]
       ELSE IF e = p /\ acc # <<>> THEN [ok |-> TRUE, lines |-> acc, body |-> p + 2]
       ELSE HeadLines(w, e + 2, Append(acc, SubSeq(w, p, e - 1)))

\* field-line = field-name ":" OWS field-value OWS
FieldLine(line) ==
    LET c == IndexOf(line, COLON, 1)
    IN IF c = 0 THEN Bad("field-line-without-colon")
       ELSE LET name == SubSeq(line, 1, c - 1)
                val == Trim(SubSeq(line, c + 1, Len(line)))
            IN IF ~IsToken(name) THEN Bad("field-name-not-token")
               ELSE IF ~AllOf(val, IsFieldOctet) THEN Bad("field-value-octet")
               ELSE [ok |-> TRUE, n |-> LowerSeq(name), v |-> val]

\* status-line = "HTTP/" DIGIT "." DIGIT SP 3DIGIT SP [ reason-phrase ]
StatusLine(line) ==
    LET n == Len(line)
    IN IF n < 13 THEN Bad("status-line-short")
       ELSE IF ~(/\ line[1] = 72 /\ line[2] = 84 /\ line[3] = 84 /\ line[4] = 80 /\ line[5] = 47
                 /\ IsDigit(line[6]) /\ line[7] = 46 /\ IsDigit(line[8]) /\ line[9] = SP
                 /\ IsDigit(line[10]) /\ IsDigit(line[11]) /\ IsDigit(line[12]) /\ line[13] = SP)
            THEN Bad("status-line-syntax")
       ELSE LET reason == SubSeq(line, 14, n)
            IN IF ~AllOf(reason, IsFieldOctet) THEN Bad("reason-octet")
               ELSE [ok |-> TRUE, major |-> line[6] - 48, minor |-> line[8] - 48,
                     code |-> 100 * (line[10] - 48) + 10 * (line[11] - 48) + (line[12] - 48),
                     reason |-> reason]

\* request-line = method SP request-target SP "HTTP/" DIGIT "." DIGIT
RequestLine(line) ==
    LET a == IndexOf(line, SP, 1)
        b == IF a = 0 THEN 0 ELSE IndexOf(line, SP, a + 1)
    IN IF a = 0 \/ b = 0 \/ IndexOf(line, SP, b + 1) # 0 THEN Bad("request-line-parts")
       ELSE LET m == SubSeq(line, 1, a - 1)
                t == SubSeq(line, a + 1, b - 1)
                v == SubSeq(line, b + 1, Len(line))
            IN IF ~IsToken(m) THEN Bad("method-not-token")
               ELSE IF ~(Len(t) > 0 /\ AllOf(t, IsVchar)) THEN Bad("target-octet")
               ELSE IF ~(/\ Len(v) = 8 /\ v[1] = 72 /\ v[2] = 84 /\ v[3] = 84 /\ v[4] = 80 /\ v[5] = 47
                         /\ IsDigit(v[6]) /\ v[7] = 46 /\ IsDigit(v[8]))
                    THEN Bad("version-syntax")
               ELSE [ok |-> TRUE, method |-> m, target |-> t, major |-> v[6] - 48, minor |-> v[8] - 48]

(* The head of a message: start line + field lines, up to the first empty line. *)
MsgHead(w) ==
    LET hl == HeadLines(w, 1, <<>>)
    IN IF ~hl.ok THEN hl
       ELSE LET lines == hl.lines
            IN IF \E k \in 1..Len(lines) : \E i \in 1..Len(lines[k]) : IsLineBreakOctet(lines[k][i])
                  THEN Bad("bare-CR-or-LF-in-head")
               ELSE LET fl == [k \in 1..(Len(lines) - 1) |-> FieldLine(lines[k + 1])]
                    IN IF \E k \in 1..Len(fl) : ~fl[k].ok
                          THEN fl[CHOOSE k \in 1..Len(fl) : ~fl[k].ok /\ \A j \in 1..(k - 1) : fl[j].ok]
                       ELSE [ok |-> TRUE, start |-> lines[1],
                             hdrs |-> [k \in 1..Len(fl) |-> <<fl[k].n, fl[k].v>>],
                             body |-> hl.body]

HdrVals(hs, name) == LET sel == SelectSeq(hs, LAMBDA h : h[1] = name) IN [k \in 1..Len(sel) |-> sel[k][2]]

-----------------------------------------------------------------------------
(* Chunked transfer coding, RFC 9112 7.1.  ChunkedFrom(w, p, segs) parses from
   index p (first octet of a chunk-size line); result: segs = <<start, len>> of
   each chunk-data run, end = index of the last octet of the coding.           *)
IsExtOctet(b) == b = HTAB \/ b \in 32..126 \/ IsObs(b)

RECURSIVE TrailerFrom(_, _)
TrailerFrom(w, t) ==      \* t = first octet after the last-chunk line
    IF IsCRLFAt(w, t) THEN [ok |-> TRUE, end |-> t + 1]
    ELSE LET e == NextCRLF(w, t)
         IN IF e = 0 THEN Bad("chunked-trailer-incomplete")
            ELSE IF ~FieldLine(SubSeq(w, t, e - 1)).ok THEN Bad("chunked-trailer-field")
            ELSE TrailerFrom(w, e + 2)

RECURSIVE FirstNonHex(_, _)
FirstNonHex(w, q) == IF q > Len(w) THEN q ELSE IF IsHex(w[q]) THEN FirstNonHex(w, q + 1) ELSE q
RECURSIVE ChunkedFrom(_, _, _)
ChunkedFrom(w, p, segs) ==
    LET n == Len(w)
        q == FirstNonHex(w, p)
        digits == SubSeq(w, p, q - 1)
    IN IF ~IsHexNum(digits) THEN Bad("chunk-size")
       ELSE LET e == IF q <= n /\ w[q] = SEMI THEN NextCRLF(w, q) ELSE IF IsCRLFAt(w, q) THEN q ELSE 0
            IN IF e = 0 THEN Bad("chunk-size-line")
               ELSE IF ~AllOf(SubSeq(w, q, e - 1), IsExtOctet) THEN Bad("chunk-ext-octet")
               ELSE LET size == HexNum(digits)
                        d == e + 2
                    IN IF size = 0
                       THEN LET tr == TrailerFrom(w, d)
                            IN IF tr.ok THEN [ok |-> TRUE, segs |-> segs, end |-> tr.end] ELSE tr
                       ELSE IF d + size + 1 > n THEN Bad("chunk-data-incomplete")
                       ELSE IF ~IsCRLFAt(w, d + size) THEN Bad("chunk-data-not-followed-by-CRLF")
                       ELSE ChunkedFrom(w, d + size + 2, Append(segs, <<d, size>>))

RECURSIVE SegBytes(_, _, _)
SegBytes(w, segs, i) ==
    IF i > Len(segs) THEN <<>> ELSE SubSeq(w, segs[i][1], segs[i][1] + segs[i][2] - 1) \o SegBytes(w, segs, i + 1)

\* Content-Length field values: every value a decimal, all equal (RFC 9112 6.3 item 5)
CLValue(cl) ==
    IF \E k \in 1..Len(cl) : ~IsDec(cl[k]) THEN Bad("content-length-syntax")
    ELSE IF \E j, k \in 1..Len(cl) : DecVal(cl[j]) # DecVal(cl[k]) THEN Bad("content-length-conflict")
    ELSE [ok |-> TRUE, n |-> DecVal(cl[1])]

(* Message body of a RESPONSE (RFC 9112 6.3).  reqHead / reqMinor describe the
   request being answered; closed = the server closed the connection after the
   last octet of w.  "Exactly one response": no octet may follow the message.  *)
ResponseBody(w, p, hs, code, reqHead, reqMinor, closed) ==
    LET te == HdrVals(hs, NTransferEncoding)
        cl == HdrVals(hs, NContentLength)
        rest == Len(w) - p + 1
    IN IF reqHead \/ code \in 100..199 \/ code = 204 \/ code = 304
       THEN IF rest = 0 THEN [ok |-> TRUE, kind |-> "none", body |-> <<>>]
            ELSE Bad("octets-after-bodyless-response")
       ELSE IF Len(te) > 0
       THEN IF Len(cl) > 0 THEN Bad("transfer-encoding-with-content-length")
            ELSE IF reqMinor = 0 THEN Bad("transfer-encoding-sent-to-HTTP/1.0-client")
            ELSE IF ~(Len(te) = 1 /\ LowerSeq(te[1]) = VChunked) THEN Bad("final-coding-not-chunked")
            ELSE LET c == ChunkedFrom(w, p, <<>>)
                 IN IF ~c.ok THEN c
                    ELSE IF c.end # Len(w) THEN Bad("octets-after-chunked-body")
                    ELSE [ok |-> TRUE, kind |-> "chunked", body |-> SegBytes(w, c.segs, 1)]
       ELSE IF Len(cl) > 0
       THEN LET c == CLValue(cl)
            IN IF ~c.ok THEN c
               ELSE IF rest < c.n THEN Bad("body-shorter-than-content-length")
               ELSE IF rest > c.n THEN Bad("octets-after-content-length-body")
               ELSE [ok |-> TRUE, kind |-> "length", body |-> SubSeq(w, p, Len(w))]
       ELSE IF closed THEN [ok |-> TRUE, kind |-> "close", body |-> SubSeq(w, p, Len(w))]
       ELSE Bad("body-not-delimited-and-connection-open")

(* Message body of a REQUEST (RFC 9112 6.3 items 3-6). *)
RequestBody(w, p, hs) ==
    LET te == HdrVals(hs, NTransferEncoding)
        cl == HdrVals(hs, NContentLength)
        rest == Len(w) - p + 1
    IN IF Len(te) > 0
       THEN IF Len(cl) > 0 THEN Bad("transfer-encoding-with-content-length")
            ELSE IF ~(Len(te) = 1 /\ LowerSeq(te[1]) = VChunked) THEN Bad("final-coding-not-chunked")
            ELSE LET c == ChunkedFrom(w, p, <<>>)
                 IN IF ~c.ok THEN c
                    ELSE IF c.end # Len(w) THEN Bad("octets-after-chunked-body")
                    ELSE [ok |-> TRUE, kind |-> "chunked", body |-> SegBytes(w, c.segs, 1)]
       ELSE IF Len(cl) > 0
       THEN LET c == CLValue(cl)
            IN IF ~c.ok THEN c
               ELSE IF rest < c.n THEN Bad("body-shorter-than-content-length")
               ELSE IF rest > c.n THEN Bad("octets-after-content-length-body")
               ELSE [ok |-> TRUE, kind |-> "length", body |-> SubSeq(w, p, Len(w))]
       ELSE IF rest = 0 THEN [ok |-> TRUE, kind |-> "none", body |-> <<>>]
       ELSE Bad("octets-after-bodyless-request")

ParseResponse(w, reqHead, reqMinor, closed) ==
    LET h == MsgHead(w)
    IN IF ~h.ok THEN h
       ELSE LET s == StatusLine(h.start)
            IN IF ~s.ok THEN s
               ELSE LET b == ResponseBody(w, h.body, h.hdrs, s.code, reqHead, reqMinor, closed)
                    IN IF ~b.ok THEN b
                       ELSE [ok |-> TRUE, code |-> s.code, major |-> s.major, minor |-> s.minor, reason |-> s.reason,
                             hdrs |-> h.hdrs, kind |-> b.kind, body |-> b.body]

ParseRequest(w) ==
    LET h == MsgHead(w)
    IN IF ~h.ok THEN h
       ELSE LET s == RequestLine(h.start)
            IN IF ~s.ok THEN s
               ELSE LET b == RequestBody(w, h.body, h.hdrs)
                    IN IF ~b.ok THEN b
                       ELSE [ok |-> TRUE, method |-> s.method, target |-> s.target, major |-> s.major, minor |-> s.minor,
                             hdrs |-> h.hdrs, kind |-> b.kind, body |-> b.body]

-----------------------------------------------------------------------------
(* Arguments given as text: header names are ISO-8859-1, everything else UTF-8 (the documented API). *)
Utf8One(c) ==
    IF c < 128 THEN <<c>>
    ELSE IF c < 2048 THEN <<192 + (c \div 64), 128 + (c % 64)>>
    ELSE IF c < 65536 THEN <<224 + (c \div 4096), 128 + ((c \div 64) % 64), 128 + (c % 64)>>
    ELSE <<240 + (c \div 262144), 128 + ((c \div 4096) % 64), 128 + ((c \div 64) % 64), 128 + (c % 64)>>
Utf8(s) == FlattenSeq([i \in 1..Len(s) |-> Utf8One(s[i])])
ValOctets(s, txt) == IF txt THEN Utf8(s) ELSE s

IsUnsafe(b) == b = CR \/ b = LF \/ b = NUL
HasUnsafe(s) == \E i \in 1..Len(s) : IsUnsafe(s[i])
RECURSIVE UnsafeToSpace(_, _, _)
UnsafeToSpace(s, i, pairAsOne) ==
    IF i > Len(s) THEN <<>>
    ELSE IF pairAsOne /\ s[i] = CR /\ i < Len(s) /\ s[i + 1] = LF THEN <<SP>> \o UnsafeToSpace(s, i + 2, pairAsOne)
    ELSE IF IsUnsafe(s[i]) THEN <<SP>> \o UnsafeToSpace(s, i + 1, pairAsOne)
    ELSE <<s[i]>> \o UnsafeToSpace(s, i + 1, pairAsOne)
\* what an independent parser may report for a field value set to s
ValueAlts(s) == {Trim(UnsafeToSpace(s, 1, TRUE)), Trim(UnsafeToSpace(s, 1, FALSE))}
RECURSIVE Concat(_, _)
Concat(ss, i) == IF i > Len(ss) THEN <<>> ELSE ss[i] \o Concat(ss, i + 1)
=============================================================================
