SPECIFICATION Spec
CONSTANT KeyLens = {0, 1, 255}
CONSTANT ValLens = {0, 65535}
CONSTANT NonBytesVals <- NBQuick
CONSTANT Shapes <- ShapesThree
VIEW View
INVARIANT RoundTrip
INVARIANT NeverClosed
INVARIANT AllAtEnd
INVARIANT WireIsSer
CHECK_DEADLOCK FALSE
