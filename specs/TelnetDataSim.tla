---------------------------- MODULE TelnetDataSim ----------------------------
(* Behaviour generator (spec -> code): TelnetDataMC plus a history variable recording, per step, the
   call / injection / delivery chosen by TLC and the output the specification predicts for it.
   Run with `tlc -simulate`; the harness performs every step on the real objects.              *)
EXTENDS TelnetDataMC, Json
CONSTANT Depth
VARIABLE hist

SInit == Init /\ hist = <<>>
SNext == /\ Next
         /\ hist' = Append(hist,
               [e    |-> last'.e,
                kind |-> IF last'.e = "write" THEN last'.kind ELSE "",
                app  |-> SubSeq(app', Len(app) + 1, Len(app')),
                wire |-> SubSeq(wire', Len(wire) + 1, Len(wire')),
                k    |-> consumed' - consumed,
                out  |-> IF last'.e = "deliver" THEN last'.out ELSE <<>>])
SSpec == SInit /\ [][SNext]_<<vars, hist>>
EmitBeh == TLCGet("level") < Depth \/ PrintT(<<"BEH", ToJson([cfg |-> cfg, hist |-> hist])>>)
Stop == TLCGet("level") <= Depth
=============================================================================
