SPECIFICATION Spec
CONSTANT MaxN = 8
CONSTANT Unfold = FALSE
INVARIANT ConstDepth
INVARIANT StackBounded
INVARIANT Completes
INVARIANT NoLostWakeup
CHECK_DEADLOCK FALSE
