------------------------------ MODULE SerialMC ------------------------------
(* Exhaustive check of Serial for every width 1..W and limb size in LimbSizes:
   every pair (a, b) and every (s, n) is one state; the property's clauses and the
   agreement of the limb arithmetic with the RFC's integer formulas are invariants. *)
EXTENDS Serial, TLC
CONSTANTS W, LimbSizes

ToLimbs(b, lb, v) == [i \in 1..NLimbs(b, lb) |-> (v \div Pow2(lb * (NLimbs(b, lb) - i))) % Base(b, lb, i)]
RECURSIVE FromLimbsR(_, _, _)
FromLimbsR(lb, x, acc) == IF x = <<>> THEN acc ELSE FromLimbsR(lb, Tail(x), acc * Pow2(lb) + Head(x))
FromLimbs(lb, x) == FromLimbsR(lb, x, 0)
L(v) == ToLimbs(cfg.bits, cfg.lb, v)
N(x) == FromLimbs(cfg.lb, x)
Vals == 0..(Pow2(cfg.bits) - 1)

Init == \E b \in 1..W, lb \in LimbSizes : InitWith([bits |-> b, lb |-> lb])

\* one case per behaviour: the state graph is the enumeration of all cases
DoCmp        == last.e = "init" /\ \E a, b \in Vals : Cmp(L(a), L(b))
DoAddOk      == last.e = "init" /\ \E s, n \in Vals : AddOk(L(s), L(n))
DoAddRefused == last.e = "init" /\ \E s, n \in Vals : AddRefused(L(s), L(n))
Next == DoCmp \/ DoAddOk \/ DoAddRefused
Spec == Init /\ [][Next]_vars

(* limb arithmetic = RFC integer formulas; limb encoding is a bijection *)
RoundTrip == last.e = "cmp" => /\ N(last.a) \in Vals /\ L(N(last.a)) = last.a
                               /\ N(last.b) \in Vals /\ L(N(last.b)) = last.b
NumCmp == last.e = "cmp" =>
            /\ last.lt = ILt(cfg.bits, N(last.a), N(last.b))
            /\ last.gt = IGt(cfg.bits, N(last.a), N(last.b))
            /\ last.eq = IEq(cfg.bits, N(last.a), N(last.b))
            /\ HalfApart(last.a, last.b) = (N(last.a) - N(last.b) = Half(cfg.bits) \/ N(last.b) - N(last.a) = Half(cfg.bits))
NumAdd == last.e = "add" =>
            /\ (last.res = "ok") = (N(last.n) <= MaxAdd(cfg.bits))
            /\ (last.res = "ok" => N(last.v) = (N(last.s) + N(last.n)) % Pow2(cfg.bits))
            /\ (last.res = "ok" => last.gts = IGt(cfg.bits, N(last.v), N(last.s)))
(* consequences of 3.2 the property relies on implicitly *)
Antisym == last.e = "cmp" => /\ last.lt = Gt(last.b, last.a)
                             /\ last.gt = Lt(last.b, last.a)
                             /\ last.eq = Eq(last.b, last.a)
=============================================================================
