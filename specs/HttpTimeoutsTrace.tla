--------------------------- MODULE HttpTimeoutsTrace ---------------------------
(* Batched trace validation for X19: every logged event must be one step of HttpTimeouts whose event record
   equals the logged record field for field, with the invariants and the step properties holding. *)
EXTENDS HttpTimeouts, TLC, Json, IOUtils
Traces == JsonDeserialize(IOEnv.TRACE_FILE)
VARIABLES tid, l
ASSUME \A t \in 1..Len(Traces) : TLCSet(t, 1)
T == Traces[tid]
E == T.ev[l]
TInit == /\ tid \in 1..Len(Traces) /\ l = 1
         /\ InitWith([to |-> Traces[tid].cfg.to, ab |-> Traces[tid].cfg.ab,
                      mode |-> Traces[tid].cfg.mode, ver |-> Traces[tid].cfg.ver])
Step(A) == /\ l <= Len(T.ev) /\ A /\ last' = E /\ Inv' /\ StepInv
           /\ l' = l + 1 /\ UNCHANGED tid
TNext == \/ (E.e = "data" /\ Step(Data(E.a)))
         \/ (E.e = "bad" /\ Step(Bad))
         \/ (E.e = "write" /\ Step(Write(E.a)))
         \/ (E.e = "finish" /\ Step(Finish(E.a)))
         \/ (E.e = "adv" /\ Step(Adv(E.a)))
         \/ (E.e = "lost" /\ Step(ConnLost))
TSpec == TInit /\ [][l <= Len(T.ev) /\ TNext]_<<vars, tid, l>>
Progress == TLCSet(tid, IF TLCGet(tid) > l THEN TLCGet(tid) ELSE l)
Rejected == {<<t, TLCGet(t)>> : t \in {u \in 1..Len(Traces) : TLCGet(u) # Len(Traces[u].ev) + 1}}
Accepted == Rejected = {} \/ (PrintT(<<"REJECTED", Rejected>>) /\ FALSE)
=============================================================================
