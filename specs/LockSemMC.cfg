SPECIFICATION Spec
CONSTANT Depth = 8
CONSTANT MaxAcq = 4
CONSTRAINT Bound
VIEW View
INVARIANT Safe
INVARIANT NoIdleWaiter
INVARIANT Fifo
INVARIANT NoCancelledGrant
INVARIANT Accounting
INVARIANT RunReleaseOnce
CHECK_DEADLOCK FALSE
