------------------------------ MODULE ClientSvc ------------------------------
(* C58 -- twisted.application.internet.ClientService, stated from the property:

     * never more than one open connection or attempt in progress;
     * a retry starts exactly when the policy's delay for the current number of
       consecutive failures has elapsed;
     * every whenConnected Deferred fires at most once and no later than the next
       connection / its failure limit / the stop of the service;
     * every stopService Deferred fires once any connection is closed (not before,
       and in the event that closes it);
     * no event is rejected as invalid for the service's state (every call and every
       environment stimulus is accepted: `res` of every event is "ok").

   This is the service the property describes ("ideal" service), written with one
   operator per public call / environment stimulus.  The state is ONE record S so
   that a stimulus that chains several effects synchronously (endpoint that connects
   or fails inside connect(), hook that answers at once, transport that reports the
   close inside loseConnection(), calls made re-entrantly by user callbacks) is the
   composition of operators.  Where the property leaves freedom the operator takes a
   choice parameter bound by \E in the action:
     ch.early : limited waiters that fail before their limit is reached (allowed: "no later than")
     ch.dn    : whether a dropped connection counts as a failure for the policy argument
     ch.lose  : whether a connection rejected by prepareConnection is closed by the service
     ch.hc    : whether a pending prepareConnection Deferred is cancelled when its connection is given up
     ch.cw    : whether waiters are failed at the stopService call or when the stop completes

   Observables of one top-level event (compared with the log by ClientSvcTrace):
     S.obs  : set of [k, i, r, c]   k = "connect" (i = attempt id), "cancel" (attempt i cancelled by the service),
              "policy" (i = argument given to the retry policy), "prep" (hook called for connection i),
              "lose" (loseConnection on connection i), "w" (waiter i fired, r = OK/ERR, c = connection),
              "s" (stop Deferred i fired)
     S.nres : sequence of the re-entrant calls made by user callbacks, with their outcomes.
   Re-entrant calls are taken after the effects of the event that fired the callback
   (one sub-step each, S.todo holds the ones still to be taken).                       *)
EXTENDS Naturals, Integers, Sequences, FiniteSets

None == -1

VARIABLES cfg,   \* [hook, syncClose : BOOLEAN, pol : Seq(Nat \ {0}), cmode, hmode : initial modes]
          S      \* the record described below

vars == <<cfg, S>>

Empty == [x \in {} |-> 0]

Init0(c) ==
    [ mode |-> "idle",      \* idle (never started) | run | stopping | restarting | stopped
      att |-> 0,            \* pending endpoint attempt (0 = none)
      conn |-> 0,           \* open connection (0 = none)
      prep |-> "na",        \* na | pending | done | rej (rejected by the hook, still open) | closing (given up by stop)
      hooks |-> {},         \* connections whose prepareConnection Deferred has not fired (environment state)
      retryAt |-> None, now |-> 0, fails |-> 0,
      wt |-> Empty,         \* pending whenConnected Deferreds: id -> [rem (0 = no limit), then]
      stops |-> Empty,      \* pending stopService Deferreds: id -> then
      nAtt |-> 0, nConn |-> 0, nW |-> 0, nS |-> 0,
      cmode |-> c.cmode,    \* endpoint.connect answers: async | ok | fail
      hmode |-> c.hmode,    \* prepareConnection answers: ok | fail | async
      obs |-> {}, todo |-> {}, nres |-> <<>> ]

InitWith(c) == /\ cfg = c       \* cmode / hmode of cfg are the INITIAL modes; S.cmode / S.hmode are the current ones
               /\ S = Init0(c)

-----------------------------------------------------------------------------
Min(a, b) == IF a < b THEN a ELSE b
Max(a, b) == IF a > b THEN a ELSE b
Pol(n) == cfg.pol[Max(1, Min(n, Len(cfg.pol)))]

Ob(k, i, r, c) == [k |-> k, i |-> i, r |-> r, c |-> c]
AddObs(s, k, i) == [s EXCEPT !.obs = @ \cup {Ob(k, i, "-", 0)}]

Limited(s) == {w \in DOMAIN s.wt : s.wt[w].rem > 0}
MustFail(s) == {w \in DOMAIN s.wt : s.wt[w].rem = 1}

(* fire the waiters `ids` with result r (and connection c); their callbacks' re-entrant calls go to todo *)
FireW(s, ids, r, c) ==
    [s EXCEPT !.obs = @ \cup {Ob("w", w, r, c) : w \in ids},
              !.todo = @ \cup {[by |-> "w", id |-> w, call |-> s.wt[w].then] : w \in {x \in ids : s.wt[x].then # "none"}},
              !.wt = [w \in (DOMAIN s.wt) \ ids |-> s.wt[w]]]
FireAllW(s, r, c) == FireW(s, DOMAIN s.wt, r, c)

FireStops(s) ==
    [s EXCEPT !.obs = @ \cup {Ob("s", i, "OK", 0) : i \in DOMAIN s.stops},
              !.todo = @ \cup {[by |-> "s", id |-> i, call |-> s.stops[i]] : i \in {x \in DOMAIN s.stops : s.stops[x] # "none"}},
              !.stops = Empty]

(* an attempt failed / a connection was rejected / lost before it was usable *)
Failure(s, ch) ==
    LET n  == s.fails + 1
        s1 == AddObs([s EXCEPT !.fails = n, !.retryAt = s.now + Pol(n)], "policy", n)
        F  == MustFail(s1) \cup (ch.early \cap Limited(s1))
        s2 == FireW(s1, F, "ERR", 0)
    IN [s2 EXCEPT !.wt = [w \in DOMAIN s2.wt |-> IF s2.wt[w].rem > 0 THEN [s2.wt[w] EXCEPT !.rem = @ - 1] ELSE s2.wt[w]]]

Connected(s) == FireAllW([s EXCEPT !.prep = "done", !.fails = 0], "OK", s.conn)

(* the service gave up connection s.conn while it stays open: optionally asks the transport to close it *)
RECURSIVE Closed(_, _)
GiveUp(s, lose, ch) ==
    IF ~lose THEN s
    ELSE LET s1 == AddObs(s, "lose", s.conn)
         IN IF cfg.syncClose THEN Closed(s1, ch) ELSE s1

Rejected(s, ch) == GiveUp(Failure([s EXCEPT !.prep = "rej"], ch), ch.lose, ch)

Established(s, ch) ==
    LET c  == s.nConn + 1
        s1 == [s EXCEPT !.conn = c, !.nConn = c, !.att = 0, !.prep = "pending"]
    IN IF ~cfg.hook THEN Connected(s1)
       ELSE LET s2 == AddObs(s1, "prep", c)
            IN CASE s.hmode = "ok"   -> Connected(s2)
                 [] s.hmode = "fail" -> Rejected(s2, ch)
                 [] OTHER            -> [s2 EXCEPT !.hooks = @ \cup {c}]

Begin(s, ch) ==
    LET a  == s.nAtt + 1
        s1 == AddObs([s EXCEPT !.att = a, !.nAtt = a, !.retryAt = None], "connect", a)
    IN CASE s.cmode = "ok"   -> Established(s1, ch)
         [] s.cmode = "fail" -> Failure([s1 EXCEPT !.att = 0], ch)
         [] OTHER            -> s1

(* connection s.conn is closed (environment) *)
Closed(s, ch) ==
    LET p  == s.prep
        s0 == [s EXCEPT !.conn = 0, !.prep = "na",
                        !.hooks = IF ch.hc THEN @ \ {s.conn} ELSE @]
    IN CASE s.mode = "stopping"   -> FireStops(FireAllW([s0 EXCEPT !.mode = "stopped"], "ERR", 0))
         [] s.mode = "restarting" -> Begin(FireStops([s0 EXCEPT !.mode = "run"]), ch)
         [] s.mode = "run" /\ p = "done" ->
                LET n == IF ch.dn THEN s.fails + 1 ELSE s.fails
                IN AddObs([s0 EXCEPT !.fails = n, !.retryAt = s.now + Pol(n)], "policy", n)
         [] s.mode = "run" /\ p = "pending" -> Failure(s0, ch)
         [] s.mode = "run" /\ p = "rej" ->
                IF s0.retryAt # None /\ s0.retryAt <= s0.now THEN Begin(s0, ch) ELSE s0
         [] OTHER -> s0

-----------------------------------------------------------------------------
(* public calls; `then` = what the callback of the returned Deferred does when it fires *)
DoStart(s, ch) ==
    CASE s.mode \in {"idle", "stopped"} -> Begin([s EXCEPT !.mode = "run"], ch)
      [] s.mode = "stopping"            -> [s EXCEPT !.mode = "restarting"]
      [] OTHER                          -> s

DoStop(s, then, ch) ==
    LET i   == s.nS + 1
        s1  == [s EXCEPT !.nS = i, !.stops = [x \in (DOMAIN s.stops) \cup {i} |-> IF x = i THEN then ELSE s.stops[x]]]
        now == \* nothing is open: the stop is complete at once
               FireStops(FireAllW([s1 EXCEPT !.mode = "stopped", !.retryAt = None], "ERR", 0))
    IN CASE s.mode \in {"idle", "stopped"} -> now
         [] s.mode = "stopping"            -> s1
         [] s.mode = "restarting"          -> [s1 EXCEPT !.mode = "stopping"]
         [] s.att # 0                      -> LET s2 == AddObs([s1 EXCEPT !.att = 0], "cancel", s.att)
                                              IN FireStops(FireAllW([s2 EXCEPT !.mode = "stopped", !.retryAt = None], "ERR", 0))
         [] s.conn # 0                     ->
                LET s2 == [s1 EXCEPT !.mode = "stopping", !.retryAt = None, !.prep = "closing",
                                     !.hooks = IF ch.hc THEN @ \ {s.conn} ELSE @]
                    s3 == IF ch.cw THEN FireAllW(s2, "ERR", 0) ELSE s2
                IN GiveUp(s3, TRUE, ch)
         [] OTHER                          -> now

(* k = failAfterFailures: -1 = None (no limit).  "The number of connection failures after which the Deferred will
   deliver a Failure": the Failure it delivers is a connection failure, so a limit of 0 is due at the first failure
   like a limit of 1 (rem = failures still allowed to pass, 0 = no limit). *)
DoWhen(s, k, then) ==
    LET w  == s.nW + 1
        s1 == [s EXCEPT !.nW = w, !.wt = [x \in (DOMAIN s.wt) \cup {w} |-> IF x = w THEN [rem |-> IF k < 0 THEN 0 ELSE Max(k, 1), then |-> then] ELSE s.wt[x]]]
    IN CASE s.mode = "run" /\ s.conn # 0 /\ s.prep = "done" -> FireW(s1, {w}, "OK", s.conn)
         [] s.mode = "stopped"                              -> FireW(s1, {w}, "ERR", 0)
         [] OTHER                                           -> s1

(* environment stimuli *)
DoSucceed(s, ch) == Established(s, ch)                                   \* guard: s.att # 0
DoFail(s, ch)    == Failure([s EXCEPT !.att = 0], ch)                    \* guard: s.att # 0
DoPrep(s, c, ok, ch) ==                                                  \* guard: c \in s.hooks
    LET s1 == [s EXCEPT !.hooks = @ \ {c}]
    IN IF c = s.conn /\ s.prep = "pending" /\ s.mode = "run"
       THEN IF ok THEN Connected(s1) ELSE Rejected(s1, ch)
       ELSE s1
DoDrop(s, ch) == Closed(s, ch)                                           \* guard: s.conn # 0
DoAdv(s, d, ch) ==
    LET s1 == [s EXCEPT !.now = @ + d]
    IN IF s1.mode = "run" /\ s1.retryAt # None /\ s1.retryAt <= s1.now /\ s1.conn = 0 /\ s1.att = 0
       THEN Begin(s1, ch) ELSE s1

-----------------------------------------------------------------------------
B(on) == IF on THEN BOOLEAN ELSE {FALSE}
(* only the choices that can matter for the stimulus are enumerated (the others are fixed) *)
Ch(s, e, d, lo, h, c) ==
    [early : IF e THEN SUBSET Limited(s) ELSE {{}},
     dn    : IF d /\ s.prep = "done" /\ s.mode = "run" THEN BOOLEAN ELSE {TRUE},
     lose  : B(lo /\ cfg.hook),
     hc    : B(h /\ s.conn \in s.hooks),
     cw    : B(c /\ s.conn # 0 /\ DOMAIN s.wt # {})]
Choices(s) == Ch(s, TRUE, TRUE, TRUE, TRUE, TRUE)

Fresh(s) == [s EXCEPT !.obs = {}, !.nres = <<>>]      \* a new top-level event starts
Idle == S.todo = {}

Start        == UNCHANGED cfg /\ Idle /\ \E ch \in Ch(S, TRUE, FALSE, TRUE, FALSE, FALSE) : S' = DoStart(Fresh(S), ch)
Stop(then)   == UNCHANGED cfg /\ Idle /\ \E ch \in Ch(S, FALSE, FALSE, FALSE, TRUE, TRUE) : S' = DoStop(Fresh(S), then, ch)
When(k, then) == UNCHANGED cfg /\ Idle /\ S' = DoWhen(Fresh(S), k, then)
Succeed      == UNCHANGED cfg /\ Idle /\ S.att # 0 /\ \E ch \in Ch(S, TRUE, FALSE, TRUE, FALSE, FALSE) : S' = DoSucceed(Fresh(S), ch)
Fail         == UNCHANGED cfg /\ Idle /\ S.att # 0 /\ \E ch \in Ch(S, TRUE, FALSE, FALSE, FALSE, FALSE) : S' = DoFail(Fresh(S), ch)
PrepOk(c)    == UNCHANGED cfg /\ Idle /\ c \in S.hooks /\ \E ch \in Ch(S, FALSE, FALSE, FALSE, FALSE, FALSE) : S' = DoPrep(Fresh(S), c, TRUE, ch)
PrepFail(c)  == UNCHANGED cfg /\ Idle /\ c \in S.hooks /\ \E ch \in Ch(S, TRUE, FALSE, TRUE, FALSE, FALSE) : S' = DoPrep(Fresh(S), c, FALSE, ch)
Drop(c)      == UNCHANGED cfg /\ Idle /\ c # 0 /\ c = S.conn /\ \E ch \in Ch(S, TRUE, TRUE, TRUE, TRUE, FALSE) : S' = DoDrop(Fresh(S), ch)
Adv(d)       == UNCHANGED cfg /\ Idle /\ \E ch \in Ch(S, TRUE, FALSE, TRUE, FALSE, FALSE) : S' = DoAdv(Fresh(S), d, ch)
CMode(m)     == UNCHANGED cfg /\ Idle /\ S' = [Fresh(S) EXCEPT !.cmode = m]
HMode(m)     == UNCHANGED cfg /\ Idle /\ S' = [Fresh(S) EXCEPT !.hmode = m]

(* a user callback's re-entrant call: accepted like any other call ("no event is rejected") *)
ChN(s, n) == Ch(s, n.call = "start", FALSE, n.call = "start", n.call = "stop", n.call = "stop")
ApplyNested(s, n, ch) ==
    LET s0 == [s EXCEPT !.todo = @ \ {n}]
        s1 == CASE n.call = "start" -> DoStart(s0, ch)
                [] n.call = "stop"  -> DoStop(s0, "none", ch)
                [] OTHER            -> DoWhen(s0, 0 - 1, "none")
        nid == CASE n.call = "stop" -> s1.nS [] n.call = "when" -> s1.nW [] OTHER -> 0
    IN [s1 EXCEPT !.nres = Append(@, [by |-> n.by, id |-> n.id, call |-> n.call, res |-> "ok", newid |-> nid])]
NestedCall(n) ==
    /\ n \in S.todo
    /\ \E ch \in ChN(S, n) : S' = ApplyNested(S, n, ch)
Nested == UNCHANGED cfg /\ \E n \in S.todo : NestedCall(n)

Thens == {"none", "start", "stop", "when"}
Next == \/ Start
        \/ \E t \in Thens : Stop(t)
        \/ \E k \in (0 - 1)..2, t \in Thens : When(k, t)
        \/ Succeed
        \/ Fail
        \/ \E c \in S.hooks : PrepOk(c)
        \/ \E c \in S.hooks : PrepFail(c)
        \/ \E c \in {S.conn} : Drop(c)
        \/ \E d \in 1..2 : Adv(d)
        \/ \E m \in {"async", "ok", "fail"} : CMode(m)
        \/ \E m \in {"ok", "fail", "async"} : HMode(m)
        \/ Nested

-----------------------------------------------------------------------------
(* The property as state invariants (they hold between any two calls, re-entrant or not). *)
OneConnOf(s) == ~(s.att # 0 /\ s.conn # 0)                       \* single-valued att/conn + this = at most one of either
RetryInvOf(s) == /\ (s.mode = "run" /\ s.att = 0 /\ s.conn = 0 => s.retryAt # None /\ s.retryAt > s.now)
            /\ (s.mode = "run" /\ s.prep = "rej" => s.retryAt # None)
            /\ (s.mode # "run" => s.retryAt = None)
            /\ (s.att # 0 \/ s.prep \in {"pending", "done"} => s.retryAt = None)
WaitInvOf(s) == /\ (s.mode = "run" /\ s.prep = "done" => DOMAIN s.wt = {})      \* resolved by the connection
            /\ (s.mode = "stopped" => DOMAIN s.wt = {})                       \* resolved by the stop
            /\ \A w \in DOMAIN s.wt : s.wt[w].rem >= 0                        \* limit not overrun (rem=1 fails at the next failure)
StopInvOf(s) == /\ (DOMAIN s.stops # {} <=> s.mode \in {"stopping", "restarting"})
            /\ (s.mode \in {"stopping", "restarting"} => s.conn # 0)          \* a pending stop waits for an open connection only
            /\ (s.mode \in {"idle", "stopped"} => s.att = 0 /\ s.conn = 0)
            /\ (s.mode # "run" => s.att = 0)
FiredOnceOf(s) == \A o1, o2 \in s.obs : (o1.k = o2.k /\ o1.i = o2.i /\ o1.k \in {"w", "s"}) => o1 = o2

InvOf(s) == OneConnOf(s) /\ RetryInvOf(s) /\ WaitInvOf(s) /\ StopInvOf(s) /\ FiredOnceOf(s)
OneConn == OneConnOf(S)
RetryInv == RetryInvOf(S)
WaitInv == WaitInvOf(S)
StopInv == StopInvOf(S)
FiredOnce == FiredOnceOf(S)
Inv == OneConn /\ RetryInv /\ WaitInv /\ StopInv /\ FiredOnce
=============================================================================
