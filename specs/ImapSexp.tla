------------------------------ MODULE ImapSexp ------------------------------
(* C42 -- IMAP4 parenthesised lists: what the server serialises, the client parses.

   Octets are integers 0..255.  A nested list is represented FLAT, as its token
   sequence (a bijection for balanced sequences), every token a pair <<tag, payload>>:
       <<"(", <<>>>>  <<")", <<>>>>  <<"nil", <<>>>>  <<"s", octets>>  <<"i", <<n>>>>
   ("i" occurs only on the input side: the property says an integer comes back as its
   decimal text, i.e. as <<"s", Dec(n)>>).

   Abs layer (the property):  parsed = Expected(x).
   Reference format (RFC 3501 section 4 / 9): Ser writes nil as NIL, numbers in decimal,
   strings as quoted strings ('\' and '"' escaped by '\') or, when they contain CR, LF, NUL
   or 8-bit octets, as literals {n}CRLF<n octets>; lists in parentheses, items separated
   by one SP.  PStep is the matching tokeniser, one step per octet (lenient: accepts 8-bit
   and control octets inside quoted strings, any escaped octet).  TLC checks
   Parse(Ser(x)) = Expected(x) for all bounded x -- the property is satisfiable by an RFC
   serialiser/parser pair -- and the trace spec uses RefParse on the REAL serialiser's
   output as a diagnostic (which side is at fault).                                   *)
EXTENDS Naturals, Integers, Sequences, FiniteSets

DQUOTE == 34   BSLASH == 92   CR == 13   LF == 10   LBRACE == 123   RBRACE == 125
LPAREN == 40   RPAREN == 41   SP == 32   MINUS == 45
NILTXT == <<78, 73, 76>>
IsDigit(b) == b >= 48 /\ b <= 57

VARIABLES cfg,      \* [stepwise |-> BOOLEAN]  (exhaustive run only)
          toks,     \* the structure (closed tokens so far)
          cur,      \* <<>> or << octets >> : the string being built (exhaustive run only)
          depth,    \* open lists while building
          phase,    \* "build" | "parse" | "done"
          stream,   \* serialisation
          pos, pm   \* tokeniser position and state
vars == <<cfg, toks, cur, depth, phase, stream, pos, pm>>

-----------------------------------------------------------------------------
RECURSIVE Flat(_)
Flat(ss) == IF Len(ss) = 0 THEN <<>> ELSE Head(ss) \o Flat(Tail(ss))

RECURSIVE DecNat(_)
DecNat(n) == IF n < 10 THEN <<48 + n>> ELSE DecNat(n \div 10) \o <<48 + (n % 10)>>
Dec(n) == IF n < 0 THEN <<MINUS>> \o DecNat(0 - n) ELSE DecNat(n)

Expected(x) == [i \in 1..Len(x) |-> IF x[i][1] = "i" THEN <<"s", Dec(x[i][2][1])>> ELSE x[i]]

(* ---- reference serialiser ---- *)
NeedsLiteral(s) == \E i \in 1..Len(s) : s[i] \in {CR, LF, 0} \/ s[i] > 127
Quoted(s)  == <<DQUOTE>> \o Flat([i \in 1..Len(s) |-> IF s[i] \in {BSLASH, DQUOTE} THEN <<BSLASH, s[i]>> ELSE <<s[i]>>]) \o <<DQUOTE>>
Literal(s) == <<LBRACE>> \o DecNat(Len(s)) \o <<RBRACE, CR, LF>> \o s
SerTok(t) == CASE t[1] = "("   -> <<LPAREN>>
               [] t[1] = ")"   -> <<RPAREN>>
               [] t[1] = "nil" -> NILTXT
               [] t[1] = "i"   -> Dec(t[2][1])
               [] OTHER        -> IF NeedsLiteral(t[2]) THEN Literal(t[2]) ELSE Quoted(t[2])
Sep(x, i) == IF i = 1 \/ x[i - 1][1] = "(" \/ x[i][1] = ")" THEN <<>> ELSE <<SP>>
Ser(x) == Flat([i \in 1..Len(x) |-> Sep(x, i) \o SerTok(x[i])])

(* ---- reference tokeniser: one step per octet ---- *)
P0 == [mode |-> "top", acc |-> <<>>, n |-> 0, nd |-> 0, out |-> <<>>, lvl |-> 0, err |-> FALSE]

Emit(p, tok) == [p EXCEPT !.out = Append(@, tok), !.acc = <<>>, !.mode = "top"]
AtomTok(a) == IF a = NILTXT THEN <<"nil", <<>>>> ELSE <<"s", a>>
Open(p)  == [p EXCEPT !.out = Append(@, <<"(", <<>>>>), !.lvl = @ + 1]
Close(p) == IF p.lvl = 0 THEN [p EXCEPT !.err = TRUE]
            ELSE [p EXCEPT !.out = Append(@, <<")", <<>>>>), !.lvl = @ - 1]
Bad(p) == [p EXCEPT !.err = TRUE]

PKind(p, b) ==
    IF p.err THEN "dead" ELSE
    CASE p.mode = "top"    -> (IF b = SP THEN "space" ELSE IF b = LPAREN THEN "open" ELSE IF b = RPAREN THEN "close"
                               ELSE IF b = DQUOTE THEN "qstart" ELSE IF b = LBRACE THEN "lstart"
                               ELSE IF b \in {CR, LF, RBRACE, BSLASH} THEN "bad" ELSE "astart")
      [] p.mode = "atom"   -> (IF b = SP THEN "aend" ELSE IF b = RPAREN THEN "aendclose"
                               ELSE IF b \in {CR, LF, DQUOTE, LBRACE, LPAREN, BSLASH} THEN "bad" ELSE "achar")
      [] p.mode = "quoted" -> (IF b = BSLASH THEN "qesc" ELSE IF b = DQUOTE THEN "qend" ELSE "qchar")
      [] p.mode = "qesc"   -> "qescaped"
      [] p.mode = "lithdr" -> (IF IsDigit(b) THEN "ldigit" ELSE IF b = RBRACE /\ p.nd > 0 THEN "lbrace" ELSE "bad")
      [] p.mode = "litcr"  -> (IF b = CR THEN "lcr" ELSE "bad")
      [] p.mode = "litlf"  -> (IF b = LF THEN "llf" ELSE "bad")
      [] OTHER             -> "lchar"        \* mode = "lit"

PStep(p, b) ==
    LET k == PKind(p, b) IN
    CASE k = "dead"      -> p
      [] k = "space"     -> p
      [] k = "open"      -> Open(p)
      [] k = "close"     -> Close(p)
      [] k = "qstart"    -> [p EXCEPT !.mode = "quoted", !.acc = <<>>]
      [] k = "lstart"    -> [p EXCEPT !.mode = "lithdr", !.n = 0, !.nd = 0]
      [] k = "astart"    -> [p EXCEPT !.mode = "atom", !.acc = <<b>>]
      [] k = "aend"      -> Emit(p, AtomTok(p.acc))
      [] k = "aendclose" -> Close(Emit(p, AtomTok(p.acc)))
      [] k = "achar"     -> [p EXCEPT !.acc = Append(@, b)]
      [] k = "qesc"      -> [p EXCEPT !.mode = "qesc"]
      [] k = "qend"      -> Emit(p, <<"s", p.acc>>)
      [] k = "qchar"     -> [p EXCEPT !.acc = Append(@, b)]
      [] k = "qescaped"  -> [p EXCEPT !.acc = Append(@, b), !.mode = "quoted"]
      [] k = "ldigit"    -> [p EXCEPT !.n = @ * 10 + (b - 48), !.nd = @ + 1]
      [] k = "lbrace"    -> [p EXCEPT !.mode = "litcr"]
      [] k = "lcr"       -> [p EXCEPT !.mode = "litlf"]
      [] k = "llf"       -> IF p.n = 0 THEN Emit(p, <<"s", <<>>>>) ELSE [p EXCEPT !.mode = "lit", !.acc = <<>>]
      [] k = "lchar"     -> IF p.n = 1 THEN Emit([p EXCEPT !.n = 0], <<"s", Append(p.acc, b)>>)
                            ELSE [p EXCEPT !.acc = Append(@, b), !.n = @ - 1]
      [] OTHER           -> Bad(p)

PEnd(p) == LET q == IF p.mode = "atom" /\ ~p.err THEN Emit(p, AtomTok(p.acc)) ELSE p IN
           IF q.err \/ q.mode # "top" \/ q.lvl # 0 THEN [q EXCEPT !.err = TRUE] ELSE q

\* fold PStep over the octets.  TLC passes operator arguments lazily: the state is forced at every step
\* (q.err is inspected) and the fold is chunked, so the evaluator's recursion depth stays small on long streams.
RECURSIVE PRunTo(_, _, _, _)
PRunTo(p, s, i, j) == IF i > j THEN p
                      ELSE LET q == PStep(p, s[i]) IN IF q.err THEN q ELSE PRunTo(q, s, i + 1, j)
RECURSIVE PRun(_, _, _)
PRun(p, s, i) == IF i > Len(s) THEN PEnd(p)
                 ELSE LET j == IF i + 63 < Len(s) THEN i + 63 ELSE Len(s)
                          r == PRunTo(p, s, i, j)
                      IN IF r.err THEN PEnd(r) ELSE PRun(r, s, j + 1)
RefParse(s) == PRun(P0, s, 1)

-----------------------------------------------------------------------------
(* the property *)
Holds(x, parsed) == parsed = Expected(x)

-----------------------------------------------------------------------------
(* exhaustive run: build a structure token by token / octet by octet, serialise, tokenise *)
NoStr == <<>>
InitWith(c) == /\ cfg = c /\ toks = <<>> /\ cur = NoStr /\ depth = 0 /\ phase = "build"
               /\ stream = <<>> /\ pos = 1 /\ pm = P0

Building == phase = "build"
BOpenStr  == /\ Building /\ cur = NoStr /\ cur' = << <<>> >>
             /\ UNCHANGED <<cfg, toks, depth, phase, stream, pos, pm>>
BAddOctet(b) == /\ Building /\ cur # NoStr /\ cur' = << Append(cur[1], b) >>
                /\ UNCHANGED <<cfg, toks, depth, phase, stream, pos, pm>>
BCloseStr == /\ Building /\ cur # NoStr /\ toks' = Append(toks, <<"s", cur[1]>>) /\ cur' = NoStr
             /\ UNCHANGED <<cfg, depth, phase, stream, pos, pm>>
BNil      == /\ Building /\ cur = NoStr /\ toks' = Append(toks, <<"nil", <<>>>>)
             /\ UNCHANGED <<cfg, cur, depth, phase, stream, pos, pm>>
BInt(n)   == /\ Building /\ cur = NoStr /\ toks' = Append(toks, <<"i", <<n>>>>)
             /\ UNCHANGED <<cfg, cur, depth, phase, stream, pos, pm>>
BOpen     == /\ Building /\ cur = NoStr /\ toks' = Append(toks, <<"(", <<>>>>) /\ depth' = depth + 1
             /\ UNCHANGED <<cfg, cur, phase, stream, pos, pm>>
BClose    == /\ Building /\ cur = NoStr /\ depth > 0 /\ toks' = Append(toks, <<")", <<>>>>) /\ depth' = depth - 1
             /\ UNCHANGED <<cfg, cur, phase, stream, pos, pm>>

Serialize == /\ Building /\ cur = NoStr /\ depth = 0
             /\ stream' = Ser(toks)
             /\ IF cfg.stepwise THEN phase' = "parse" /\ pm' = P0
                                ELSE phase' = "done" /\ pm' = RefParse(Ser(toks))
             /\ pos' = 1
             /\ UNCHANGED <<cfg, toks, cur, depth>>

PStepAct == /\ phase = "parse" /\ pos <= Len(stream)
            /\ pm' = PStep(pm, stream[pos]) /\ pos' = pos + 1
            /\ UNCHANGED <<cfg, toks, cur, depth, phase, stream>>
PFinish  == /\ phase = "parse" /\ pos > Len(stream)
            /\ pm' = PEnd(pm) /\ phase' = "done"
            /\ UNCHANGED <<cfg, toks, cur, depth, stream, pos>>

RoundTrip == phase = "done" => (~pm.err /\ Holds(toks, pm.out))
StepwiseIsRefParse == phase = "done" => pm = RefParse(stream)
=============================================================================
