SPECIFICATION Spec
CONSTANT MaxW = 4
CONSTANT MaxCrash = 1
CONSTANT MaxRe = 1
CONSTANT Ls = {0, 1, 2, 3}
CONSTANT Ns = {0, 1, 2}
CONSTRAINT Bound
VIEW View
INVARIANT Inv
INVARIANT IdleOk
CHECK_DEADLOCK FALSE
