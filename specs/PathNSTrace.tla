---------------------------- MODULE PathNSTrace ----------------------------
(* Batched trace validation for C26 and C54: every recorded call on a real
   FilePath, every request served by a real static.File behind server.Site and
   every command handled by a real FTP server must be a step PathNS allows,
   with every logged field matching.  Paths arrive split at "/" (lexical split
   only); whether they are inside the root is decided here, by Walk.

   The events of a trace are independent observations on one root, so an event
   that no action of PathNS explains does not end the validation of its trace:
   it is recorded as rejected (register Len(Traces) + tid) and skipped, and the
   remaining events are still checked.  A trace that gets stuck for any other
   reason is reported through register tid, as in the basic idiom.            *)
EXTENDS PathNS, TLC, Json, IOUtils

Traces == JsonDeserialize(IOEnv.TRACE_FILE)
N == Len(Traces)
VARIABLES tid, l
ASSUME \A t \in 1..N : TLCSet(t, 1) /\ TLCSet(N + t, {})

T == Traces[tid]
E == T.ev[l]

TInit == /\ tid \in 1..N /\ l = 1
         /\ InitWith([root |-> Traces[tid].cfg.root, cwd |-> Traces[tid].cfg.cwd])

IsCall == E.e \in {"child", "preauthChild", "descendant"}
Matches == /\ last'.e = E.e
           /\ (IsCall => last'.res = E.res /\ (E.res = "ok" => last'.path = E.path))
           /\ (E.e \in {"web", "ftp"} => last'.acc = E.acc /\ last'.served = E.served)

\* Inv' : the design invariants are evaluated at every step of every real execution.
Step(A) == /\ A /\ Matches /\ Inv' /\ l' = l + 1 /\ UNCHANGED tid

Explained ==
         \/ (E.e = "child" /\ E.res = "ok" /\ Step(ChildRet(E.path)))
         \/ (E.e = "child" /\ E.res = "InsecurePath" /\ Step(ChildRaise))
         \/ (E.e = "preauthChild" /\ E.res = "ok" /\ Step(PreauthRet(E.path)))
         \/ (E.e = "preauthChild" /\ E.res = "InsecurePath" /\ Step(PreauthRaise))
         \/ (E.e = "descendant" /\ E.res = "ok" /\ Step(DescRet(E.path)))
         \/ (E.e = "descendant" /\ E.res = "InsecurePath" /\ Step(DescRaise))
         \/ (E.e = "web" /\ Step(WebReq(E.acc, E.served)))
         \/ (E.e = "ftp" /\ Step(FtpCmd(E.acc, E.served)))

\* the enabling conditions of the actions above (PathNS: ChildRet, PreauthRet, DescRet, WebReq, FtpCmd), as a state predicate
Explainable ==
         \/ (IsCall /\ E.res = "InsecurePath")
         \/ (E.e = "child" /\ E.res = "ok" /\ DirectOrSelf(LocOf(E.path)))
         \/ (E.e \in {"preauthChild", "descendant"} /\ E.res = "ok" /\ Inside(LocOf(E.path)))
         \/ (E.e \in {"web", "ftp"} /\ Confined(E.acc, E.served))

\* an event nothing explains: recorded, skipped
Reject == /\ ~Explainable
          /\ TLCSet(N + tid, TLCGet(N + tid) \cup {l})
          /\ l' = l + 1 /\ UNCHANGED <<vars, tid>>

TNext == l <= Len(T.ev) /\ (Explained \/ Reject)
TSpec == TInit /\ [][TNext]_<<vars, tid, l>>

Progress == TLCSet(tid, IF TLCGet(tid) > l THEN TLCGet(tid) ELSE l)
Stuck    == {<<t, TLCGet(t)>> : t \in {u \in 1..N : TLCGet(u) # Len(Traces[u].ev) + 1}}
Skipped  == UNION {{<<t, k>> : k \in TLCGet(N + t)} : t \in 1..N}
Rejected == Stuck \cup Skipped
Accepted == Rejected = {} \/ (PrintT(<<"REJECTED", Rejected>>) /\ FALSE)
=============================================================================
