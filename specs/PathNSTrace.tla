---------------------------- MODULE PathNSTrace ----------------------------
(* Batched trace validation for C26 and C54: every recorded call on a real
   FilePath, every request served by a real static.File behind server.Site and
   every command handled by a real FTP server must be a step PathNS allows,
   with every logged field matching.  Paths arrive split at "/" (lexical split
   only); whether they are inside the root is decided here, by Walk.          *)
EXTENDS PathNS, TLC, Json, IOUtils

Traces == JsonDeserialize(IOEnv.TRACE_FILE)
VARIABLES tid, l
ASSUME \A t \in 1..Len(Traces) : TLCSet(t, 1)

T == Traces[tid]
E == T.ev[l]

TInit == /\ tid \in 1..Len(Traces) /\ l = 1
         /\ InitWith([root |-> Traces[tid].cfg.root, cwd |-> Traces[tid].cfg.cwd])

IsCall == E.e \in {"child", "preauthChild", "descendant"}
Matches == /\ last'.e = E.e
           /\ (IsCall => last'.res = E.res /\ (E.res = "ok" => last'.path = E.path))
           /\ (E.e \in {"web", "ftp"} => last'.acc = E.acc /\ last'.served = E.served)

Step(A) == /\ l <= Len(T.ev) /\ A /\ Matches /\ Inv' /\ l' = l + 1 /\ UNCHANGED tid

TNext == \/ (E.e = "child" /\ E.res = "ok" /\ Step(ChildRet(E.path)))
         \/ (E.e = "child" /\ E.res = "InsecurePath" /\ Step(ChildRaise))
         \/ (E.e = "preauthChild" /\ E.res = "ok" /\ Step(PreauthRet(E.path)))
         \/ (E.e = "preauthChild" /\ E.res = "InsecurePath" /\ Step(PreauthRaise))
         \/ (E.e = "descendant" /\ E.res = "ok" /\ Step(DescRet(E.path)))
         \/ (E.e = "descendant" /\ E.res = "InsecurePath" /\ Step(DescRaise))
         \/ (E.e = "web" /\ Step(WebReq(E.acc, E.served)))
         \/ (E.e = "ftp" /\ Step(FtpCmd(E.acc, E.served)))

TSpec == TInit /\ [][l <= Len(T.ev) /\ TNext]_<<vars, tid, l>>

Progress == TLCSet(tid, IF TLCGet(tid) > l THEN TLCGet(tid) ELSE l)
Rejected == {<<t, TLCGet(t)>> : t \in {u \in 1..Len(Traces) : TLCGet(u) # Len(Traces[u].ev) + 1}}
Accepted == Rejected = {} \/ (PrintT(<<"REJECTED", Rejected>>) /\ FALSE)
=============================================================================
