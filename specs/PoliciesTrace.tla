---------------------------- MODULE PoliciesTrace ----------------------------
(* Batched trace validation of real twisted.protocols.policies executions against Policies.tla.
   Every event carries every observation (wrapped-protocol callbacks, transport / producer calls, callLater
   calls, pending delayed calls, public counters, exception class); the step must reproduce the whole record,
   keep every invariant (Inv') and satisfy the step properties (StepInv). *)
EXTENDS Policies, TLC, Json, IOUtils
Traces == JsonDeserialize(IOEnv.TRACE_FILE)
VARIABLES tid, l
ASSUME \A t \in 1..Len(Traces) : TLCSet(t, 1)
T == Traces[tid]
E == T.ev[l]
TInit == tid \in 1..Len(Traces) /\ l = 1 /\ InitWith(Traces[tid].cfg)
Step(A) == l <= Len(T.ev) /\ A /\ Inv' /\ StepInv /\ last' = E /\ l' = l + 1 /\ UNCHANGED tid
TNext == \/ (E.e = "build" /\ Step(Build))
         \/ (E.e = "connect" /\ Step(Connect(E.c)))
         \/ (E.e = "data" /\ Step(Data(E.c, E.x)))
         \/ (E.e = "write" /\ Step(Write(E.c, E.x, "write")))
         \/ (E.e = "wseq" /\ Step(Write(E.c, E.x, "wseq")))
         \/ (E.e = "lose" /\ Step(Lose(E.c)))
         \/ (E.e = "regprod" /\ Step(RegProd(E.c)))
         \/ (E.e = "unregprod" /\ Step(UnregProd(E.c)))
         \/ (E.e = "lost" /\ Step(Lost(E.c)))
         \/ (E.e = "adv" /\ Step(Adv(E.x)))
         \/ (E.e = "fire" /\ Step(Fire(E.x)))
         \/ (E.e = "end" /\ Step(End))
TSpec == TInit /\ [][l <= Len(T.ev) /\ TNext]_<<vars, tid, l>>
Progress == TLCSet(tid, IF TLCGet(tid) > l THEN TLCGet(tid) ELSE l)
Rejected == {<<t, TLCGet(t)>> : t \in {u \in 1..Len(Traces) : TLCGet(u) # Len(Traces[u].ev) + 1}}
Accepted == Rejected = {} \/ (PrintT(<<"REJECTED", Rejected>>) /\ FALSE)
=============================================================================
