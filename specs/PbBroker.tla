------------------------------- MODULE PbBroker -------------------------------
(* Extension X06 -- twisted.spread.pb.Broker: request/answer matching and distributed reference
   counting between two brokers (side 1 = PBClientFactory broker holding the root reference,
   side 2 = PBServerFactory broker exporting the root) joined by two in-order byte pipes whose
   fragmentation the scheduler chooses.

   Every side owns objects 1..cfg.nobj (pb.Referenceable); side 2 also owns the root (object 0).
   A call is callRemote(kind, n = call id [, object]) on the root reference or on a held
   RemoteReference ("handle").  Kinds of remote_ method:
       Now        returns n                 Raise     raises a pb.Error subclass carrying n
       Later      returns a Deferred the scheduler fires later (value n, pb.Error, ValueError)
       Never      returns a Deferred that is never fired
       RaiseX     raises ValueError(n)      Give      returns the callee's object j (a Referenceable)
       GiveLater  Deferred fired later with the callee's object j
       Take       the CALLER passes its own object j as argument, the callee keeps the reference
   Handles are numbered in creation order (both sides together).  Releasing a handle is the
   garbage collection of the RemoteReference (its __del__ sends decref).

   Implementation-shaped points (see notes/X06.md, Oddities):
     * callRemote on a disconnected broker RAISES DeadReferenceError (no Deferred is returned);
     * Broker.connectionLost sets `disconnected` first, then fails the pending calls in request-id
       order with PBConnectionLost(reason), then runs the notifyOnDisconnect callbacks;
     * a Take call exports the argument (refcount + 1) at call time, before anything is delivered;
     * whatever a disconnected broker writes is lost (answers of Deferreds fired after the loss,
       decrefs of references dropped after the loss).                                             *)
EXTENDS Naturals, Integers, Sequences, FiniteSets

VARIABLES cfg,       \* [nobj |-> number of exportable objects per side]
          disc,      \* side -> connectionLost has been delivered
          nreq,      \* side -> last request id used            (Broker.currentRequestID)
          nluid,     \* side -> last local object id used       (Broker.currentLocalID)
          exp,       \* side -> object -> [luid, rc]; luid = 0: not exported   (Broker.localObjects / luids)
          waiting,   \* side -> call ids awaiting an answer, in registration order  (Broker.waitingForAnswers)
          pipe,      \* side -> messages written by that side, not yet completely delivered to the peer
          off,       \* side -> bytes of the head message of pipe[side] already delivered
          calls,     \* call id -> [p, k, t, j, f, rid, res, nf]
          later,     \* calls whose responder Deferred is outstanding at the callee
          handles,   \* handle id -> [holder, j, luid, live]
          broken,    \* a message could not be interpreted (unknown request id / object id): never in a correct run
          obs        \* observations of the last step, in order
vars == <<cfg, disc, nreq, nluid, exp, waiting, pipe, off, calls, later, handles, broken, obs>>

Sides == {1, 2}
Peer(p) == 3 - p
Objs == 1..cfg.nobj
Kinds == {"Now", "Raise", "RaiseX", "Later", "Never", "Give", "GiveLater", "Take"}
RefKinds == {"Give", "GiveLater", "Take"}
NoExp == [luid |-> 0, rc |-> 0]
NoRes == <<"none", 0>>
Range(s) == {s[i] : i \in 1..Len(s)}
Without(s, x) == SelectSeq(s, LAMBDA y : y # x)
SzAt(szs, i) == IF i <= Len(szs) THEN szs[i] ELSE 1
RECURSIVE Total(_)
Total(q) == IF q = <<>> THEN 0 ELSE Head(q).sz + Total(Tail(q))

InitWith(c) ==
    /\ cfg = c
    /\ disc = [p \in Sides |-> FALSE]
    /\ nreq = [p \in Sides |-> 0] /\ nluid = [p \in Sides |-> 0]
    /\ exp = [p \in Sides |-> [j \in 1..c.nobj |-> NoExp]]
    /\ waiting = [p \in Sides |-> <<>>]
    /\ pipe = [p \in Sides |-> <<>>] /\ off = [p \in Sides |-> 0]
    /\ calls = <<>> /\ later = {} /\ handles = <<>> /\ broken = FALSE /\ obs = <<>>

(* ---- the state as a record, so that one step can run several internal sub-steps in order ---- *)
Pack == [disc |-> disc, nreq |-> nreq, nluid |-> nluid, exp |-> exp, waiting |-> waiting, pipe |-> pipe,
         calls |-> calls, later |-> later, handles |-> handles, broken |-> broken, obs |-> <<>>, nw |-> 0]
Commit(R) == /\ disc' = R.disc /\ nreq' = R.nreq /\ nluid' = R.nluid /\ exp' = R.exp /\ waiting' = R.waiting
             /\ pipe' = R.pipe /\ calls' = R.calls /\ later' = R.later /\ handles' = R.handles
             /\ broken' = R.broken /\ obs' = R.obs

Msg(t, id, c, tgt, ref, cls) == [t |-> t, id |-> id, c |-> c, tgt |-> tgt, ref |-> ref, cls |-> cls, sz |-> 0]
Ans(rid, c, ref) == Msg("answer", rid, c, 0, ref, "")
Err(rid, c, cls) == Msg("error", rid, c, 0, 0, cls)

(* side p writes one message: observed as one transport.write of sz bytes (sz comes from the
   observation in a trace, is 2 in the exhaustive model); a disconnected side's writes vanish *)
Write(S, p, m, szs) ==
    IF S.disc[p] THEN S
    ELSE LET sz == SzAt(szs, S.nw + 1)
             aux == IF m.t = "message" THEN m.tgt ELSE m.ref
         IN [S EXCEPT !.pipe[p] = Append(@, [m EXCEPT !.sz = sz]),
                      !.obs = Append(@, <<"wr", p, m.t, m.id, sz, aux>>),
                      !.nw = @ + 1]

(* registerReference: a new luid for an object not exported at the moment, else refcount + 1 *)
Export(S, q, j) ==
    IF S.exp[q][j].luid = 0
      THEN [S EXCEPT !.nluid[q] = @ + 1, !.exp[q][j] = [luid |-> S.nluid[q] + 1, rc |-> 1]]
      ELSE [S EXCEPT !.exp[q][j].rc = @ + 1]

(* localObjectForID: 0 is the root (side 2 only); -1 = no such object *)
ObjOf(S, q, luid) ==
    IF luid = 0 THEN (IF q = 2 THEN 0 ELSE -1)
    ELSE IF \E j \in Objs : S.exp[q][j].luid = luid THEN CHOOSE j \in Objs : S.exp[q][j].luid = luid ELSE -1

(* the Deferred of call c fires *)
SetRes(S, c, r) == [S EXCEPT !.calls[c].res = r, !.calls[c].nf = @ + 1,
                             !.obs = Append(@, <<"fire", c, r[1], r[2], 0, 0>>)]

NewHandle(S, holder, j, luid) == [S EXCEPT !.handles = Append(@, [holder |-> holder, j |-> j, luid |-> luid, live |-> TRUE])]

(* waitingForAnswers[requestID]: the pending call of side q with that request id, 0 if none *)
CallOf(S, q, rid) ==
    IF \E c \in Range(S.waiting[q]) : S.calls[c].rid = rid
      THEN CHOOSE c \in Range(S.waiting[q]) : S.calls[c].rid = rid ELSE 0

(* proto_message at side q *)
RecvMessage(S, q, m, szs) ==
    LET c == m.c
        k == S.calls[c].k
        j == S.calls[c].j
        tj == ObjOf(S, q, m.tgt)
        S1 == [S EXCEPT !.obs = Append(@, <<"resp", q, k, c, tj, 0>>)]
    IN IF tj = -1 THEN [S EXCEPT !.broken = TRUE]
       ELSE CASE k = "Now"    -> Write(S1, q, Ans(m.id, c, 0), szs)
              [] k = "Raise"  -> Write(S1, q, Err(m.id, c, "MyErr"), szs)
              [] k = "RaiseX" -> Write(S1, q, Err(m.id, c, "builtins.ValueError"), szs)
              [] k \in {"Later", "Never", "GiveLater"} -> [S1 EXCEPT !.later = @ \cup {c}]
              [] k = "Give"   -> LET S2 == Export(S1, q, j) IN Write(S2, q, Ans(m.id, c, S2.exp[q][j].luid), szs)
              [] k = "Take"   -> Write(NewHandle(S1, q, j, m.ref), q, Ans(m.id, c, 0), szs)

(* proto_answer / proto_error at side q: matched by request id; the value is what the responder produced *)
RecvAnswer(S, q, m) ==
    LET c == CallOf(S, q, m.id) IN
    IF c = 0 THEN [S EXCEPT !.broken = TRUE]
    ELSE LET S1 == [S EXCEPT !.waiting[q] = Without(@, c)] IN
         IF m.t = "error" THEN SetRes(S1, c, <<m.cls, m.c>>)
         ELSE IF m.ref = 0 THEN SetRes(S1, c, <<"OK", m.c>>)
         ELSE SetRes(NewHandle(S1, q, S.calls[m.c].j, m.ref), c, <<"REF", Len(S.handles) + 1>>)

(* proto_decref at side q *)
RecvDecref(S, q, m) ==
    LET j == ObjOf(S, q, m.id) IN
    IF j < 1 THEN [S EXCEPT !.broken = TRUE]
    ELSE IF S.exp[q][j].rc = 1 THEN [S EXCEPT !.exp[q][j] = NoExp]
    ELSE [S EXCEPT !.exp[q][j].rc = @ - 1]

Recv(S, q, m, szs) ==
    CASE m.t = "message" -> RecvMessage(S, q, m, szs)
      [] m.t \in {"answer", "error"} -> RecvAnswer(S, q, m)
      [] m.t = "decref" -> RecvDecref(S, q, m)

-----------------------------------------------------------------------------
(* ---- actions ---- *)

(* callRemote by side p on handle t (0 = the root reference, side 1 only) *)
DoCall(S, p, t, k, j, f, szs) ==
    LET c == Len(S.calls) + 1
        rec == [p |-> p, k |-> k, t |-> t, j |-> j, f |-> f, rid |-> 0, res |-> NoRes, nf |-> 0]
    IN IF S.disc[p]
         THEN [S EXCEPT !.calls = Append(@, [rec EXCEPT !.res = <<"DeadReferenceError", 0>>, !.nf = 1]),
                        !.obs = Append(@, <<"raise", c, "DeadReferenceError", 0, 0, 0>>)]
         ELSE LET S1 == IF k = "Take" THEN Export(S, p, j) ELSE S
                  ref == IF k = "Take" THEN S1.exp[p][j].luid ELSE 0
                  rid == S.nreq[p] + 1
                  S2 == [S1 EXCEPT !.calls = Append(@, [rec EXCEPT !.rid = rid]), !.nreq[p] = rid,
                                   !.waiting[p] = Append(@, c)]
              IN Write(S2, p, Msg("message", rid, c, IF t = 0 THEN 0 ELSE S.handles[t].luid, ref, ""), szs)

Call(p, t, k, j, f, szs) ==
    /\ p \in Sides /\ k \in Kinds
    /\ IF t = 0 THEN p = 1 ELSE t \in 1..Len(handles) /\ handles[t].holder = p /\ handles[t].live
    /\ j \in (IF k \in RefKinds THEN Objs ELSE {0})
    /\ f \in BOOLEAN /\ (f => t = 0)        \* f: the call's errback re-enters root.callRemote("Now") on PBConnectionLost
    /\ \E R \in {DoCall(Pack, p, t, k, j, f, szs)} : Commit(R)
    /\ UNCHANGED <<cfg, off>>

(* n more bytes written by p reach the peer's dataReceived: every message completed by them is processed, in order *)
RECURSIVE Feed(_, _, _, _, _)
Feed(S, q, msgs, avail, szs) ==
    IF msgs = <<>> \/ S.broken THEN [s |-> S, rest |-> msgs, left |-> 0]
    ELSE IF avail < Head(msgs).sz THEN [s |-> S, rest |-> msgs, left |-> avail]
    ELSE CHOOSE y \in {Feed(x, q, Tail(msgs), avail - Head(msgs).sz, szs) : x \in {Recv(S, q, Head(msgs), szs)}} : TRUE
         \* (x is bound to a VALUE: TLC passes operator arguments unevaluated and would redo the whole chain at every use)

Deliver(p, n, szs) ==
    /\ p \in Sides /\ ~disc[Peer(p)]
    /\ n \in 1..(Total(pipe[p]) - off[p])
    /\ \E F \in {Feed(Pack, Peer(p), pipe[p], off[p] + n, szs)} :
          /\ \E R \in {[F.s EXCEPT !.pipe[p] = F.rest]} : Commit(R)
          /\ off' = [off EXCEPT ![p] = F.left]
    /\ UNCHANGED cfg

(* the scheduler fires the Deferred a Later / GiveLater responder returned *)
Fire(c, how, szs) ==
    /\ c \in later /\ calls[c].k \in {"Later", "GiveLater"} /\ how \in {"ok", "err", "errx"}
    /\ LET q == Peer(calls[c].p)
           rid == calls[c].rid
           j == calls[c].j
           S0 == [Pack EXCEPT !.later = @ \ {c}]
       IN \E R \in {IF disc[q] THEN S0
                 ELSE IF how = "ok"
                   THEN IF calls[c].k = "GiveLater"
                          THEN LET S1 == Export(S0, q, j) IN Write(S1, q, Ans(rid, c, S1.exp[q][j].luid), szs)
                          ELSE Write(S0, q, Ans(rid, c, 0), szs)
                   ELSE Write(S0, q, Err(rid, c, IF how = "err" THEN "MyErr" ELSE "builtins.ValueError"), szs)} : Commit(R)
    /\ UNCHANGED <<cfg, off>>

(* the holder drops its RemoteReference: __del__ sends decref *)
Release(h, szs) ==
    /\ h \in 1..Len(handles) /\ handles[h].live
    /\ \E R \in {Write([Pack EXCEPT !.handles[h].live = FALSE], handles[h].holder,
                      Msg("decref", handles[h].luid, 0, 0, 0, ""), szs)} : Commit(R)
    /\ UNCHANGED <<cfg, off>>

(* connectionLost(reason) at side p; r: 1 = ConnectionDone, 2 = ConnectionLost *)
RECURSIVE FailAll(_, _, _, _)
FailAll(S, p, cs, r) ==
    IF cs = <<>> THEN S
    ELSE LET c == Head(cs)
             S1 == SetRes(S, c, <<"PBConnectionLost", r>>)
             S2 == IF S.calls[c].f THEN DoCall(S1, p, 0, "Now", 0, FALSE, <<>>) ELSE S1
         IN CHOOSE y \in {FailAll(x, p, Tail(cs), r) : x \in {S2}} : TRUE

Lose(p, r) ==
    /\ p \in Sides /\ ~disc[p] /\ r \in {1, 2}
    /\ \E S1 \in {FailAll([Pack EXCEPT !.disc[p] = TRUE], p, waiting[p], r)} :
          Commit([S1 EXCEPT !.waiting[p] = <<>>, !.exp[p] = [j \in Objs |-> NoExp],
                            !.obs = Append(@, <<"disc", p, "", 0, 0, 0>>)])
    /\ UNCHANGED <<cfg, off>>

(* exported objects per side, as len(Broker.localObjects) minus the root shows it *)
Lo == <<Cardinality({j \in Objs : exp[1][j].luid # 0}), Cardinality({j \in Objs : exp[2][j].luid # 0})>>

(* pending requests per side, as len(Broker.waitingForAnswers) shows it *)
Wa == <<Len(waiting[1]), Len(waiting[2])>>

-----------------------------------------------------------------------------
(* ---- what a user relies on ---- *)
NCalls == Len(calls)
Count(s, P(_)) == Len(SelectSeq(s, P))
Connected == ~disc[1] /\ ~disc[2]

(* every callRemote Deferred fires at most once, and a result is recorded exactly when it fired *)
ExactlyOnce == \A c \in 1..NCalls : calls[c].nf <= 1 /\ (calls[c].nf = 1 <=> calls[c].res # NoRes)

(* ... with its OWN call's answer or error, whatever the completion order *)
OwnResult == \A c \in 1..NCalls :
    LET r == calls[c].res  k == calls[c].k IN
    /\ r[1] = "OK" => k \in {"Now", "Later", "Take"} /\ r[2] = c
    /\ r[1] = "REF" => /\ k \in {"Give", "GiveLater"} /\ r[2] \in 1..Len(handles)
                       /\ handles[r[2]].holder = calls[c].p /\ handles[r[2]].j = calls[c].j
    /\ r[1] = "MyErr" => k \in {"Raise", "Later", "GiveLater"} /\ r[2] = c
    /\ r[1] = "builtins.ValueError" => k \in {"RaiseX", "Later", "GiveLater"} /\ r[2] = c
    /\ r[1] = "PBConnectionLost" => disc[calls[c].p] /\ calls[c].rid # 0
    /\ r[1] = "DeadReferenceError" => disc[calls[c].p] /\ calls[c].rid = 0
    /\ k = "Never" => r[1] \in {"none", "PBConnectionLost", "DeadReferenceError"}
    /\ r[1] \in {"none", "OK", "REF", "MyErr", "builtins.ValueError", "PBConnectionLost", "DeadReferenceError"}

(* after connectionLost nothing stays pending, and until then every unanswered call is registered (so it will be failed) *)
NothingPendingAfterLoss == \A p \in Sides : disc[p] =>
    /\ waiting[p] = <<>>
    /\ \A c \in 1..NCalls : calls[c].p = p => calls[c].res # NoRes
WaitingExact == \A p \in Sides : ~disc[p] =>
    /\ Range(waiting[p]) = {c \in 1..NCalls : calls[c].p = p /\ calls[c].res = NoRes}
    /\ Len(waiting[p]) = Cardinality(Range(waiting[p]))

(* request ids and local object ids are never reused while in use *)
IdsDistinct ==
    /\ \A c, d \in 1..NCalls : (c # d /\ calls[c].p = calls[d].p /\ calls[c].rid # 0) => calls[c].rid # calls[d].rid
    /\ \A p \in Sides : \A i, j \in Objs : (i # j /\ exp[p][i].luid # 0) => exp[p][i].luid # exp[p][j].luid
    /\ \A p \in Sides : \A j \in Objs : exp[p][j].luid <= nluid[p] /\ (exp[p][j].luid = 0 <=> exp[p][j].rc = 0)

(* distributed reference count: refcount = references held by the peer + references and decrefs in flight *)
RefBalance == Connected => \A q \in Sides : \A j \in Objs :
    LET L == exp[q][j].luid  p == Peer(q) IN
    L # 0 => exp[q][j].rc =
          Cardinality({h \in 1..Len(handles) : handles[h].holder = p /\ handles[h].live /\ handles[h].luid = L})
        + Count(pipe[q], LAMBDA m : m.t \in {"answer", "message"} /\ m.ref = L)
        + Count(pipe[p], LAMBDA m : m.t = "decref" /\ m.id = L)

(* a held reference keeps denoting the object it was given for *)
HandleDenotes == Connected => \A h \in 1..Len(handles) :
    handles[h].live => /\ handles[h].luid # 0
                       /\ ObjOf(Pack, Peer(handles[h].holder), handles[h].luid) = handles[h].j

(* no leak: with nothing in flight an object stays exported only while the peer holds a reference to it *)
NoLeak == (Connected /\ pipe[1] = <<>> /\ pipe[2] = <<>>) => \A q \in Sides : \A j \in Objs :
    (exp[q][j].luid # 0) <=> (\E h \in 1..Len(handles) : handles[h].holder = Peer(q) /\ handles[h].live /\ handles[h].j = j)

NeverBroken == ~broken

Inv == /\ ExactlyOnce /\ OwnResult /\ NothingPendingAfterLoss /\ WaitingExact /\ IdsDistinct
       /\ RefBalance /\ HandleDenotes /\ NoLeak /\ NeverBroken

(* a result never changes once set (one step) *)
StableStep == \A c \in 1..NCalls : calls[c].res # NoRes => calls'[c].res = calls[c].res
ResultStable == [][StableStep]_vars
=============================================================================
