SPECIFICATION Spec
CONSTANT MaxN = 2
CONSTANT Waker = TRUE
INVARIANT NeverWindow
CHECK_DEADLOCK FALSE
