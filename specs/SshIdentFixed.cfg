SPECIFICATION Spec
CONSTANT MaxBanners = 2
CONSTANT NPackets = 2
CONSTANT Fixed = TRUE
VIEW View
INVARIANT NoSpuriousDisconnect
INVARIANT SegInv
CHECK_DEADLOCK FALSE
