------------------------------ MODULE SerialSim ------------------------------
(* Behaviour generator (spec -> code) for the wide serial numbers: operands are built
   by the specification from the ring's landmarks (0, 1, half-1, half, half+1, max-1,
   max, and sums of them), every step carries the results Serial predicts; the harness
   performs the same operations on the real SerialNumber and compares.            *)
EXTENDS Serial, TLC, Json
CONSTANT Depth
VARIABLE hist

Widths == {16, 17, 24, 31, 32, 33, 48, 63, 64}
B  == cfg.bits
LB == cfg.lb
One  == [i \in 1..NLimbs(B, LB) |-> IF i = NLimbs(B, LB) THEN 1 ELSE 0]
MaxL == [i \in 1..NLimbs(B, LB) |-> Base(B, LB, i) - 1]
P(x, y) == LAdd(B, LB, x, y)
Marks == {ZeroL(B, LB), One, P(One, One), MaxAddL(B, LB), HalfL(B, LB), P(HalfL(B, LB), One),
          LSub(B, LB, MaxAddL(B, LB), One), LSub(B, LB, MaxL, One), MaxL,
          [i \in 1..NLimbs(B, LB) |-> IF i = 1 THEN 0 ELSE Pow2(LB) - 1],      \* all low limbs set
          [i \in 1..NLimbs(B, LB) |-> IF i = 1 THEN 1 ELSE 0]}                  \* only the top limb set
Near(x) == Marks \cup {P(x, d) : d \in Marks}     \* x itself, neighbours, half the ring away +-1, ...

SInit == /\ \E b \in Widths : InitWith([bits |-> b, lb |-> 16])
         /\ hist = <<>>
Case  == /\ Len(hist) < Depth
         \* RandomElement (seeded by -seed): operands are drawn first, so a step has 4 successors, not |Marks|*|Near|*4
         /\ LET x == RandomElement(Marks) IN LET y == RandomElement(Near(x)) IN
                Cmp(x, y) \/ Cmp(y, x) \/ AddOk(x, y) \/ AddRefused(x, y)
         /\ hist' = Append(hist, last')
\* printed from an action (evaluated once per behaviour), not from a constraint (evaluated per successor)
Finish == /\ Len(hist) = Depth
          /\ PrintT(<<"BEH", ToJson([cfg |-> cfg, hist |-> hist])>>)
          /\ hist' = <<>> /\ last' = [e |-> "done"] /\ UNCHANGED cfg
SNext == Case \/ Finish
SSpec == SInit /\ [][SNext]_<<vars, hist>>
Stop == last.e # "done"
=============================================================================
