SPECIFICATION MCSpec
CONSTANT L = 5
CONSTANT Kind = "LO"
CONSTANT LOBound = "asis"
VIEW View
INVARIANT Ok
INVARIANT Inv
CHECK_DEADLOCK FALSE
