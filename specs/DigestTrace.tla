----------------------------- MODULE DigestTrace -----------------------------
(* Batched trace validation: histories of getChallenge / clock advance / decode+checkPassword on
   the real DigestCredentialFactory.  "respond" events carry the abstract description r of the
   response that was concretised to bytes, and the observed results.                        *)
EXTENDS Digest, TLC, Json, IOUtils

Traces == JsonDeserialize(IOEnv.TRACE_FILE)
VARIABLES tid, l
ASSUME \A t \in 1..Len(Traces) : TLCSet(t, 1)

T == Traces[tid]
E == T.ev[l]

TInit == /\ tid \in 1..Len(Traces) /\ l = 1
         /\ InitWith([L |-> Traces[tid].cfg.L, algo |-> Traces[tid].cfg.algo])

Step(A) == /\ l <= Len(T.ev) /\ A /\ Inv' /\ l' = l + 1 /\ UNCHANGED tid

TNext == \/ (E.e = "issue" /\ Step(Issue(E.a) /\ last'.n = E.n))
         \/ (E.e = "tick" /\ Step(Tick(E.d)))
         \/ (E.e = "respond" /\ Step(Respond(E.r) /\ last'.dec = E.dec /\ last'.chk = E.chk))

TSpec == TInit /\ [][l <= Len(T.ev) /\ TNext]_<<vars, tid, l>>

Progress == TLCSet(tid, IF TLCGet(tid) > l THEN TLCGet(tid) ELSE l)
Rejected == {<<t, TLCGet(t)>> : t \in {u \in 1..Len(Traces) : TLCGet(u) # Len(Traces[u].ev) + 1}}
Accepted == Rejected = {} \/ (PrintT(<<"REJECTED", Rejected>>) /\ FALSE)
=============================================================================
