SPECIFICATION Spec
CONSTANT MaxN = 2
INVARIANT NeverBoth
CHECK_DEADLOCK FALSE
