------------------------------- MODULE Serial -------------------------------
(* C34 -- RFC 1982 serial number arithmetic (twisted.names._rfc1982.SerialNumber).
   Pattern C: the RFC's definitions are transcribed as TLA+ operators; TLC proves
   the algebraic clauses of the property for every pair of values of every small
   width, and the very same operators decide every comparison / addition logged
   from the real SerialNumber class.

   RFC 1982, 3.1  Addition:  s' = (s + n) modulo (2 ^ SERIAL_BITS),
                  n in [0 .. (2^(SERIAL_BITS - 1) - 1)]; anything else undefined.
             3.2  Comparison (i1, i2 the integer values of s1, s2):
                  s1 = s2  iff  i1 = i2
                  s1 < s2  iff  (i1 < i2 and i2 - i1 < 2^(SERIAL_BITS - 1)) or
                                (i1 > i2 and i1 - i2 > 2^(SERIAL_BITS - 1))
                  s1 > s2  iff  (i1 < i2 and i2 - i1 > 2^(SERIAL_BITS - 1)) or
                                (i1 > i2 and i1 - i2 < 2^(SERIAL_BITS - 1))

   Values are carried as big-endian sequences of limbs of cfg.lb bits (TLC integers
   are 32-bit and JSON integers >= 2^31 are mangled): widths up to lb bits are a
   single limb and are decided by the RFC formulas above on plain integers; wider
   values (32, 64 bit) are decided by the same formulas on limb sequences
   (LCmp / LSub / LAdd), which SerialMC proves equal to the integer formulas for
   every pair of every width 1..8 at limb sizes of 2 and 3 bits.            *)
EXTENDS Naturals, Integers, Sequences

VARIABLES cfg,    \* [bits |-> serial width, lb |-> bits per limb]
          last    \* the case just evaluated and every result of it

vars == <<cfg, last>>

RECURSIVE Pow2(_)
Pow2(n) == IF n = 0 THEN 1 ELSE 2 * Pow2(n - 1)

-----------------------------------------------------------------------------
(* RFC 1982 on integers (section 3.1 / 3.2, transcribed). *)
Half(b)   == Pow2(b - 1)
MaxAdd(b) == Pow2(b - 1) - 1
IEq(b, i1, i2) == i1 = i2
ILt(b, i1, i2) == \/ (i1 < i2 /\ i2 - i1 < Half(b))
                  \/ (i1 > i2 /\ i1 - i2 > Half(b))
IGt(b, i1, i2) == \/ (i1 < i2 /\ i2 - i1 > Half(b))
                  \/ (i1 > i2 /\ i1 - i2 < Half(b))
IAddDefined(b, n) == n >= 0 /\ n <= MaxAdd(b)
IAdd(b, s, n) == (s + n) % Pow2(b)

-----------------------------------------------------------------------------
(* The same on limb sequences.  x[1] is the most significant limb; it holds
   TopBits bits, every other limb holds cfg.lb bits. *)
NLimbs(b, lb)  == (b + lb - 1) \div lb
TopBits(b, lb) == b - lb * (NLimbs(b, lb) - 1)
Base(b, lb, i) == IF i = 1 THEN Pow2(TopBits(b, lb)) ELSE Pow2(lb)

IsValue(b, lb, x) == /\ Len(x) = NLimbs(b, lb)
                     /\ \A i \in 1..Len(x) : x[i] >= 0 /\ x[i] < Base(b, lb, i)

RECURSIVE LCmp(_, _)      \* -1, 0, 1 : numeric order of two limb sequences of equal length
LCmp(x, y) == IF x = <<>> THEN 0
              ELSE IF Head(x) < Head(y) THEN 0 - 1
              ELSE IF Head(x) > Head(y) THEN 1
              ELSE LCmp(Tail(x), Tail(y))

LSub(b, lb, x, y) ==      \* x - y for x >= y (school subtraction with borrow)
    LET n == Len(x)
        br[i \in 1..(n + 1)] == IF i = n + 1 THEN 0
                                ELSE IF x[i] - y[i] - br[i + 1] < 0 THEN 1 ELSE 0
    IN [i \in 1..n |-> LET d == x[i] - y[i] - br[i + 1]
                       IN IF d < 0 THEN d + Base(b, lb, i) ELSE d]

LAdd(b, lb, x, y) ==      \* (x + y) modulo 2^b (carry out of the top limb is dropped)
    LET n == Len(x)
        cy[i \in 1..(n + 1)] == IF i = n + 1 THEN 0
                                ELSE IF x[i] + y[i] + cy[i + 1] >= Base(b, lb, i) THEN 1 ELSE 0
    IN [i \in 1..n |-> (x[i] + y[i] + cy[i + 1]) % Base(b, lb, i)]

HalfL(b, lb)   == [i \in 1..NLimbs(b, lb) |-> IF i = 1 THEN Pow2(TopBits(b, lb) - 1) ELSE 0]
MaxAddL(b, lb) == [i \in 1..NLimbs(b, lb) |-> IF i = 1 THEN Pow2(TopBits(b, lb) - 1) - 1 ELSE Pow2(lb) - 1]
ZeroL(b, lb)   == [i \in 1..NLimbs(b, lb) |-> 0]

LEq(b, lb, x, y) == LCmp(x, y) = 0
LLt(b, lb, x, y) == \/ (LCmp(x, y) < 0 /\ LCmp(LSub(b, lb, y, x), HalfL(b, lb)) < 0)
                    \/ (LCmp(x, y) > 0 /\ LCmp(LSub(b, lb, x, y), HalfL(b, lb)) > 0)
LGt(b, lb, x, y) == \/ (LCmp(x, y) < 0 /\ LCmp(LSub(b, lb, y, x), HalfL(b, lb)) > 0)
                    \/ (LCmp(x, y) > 0 /\ LCmp(LSub(b, lb, x, y), HalfL(b, lb)) < 0)
LAddDefined(b, lb, n) == LCmp(n, MaxAddL(b, lb)) <= 0

(* Selection: a single limb *is* the integer. *)
Single == NLimbs(cfg.bits, cfg.lb) = 1
Eq(x, y) == IF Single THEN IEq(cfg.bits, x[1], y[1]) ELSE LEq(cfg.bits, cfg.lb, x, y)
Lt(x, y) == IF Single THEN ILt(cfg.bits, x[1], y[1]) ELSE LLt(cfg.bits, cfg.lb, x, y)
Gt(x, y) == IF Single THEN IGt(cfg.bits, x[1], y[1]) ELSE LGt(cfg.bits, cfg.lb, x, y)
Le(x, y) == Eq(x, y) \/ Lt(x, y)
Ge(x, y) == Eq(x, y) \/ Gt(x, y)
AddDefined(n) == IF Single THEN IAddDefined(cfg.bits, n[1]) ELSE LAddDefined(cfg.bits, cfg.lb, n)
Add(s, n) == IF Single THEN <<IAdd(cfg.bits, s[1], n[1])>> ELSE LAdd(cfg.bits, cfg.lb, s, n)
HalfApart(x, y) == IF Single THEN (x[1] - y[1] = Half(cfg.bits) \/ y[1] - x[1] = Half(cfg.bits))
                   ELSE \/ (LCmp(x, y) > 0 /\ LSub(cfg.bits, cfg.lb, x, y) = HalfL(cfg.bits, cfg.lb))
                        \/ (LCmp(x, y) < 0 /\ LSub(cfg.bits, cfg.lb, y, x) = HalfL(cfg.bits, cfg.lb))

-----------------------------------------------------------------------------
InitWith(c) == cfg = c /\ last = [e |-> "init"]

(* One action per public operation outcome. *)
Cmp(x, y) ==
    /\ IsValue(cfg.bits, cfg.lb, x) /\ IsValue(cfg.bits, cfg.lb, y)
    /\ last' = [e |-> "cmp", a |-> x, b |-> y,
                lt |-> Lt(x, y), gt |-> Gt(x, y), eq |-> Eq(x, y), ne |-> ~Eq(x, y),
                le |-> Le(x, y), ge |-> Ge(x, y)]
    /\ UNCHANGED cfg

AddOk(s, n) ==
    /\ IsValue(cfg.bits, cfg.lb, s) /\ IsValue(cfg.bits, cfg.lb, n)
    /\ AddDefined(n)
    /\ last' = [e |-> "add", s |-> s, n |-> n, res |-> "ok", v |-> Add(s, n),
                \* how the sum compares with s (the operations the real result is asked)
                gts |-> Gt(Add(s, n), s), lts |-> Lt(Add(s, n), s), eqs |-> Eq(Add(s, n), s)]
    /\ UNCHANGED cfg

AddRefused(s, n) ==
    /\ IsValue(cfg.bits, cfg.lb, s) /\ IsValue(cfg.bits, cfg.lb, n)
    /\ ~AddDefined(n)
    /\ last' = [e |-> "add", s |-> s, n |-> n, res |-> "refused"]
    /\ UNCHANGED cfg

-----------------------------------------------------------------------------
(* The property, clause by clause, over the results in `last` (width-independent form). *)
B2N(p) == IF p THEN 1 ELSE 0

Trichotomy ==     \* exactly one of <, =, > -- except exactly half the ring apart: none of < and >
    last.e = "cmp" =>
        IF HalfApart(last.a, last.b)
        THEN ~last.lt /\ ~last.gt /\ ~last.eq
        ELSE B2N(last.lt) + B2N(last.gt) + B2N(last.eq) = 1

LeGeAgree ==      \* <= and >= agree with <, >, =
    last.e = "cmp" => /\ last.le = (last.lt \/ last.eq)
                      /\ last.ge = (last.gt \/ last.eq)
                      /\ last.ne = ~last.eq

AddGreater ==     \* s + n compares greater than s when n > 0 (and equal when n = 0)
    (last.e = "add" /\ last.res = "ok") =>
        IF last.n = ZeroL(cfg.bits, cfg.lb)
        THEN last.eqs /\ ~last.gts /\ ~last.lts
        ELSE last.gts /\ ~last.lts /\ ~last.eqs

AddRange ==       \* defined exactly for n in [0, 2^(bits-1) - 1]
    last.e = "add" => (last.res = "ok") = (LCmp(last.n, MaxAddL(cfg.bits, cfg.lb)) <= 0)

Inv == Trichotomy /\ LeGeAgree /\ AddGreater /\ AddRange
=============================================================================
