SPECIFICATION Spec
CONSTANT Depth = 4
CONSTANT Mode = "methods"
CONSTRAINT Bound
INVARIANT LimitInv
INVARIANT ConfineInv
INVARIANT NoDotsInv
INVARIANT MethodInv
INVARIANT TargetInv
INVARIANT Idempotent
CHECK_DEADLOCK FALSE
