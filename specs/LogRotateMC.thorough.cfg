SPECIFICATION Spec
CONSTANT MaxW = 6
CONSTANT MaxCrash = 2
CONSTANT MaxRe = 1
CONSTANT Ls = {0, 1, 2, 3}
CONSTANT Ns = {0, 1, 2}
CONSTRAINT Bound
VIEW View
INVARIANT Inv
INVARIANT IdleOk
CHECK_DEADLOCK FALSE
