SPECIFICATION MCSpec
CONSTANT L = 3
CONSTANT Mode = "main"
VIEW View
INVARIANT Ok
INVARIANT Inv
CHECK_DEADLOCK FALSE
