SPECIFICATION MCSpec
CONSTANT L = 3
VIEW View
INVARIANT Ok
INVARIANT Inv
CHECK_DEADLOCK FALSE
