SPECIFICATION Spec
CONSTANT MaxLen = 4
CONSTANT MaxAvail = 6
CONSTANT Mode = "split"
CONSTANT Kinds = {"msg", "notice"}
INVARIANT SplitOK
CHECK_DEADLOCK FALSE
