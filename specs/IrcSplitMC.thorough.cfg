SPECIFICATION Spec
CONSTANT MaxLen = 4
CONSTANT MaxAvail = 6
CONSTANT Mode = "split"
CONSTANT MaxMsgs = 2
CONSTANT Kinds = {"msg", "notice"}
INVARIANT SplitOK
CHECK_DEADLOCK FALSE
