SPECIFICATION Spec
CONSTANT Ops = 4
CONSTANT MaxD = 2
CONSTANT MaxPause = 1
CONSTANT Modes <- ModesBoth
CONSTANT Plain <- PlainSmall
VIEW View
INVARIANT Refines
INVARIANT RefinesObs
INVARIANT DepthOne
INVARIANT ChainBounded
INVARIANT ITypeOK
INVARIANT AtMostOnce
INVARIANT AddOrder
INVARIANT WaitConsistent
CHECK_DEADLOCK FALSE
