SPECIFICATION Spec
CONSTANT Depth = 4
CONSTANT Assume = {"A", "B", "C", "D", "E"}
CONSTRAINT Bound
VIEW View
INVARIANT Accepted
CHECK_DEADLOCK FALSE
