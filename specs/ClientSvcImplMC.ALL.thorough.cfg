SPECIFICATION Spec
CONSTANT Depth = 4
CONSTANT Assume = {"C", "D", "E"}
CONSTRAINT Bound
VIEW View
INVARIANT Accepted
CHECK_DEADLOCK FALSE
