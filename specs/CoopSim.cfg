SPECIFICATION SSpec
CONSTANT Depth = 30
CONSTANT MaxT = 4
CONSTRAINT Emit
CONSTRAINT Stop
CHECK_DEADLOCK FALSE
