SPECIFICATION Spec
CONSTRAINT Bound
VIEW View
INVARIANT CacheBound
INVARIANT OnePlace
INVARIANT NoClosedLive
CHECK_DEADLOCK FALSE
