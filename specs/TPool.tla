-------------------------------- MODULE TPool --------------------------------
(* C49, second half -- what a client of the real twisted.python.threadpool.ThreadPool can observe
   when it is run with real threads.  Property layer only: the pool is a black box.

   Events, in the real-time order in which they were appended to one log:
     start               ThreadPool.start() is called
     adjust(n)           adjustPoolsize(maxthreads = n) is called
     submit(t)           callInThreadWithCallback(onResult, task t) is about to be called (client thread)
     spawn(th)           the pool's thread factory created pool thread th
     begin(t, th)        task t starts running in pool thread th
     end(t, th, ok)      task t returns (ok) or raises (~ok) in thread th
     result(t, th, ok)   onResult(ok, ..) is called for task t in thread th
     exit(th)            the target of pool thread th returned
     stop_call           stop() is about to be called
     stop_ret(alive)     stop() returned; alive = number of the pool's threads still alive          *)
EXTENDS Naturals, FiniteSets, Sequences

VARIABLES cfg,       \* [max |-> initial maxthreads]
          started,   \* start() has been called
          stopping,  \* stop() has been called
          stopped,   \* stop() has returned
          capEver,   \* largest maxthreads in effect so far
          nT,        \* tasks submitted so far (ids 1..nT)
          live,      \* tasks submitted before stop() was called (these must run and report)
          phase,     \* phase[t]: "new" -> "running" -> "ended" -> "reported"
          okOf,      \* okOf[t]: outcome announced by end(t)
          thOf,      \* thOf[t]: thread that began t
          cur,       \* cur[th]: task thread th is running, 0 if none
          nTh,       \* threads spawned so far (ids 1..nTh)
          exited     \* set of threads whose target returned

vars == <<cfg, started, stopping, stopped, capEver, nT, live, phase, okOf, thOf, cur, nTh, exited>>

InitWith(c) ==
    /\ cfg = c /\ started = FALSE /\ stopping = FALSE /\ stopped = FALSE /\ capEver = c.max
    /\ nT = 0 /\ live = {} /\ phase = <<>> /\ okOf = <<>> /\ thOf = <<>>
    /\ cur = <<>> /\ nTh = 0 /\ exited = {}

Running == {th \in 1..nTh : cur[th] # 0}

Start == /\ ~started /\ ~stopping /\ started' = TRUE
         /\ UNCHANGED <<cfg, stopping, stopped, capEver, nT, live, phase, okOf, thOf, cur, nTh, exited>>

Adjust(n) == /\ ~stopping /\ capEver' = IF n > capEver THEN n ELSE capEver
             /\ UNCHANGED <<cfg, started, stopping, stopped, nT, live, phase, okOf, thOf, cur, nTh, exited>>

Submit(t) ==     \* after stop() a submission is refused (silently): the task must never run
    /\ t = nT + 1 /\ nT' = t
    /\ live' = IF stopping THEN live ELSE live \cup {t}
    /\ phase' = Append(phase, "new") /\ okOf' = Append(okOf, FALSE) /\ thOf' = Append(thOf, 0)
    /\ UNCHANGED <<cfg, started, stopping, stopped, capEver, cur, nTh, exited>>

Spawn(th) ==     \* threads are only created by a started, not yet stopped pool
    /\ th = nTh + 1 /\ nTh' = th /\ cur' = Append(cur, 0)
    /\ started /\ ~stopped
    /\ UNCHANGED <<cfg, started, stopping, stopped, capEver, nT, live, phase, okOf, thOf, exited>>

Begin(t, th) ==  \* a submitted, accepted task starts once, in a pool thread that is not running anything else
    /\ t \in live /\ phase[t] = "new"
    /\ th \in 1..nTh /\ th \notin exited /\ cur[th] = 0
    /\ ~stopped
    /\ Cardinality(Running) < capEver                  \* never more tasks at once than the worker limit
    /\ phase' = [phase EXCEPT ![t] = "running"] /\ thOf' = [thOf EXCEPT ![t] = th]
    /\ cur' = [cur EXCEPT ![th] = t]
    /\ UNCHANGED <<cfg, started, stopping, stopped, capEver, nT, live, okOf, nTh, exited>>

End(t, th, ok) ==
    /\ t \in 1..nT /\ phase[t] = "running" /\ thOf[t] = th
    /\ phase' = [phase EXCEPT ![t] = "ended"] /\ okOf' = [okOf EXCEPT ![t] = ok]
    /\ UNCHANGED <<cfg, started, stopping, stopped, capEver, nT, live, thOf, cur, nTh, exited>>

Result(t, th, ok) ==   \* the outcome is reported once, in the thread that ran the task, with the task's outcome
    /\ t \in 1..nT /\ phase[t] = "ended" /\ thOf[t] = th /\ okOf[t] = ok
    /\ ~stopped
    /\ phase' = [phase EXCEPT ![t] = "reported"]
    /\ cur' = [cur EXCEPT ![th] = 0]
    /\ UNCHANGED <<cfg, started, stopping, stopped, capEver, nT, live, okOf, thOf, nTh, exited>>

Exit(th) ==
    /\ th \in 1..nTh /\ th \notin exited /\ cur[th] = 0
    /\ exited' = exited \cup {th}
    /\ UNCHANGED <<cfg, started, stopping, stopped, capEver, nT, live, phase, okOf, thOf, cur, nTh>>

StopCall ==
    /\ ~stopping /\ stopping' = TRUE
    /\ UNCHANGED <<cfg, started, stopped, capEver, nT, live, phase, okOf, thOf, cur, nTh, exited>>

StopRet(alive) ==   \* stop() returns only after every pool thread has ended and every accepted task has reported
    /\ stopping /\ ~stopped /\ stopped' = TRUE
    /\ alive = 0 /\ exited = 1..nTh
    /\ (started /\ capEver >= 1) => \A t \in live : phase[t] = "reported"
    /\ UNCHANGED <<cfg, started, stopping, capEver, nT, live, phase, okOf, thOf, cur, nTh, exited>>

Next == \/ Start \/ StopCall \/ StopRet(0)
        \/ \E n \in 1..3 : Adjust(n)
        \/ Submit(nT + 1)
        \/ Spawn(nTh + 1)
        \/ \E t \in 1..nT, th \in 1..nTh : Begin(t, th)
        \/ \E t \in 1..nT, th \in 1..nTh, ok \in BOOLEAN : End(t, th, ok)
        \/ \E t \in 1..nT, th \in 1..nTh, ok \in BOOLEAN : Result(t, th, ok)
        \/ \E th \in 1..nTh : Exit(th)

-----------------------------------------------------------------------------
OneTaskPerThread == \A t, u \in 1..nT : (t # u /\ phase[t] \in {"running", "ended"} /\ phase[u] \in {"running", "ended"}) => thOf[t] # thOf[u]
WithinLimit      == Cardinality(Running) <= capEver
OnlyLiveRun      == \A t \in 1..nT : phase[t] # "new" => t \in live
AfterStop        == stopped => /\ exited = 1..nTh
                               /\ ((started /\ capEver >= 1) => \A t \in live : phase[t] = "reported")
                               /\ Running = {}
Inv == OneTaskPerThread /\ WithinLimit /\ OnlyLiveRun /\ AfterStop
=============================================================================
