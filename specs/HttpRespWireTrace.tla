-------------------------- MODULE HttpRespWireTrace --------------------------
(* Batched trace validation for C20: every recorded run of the real
   twisted.web.http.Request (through HTTPChannel on a StringTransport) must be a
   behaviour of HttpRespWire.  One event per public call, carrying the arguments
   as octets / code points, the outcome class, and -- for finish -- everything the
   transport received plus whether the server then closed the connection.
   The finish step is taken only if Judge holds (Finish's guard is the design
   invariant Inv, so it is not evaluated a second time as Inv').                *)
EXTENDS HttpRespWire, TLC, Json, IOUtils

Traces == JsonDeserialize(IOEnv.TRACE_FILE)
VARIABLES tid, l
ASSUME \A t \in 1..Len(Traces) : TLCSet(t, 1)

T == Traces[tid]
E == T.ev[l]

TInit == /\ tid \in 1..Len(Traces) /\ l = 1
         /\ InitWith([minor |-> Traces[tid].cfg.minor, head |-> Traces[tid].cfg.head])

Matches == last'.e = E.e /\ last'.res = E.res
Step(A) == /\ l <= Len(T.ev) /\ A /\ Matches /\ l' = l + 1 /\ UNCHANGED tid

TNext == \/ (E.e = "code" /\ Step(SetCodeOk(E.code, E.rs, E.reason) \/ SetCodeRefused(E.code, E.rs, E.reason)))
         \/ (E.e = "hdr" /\ Step(SetHeaderOk(E.name, E.val, E.txt) \/ SetHeaderRefused(E.name, E.val, E.txt)))
         \/ (E.e = "cookie" /\ Step(AddCookieOk(E.k, E.v, E.attrs, E.flags, E.txt) \/ AddCookieRefused(E.k, E.v, E.attrs, E.flags, E.txt)))
         \/ (E.e = "write" /\ Step(Write(E.data)))
         \/ (E.e = "finish" /\ \E w \in {E.wire} : Step(Finish(w, E.closed)))

TSpec == TInit /\ [][l <= Len(T.ev) /\ TNext]_<<vars, tid, l>>

Progress == TLCSet(tid, IF TLCGet(tid) > l THEN TLCGet(tid) ELSE l)
Rejected == {<<t, TLCGet(t)>> : t \in {u \in 1..Len(Traces) : TLCGet(u) # Len(Traces[u].ev) + 1}}
Accepted == Rejected = {} \/ (PrintT(<<"REJECTED", Rejected>>) /\ FALSE)
=============================================================================
