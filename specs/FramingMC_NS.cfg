SPECIFICATION MCSpec
CONSTANT L = 5
CONSTANT Kind = "NS"
CONSTANT LOBound = "asis"
VIEW View
INVARIANT Ok
INVARIANT Inv
CHECK_DEADLOCK FALSE
