----------------------------- MODULE AtomicFileMC -----------------------------
EXTENDS AtomicFileImpl, TLC
CONSTANTS MaxOps, MaxCrash, Win
(* contents are numbered: 1 = the pre-existing file, save number j writes id j+1 *)
Init == \E k \in {"sc", "sob"}, i \in {0, 1}, e \in {0, 3} :
            ImplInitWith([kind |-> k, init |-> i, ve |-> e, win |-> Win])
MSave == \E n \in 0..2 : ISave(nop + 2, n)
MWrite == \E c \in FsWriteClasses : Write(c)
Next == MSave \/ Create \/ MWrite \/ WinRemove \/ Rename \/ Ret \/ ICrash \/ IView
Spec == Init /\ [][Next]_vars
Bound == nop <= MaxOps /\ ncr <= MaxCrash /\ TLCGet("level") <= 8 * MaxOps + 8
View == <<cfg, tgt, infl, mode, nop, ncr, ok, dir, pc, tmp, left, nchOf>>
=============================================================================
