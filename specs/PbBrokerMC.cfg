SPECIFICATION Spec
CONSTANT MaxCalls = 2
CONSTANT MaxHandles = 2
CONSTANT KindSet = {"Now", "Raise", "Later", "Give", "GiveLater", "Take"}
CONSTANT Flags = {FALSE}
CONSTANT Hows = {"ok", "err"}
CONSTANT Reasons = {1, 2}
CONSTANT NObj = {1, 2}
CONSTANT Depth = 13
CONSTRAINT Bound
VIEW View
INVARIANT ExactlyOnce
INVARIANT OwnResult
INVARIANT NothingPendingAfterLoss
INVARIANT WaitingExact
INVARIANT IdsDistinct
INVARIANT RefBalance
INVARIANT HandleDenotes
INVARIANT NoLeak
INVARIANT NeverBroken
PROPERTY ResultStable
CHECK_DEADLOCK FALSE
