SPECIFICATION Spec
CONSTANT Depth = 3
CONSTANT MaxD = 3
CONSTANT MaxPause = 2
CONSTANT Plain <- PlainFull
CONSTANT CbsOk <- CbsOkQuick
CONSTANT CbsErr <- CbsErrQuick
CONSTRAINT Bound
VIEW View
INVARIANT AtMostOnce
INVARIANT AddOrder
INVARIANT Quiescent
INVARIANT WaitConsistent
INVARIANT InputsAreResults
INVARIANT LastRanOnce
CHECK_DEADLOCK FALSE
