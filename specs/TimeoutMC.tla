------------------------------ MODULE TimeoutMC ------------------------------
EXTENDS Timeout, TLC
Spec == Init /\ [][Next]_vars
Bound == now <= 8 /\ fired <= 3 /\ TLCGet("level") <= 9
View == <<now, period, deadline, fired>>
=============================================================================
