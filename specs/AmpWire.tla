------------------------------- MODULE AmpWire -------------------------------
(* C30 -- AMP box wire format (twisted.protocols.amp: AmpBox.serialize,
   BinaryBoxProtocol.sendBox / dataReceived / proto_init,key,value).

   Pattern B.  A byte string is a RUN LIST  << <<byte, count>>, ... >>  (run-length
   form of the real bytes, normalised: counts >= 1, adjacent runs differ), so key
   and value lengths are the REAL lengths (0, 1, 255, 256, 65535, 65536 ...) while
   states stay small.  A box is a sequence of <<key, value>> pairs; a key / value
   is <<kind, runs>> with kind "B" for a byte string and anything else for an
   object that is not a byte string.

   The property, as stated:
     * boxes whose keys are byte strings of 1..255 bytes and whose values are
       byte strings of 0..65535 bytes: serialise a sequence of them, deliver the
       byte stream in arbitrary pieces, the parser yields equal boxes;
     * a box that cannot be represented (empty / overlong / non-bytes key,
       overlong / non-bytes value) is refused at send and nothing is written.
   Freedom left by the text and kept here: the order of the pairs inside a
   serialised box (SendOk takes any permutation), and whether a box with no pairs
   at all is refused or sent (both accepted; if sent it must round-trip).

   Reference = Expected(pos): computed from the SIZES of the accepted boxes only
   (a box is delivered exactly when its last byte has been delivered); the
   incremental machine m is the independent length-prefixed parser.           *)
EXTENDS AmpWireOps

-----------------------------------------------------------------------------
VARIABLES cfg,      \* [boxes |-> sequence of boxes to send, in order]
          nsent,    \* number of send calls made
          acc,      \* sequence of accepted boxes (PlainBox form)
          ends,     \* ends[j] = offset of the last byte of the j-th accepted box
          segs,     \* lengths of all segments written so far (model-checking aid: interesting cut points)
          wire,     \* every byte written so far (run list)
          pos,      \* number of bytes delivered to the receiver
          m,        \* the receiving machine
          last      \* observable of the last action

vars == <<cfg, nsent, acc, ends, segs, wire, pos, m, last>>

InitWith(c) ==
    /\ cfg = c /\ nsent = 0 /\ acc = <<>> /\ ends = <<>> /\ segs = <<>>
    /\ wire = <<>> /\ pos = 0 /\ m = M0
    /\ last = [e |-> "init"]

(* ---- sending *)
SendIf(ord, admitted(_)) ==       \* serialise the next box, provided the predicate admits it
    /\ nsent < Len(cfg.boxes)
    /\ admitted(cfg.boxes[nsent + 1])
    /\ Len(ord) = Len(cfg.boxes[nsent + 1])
    /\ \E bytes \in {Norm(SerSeq(cfg.boxes[nsent + 1], ord))} :
       /\ nsent' = nsent + 1
       /\ wire' = RCat(wire, bytes)
       /\ acc' = Append(acc, PlainBox(cfg.boxes[nsent + 1]))
       /\ ends' = Append(ends, RLen(wire) + RLen(bytes))
       /\ segs' = segs \o SegSeq(cfg.boxes[nsent + 1], ord)
       /\ last' = [e |-> "send", res |-> "ok", wr |-> bytes]
    /\ UNCHANGED <<cfg, pos, m>>

SendOk(ord) == SendIf(ord, PairsOK)

SendRefuse ==
    /\ nsent < Len(cfg.boxes)
    /\ LET box == cfg.boxes[nsent + 1] IN ~PairsOK(box) \/ box = <<>>
    /\ nsent' = nsent + 1
    /\ last' = [e |-> "send", res |-> "refused", wr |-> <<>>]      \* nothing reaches the stream
    /\ UNCHANGED <<cfg, acc, ends, segs, wire, pos, m>>

Deliver(n) ==
    /\ n >= 1 /\ pos + n <= RLen(wire)
    /\ \E m2 \in {Drain([m EXCEPT !.buf = RCat(m.buf, RTake(RDrop(wire, pos), n))])} :     \* (bound once: TLC would
       /\ m' = m2                                                                        \*  re-evaluate a LET at every use)
       /\ last' = [e |-> "deliver", n |-> n,
                   new |-> SubSeq(m2.out, Len(m.out) + 1, Len(m2.out)),
                   all |-> m2.out, closed |-> m2.closed]
    /\ pos' = pos + n
    /\ UNCHANGED <<cfg, nsent, acc, ends, segs, wire>>

-----------------------------------------------------------------------------
(* The property *)
NComplete(p) == Cardinality({j \in 1..Len(ends) : ends[j] <= p})
Expected(p) == SubSeq(acc, 1, NComplete(p))

RoundTrip == BoxesEq(m.out, Expected(pos))       \* under every split: exactly the complete boxes, equal, in order
NeverClosed == ~m.closed                         \* a stream of representable boxes is never refused by the parser
AllAtEnd == (pos = RLen(wire)) => (Len(m.out) = Len(acc) /\ m.buf = <<>> /\ m.st = "init")
WireIsSer == (ends # <<>> => ends[Len(ends)] = RLen(wire)) /\ (ends = <<>> => wire = <<>>)

Inv == RoundTrip /\ NeverClosed /\ AllAtEnd /\ WireIsSer
=============================================================================
