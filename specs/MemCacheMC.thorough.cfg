SPECIFICATION Spec
CONSTANT MaxCmds = 3
CONSTANT MaxLevel = 9
CONSTANT Group = 1
CONSTRAINT Bound
VIEW View
INVARIANT ExactlyOnce
INVARIANT QueueOrder
INVARIANT Fifo
INVARIANT Matched
INVARIANT Guarded
INVARIANT NoIdleTimer
INVARIANT Dead
INVARIANT ServerSync
PROPERTY TimeoutFailsAll
PROPERTY LossFailsAll
PROPERTY RejectsUnwritten
CHECK_DEADLOCK FALSE
