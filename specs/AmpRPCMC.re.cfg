SPECIFICATION Spec
CONSTANT MaxCalls = 2
CONSTANT MaxPerPeer = 2
CONSTANT KindSet = {"NowOk", "LaterUndecl", "Never"}
CONSTANT Flags = {TRUE, FALSE}
CONSTANT QC = {TRUE, FALSE}
VIEW View
INVARIANT ExactlyOnce
INVARIANT OwnResult
INVARIANT NonePendingAfterLoss
INVARIANT NeverOnlyLoss
INVARIANT WhyOK
CHECK_DEADLOCK FALSE
