------------------------------- MODULE DirDbm -------------------------------
(* C51 -- twisted.persisted.dirdbm.DirDBM survives a process crash at any point.

   Abs layer = the property, nothing more.  State: the committed map (the value of
   the last *completed* operation of every key), the operation in flight, whether
   the process is up.  Actions: the public calls (set/replace = d[k]=v, delete =
   del d[k], reopen = DirDBM(path)), their outcomes, a crash, and `view` = what a
   user reads back through keys()/d[k].

   A view is a set of tuples <<k, ext, v, cls>>, one per entry that keys() lists:
     k   >= 1 index of a key used in this history, 0 = a name that is no such key
     ext ""  for the entry of the key itself, otherwise the stray suffix shown
     v   id of the value whose complete bytes were read, 0 = no complete value
     cls "all" complete value, "part" anything else (partial / junk)
   The property: whenever the database is open and idle the view is `Proper` (no
   stray entry, no partial value) and equals the committed map -- except that right
   after recovery the key of the interrupted operation may have its old or its new
   value.  `ok` records whether every view so far was allowed; Inv == ok.

   Values and keys are abstracted to identities (the harness concretises them to
   distinct byte strings); cfg.ve is the id of the value that is the empty byte
   string (0 = none in this history), needed only by the Impl layer.           *)
EXTENDS Naturals, Integers, Sequences, FiniteSets

VARIABLES cfg,    \* [ve |-> id of the empty value or 0]
          db,     \* committed map: function  present keys -> value id
          infl,   \* <<>> or <<[kind |-> "set"|"del", k |-> key, v |-> value id or 0]>>
          mode,   \* "up" idle | "busy" inside set/del | "rec" inside DirDBM() | "down" crashed
          nop,    \* operations begun
          ncr,    \* crashes so far
          nre,    \* reopen calls so far
          ok,     \* every view so far was allowed by the property
          last    \* observable of the last action

absvars == <<cfg, db, infl, mode, nop, ncr, nre, ok, last>>

InitWith(c) ==
    /\ cfg = c
    /\ db = <<>> /\ infl = <<>> /\ mode = "up"
    /\ nop = 0 /\ ncr = 0 /\ nre = 0
    /\ ok = TRUE
    /\ last = [e |-> "init"]

Apply(d, op) ==
    IF op.kind = "set"
    THEN [x \in DOMAIN d \cup {op.k} |-> IF x = op.k THEN op.v ELSE d[x]]
    ELSE [x \in DOMAIN d \ {op.k} |-> d[x]]

(* ---- the property, as a predicate on views ---- *)
Proper(kvs) ==
    /\ \A t \in kvs : t[1] >= 1 /\ t[2] = "" /\ t[4] = "all"
    /\ \A t, u \in kvs : t[1] = u[1] => t = u
ViewDb(kvs) == [k \in {t[1] : t \in kvs} |-> (CHOOSE t \in kvs : t[1] = k)[3]]
Allowed(kvs) ==
    /\ Proper(kvs)
    /\ LET d == ViewDb(kvs) IN
         IF infl = <<>> THEN d = db
         ELSE d = db \/ d = Apply(db, infl[1])     \* interrupted key: old or new; every other key: committed

(* ---- public calls ---- *)
ASet(k, v) ==
    /\ mode = "up" /\ infl = <<>>
    /\ infl' = <<[kind |-> "set", k |-> k, v |-> v]>>
    /\ mode' = "busy" /\ nop' = nop + 1
    /\ last' = [e |-> "set", k |-> k, v |-> v]
    /\ UNCHANGED <<cfg, db, ncr, nre, ok>>

ADel(k) ==
    /\ mode = "up" /\ infl = <<>>
    /\ infl' = <<[kind |-> "del", k |-> k, v |-> 0]>>
    /\ mode' = "busy" /\ nop' = nop + 1
    /\ last' = [e |-> "del", k |-> k]
    /\ UNCHANGED <<cfg, db, ncr, nre, ok>>

(* the call returned normally: the operation is completed *)
ARetOk ==
    /\ mode = "busy"
    /\ infl[1].kind = "del" => infl[1].k \in DOMAIN db
    /\ db' = Apply(db, infl[1])
    /\ infl' = <<>> /\ mode' = "up"
    /\ last' = [e |-> "ret", res |-> "ok"]
    /\ UNCHANGED <<cfg, nop, ncr, nre, ok>>

(* del of a key that is not there: KeyError, nothing changes *)
ARetKeyError ==
    /\ mode = "busy" /\ infl[1].kind = "del" /\ infl[1].k \notin DOMAIN db
    /\ infl' = <<>> /\ mode' = "up"
    /\ last' = [e |-> "ret", res |-> "keyerror"]
    /\ UNCHANGED <<cfg, db, nop, ncr, nre, ok>>

(* the process dies inside set/del or inside the recovery of DirDBM() *)
ACrash ==
    /\ mode \in {"busy", "rec"}
    /\ mode' = "down" /\ ncr' = ncr + 1
    /\ last' = [e |-> "crash"]
    /\ UNCHANGED <<cfg, db, infl, nop, nre, ok>>

(* DirDBM(path) on the existing directory (after a crash, or a plain reopen) *)
AReopen ==
    /\ mode \in {"up", "down"}
    /\ mode' = "rec" /\ nre' = nre + 1
    /\ last' = [e |-> "reopen"]
    /\ UNCHANGED <<cfg, db, infl, nop, ncr, ok>>

AReopenOk ==
    /\ mode = "rec"
    /\ mode' = "up"
    /\ last' = [e |-> "ret", res |-> "ok"]
    /\ UNCHANGED <<cfg, db, infl, nop, ncr, nre, ok>>

(* what keys()/d[k] show while the database is open and idle; always possible,
   `ok` remembers whether the property allowed it.  The view settles the fate of an
   interrupted operation. *)
AView(kvs) ==
    /\ mode = "up"
    /\ ok' = (ok /\ Allowed(kvs))
    /\ db' = IF Proper(kvs) THEN ViewDb(kvs) ELSE db
    /\ infl' = <<>>
    /\ last' = [e |-> "view"]
    /\ UNCHANGED <<cfg, mode, nop, ncr, nre>>

Inv == ok
=============================================================================
