----------------------------- MODULE ClientSvcGroup -----------------------------
(* Acceptance of one complete logged event (top-level step + its re-entrant calls) by ClientSvc, as a
   set-valued function: Accept(s, E) = the specification states reachable from s by taking event E
   with every field of E matched and the invariants holding.  Empty = the property rejects E.
   E.obs is a SET here (ClientSvcImplMC); the trace specification does the same thing stepwise.   *)
EXTENDS ClientSvc

OuterSet(s, E) ==
    LET f == Fresh(s)
    IN IF s.todo # {} THEN {}
       ELSE CASE E.e = "start"    -> {DoStart(f, ch) : ch \in Ch(s, TRUE, FALSE, TRUE, FALSE, FALSE)}
              [] E.e = "stop"     -> IF E.newid # s.nS + 1 THEN {} ELSE {DoStop(f, E.then, ch) : ch \in Ch(s, FALSE, FALSE, FALSE, TRUE, TRUE)}
              [] E.e = "when"     -> IF E.newid # s.nW + 1 THEN {} ELSE {DoWhen(f, E.k, E.then)}
              [] E.e = "succeed"  -> IF s.att = 0 \/ E.a # s.att THEN {} ELSE {DoSucceed(f, ch) : ch \in Ch(s, TRUE, FALSE, TRUE, FALSE, FALSE)}
              [] E.e = "fail"     -> IF s.att = 0 \/ E.a # s.att THEN {} ELSE {DoFail(f, ch) : ch \in Ch(s, TRUE, FALSE, FALSE, FALSE, FALSE)}
              [] E.e = "prepok"   -> IF E.a \notin s.hooks THEN {} ELSE {DoPrep(f, E.a, TRUE, ch) : ch \in Ch(s, FALSE, FALSE, FALSE, FALSE, FALSE)}
              [] E.e = "prepfail" -> IF E.a \notin s.hooks THEN {} ELSE {DoPrep(f, E.a, FALSE, ch) : ch \in Ch(s, TRUE, FALSE, TRUE, FALSE, FALSE)}
              [] E.e = "drop"     -> IF E.a = 0 \/ E.a # s.conn THEN {} ELSE {DoDrop(f, ch) : ch \in Ch(s, TRUE, TRUE, TRUE, TRUE, FALSE)}
              [] E.e = "adv"      -> {DoAdv(f, E.a, ch) : ch \in Ch(s, TRUE, FALSE, TRUE, FALSE, FALSE)}
              [] E.e = "cmode"    -> {[f EXCEPT !.cmode = E.m]}
              [] E.e = "hmode"    -> {[f EXCEPT !.hmode = E.m]}
              [] OTHER            -> {}

RECURSIVE NestedSet(_, _, _)
NestedSet(SS, E, j) ==
    IF j > Len(E.nested) \/ SS = {} THEN SS
    ELSE LET x == E.nested[j]
             step(s) == UNION {{ApplyNested(s, n, ch) : ch \in ChN(s, n)} :
                                n \in {y \in s.todo : y.by = x.by /\ y.id = x.id /\ y.call = x.call}}
         IN NestedSet(UNION {step(s) : s \in {t \in SS : InvOf(t)}}, E, j + 1)

Accept(s, E) ==
    IF E.res # "ok" THEN {}
    ELSE {t \in NestedSet(OuterSet(s, E), E, 1) : t.todo = {} /\ t.obs = E.obs /\ t.nres = E.nested /\ InvOf(t)}
=============================================================================
