SPECIFICATION Spec
CONSTANT MaxIv = 2
CONSTANT Horizon = 4
CONSTANT MaxD = 2
CONSTANT MaxOps = 5
CONSTANT Stricts = {FALSE}
CONSTANT T0s = {2}
CONSTRAINT Bound
VIEW View
INVARIANT NoOverlap
INVARIANT NoDrift
INVARIANT FirstCall
INVARIANT CountSum
INVARIANT CountPositive
INVARIANT StartDOnce
INVARIANT NoCallAfter
CHECK_DEADLOCK FALSE
