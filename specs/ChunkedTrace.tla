---------------------------- MODULE ChunkedTrace ----------------------------
(* Batched trace validation for C22: every recorded run of the real
   _ChunkedTransferDecoder must be explained by Chunked.tla, every logged field compared. *)
EXTENDS Chunked, TLC, Json, IOUtils

Traces == JsonDeserialize(IOEnv.TRACE_FILE)
VARIABLES tid, l
ASSUME \A t \in 1..Len(Traces) : TLCSet(t, 1)

T == Traces[tid]
E == T.ev[l]

TInit == /\ tid \in 1..Len(Traces) /\ l = 1
         /\ InitWith([lmax |-> Traces[tid].cfg.lmax, tmax |-> Traces[tid].cfg.tmax], Traces[tid].str)

\* round trip: when the stream was produced by an encoder from `want`, the reference must decode to it
WantOK == (T.haswant /\ done' = "fin") => ref'.body = T.want

TStep(A) == /\ l <= Len(T.ev) /\ A /\ Inv' /\ WantOK /\ l' = l + 1 /\ UNCHANGED tid

TNext == \/ (E.e = "data" /\ TStep(Deliver(E.n, [body |-> E.body, fin |-> E.fin, exc |-> E.exc])))
         \/ (E.e = "eof" /\ TStep(Eof(E.exc)))

TSpec == TInit /\ [][l <= Len(T.ev) /\ TNext]_<<vars, tid, l>>

Progress == TLCSet(tid, IF TLCGet(tid) > l THEN TLCGet(tid) ELSE l)
Rejected_ == {<<t, TLCGet(t)>> : t \in {u \in 1..Len(Traces) : TLCGet(u) # Len(Traces[u].ev) + 1}}
Accepted == Rejected_ = {} \/ (PrintT(<<"REJECTED", Rejected_>>) /\ FALSE)
=============================================================================
