SPECIFICATION Spec
CONSTANT MaxN = 3
CONSTANT Waker = TRUE
INVARIANT IInv
INVARIANT NoLostWakeup
PROPERTY Live
PROPERTY AbsSpec
CHECK_DEADLOCK FALSE
