SPECIFICATION Spec
CONSTANT MaxO = 3
CONSTANT MaxE = 2
CONSTANT MaxOps = 6
CONSTANT Segs = {"a", "b"}
CONSTANT NsDepth = 2
CONSTANT MaxS = 4
CONSTANT MCLevels = {1, 2, 3}
CONSTANT MaxSize = 4
CONSTANT MaxB = 7
INVARIANT PubExactlyOnce
INVARIANT PubNoDuplicates
INVARIANT FilterDecision
INVARIANT BufferLastN
CHECK_DEADLOCK FALSE
