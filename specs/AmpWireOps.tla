----------------------------- MODULE AmpWireOps -----------------------------
(* Variable-free operators shared by AmpWire (box layer) and AmpWireArg (argument
   structure): byte strings as run lists, box serialisation, and the receiving
   machine (16-bit length-prefixed strings, states init / key / value).          *)
EXTENDS Naturals, Integers, Sequences, FiniteSets

MaxKey == 255
MaxVal == 65535

-----------------------------------------------------------------------------
(* run lists *)
RECURSIVE RLen(_)
RLen(r) == IF r = <<>> THEN 0 ELSE r[1][2] + RLen(Tail(r))

(* Norm is written with an accumulator: TLC re-evaluates a LET-bound recursive result at every use,
   which made the naive definition exponential in the number of runs. *)
RECURSIVE NormAcc(_, _)
NormAcc(acc, r) ==
    IF r = <<>> THEN acc
    ELSE IF r[1][2] = 0 THEN NormAcc(acc, Tail(r))
    ELSE IF acc # <<>> /\ acc[Len(acc)][1] = r[1][1]
         THEN NormAcc([acc EXCEPT ![Len(acc)] = <<r[1][1], acc[Len(acc)][2] + r[1][2]>>], Tail(r))
         ELSE NormAcc(Append(acc, r[1]), Tail(r))
Norm(r) == NormAcc(<<>>, r)

RECURSIVE RTake(_, _)
RTake(r, n) == IF n = 0 \/ r = <<>> THEN <<>>
               ELSE IF r[1][2] <= n THEN << r[1] >> \o RTake(Tail(r), n - r[1][2])
               ELSE << <<r[1][1], n>> >>

RECURSIVE RDrop(_, _)
RDrop(r, n) == IF n = 0 \/ r = <<>> THEN r
               ELSE IF r[1][2] <= n THEN RDrop(Tail(r), n - r[1][2])
               ELSE << <<r[1][1], r[1][2] - n>> >> \o Tail(r)

RECURSIVE RByte(_, _)           \* i-th byte, 1-based, i <= RLen(r)
RByte(r, i) == IF i <= r[1][2] THEN r[1][1] ELSE RByte(Tail(r), i - r[1][2])

Int2(n) == << <<n \div 256, 1>>, <<n % 256, 1>> >>      \* 2-byte big-endian length prefix
RCat(a, b) == Norm(a \o b)

-----------------------------------------------------------------------------
(* boxes *)
IsBytes(x) == x[1] = "B"
BLen(x) == RLen(x[2])

PairOK(p) == /\ IsBytes(p[1]) /\ BLen(p[1]) >= 1 /\ BLen(p[1]) <= MaxKey
             /\ IsBytes(p[2]) /\ BLen(p[2]) <= MaxVal
PairsOK(box) == \A i \in 1..Len(box) : PairOK(box[i])

SerPair(p) == Int2(BLen(p[1])) \o p[1][2] \o Int2(BLen(p[2])) \o p[2][2]
RECURSIVE SerSeq(_, _)          \* pairs of box in the order given by the index sequence ord
SerSeq(box, ord) == IF ord = <<>> THEN Int2(0)
                    ELSE SerPair(box[ord[1]]) \o SerSeq(box, Tail(ord))
RECURSIVE SegSeq(_, _)          \* lengths of the segments written (prefix, key, prefix, value, ..., terminator)
SegSeq(box, ord) == IF ord = <<>> THEN <<2>>
                    ELSE <<2, BLen(box[ord[1]][1]), 2, BLen(box[ord[1]][2])>> \o SegSeq(box, Tail(ord))

Orders(n) == {o \in [1..n -> 1..n] : \A i, j \in 1..n : i # j => o[i] # o[j]}

Range(s) == {s[i] : i \in 1..Len(s)}
PlainBox(box) == [i \in 1..Len(box) |-> <<box[i][1][2], box[i][2][2]>>]   \* <<key runs, value runs>>
BoxEq(a, b) == Len(a) = Len(b) /\ Range(a) = Range(b)                       \* equal as dictionaries
BoxesEq(s, t) == Len(s) = Len(t) /\ \A i \in 1..Len(s) : BoxEq(s[i], t[i])


M0 == [st |-> "init", buf |-> <<>>, cur |-> <<>>, ckey |-> <<>>, out |-> <<>>, closed |-> FALSE]

(* ---- receiving: 16-bit length-prefixed strings, states init / key / value *)
Limit(st) == IF st = "value" THEN MaxVal ELSE MaxKey

PutKey(cur, k, v) == SelectSeq(cur, LAMBDA p : p[1] # k) \o << <<k, v>> >>

Feed(mm, s) ==
    IF mm.st = "value"
    THEN [mm EXCEPT !.cur = PutKey(mm.cur, mm.ckey, s), !.ckey = <<>>, !.st = "key"]
    ELSE IF s = <<>>                                                   \* empty string ends the box
         THEN [mm EXCEPT !.out = Append(mm.out, mm.cur), !.cur = <<>>, !.st = "init"]
         ELSE [mm EXCEPT !.ckey = s, !.st = "value"]

RECURSIVE Drain(_), DrainL(_, _, _)
(* (operator parameters are evaluated once by TLC, LET definitions at every use: hence the helper) *)
DrainL(mm, n, len) ==
    IF len > Limit(mm.st) THEN [mm EXCEPT !.closed = TRUE]
    ELSE IF n < 2 + len THEN mm
    ELSE Drain(Feed([mm EXCEPT !.buf = RDrop(mm.buf, 2 + len)], Norm(RTake(RDrop(mm.buf, 2), len))))
Drain(mm) ==
    IF mm.closed \/ RLen(mm.buf) < 2 THEN mm
    ELSE DrainL(mm, RLen(mm.buf), RByte(mm.buf, 1) * 256 + RByte(mm.buf, 2))
=============================================================================
