SPECIFICATION Spec
CONSTANT MaxN = 6
INVARIANT ChainShort
CHECK_DEADLOCK FALSE
