SPECIFICATION Spec
CONSTANT MaxN = 8
INVARIANT ChainShort
CHECK_DEADLOCK FALSE
