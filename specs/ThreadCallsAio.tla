----------------------------- MODULE ThreadCallsAio -----------------------------
(* HISTORICAL (not run by the check any more): the algorithm of AsyncioSelectorReactor.callFromThread BEFORE the repair
   of the C13 ordering defect (/repo 1e33a40: the reactor now queues on threadCallQueue, i.e. ThreadCallsImpl applies).
   C13, Impl layer for AsyncioSelectorReactor.callFromThread (asyncioreactor.py), as it was coded:

       def callFromThread(self, f, *args, **kwargs):
           g = lambda: self.callLater(0, f, *args, **kwargs)
           self._asyncioEventloop.call_soon_threadsafe(g)

   call_soon_threadsafe appends g to the loop's FIFO of ready handles; the loop runs g, which creates a
   DelayedCall with time = seconds() + 0 and pushes it on ReactorBase._pendingTimedCalls, a heapq ordered by
   DelayedCall.__lt__ (time only); _onTimer -> runUntilCurrent pops every entry with time <= now.
   heapq's heappush / heappop are transcribed literally (ties are NOT FIFO).

   cfg.clock = "strict": seconds() is strictly larger at every callLater (the usual high-resolution clock);
   cfg.clock = "coarse": seconds() advances by Tick steps only, so several callLater calls may see the same time.

   Informational layer: TLC decides whether the algorithm keeps per-producer order under either clock; a
   counterexample is reported by the check only if the real reactor reproduces it (trace validation).     *)
EXTENDS Naturals, Sequences, FiniteSets

VARIABLES cfg,     \* [n |-> <<..>>, clock |-> "strict" | "coarse"]
          issuedA, \* calls issued per producer
          ready,   \* the event loop's FIFO of ready handles: sequence of <<p, i>>
          heap,    \* _pendingTimedCalls: Python list kept as a binary heap, entries [t, p, i]
          now,     \* the reactor clock
          ranA     \* calls run, in order

avars == <<cfg, issuedA, ready, heap, now, ranA>>
PA == 1..Len(cfg.n)

Lt(a, b) == a.t < b.t                       \* DelayedCall.__lt__

\* heapq._siftdown(heap, startpos, pos) with 0-based positions held in 1-based sequences (index = pos + 1)
RECURSIVE SiftDown(_, _, _, _)
SiftDown(h, start, pos, item) ==
    IF pos > start
      THEN LET parent == (pos - 1) \div 2 IN
           IF Lt(item, h[parent + 1])
             THEN SiftDown([h EXCEPT ![pos + 1] = h[parent + 1]], start, parent, item)
             ELSE [h EXCEPT ![pos + 1] = item]
      ELSE [h EXCEPT ![pos + 1] = item]

HeapPush(h, item) == SiftDown(Append(h, item), 0, Len(h), item)

\* heapq._siftup(heap, pos): bubble the smaller child up to a leaf, then sift the item down from there
RECURSIVE SiftUpLoop(_, _, _, _)
SiftUpLoop(h, pos, item, start) ==
    LET endpos == Len(h)
        child == 2 * pos + 1 IN
    IF child < endpos
      THEN LET right == child + 1
               c == IF right < endpos /\ ~Lt(h[child + 1], h[right + 1]) THEN right ELSE child IN
           SiftUpLoop([h EXCEPT ![pos + 1] = h[c + 1]], c, item, start)
      ELSE SiftDown([h EXCEPT ![pos + 1] = item], start, pos, item)

\* heappop: returns <<item, heap'>>
HeapPop(h) ==
    LET last == h[Len(h)]
        rest == SubSeq(h, 1, Len(h) - 1) IN
    IF rest = <<>> THEN <<last, <<>> >>
    ELSE <<h[1], SiftUpLoop([rest EXCEPT ![1] = last], 0, last, 0)>>

AInitWith(c) ==
    /\ cfg = c
    /\ issuedA = [p \in 1..Len(c.n) |-> 0]
    /\ ready = <<>> /\ heap = <<>> /\ now = 0 /\ ranA = <<>>

IssueA(p) ==                                 \* callFromThread in producer p: call_soon_threadsafe(g)
    /\ issuedA[p] < cfg.n[p]
    /\ issuedA' = [issuedA EXCEPT ![p] = @ + 1]
    /\ ready' = Append(ready, <<p, issuedA[p] + 1>>)
    /\ UNCHANGED <<cfg, heap, now, ranA>>

LoopRunsG ==                                 \* the loop runs g: callLater(0, f) -> heappush
    /\ ready # <<>>
    /\ LET t == IF cfg.clock = "strict" THEN now + 1 ELSE now IN
         /\ heap' = HeapPush(heap, [t |-> t, p |-> Head(ready)[1], i |-> Head(ready)[2]])
         /\ now' = t
    /\ ready' = Tail(ready)
    /\ UNCHANGED <<cfg, issuedA, ranA>>

Tick ==
    /\ cfg.clock = "coarse" /\ now < 3
    /\ now' = now + 1
    /\ UNCHANGED <<cfg, issuedA, ready, heap, ranA>>

OnTimer ==                                   \* runUntilCurrent: pop the heap top while it is due
    /\ heap # <<>> /\ heap[1].t <= now
    /\ LET r == HeapPop(heap) IN
         /\ ranA' = Append(ranA, <<r[1].p, r[1].i>>)
         /\ heap' = r[2]
    /\ UNCHANGED <<cfg, issuedA, ready, now>>

IssueAStep == \E p \in PA : IssueA(p)
ANext == IssueAStep \/ LoopRunsG \/ Tick \/ OnTimer

RA == 1..Len(ranA)
AExactlyOnce      == \A a, b \in RA : a # b => ranA[a] # ranA[b]
APerProducerOrder == \A a, b \in RA : (a < b /\ ranA[a][1] = ranA[b][1]) => ranA[a][2] < ranA[b][2]
HeapOK == \A k \in 2..Len(heap) : ~Lt(heap[k], heap[k \div 2])
=============================================================================
