SPECIFICATION Spec
CONSTANT MaxB = 2
CONSTANT MaxP = 3
CONSTANT DiscCodes <- MCDiscCodes
VIEW View
INVARIANT InOrderPrefix
INVARIANT SegInv
INVARIANT NoSpuriousDisconnect
INVARIANT AlteredNeverDelivered
INVARIANT TamperDisconnects
INVARIANT AtEnd
CHECK_DEADLOCK FALSE
