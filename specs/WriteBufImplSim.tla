---------------------------- MODULE WriteBufImplSim ----------------------------
(* Behaviour generator (spec -> code): random walks of the coded algorithm (WriteBufImpl) with
   TLC choosing the ops and the OS's acceptance counts; each behaviour is printed as JSON
   {cfg, ops (adapter vocabulary), ev (the micro-events the model predicts)}.  The harness runs
   the ops on the real FileDescriptor, compares the predicted micro-events (impl_drift) and has
   TLC validate the real ones against the property acceptor.                                   *)
EXTENDS Naturals, Integers, Sequences, TLC, Json
CONSTANT Depth
VARIABLES I, cfg, ops, ev
Impl == INSTANCE WriteBufImpl

Cfgs == {[bufferSize |-> 2, sendLimit |-> 3], [bufferSize |-> 4, sendLimit |-> 1], [bufferSize |-> 6, sendLimit |-> 8]}
SInit == \E c \in Cfgs : cfg = c /\ I = Impl!IInit(c) /\ ops = <<>> /\ ev = <<>>

A(w, n) == [a |-> w, n |-> n, ns |-> <<>>]
Scripts == {<<>>, <<A("w", 2)>>, <<A("w", 5), A("fin", 0)>>, <<[a |-> "ws", n |-> 0, ns |-> <<1, 4>>], A("-", 0), A("w", 1)>>,
            <<A("w", 9), A("w", 0), A("w", 3)>>}
JAct(a) == CASE a.a = "w" -> <<"w", a.n>> [] a.a = "ws" -> <<"ws", a.ns>> [] OTHER -> <<a.a>>
JScript(s) == [i \in 1..Len(s) |-> JAct(s[i])]
O(op) == [op |-> op, n |-> 0, ns |-> <<>>, kind |-> "-", script |-> <<>>, acc |-> 0]

Do(o, j) == LET res == Impl!Exec(I, o)
            IN /\ I' = [res EXCEPT !.evs = <<>>] /\ ev' = ev \o res.evs /\ ops' = Append(ops, j) /\ UNCHANGED cfg
SNext == \/ \E n \in {0, 1, 2, 3, 5, 7} : Do([O("write") EXCEPT !.n = n], <<"write", n>>)
         \/ \E s \in {<<>>, <<1, 2>>, <<0, 3>>, <<4, 0, 4>>} : Do([O("writeseq") EXCEPT !.ns = s], <<"writeseq", s>>)
         \/ Do([O("reg") EXCEPT !.kind = "push"], <<"reg", "push", <<>> >>)
         \/ \E s \in Scripts : Do([O("reg") EXCEPT !.kind = "pull", !.script = s], <<"reg", "pull", JScript(s)>>)
         \/ \E s \in Scripts : Do([O("reg") EXCEPT !.kind = "push", !.script = s], <<"reg", "push", JScript(s)>>)
         \/ Do(O("unreg"), <<"unreg">>) \/ Do(O("lose"), <<"lose">>) \/ Do(O("losew"), <<"losew">>)
         \/ Do(O("ppause"), <<"ppause">>) \/ Do(O("presume"), <<"presume">>)
         \/ (Impl!CanDoWrite(I) /\ \E k \in (0 - 1)..Len(Impl!Offered(I)) :
                Do([O("dowrite") EXCEPT !.acc = k],
                   IF k < 0 THEN <<"dowrite", "err">> ELSE IF k = 0 THEN <<"dowrite", "zero">> ELSE <<"dowrite", "abs", k>>))
SSpec == SInit /\ [][SNext]_<<I, cfg, ops, ev>>
Emit == TLCGet("level") < Depth \/ PrintT(<<"BEH", ToJson([cfg |-> cfg, ops |-> ops, ev |-> ev])>>)
Stop == TLCGet("level") <= Depth
=============================================================================
