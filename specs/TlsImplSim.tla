----------------------------- MODULE TlsImplSim -----------------------------
(* Behaviour generator (spec -> code) for the Impl layer: TlsImpl plus a history of the actions; a behaviour is
   printed when it has reached a settled state (handshake done, nothing pending in the aggregator), together
   with the write ids the model says have gone out.  The harness replays it on the real TLS pair. *)
EXTENDS TlsImpl, Json
CONSTANT Depth
VARIABLE hist
SInit == Init /\ hist = <<>>
SNext == Next /\ hist' = Append(hist, last')
SSpec == SInit /\ [][SNext]_<<vars, hist>>
Settled == hs /\ ~sched /\ agg = <<>> /\ appBuf = <<>> /\ ~aborted
RECURSIVE SizeOf(_, _)
SizeOf(h, id) ==     \* size of the id-th write call in the history
    IF h = <<>> THEN 0
    ELSE IF Head(h).e = "write" THEN (IF id = 1 THEN Head(h).n ELSE SizeOf(Tail(h), id - 1)) ELSE SizeOf(Tail(h), id)
RECURSIVE OutUnits(_, _)
OutUnits(o, h) == IF o = <<>> THEN 0 ELSE SizeOf(h, Head(o)) + OutUnits(Tail(o), h)
Emit == (TLCGet("level") < Depth \/ ~Settled)
        \/ PrintT(<<"BEH", ToJson([hist |-> hist, units |-> OutUnits(DataOut, hist), closed |-> shutSent])>>)
Stop == TLCGet("level") <= Depth + 4
=============================================================================
