-------------------------- MODULE SshPacketsTrace --------------------------
(* Batched trace validation: every recorded execution of a real SSHTransportBase
   receiver (fed the real sender's wire in the recorded segmentation) must be a
   behaviour of SshPackets with every logged field matching.                   *)
EXTENDS SshPackets, TLC, Json, IOUtils

Traces == JsonDeserialize(IOEnv.TRACE_FILE)
VARIABLES tid, l
ASSUME \A t \in 1..Len(Traces) : TLCSet(t, 1)

T == Traces[tid]
E == T.ev[l]

TCfg(t) == [mac |-> Traces[t].cfg.mac, items |-> Traces[t].cfg.items, tj |-> Traces[t].cfg.tj,
            treg |-> Traces[t].cfg.treg, tpos |-> Traces[t].cfg.tpos]

TInit == /\ tid \in 1..Len(Traces) /\ l = 1
         /\ WellFormed(TCfg(tid))
         /\ InitWith(TCfg(tid))

Matches == /\ last'.e = E.e /\ last'.k = E.k /\ last'.dl = E.dl /\ last'.disc = E.disc /\ last'.code = E.code

Step(A) == /\ l <= Len(T.ev) /\ A /\ Matches /\ Inv' /\ l' = l + 1 /\ UNCHANGED tid

TNext == \/ (E.e = "deliver" /\ Step(Deliver(E.k)))
         \/ (E.e = "flood" /\ Step(Flood))
         \/ (E.e = "end" /\ Step(End))

TSpec == TInit /\ [][l <= Len(T.ev) /\ TNext]_<<vars, tid, l>>

Progress == TLCSet(tid, IF TLCGet(tid) > l THEN TLCGet(tid) ELSE l)
Rejected == {<<t, TLCGet(t)>> : t \in {u \in 1..Len(Traces) : TLCGet(u) # Len(Traces[u].ev) + 1}}
Accepted == Rejected = {} \/ (PrintT(<<"REJECTED", Rejected>>) /\ FALSE)
=============================================================================
