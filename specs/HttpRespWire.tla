---------------------------- MODULE HttpRespWire ----------------------------
(* C20 -- HTTP server responses are framed exactly and headers cannot be injected.

   State = what the property talks about: the status, headers and cookies the
   application set, the body it wrote, and the octets the server emitted.
   One action per public call outcome (setResponseCode, setHeader, addCookie,
   write, finish).  The verdict is Judge: the emitted octets, parsed by the
   reference parser of HttpMsgSyntax (RFC 9110/9112, independent of twisted and
   of h11), must be exactly one response with that status, exactly the headers
   set and a body equal to the concatenation of the writes.

   Where the property leaves freedom the spec is nondeterministic / relational:
     * a reason phrase, header value or cookie component that cannot be sent as
       given (contains CR, LF or NUL) may be refused at the call or sanitised
       (each such octet -> SP; CR LF may count as one break);
     * the framing may be chunked, Content-Length or (HTTP/1.0) connection close,
       any chunking, any header order, any header-name capitalisation; the server
       may add Connection / Transfer-Encoding / Content-Length fields.
   cfg = [minor |-> 0|1 (version of the request), head |-> BOOLEAN].            *)
EXTENDS HttpMsgSyntax

VARIABLES cfg, phase, code, reasonSet, reason, hdrs, cookies, writes, wire, closed, last
vars == <<cfg, phase, code, reasonSet, reason, hdrs, cookies, writes, wire, closed, last>>

InitWith(c) ==
    /\ cfg = c
    /\ phase = "open"
    /\ code = 200 /\ reasonSet = FALSE /\ reason = <<>>
    /\ hdrs = <<>>          \* <<lower-case name, value octets as set>>, one entry per name (setHeader overrides)
    /\ cookies = <<>>       \* records [pair, attrs]
    /\ writes = <<>>        \* sequence of octet sequences
    /\ wire = <<>> /\ closed = FALSE
    /\ last = [e |-> "init", res |-> "ok"]

-----------------------------------------------------------------------------
\* cookie components additionally cannot carry ";"
SemiToSpace(s) == [i \in 1..Len(s) |-> IF s[i] = SEMI THEN SP ELSE s[i]]
CookieAlts(s) == {Trim(SemiToSpace(UnsafeToSpace(s, 1, TRUE))), Trim(SemiToSpace(UnsafeToSpace(s, 1, FALSE)))}

NameValid(n, txt) == Len(n) > 0 /\ \A i \in 1..Len(n) : n[i] < 128 /\ IsTchar(n[i])
NoBody == cfg.head \/ code = 204 \/ code = 304
Body == Concat(writes, 1)
UserNames == {hdrs[i][1] : i \in 1..Len(hdrs)}

-----------------------------------------------------------------------------
(* setResponseCode(code[, message]) *)
SetCodeOk(c, rs, r) ==
    /\ phase = "open" /\ c \in 200..999
    /\ code' = c /\ reasonSet' = rs /\ reason' = (IF rs THEN r ELSE <<>>)
    /\ last' = [e |-> "code", res |-> "ok"]
    /\ UNCHANGED <<cfg, phase, hdrs, cookies, writes, wire, closed>>
SetCodeRefused(c, rs, r) ==      \* allowed only for a phrase that cannot be sent as given
    /\ phase = "open" /\ rs /\ HasUnsafe(r)
    /\ last' = [e |-> "code", res |-> "refused"]
    /\ UNCHANGED <<cfg, phase, code, reasonSet, reason, hdrs, cookies, writes, wire, closed>>

(* setHeader(name, value): overrides; an invalid name must be refused *)
PutHdr(n, v) ==
    IF \E i \in 1..Len(hdrs) : hdrs[i][1] = n
    THEN [i \in 1..Len(hdrs) |-> IF hdrs[i][1] = n THEN <<n, v>> ELSE hdrs[i]]
    ELSE Append(hdrs, <<n, v>>)
SetHeaderOk(n, v, txt) ==
    /\ phase = "open" /\ NameValid(n, txt)
    /\ hdrs' = PutHdr(LowerSeq(n), ValOctets(v, txt))
    /\ last' = [e |-> "hdr", res |-> "ok"]
    /\ UNCHANGED <<cfg, phase, code, reasonSet, reason, cookies, writes, wire, closed>>
SetHeaderRefused(n, v, txt) ==
    /\ phase = "open" /\ (~NameValid(n, txt) \/ HasUnsafe(ValOctets(v, txt)))
    /\ last' = [e |-> "hdr", res |-> "refused"]
    /\ UNCHANGED <<cfg, phase, code, reasonSet, reason, hdrs, cookies, writes, wire, closed>>

(* addCookie(k, v, attributes...): attrs = sequence of <<attribute name (lower case octets), value>>,
   flags = sequence of attribute names without value *)
AddCookieOk(k, v, attrs, flags, txt) ==
    /\ phase = "open"
    /\ cookies' = Append(cookies, [k |-> ValOctets(k, txt), v |-> ValOctets(v, txt),
                                   attrs |-> [i \in 1..Len(attrs) |-> <<attrs[i][1], ValOctets(attrs[i][2], txt)>>],
                                   flags |-> flags])
    /\ last' = [e |-> "cookie", res |-> "ok"]
    /\ UNCHANGED <<cfg, phase, code, reasonSet, reason, hdrs, writes, wire, closed>>
AddCookieRefused(k, v, attrs, flags, txt) ==
    /\ phase = "open"
    /\ \E s \in {k, v} \cup {attrs[i][2] : i \in 1..Len(attrs)} : HasUnsafe(ValOctets(s, txt)) \/ Has(ValOctets(s, txt), SEMI)
    /\ last' = [e |-> "cookie", res |-> "refused"]
    /\ UNCHANGED <<cfg, phase, code, reasonSet, reason, hdrs, cookies, writes, wire, closed>>

Write(data) ==
    /\ phase = "open"
    /\ writes' = Append(writes, data)
    /\ last' = [e |-> "write", res |-> "ok"]
    /\ UNCHANGED <<cfg, phase, code, reasonSet, reason, hdrs, cookies, wire, closed>>

-----------------------------------------------------------------------------
(* The property. *)
RECURSIVE SplitFrom(_, _, _, _)
SplitFrom(s, b, p, acc) ==    \* segments of s between occurrences of octet b
    LET i == IndexOf(s, b, p)
    IN IF i = 0 THEN Append(acc, SubSeq(s, p, Len(s))) ELSE SplitFrom(s, b, i + 1, Append(acc, SubSeq(s, p, i - 1)))
SplitOn(s, b) == SplitFrom(s, b, 1, <<>>)
\* s without the SP / HTAB runs that touch an "="
RECURSIVE SqueezeFrom(_, _)
SqueezeFrom(s, i) ==
    IF i > Len(s) THEN <<>>
    ELSE LET p == LastNonWs(s, i)
             n == FirstNonWs(s, i)
             drop == IsWs(s[i]) /\ ((p # 0 /\ s[p] = EQUALS) \/ (n # 0 /\ s[n] = EQUALS))
         IN (IF drop THEN <<>> ELSE <<s[i]>>) \o SqueezeFrom(s, i + 1)
SqueezeEq(s) == SqueezeFrom(s, 1)
\* a Set-Cookie field value carries exactly the cookie c (RFC 6265 5.2 splitting: ";" then first "=")
CookieMatches(val, c) ==
    LET segs == SplitOn(val, SEMI)
        av(seg) == LET q == IndexOf(seg, EQUALS, 1)
                   IN IF q = 0 THEN <<LowerSeq(Trim(seg))>>
                      ELSE <<LowerSeq(Trim(SubSeq(seg, 1, q - 1))), Trim(SubSeq(seg, q + 1, Len(seg)))>>
        P == [i \in 1..(Len(segs) - 1) |-> av(segs[i + 1])]      \* attributes found (order is not significant)
    IN /\ Len(P) = Len(c.attrs) + Len(c.flags)
       \* the cookie-pair: key "=" value; white space next to an "=" is insignificant (RFC 6265 5.2 step 4
       \* trims name and value), so both sides are compared with such white space removed
       /\ \E one \in BOOLEAN :
             SqueezeEq(Trim(segs[1])) = SqueezeEq(Trim(SemiToSpace(UnsafeToSpace(c.k \o <<EQUALS>> \o c.v, 1, one))))
       /\ \A i \in 1..Len(c.attrs) :
             Cardinality({j \in 1..Len(P) : Len(P[j]) = 2 /\ P[j][1] = c.attrs[i][1] /\ P[j][2] \in CookieAlts(c.attrs[i][2])}) = 1
       /\ \A i \in 1..Len(c.flags) : Cardinality({j \in 1..Len(P) : P[j] = <<c.flags[i]>>}) = 1

HeadersOK(ph) ==
    /\ \A i \in 1..Len(hdrs) :
          LET vals == HdrVals(ph, hdrs[i][1])
          IN Len(vals) = 1 /\ vals[1] \in ValueAlts(hdrs[i][2])
    /\ LET cv == HdrVals(ph, NSetCookie)
       IN Len(cv) = Len(cookies) /\ \A k \in 1..Len(cookies) : CookieMatches(cv[k], cookies[k])
    /\ \A j \in 1..Len(ph) : ph[j][1] \in UserNames \cup {NSetCookie} \cup FramingNames
ReasonOK(r) == (reasonSet /\ ~HasUnsafe(reason)) => r = reason

\* the application's own Content-Length, if it set one, must be the length of what it wrote
AppConsistent ==
    \A i \in 1..Len(hdrs) : hdrs[i][1] = NContentLength => (IsDec(hdrs[i][2]) /\ DecVal(hdrs[i][2]) = Len(Body))

Judge(w, cl) ==
    LET r == ParseResponse(w, cfg.head, cfg.minor, cl)
    IN /\ r.ok
       /\ r.code = code /\ r.major = 1
       /\ ReasonOK(r.reason)
       /\ HeadersOK(r.hdrs)
       /\ r.body = (IF NoBody THEN <<>> ELSE Body)

(* finish(): w = everything the server emitted for this request, cl = it then closed the connection *)
Finish(w, cl) ==
    /\ phase = "open" /\ AppConsistent
    /\ Judge(w, cl)
    /\ phase' = "done" /\ wire' = w /\ closed' = cl
    /\ last' = [e |-> "finish", res |-> "ok"]
    /\ UNCHANGED <<cfg, code, reasonSet, reason, hdrs, cookies, writes>>

Inv == phase = "done" => Judge(wire, closed)
=============================================================================
