--------------------------- MODULE HttpSrvWireMC ---------------------------
(* TLC check of the reference parser of HttpSrvWire against an independent SERIALISER written here
   from the same grammar (request-line, field lines, Content-Length / chunked framing): for every
   pipeline of up to MaxReqs requests drawn from the descriptor space below
     RoundTrip   the deterministic reading of the serialised octets gives back exactly the
                 descriptors (method, target, version, fields, body), stopping after a closing one;
     Accepts     the reference RELATION explains the ideal server outputs for those octets;
     Rejects     and does not explain them when one body octet is shifted to / from the next
                 request, a request is dropped or duplicated (the smuggling shapes);
     Prefixes    for every cut next to a line end or a body boundary, the reading of the prefix is
                 a prefix of the reading of the whole, never "bad", and the relation explains the
                 outputs of the completed requests -- the reference is monotone in the stream.   *)
EXTENDS HttpSrvWire, TLC
CONSTANT MaxReqs, Level

VARIABLES reqs,     \* descriptors added so far
          stream,   \* their serialisation
          cut       \* prefix length under examination (Len(stream) = whole)
vars == <<reqs, stream, cut>>

CRLF == <<13, 10>>
Rich == Level >= 2
Methods == IF Rich THEN {<<71, 69, 84>>, <<80, 79, 83, 84>>, <<77, 45, 120, 33>>} ELSE {<<80, 79, 83, 84>>}
Targets == IF Rich THEN {<<47>>, <<47, 97, 63, 98, 61, 99>>} ELSE {<<47, 97, 63, 98, 61, 99>>}
FieldSets == IF Rich THEN {<<>>, <<[n |-> <<72, 111, 115, 116>>, v |-> <<104, 46, 101, 120, 97, 109, 112, 108, 101>>]>>, <<[n |-> <<88, 45, 65>>, v |-> <<49>>], [n |-> <<72, 111, 115, 116>>, v |-> <<104, 46, 101, 120, 97, 109, 112, 108, 101>>], [n |-> <<120, 45, 97>>, v |-> <<50, 32, 59, 32, 113>>]>>, <<[n |-> <<69, 120, 112, 101, 99, 116>>, v |-> <<49, 48, 48, 45, 99, 111, 110, 116, 105, 110, 117, 101>>]>>}
             ELSE {<<[n |-> <<88, 45, 65>>, v |-> <<49>>], [n |-> <<72, 111, 115, 116>>, v |-> <<104, 46, 101, 120, 97, 109, 112, 108, 101>>], [n |-> <<120, 45, 97>>, v |-> <<50, 32, 59, 32, 113>>]>>}
Payloads == IF Rich THEN {<<>>, <<65>>, <<71, 69, 84, 32, 47, 115, 32, 72, 84, 84, 80, 47, 49, 46, 49, 13, 10, 13, 10>>, <<13, 10, 48, 13, 10, 13, 10>>}
            ELSE {<<71, 69, 84, 32, 47, 115, 32, 72, 84, 84, 80, 47, 49, 46, 49, 13, 10, 13, 10>>}
ChunkLists == IF Rich THEN {<<>>, <<<<65, 66>>>>, <<<<13, 10>>, <<48>>>>, <<<<71, 69, 84, 32, 47, 115, 32, 72, 84, 84, 80, 47, 49, 46, 49, 13, 10, 13, 10>>>>} ELSE {<<<<13, 10>>, <<48>>>>}
Bodies == (IF Level = 0 THEN {} ELSE {[k |-> "none"]}) \cup {[k |-> "len", d |-> p] : p \in Payloads} \cup {[k |-> "chunked", parts |-> c] : c \in ChunkLists}
Descriptors == {[m |-> m, t |-> t, v |-> v, close |-> c, fs |-> f, body |-> b] :
                  m \in Methods, t \in Targets, v \in (IF Level = 0 THEN {<<72, 84, 84, 80, 47, 49, 46, 49>>} ELSE {<<72, 84, 84, 80, 47, 49, 46, 49>>, <<72, 84, 84, 80, 47, 49, 46, 48>>}), c \in (IF Level = 0 THEN {FALSE} ELSE BOOLEAN), f \in FieldSets, b \in Bodies}

RECURSIVE Dec(_)
Dec(n) == IF n < 10 THEN <<48 + n>> ELSE Dec(n \div 10) \o <<48 + (n % 10)>>
HexDigit(d) == IF d < 10 THEN 48 + d ELSE 87 + d
RECURSIVE Hex(_)
Hex(n) == IF n < 16 THEN <<HexDigit(n)>> ELSE Hex(n \div 16) \o <<HexDigit(n % 16)>>
RECURSIVE Cat(_)
Cat(ss) == IF ss = <<>> THEN <<>> ELSE Head(ss) \o Cat(Tail(ss))

SerField(f) == f.n \o <<58, 32>> \o f.v \o CRLF
SerChunk(p) == Hex(Len(p)) \o CRLF \o p \o CRLF
BodyOctets(b) == IF b.k = "none" THEN <<>> ELSE IF b.k = "len" THEN b.d ELSE Cat(b.parts)
FramingField(b) == IF b.k = "none" THEN <<>>
                   ELSE IF b.k = "len" THEN <<[n |-> <<67, 111, 110, 116, 101, 110, 116, 45, 76, 101, 110, 103, 116, 104>>, v |-> Dec(Len(b.d))]>>
                   ELSE <<[n |-> <<84, 114, 97, 110, 115, 102, 101, 114, 45, 69, 110, 99, 111, 100, 105, 110, 103>>, v |-> <<99, 104, 117, 110, 107, 101, 100>>]>>
ConnField(q) == IF q.close THEN <<[n |-> <<67, 111, 110, 110, 101, 99, 116, 105, 111, 110>>, v |-> <<99, 108, 111, 115, 101>>]>> ELSE <<>>
AllFields(q) == q.fs \o FramingField(q.body) \o ConnField(q)
Ser(q) == q.m \o <<32>> \o q.t \o <<32>> \o q.v \o CRLF
          \o Cat([i \in 1..Len(AllFields(q)) |-> SerField(AllFields(q)[i])]) \o CRLF
          \o (IF q.body.k = "len" THEN q.body.d
              ELSE IF q.body.k = "chunked" THEN Cat([i \in 1..Len(q.body.parts) |-> SerChunk(q.body.parts[i])]) \o <<48>> \o CRLF \o CRLF
              ELSE <<>>)
ClosesQ(q) == q.close \/ q.v = <<72, 84, 84, 80, 47, 49, 46, 48>>

Init == reqs = <<>> /\ stream = <<>> /\ cut = 0
AddRequest(q) ==
    /\ Len(reqs) < MaxReqs /\ cut = Len(stream)
    /\ reqs' = Append(reqs, q) /\ stream' = stream \o Ser(q) /\ cut' = Len(stream')
CutPoints == {Len(stream)} \cup {n \in 0..Len(stream) : \E e \in CrLfs(stream) : n \in {e - 1, e, e + 1, e + 2}}
\* cuts inside the request added last (cuts inside earlier ones were examined before it was added)
Cut(n) == /\ cut = Len(stream) /\ reqs # <<>> /\ n \in CutPoints /\ n < Len(stream)
          /\ n > Len(stream) - Len(Ser(reqs[Len(reqs)])) - 2
          /\ cut' = n /\ UNCHANGED <<reqs, stream>>
Next == (\E q \in Descriptors : AddRequest(q)) \/ (\E n \in 0..Len(stream) : Cut(n))
Spec == Init /\ [][Next]_vars

RECURSIVE Live(_, _)      \* the descriptors a server processes: up to and including the first closing one
Live(qs, i) == IF i > Len(qs) THEN <<>> ELSE <<qs[i]>> \o (IF ClosesQ(qs[i]) THEN <<>> ELSE Live(qs, i + 1))
Same(r, q) == /\ r.m = q.m /\ r.t = q.t /\ r.v = q.v /\ r.body = BodyOctets(q.body)
              /\ Len(r.fs) = Len(AllFields(q))
              /\ \A i \in 1..Len(r.fs) : r.fs[i].n = LowerSeq(AllFields(q)[i].n) /\ r.fs[i].v = AllFields(q)[i].v /\ r.fs[i].fl = {}
              /\ r.closes = (IF ClosesQ(q) THEN "yes" ELSE "no")
Item(q) == [k |-> "req", m |-> q.m, t |-> q.t, v |-> q.v, b |-> BodyOctets(q.body),
            h |-> LET g == Grouped([i \in 1..Len(AllFields(q)) |-> [n |-> LowerSeq(AllFields(q)[i].n), v |-> AllFields(q)[i].v, fl |-> {}]])
                  IN [i \in 1..Len(g) |-> <<g[i].n, g[i].v>>]]
Ideal(qs) == [i \in 1..Len(qs) |-> Item(qs[i])]

Whole == cut = Len(stream)
RoundTrip == Whole => LET rs == Requests(stream) L == Live(reqs, 1) IN
                      Len(rs) = Len(L) /\ \A i \in 1..Len(L) : Same(rs[i], L[i])
Accepts == Whole => Explains(stream, Ideal(Live(reqs, 1)))
\* smuggling shapes: the ideal outputs with a body octet too many / too few, a request dropped, a request repeated
Shift(o, i) == [o EXCEPT ![i].b = @ \o <<71>>]
Shrink(o, i) == [o EXCEPT ![i].b = SubSeq(@, 1, Len(@) - 1)]
Rejects == Whole => LET o == Ideal(Live(reqs, 1)) IN
              \A i \in 1..Len(o) :
                  /\ ~Explains(stream, Shift(o, i))
                  /\ (Len(o[i].b) > 0 => ~Explains(stream, Shrink(o, i)))
                  /\ ~Explains(stream, SubSeq(o, 1, i - 1) \o SubSeq(o, i + 1, Len(o)))
                  /\ ~Explains(stream, SubSeq(o, 1, i) \o SubSeq(o, i, Len(o)))
IsPrefixSeq(a, b) == Len(a) <= Len(b) /\ \A i \in 1..Len(a) : a[i] = b[i]
Prefixes == ~Whole => LET p == Sub(stream, 1, cut)
                          rp == Requests(p) IN
                      /\ IsPrefixSeq(rp, Requests(stream))
                      /\ Verdict(p) # "bad"
                      /\ Explains(p, Ideal(SubSeq(Live(reqs, 1), 1, Len(rp))))
Bound == Len(reqs) <= MaxReqs
=============================================================================
