SPECIFICATION Spec
CONSTANT Budget = 1
CONSTANT MaxField = 1
CONSTANT NegControl = TRUE
CONSTANT Rich = FALSE
VIEW View
INVARIANT OracleRejects
CHECK_DEADLOCK FALSE
