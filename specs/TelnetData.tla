----------------------------- MODULE TelnetData -----------------------------
(* C38 -- telnet carries application bytes transparently (RFC 854 data path).

   Bytes are integers 0..255; the spec only distinguishes the classes RFC 854
   distinguishes (IAC, CR, LF, NUL, SE, SB, the option verbs, the one-byte
   commands, everything else), written as predicates, so the exhaustive run
   enumerates one representative per class while trace validation feeds the
   real byte values (identity of every byte is kept: order, loss and
   duplication are observable).

   Three independent pieces:
     Wire(a)   RFC 854 serialisation of application bytes   (IAC doubled, LF -> CR LF)
     Dec(w)    reference decoder, written as a tokeniser over the whole stream
     Feed(m,b) an incremental receiver machine (one byte at a time)
   The property:
     sender   : what a write/writeSequence call puts on the wire decodes (Dec) to exactly the
                application bytes, with no command, nothing held back, every LF sent as CR LF
     receiver : after consuming any prefix, in any segmentation, the peer has received Dec(prefix)
     together : once the wire is consumed the peer application has exactly the bytes written.

   cfg.mode = "app"  : the wire is produced by write / writeSequence calls (the property itself)
   cfg.mode = "wire" : the wire is injected token by token (RFC-valid streams with commands and
                       subnegotiations): receiver machine = reference decoder under all splits.  *)
EXTENDS Naturals, Integers, Sequences, FiniteSets

(* TLC passes operator arguments unevaluated and, inside actions, re-evaluates them at every use;
   Strict binds the argument to its value once (a bound variable is a value), which keeps the
   recursive runs below linear instead of exponential in the length of a delivery. *)
Strict(Op(_), x) == CHOOSE r \in {Op(v) : v \in {x}} : TRUE

IAC == 255
CR  == 13
LF  == 10
NUL == 0
SE  == 240
SB  == 250
IsNeg(b)    == b \in 251..254                 \* WILL WONT DO DONT
IsSimple(b) == b = 239 \/ b \in 241..249      \* EOR, NOP DM BRK IP AO AYT EC EL GA

\* output items, uniformly typed <<string, int, int>>
D(b)    == <<"d", b, 0>>          \* one application byte delivered
C(c, a) == <<"c", c, a>>          \* command c with argument a (-1: none)
SBI(b)  == <<"sb", b, 0>>         \* one byte of a subnegotiation (first = option)
SEI     == <<"se", 0, 0>>         \* end of that subnegotiation
BAD     == <<"bad", 0, 0>>        \* stream is not RFC-valid from here on

-----------------------------------------------------------------------------
(* Ser *)
Wire1(b) == IF b = IAC THEN <<IAC, IAC>> ELSE IF b = LF THEN <<CR, LF>> ELSE <<b>>
RECURSIVE Wire(_)
Wire(a) == IF a = <<>> THEN <<>> ELSE Wire1(Head(a)) \o Wire(Tail(a))

RECURSIVE Flatten(_)
Flatten(ss) == IF ss = <<>> THEN <<>> ELSE Head(ss) \o Flatten(Tail(ss))

DataItems(a) == [i \in 1..Len(a) |-> D(a[i])]

-----------------------------------------------------------------------------
(* Reference decoder: tokenise from the front; an incomplete last token yields nothing. *)
RECURSIVE SubEnd(_, _)
\* position of the IAC of the IAC SE closing a subnegotiation whose body starts at j; 0 if not yet there
SubEndV(w, j) ==
    IF j > Len(w) THEN 0
    ELSE IF w[j] = IAC
         THEN IF j + 1 > Len(w) THEN 0
              ELSE IF w[j + 1] = SE THEN j ELSE SubEnd(w, j + 2)
         ELSE SubEnd(w, j + 1)
SubEnd(w, j) == LET F(v) == SubEndV(w, v) IN Strict(F, j)

RECURSIVE SubBody(_, _, _)
\* items of the subnegotiation body w[j..e-1]; IAC IAC is one byte 255
SubBodyV(w, j, e) ==
    IF j >= e THEN <<>>
    ELSE IF w[j] = IAC
         THEN (IF w[j + 1] = IAC THEN <<SBI(IAC)>> ELSE <<BAD>>) \o SubBody(w, j + 2, e)
         ELSE <<SBI(w[j])>> \o SubBody(w, j + 1, e)
SubBody(w, j, e) == LET F(v) == SubBodyV(w, v, e) IN Strict(F, j)

RECURSIVE DecFrom(_, _)
DecSub(w, i, e) ==      \* a subnegotiation starting at i (IAC SB ...) whose closing IAC SE is at e (0: not complete)
    IF e = 0 THEN <<>> ELSE SubBody(w, i + 2, e) \o <<SEI>> \o DecFrom(w, e + 2)
DecFromV(w, i) ==
    IF i > Len(w) THEN <<>>
    ELSE LET b == w[i] IN
      IF b = IAC THEN
        IF i + 1 > Len(w) THEN <<>>
        ELSE LET c == w[i + 1] IN
          IF c = IAC THEN <<D(IAC)>> \o DecFrom(w, i + 2)
          ELSE IF IsSimple(c) THEN <<C(c, -1)>> \o DecFrom(w, i + 2)
          ELSE IF IsNeg(c) THEN
               IF i + 2 > Len(w) THEN <<>> ELSE <<C(c, w[i + 2])>> \o DecFrom(w, i + 3)
          ELSE IF c = SB THEN
               LET F(ev) == DecSub(w, i, ev) IN Strict(F, SubEnd(w, i + 2))
          ELSE <<BAD>>
      ELSE IF b = CR THEN
        IF i + 1 > Len(w) THEN <<>>
        ELSE IF w[i + 1] = LF THEN <<D(LF)>> \o DecFrom(w, i + 2)
        ELSE IF w[i + 1] = NUL THEN <<D(CR)>> \o DecFrom(w, i + 2)
        ELSE <<BAD>>
      ELSE <<D(b)>> \o DecFrom(w, i + 1)
DecFrom(w, i) == LET F(v) == DecFromV(w, v) IN Strict(F, i)

Dec(w) == LET F(v) == DecFrom(v, 1) IN Strict(F, w)

HasBad(items) == \E i \in 1..Len(items) : items[i][1] = "bad"

-----------------------------------------------------------------------------
(* Incremental receiver machine. *)
M0 == [st |-> "data", arg |-> 0, sbuf |-> <<>>, items |-> <<>>]

Emit(m, st, it) == [m EXCEPT !.st = st, !.items = Append(@, it)]

FeedV(m, b) ==
    CASE m.st = "data" ->
            IF b = IAC THEN [m EXCEPT !.st = "esc"]
            ELSE IF b = CR THEN [m EXCEPT !.st = "nl"]
            ELSE Emit(m, "data", D(b))
      [] m.st = "esc" ->
            IF b = IAC THEN Emit(m, "data", D(IAC))
            ELSE IF b = SB THEN [m EXCEPT !.st = "sb", !.sbuf = <<>>]
            ELSE IF IsSimple(b) THEN Emit(m, "data", C(b, -1))
            ELSE IF IsNeg(b) THEN [m EXCEPT !.st = "cmd", !.arg = b]
            ELSE Emit(m, "bad", BAD)
      [] m.st = "cmd" -> [Emit(m, "data", C(m.arg, b)) EXCEPT !.arg = 0]
      [] m.st = "nl" ->
            IF b = LF THEN Emit(m, "data", D(LF))
            ELSE IF b = NUL THEN Emit(m, "data", D(CR))
            ELSE Emit(m, "bad", BAD)
      [] m.st = "sb" ->
            IF b = IAC THEN [m EXCEPT !.st = "sbesc"] ELSE [m EXCEPT !.sbuf = Append(@, b)]
      [] m.st = "sbesc" ->
            IF b = SE
            THEN [m EXCEPT !.st = "data", !.sbuf = <<>>,
                           !.items = @ \o [i \in 1..Len(m.sbuf) |-> SBI(m.sbuf[i])] \o <<SEI>>]
            ELSE IF b = IAC THEN [m EXCEPT !.st = "sb", !.sbuf = Append(@, IAC)]
            ELSE [Emit(m, "sb", BAD) EXCEPT !.sbuf = Append(@, b)]
      [] OTHER -> m          \* "bad": nothing further

Feed(m, b) == LET F(v) == FeedV(v, b) IN Strict(F, m)

RECURSIVE FeedFrom(_, _, _)
FeedFromV(m, s, i) == IF i > Len(s) THEN m ELSE FeedFrom(Feed(m, s[i]), s, i + 1)
FeedFrom(m, s, i) == LET F(v) == FeedFromV(m, s, v) IN Strict(F, i)
FeedAll(m, s) == LET F(v) == FeedFrom(m, v, 1) IN Strict(F, s)

\* nothing is held back by the sender: the wire ends between tokens
Complete(w) == FeedAll(M0, w).st = "data"
\* "line feeds sent as CR LF"
LFasCRLF(w) == \A i \in 1..Len(w) : w[i] = LF => (i > 1 /\ w[i - 1] = CR)
SenderOK(a, w) == Dec(w) = DataItems(a) /\ Complete(w) /\ LFasCRLF(w)

-----------------------------------------------------------------------------
VARIABLES cfg,        \* [mode |-> "app" | "wire"]
          app,        \* application bytes written so far (flattened over calls)
          wire,       \* bytes the sending side has put on the wire so far
          consumed,   \* how many of them the peer has been given
          mach,       \* receiver machine control state [st, arg, sbuf]
          out,        \* items the peer has received so far
          last        \* observable of the last action

vars == <<cfg, app, wire, consumed, mach, out, last>>

Ctl(m) == [st |-> m.st, arg |-> m.arg, sbuf |-> m.sbuf]

InitWith(c) ==
    /\ cfg = c /\ app = <<>> /\ wire = <<>> /\ consumed = 0
    /\ mach = Ctl(M0) /\ out = <<>> /\ last = [e |-> "init"]

(* One write(data) (pieces = <<data>>) or writeSequence(pieces) call that put w on the wire.
   No guard: whether w is acceptable is the invariant SenderInv. *)
WriteCall(kind, pieces, w) ==
    /\ cfg.mode = "app"
    /\ app' = app \o Flatten(pieces)
    /\ wire' = wire \o w
    /\ last' = [e |-> "write", kind |-> kind, app |-> Flatten(pieces), wire |-> w]
    /\ UNCHANGED <<cfg, consumed, mach, out>>

(* The test harness itself puts RFC-valid bytes on the wire (receiver-only runs). *)
Inject(w) ==
    /\ cfg.mode = "wire"
    /\ wire' = wire \o w
    /\ last' = [e |-> "inject", wire |-> w]
    /\ UNCHANGED <<cfg, app, consumed, mach, out>>

(* The network hands the next k bytes to the peer in one dataReceived call. *)
Deliver(k) ==
    /\ k \in 1..(Len(wire) - consumed)
    /\ LET m == FeedAll([st |-> mach.st, arg |-> mach.arg, sbuf |-> mach.sbuf, items |-> <<>>],
                        SubSeq(wire, consumed + 1, consumed + k)) IN
         /\ mach' = Ctl(m)
         /\ out' = out \o m.items
         /\ last' = [e |-> "deliver", k |-> k, out |-> m.items]
    /\ consumed' = consumed + k
    /\ UNCHANGED <<cfg, app, wire>>

-----------------------------------------------------------------------------
(* The property. *)
Consumed == SubSeq(wire, 1, consumed)
IsPrefix(s, t) == Len(s) <= Len(t) /\ \A i \in 1..Len(s) : s[i] = t[i]

RefInv      == out = Dec(Consumed)                                  \* any segmentation: function of the prefix
SenderInv   == cfg.mode = "app" => SenderOK(app, wire)              \* write / writeSequence produce RFC 854 data
ValidWire   == cfg.mode = "wire" => ~HasBad(Dec(wire))              \* harness self-check of injected streams
NoCommands  == cfg.mode = "app" => \A i \in 1..Len(out) : out[i][1] = "d"   \* IAC in data never a command
NoLoss      == cfg.mode = "app" => IsPrefix(out, DataItems(app))    \* nothing lost, reordered, duplicated
EndToEnd    == (cfg.mode = "app" /\ consumed = Len(wire)) => out = DataItems(app)

(* Per-call forms, equivalent to SenderInv / ValidWire by induction over the calls: a call that starts
   between tokens and satisfies SenderOK on its own bytes extends a wire satisfying SenderOK to one
   satisfying it (Dec(u \o w) = Dec(u) \o Dec(w) when u ends between tokens).  The exhaustive run
   checks both forms; trace validation conjoins the per-call form (cost linear in the call) and checks
   the reference decoding of the whole stream at every point where the peer has consumed everything. *)
CallInv     == /\ (last.e = "write"  => SenderOK(last.app, last.wire))
               /\ (last.e = "inject" => (~HasBad(Dec(last.wire)) /\ Complete(last.wire)))
RefInvSync  == consumed = Len(wire) => out = Dec(wire)

Inv == RefInv /\ SenderInv /\ ValidWire /\ NoCommands /\ NoLoss /\ EndToEnd
=============================================================================
