---------------------------- MODULE FtpSessionMC ----------------------------
EXTENDS FtpSession, TLC
Init == \E t \in 1..2 : InitWith([T |-> t])
Spec == Init /\ [][Next]_vars
Obs == {"codes", "sh", "op", "stop", "dcl", "dw", "lo", "rlo", "login", "proc", "acc", "sent", "started", "done"}
Bound == /\ x.nep <= 2 /\ x.ndt <= 2 /\ x.nav <= 2 /\ x.buf <= 1 /\ Len(x.queue) <= 1
         /\ TLCGet("level") <= 9
BoundT == /\ x.nep <= 3 /\ x.ndt <= 2 /\ x.nav <= 2 /\ x.buf <= 1 /\ Len(x.queue) <= 2
          /\ TLCGet("level") <= 10
View == <<cfg, [f \in (DOMAIN x) \ Obs |-> x[f]], last.e>>
=============================================================================
