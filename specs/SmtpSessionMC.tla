---------------------------- MODULE SmtpSessionMC ----------------------------
EXTENDS SmtpSession, TLC
CONSTANTS MaxLevel, Deep
\* recipient 1 is plain; recipient 2 carries the configured peculiarity
Cf(e, k, a, b, p) == [esmtp |-> e, mk |-> <<FALSE, k>>, eom |-> <<a, b>>, picky |-> <<FALSE, p>>]
WidePick == { Cf(FALSE, FALSE, "ok", "ok", FALSE),      \* everything succeeds at once
              Cf(TRUE,  FALSE, "ok", "fail", FALSE),    \* ESMTP; recipient 2's eomReceived fails
              Cf(FALSE, TRUE,  "ok", "ok", FALSE),      \* recipient 2's factory refuses at DATA
              Cf(FALSE, FALSE, "ok", "ok", TRUE),       \* recipient 2's message refuses a line
              Cf(FALSE, FALSE, "later", "later", FALSE),\* eomReceived answers later
              Cf(FALSE, FALSE, "later", "fail", TRUE) }
DeepPick == { Cf(FALSE, FALSE, "later", "fail", TRUE), Cf(FALSE, FALSE, "later", "later", TRUE) }
Init == \E c \in (IF Deep THEN DeepPick ELSE WidePick) : InitWith(c)

\* wide: every kind of line, shallow
WideNext ==
        \/ Connect
        \/ Helo(1)
        \/ Ehlo(2)
        \/ \E s \in 1..2, v \in Verdicts : Mail(s, v)
        \/ Mail(0, "ok")
        \/ \E r \in 1..2, v \in Verdicts : Rcpt(r, v)
        \/ Rcpt(0, "ok")
        \/ Data \/ Rset \/ Quit \/ Dot
        \/ \E c \in 1..4 : Body(c)
        \/ Long \/ Idle
        \/ \E i \in 1..Len(pend), ok \in BOOLEAN : Fire(i, ok)
        \/ Lost
\* deep: the transaction path with late answers, no noise
DeepNext ==
          \/ Connect
          \/ Helo(1)
          \/ Mail(1, "ok") \/ Mail(2, "later")
          \/ Rcpt(1, "ok") \/ Rcpt(2, "ok") \/ Rcpt(2, "later")
          \/ Data \/ Rset \/ Dot
          \/ Body(1) \/ Body(4)
          \/ \E i \in 1..Len(pend), ok \in BOOLEAN : Fire(i, ok)
          \/ Lost

SpecWide == Init /\ [][WideNext]_vars
SpecDeep == Init /\ [][DeepNext]_vars
Bound == /\ Len(msgs) <= 3 /\ Len(pend) <= 2 /\ ntx <= 2 /\ Len(to) <= 2
         /\ \A m \in 1..Len(msgs) : Len(msgs[m].lines) <= 4
         /\ TLCGet("level") <= MaxLevel
View == <<cfg, conn, closing, timer, helo, from, to, mode, cur, failed, inhdr, inbody, msgs, pend, batches, ntx, acc>>
\* vacuity: these are FALSE in reachable states (deviations D2, D4): the run must report them violated
NoOrphanRcpt == to # <<>> => from # 0
NoDoubleLost == \A m \in 1..Len(msgs) : msgs[m].lost <= 1
=============================================================================
