---------------------------- MODULE ReconnectTrace ----------------------------
EXTENDS Reconnect, TLC, Json, IOUtils
Traces == JsonDeserialize(IOEnv.TRACE_FILE)
VARIABLES tid, l
ASSUME \A t \in 1..Len(Traces) : TLCSet(t, 1)
T == Traces[tid]
E == T.ev[l]
C == Traces[tid].cfg
TInit == /\ tid \in 1..Len(Traces) /\ l = 1
         /\ InitWith([init |-> C.init, factor |-> C.factor, maxd |-> C.maxd, maxr |-> C.maxr, tmo |-> C.tmo, jit |-> C.jit])
\* every logged field is compared; invariants and step properties are evaluated at every step of every real execution
Step(A) == /\ l <= Len(T.ev) /\ A /\ Inv' /\ StepOK
           /\ last'.e = E.e /\ last'.conn = E.conn /\ last'.pend = E.pend
           /\ last'.nconn = E.nconn /\ last'.nrand = E.nrand /\ E.err = 0
           /\ l' = l + 1 /\ UNCHANGED tid
TNext == \/ (E.e = "start" /\ Step(Start))
         \/ (E.e = "fail" /\ Step(Fail(E.j)))
         \/ (E.e = "made" /\ Step(Made(E.r)))
         \/ (E.e = "lost" /\ Step(Lost(E.j)))
         \/ (E.e = "reset" /\ Step(Reset))
         \/ (E.e = "stop" /\ Step(Stop))
         \/ (E.e = "adv" /\ Step(Advance(E.d, E.j)))
TSpec == TInit /\ [][l <= Len(T.ev) /\ TNext]_<<vars, tid, l>>
Progress == TLCSet(tid, IF TLCGet(tid) > l THEN TLCGet(tid) ELSE l)
Rejected == {<<t, TLCGet(t)>> : t \in {u \in 1..Len(Traces) : TLCGet(u) # Len(Traces[u].ev) + 1}}
Accepted == Rejected = {} \/ (PrintT(<<"REJECTED", Rejected>>) /\ FALSE)
=============================================================================
