SPECIFICATION SpecNoFair
CONSTANT NS = 1
CONSTANT MaxWrite = 1
CONSTANT MaxWU = 1
CONSTANT MaxSet = 0
CONSTANT CW = {2}
CONSTANT IW = {1}
CONSTANT MF = {1}
VIEW View
PROPERTY Resume
CHECK_DEADLOCK FALSE
