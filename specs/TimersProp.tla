------------------------------ MODULE TimersProp ------------------------------
(* C08 / C09 -- the property texts stated over a recorded history of TimersAbs.
   TimersAbs says what each call may do; this module adds history variables that no
   action reads (runs, firstOK, doneNow) and states the clauses of the two properties as
   invariants over them, independently of the guards of TimersAbs:

     ExactlyOnce          a call runs at most once, and ran <=> its state is "called";
                          a cancelled call never ran and a call that ran cannot become cancelled
     NeverEarly           never before its currently scheduled time
     NoMissed             in the first iteration (reactor) / advance (Clock) that starts at
                          or after that time  [checked when that run phase ends: nothing
                          that was due for it is still pending]
     NotInBirthIteration  (reactor) a call scheduled during an iteration does not run in it
     OrderElig/OrderAll   when a call runs no other pending call is scheduled earlier
     Nondecreasing        (Clock) calls run in nondecreasing scheduled time
     CreationOrder        (Clock) same time, never rescheduled => creation order
   getDelayedCalls()/timeout() are observations; their allowed values are fixed by
   TimersAbs!Gdc / TimersAbs!TimeoutOK and compared with the real values by TimersTrace. *)
EXTENDS TimersAbs

VARIABLES runs,     \* sequence of records, one per call started, in order
          firstOK,  \* firstOK[i] = index of the first run phase that may (and must, if it reaches t) run call i under its current schedule
          doneNow   \* `now` of the last completed run phase

hvars == <<runs, firstOK, doneNow>>
vars  == <<avars, hvars>>
Inf   == 1000000

InitWith(c) == AInitWith(c) /\ runs = <<>> /\ firstOK = <<>> /\ doneNow = 0 - 1

FirstNew      == IF phase = "idle" \/ IsReactor THEN iter + 1 ELSE iter
FirstMoved(i) == IF phase = "idle" THEN iter + 1
                 ELSE IF IsReactor /\ calls[i].born = iter THEN iter + 1 ELSE iter
MinOr(S)      == IF S = {} THEN Inf ELSE MinT(S)

PCallLater(d)      == CallLater(d) /\ firstOK' = Append(firstOK, FirstNew) /\ UNCHANGED <<runs, doneNow>>
PCancelOk(i)       == CancelOk(i) /\ UNCHANGED hvars
PCancelRefused(i)  == CancelRefused(i) /\ UNCHANGED hvars
PResetOk(i, d)     == ResetOk(i, d) /\ firstOK' = [firstOK EXCEPT ![i] = FirstMoved(i)] /\ UNCHANGED <<runs, doneNow>>
PResetRefused(i, d) == ResetRefused(i, d) /\ UNCHANGED hvars
PDelayOk(i, d)     == DelayOk(i, d) /\ firstOK' = [firstOK EXCEPT ![i] = FirstMoved(i)] /\ UNCHANGED <<runs, doneNow>>
PDelayRefused(i, d) == DelayRefused(i, d) /\ UNCHANGED hvars
PGdc               == Gdc /\ UNCHANGED hvars
PTimeout(v, none)  == Timeout(v, none) /\ UNCHANGED hvars
PAdvanceReactor(d) == AdvanceReactor(d) /\ UNCHANGED hvars
PIterBegin         == IterBegin /\ UNCHANGED hvars
PAdvanceClock(d)   == AdvanceClock(d) /\ UNCHANGED hvars
PRunBegin(i) ==
    /\ RunBegin(i)
    /\ runs' = Append(runs, [id |-> i, at |-> now, it |-> iter, t |-> calls[i].t,
                             born |-> calls[i].born, moved |-> calls[i].moved,
                             minAll  |-> MinOr(Pending \ {i}),
                             minElig |-> MinOr(EligibleSet \ {i})])
    /\ UNCHANGED <<firstOK, doneNow>>
PRunEnd  == RunEnd /\ UNCHANGED hvars
PIterEnd == IterEnd /\ doneNow' = now /\ UNCHANGED <<runs, firstOK>>

---------------------------------------------------------------------------
RunIdx == 1..Len(runs)
Done   == IF phase = "idle" THEN iter ELSE iter - 1     \* completed run phases

ExactlyOnce ==
    /\ Cardinality({runs[k].id : k \in RunIdx}) = Len(runs)
    /\ {runs[k].id : k \in RunIdx} = {i \in Ids : calls[i].st = "R"}
NeverEarly          == \A k \in RunIdx : runs[k].t <= runs[k].at
NotInBirthIteration == IsReactor => \A k \in RunIdx : runs[k].it > runs[k].born
NoMissed            == \A i \in Pending : firstOK[i] <= Done => doneNow < calls[i].t
OrderElig           == \A k \in RunIdx : runs[k].t <= runs[k].minElig
OrderAll            == ~cfg.neg => \A k \in RunIdx : runs[k].t <= runs[k].minAll
Nondecreasing       == (~IsReactor /\ ~cfg.neg) =>
                          \A k \in RunIdx : k < Len(runs) => runs[k].t <= runs[k + 1].t
CreationOrder       == ~IsReactor =>
                          \A j, k \in RunIdx :
                             (j < k /\ runs[j].t = runs[k].t /\ ~runs[j].moved /\ ~runs[k].moved)
                                => runs[j].id < runs[k].id
Shape == /\ Len(firstOK) = Len(calls)
         /\ running # 0 => (phase = "iter" /\ running \in Ids /\ calls[running].st = "R")

Inv == ExactlyOnce /\ NeverEarly /\ NotInBirthIteration /\ NoMissed /\ OrderElig /\ OrderAll
       /\ Nondecreasing /\ CreationOrder /\ Shape
=============================================================================
