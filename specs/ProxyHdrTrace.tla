--------------------------- MODULE ProxyHdrTrace ---------------------------
(* Batched trace validation of real HAProxyWrappingFactory connections against ProxyHdr.

   cfg     the abstract stream (see ProxyHdr), written by the generator that concretised it
   events  {"e":"deliver", "k":n, "app":[bytes given to the wrapped protocol during this call],
            "close":"no"|"lose"|"exc"  (loseConnection requested / exception escaped dataReceived),
            "peer":[type,host,port], "host":[..]   as the wrapped protocol sees them after the call,
            "seen":[[peer,host],..]   the same, read INSIDE each dataReceived of the wrapped protocol,
            "one": {"app","close","peer","host","seen"}   a fresh connection given the whole prefix at once}
           {"e":"lost", "peer", "host"}    read inside the wrapped protocol's connectionLost at the end *)
EXTENDS ProxyHdr, TLC, Json, IOUtils

Traces == JsonDeserialize(IOEnv.TRACE_FILE)
VARIABLES tid, l
ASSUME \A t \in 1..Len(Traces) : TLCSet(t, 1)

T == Traces[tid]
E == T.ev[l]

TInit == /\ tid \in 1..Len(Traces) /\ l = 1
         /\ InitWith(Traces[tid].cfg)

Step(A) == /\ l <= Len(T.ev) /\ A /\ Inv' /\ l' = l + 1 /\ UNCHANGED tid

Closes == {"lose", "exc"}
\* seen = <<peer, host>> as read by the wrapped protocol INSIDE each of its dataReceived calls: application bytes only
\* arrive once a valid header is complete, so from the first application byte on every observation -- also the one
\* made while the bytes that share a segment with the end of the header are being delivered -- is the header's addresses
SeenOK(seen) == \A i \in 1..Len(seen) : Valid /\ seen[i][1] = ExpPeer /\ seen[i][2] = ExpHost
\* what the wrapped protocol reads in its connectionLost, at the end of the run
TLost == /\ E.e = "lost" /\ l <= Len(T.ev) /\ l' = l + 1 /\ UNCHANGED <<vars, tid>>
         /\ AddrOK(consumed, E.peer, E.host)
TDeliver == /\ E.e = "deliver"
            /\ E.close \in Closes \cup {"no"}
            /\ Step(Deliver(E.k, E.close \in Closes))
            /\ E.app = last'.app
            /\ AddrOK(consumed', E.peer, E.host)
            /\ SeenOK(E.seen)
            \* the one-piece run of the same prefix obeys the same relation, hence sees the same bytes
            /\ E.one.close \in Closes \cup {"no"}
            /\ StepOK(0, consumed', E.one.app, E.one.close \in Closes)
            /\ AddrOK(consumed', E.one.peer, E.one.host)
            /\ SeenOK(E.one.seen)
            /\ E.one.app = delivered'

TNext == TDeliver \/ TLost
TSpec == TInit /\ [][l <= Len(T.ev) /\ TNext]_<<vars, tid, l>>

Progress == TLCSet(tid, IF TLCGet(tid) > l THEN TLCGet(tid) ELSE l)
Rejected == {<<t, TLCGet(t)>> : t \in {u \in 1..Len(Traces) : TLCGet(u) # Len(Traces[u].ev) + 1}}
Accepted == Rejected = {} \/ (PrintT(<<"REJECTED", Rejected>>) /\ FALSE)
=============================================================================
