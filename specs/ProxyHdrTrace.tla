--------------------------- MODULE ProxyHdrTrace ---------------------------
(* Batched trace validation of real HAProxyWrappingFactory connections against ProxyHdr.

   cfg     the abstract stream (see ProxyHdr), written by the generator that concretised it
   events  {"e":"deliver", "k":n, "app":[bytes given to the wrapped protocol during this call],
            "close":"no"|"lose"|"exc"  (loseConnection requested / exception escaped dataReceived),
            "peer":[type,host,port], "host":[..]   as the wrapped protocol sees them after the call,
            "one": {"app","close","peer","host"}   a fresh connection given the whole prefix at once} *)
EXTENDS ProxyHdr, TLC, Json, IOUtils

Traces == JsonDeserialize(IOEnv.TRACE_FILE)
VARIABLES tid, l
ASSUME \A t \in 1..Len(Traces) : TLCSet(t, 1)

T == Traces[tid]
E == T.ev[l]

TInit == /\ tid \in 1..Len(Traces) /\ l = 1
         /\ InitWith(Traces[tid].cfg)

Step(A) == /\ l <= Len(T.ev) /\ A /\ Inv' /\ l' = l + 1 /\ UNCHANGED tid

Closes == {"lose", "exc"}
TDeliver == /\ E.e = "deliver"
            /\ E.close \in Closes \cup {"no"}
            /\ Step(Deliver(E.k, E.close \in Closes))
            /\ E.app = last'.app
            /\ AddrOK(consumed', E.peer, E.host)
            \* the one-piece run of the same prefix obeys the same relation, hence sees the same bytes
            /\ E.one.close \in Closes \cup {"no"}
            /\ StepOK(0, consumed', E.one.app, E.one.close \in Closes)
            /\ AddrOK(consumed', E.one.peer, E.one.host)
            /\ E.one.app = delivered'

TNext == TDeliver
TSpec == TInit /\ [][l <= Len(T.ev) /\ TNext]_<<vars, tid, l>>

Progress == TLCSet(tid, IF TLCGet(tid) > l THEN TLCGet(tid) ELSE l)
Rejected == {<<t, TLCGet(t)>> : t \in {u \in 1..Len(Traces) : TLCGet(u) # Len(Traces[u].ev) + 1}}
Accepted == Rejected = {} \/ (PrintT(<<"REJECTED", Rejected>>) /\ FALSE)
=============================================================================
