---------------------------- MODULE H2FlowTrace ----------------------------
(* Batched trace validation: every recorded execution of the real H2Connection (driven by an h2
   client over an in-memory pipe) must be a behaviour of H2Flow, every logged field matching. *)
EXTENDS H2Flow, TLC, Json, IOUtils

Traces == JsonDeserialize(IOEnv.TRACE_FILE)
VARIABLES tid, l,
          paused     \* [stream -> BOOLEAN]: the application's push producer was told pauseProducing (observable callback)
ASSUME \A t \in 1..Len(Traces) : TLCSet(t, 1)

T == Traces[tid]
E == T.ev[l]

TInit == /\ tid \in 1..Len(Traces) /\ l = 1
         /\ InitWith([ns |-> Traces[tid].cfg.ns, connWin0 |-> Traces[tid].cfg.connWin0,
                      initWin0 |-> Traces[tid].cfg.initWin0, maxFrame0 |-> Traces[tid].cfg.maxFrame0])
         /\ paused = [s \in 1..Traces[tid].cfg.ns |-> FALSE]

Step(A) == /\ l <= Len(T.ev) /\ A /\ Inv' /\ l' = l + 1 /\ UNCHANGED <<tid, paused>>

(* producer callbacks: no effect on the H2Flow state *)
Prod(s, v) == /\ l <= Len(T.ev) /\ paused' = [paused EXCEPT ![s] = v] /\ l' = l + 1 /\ UNCHANGED <<vars, tid>>
(* "streams blocked on flow control resume when the window opens", producer form: when the server is idle, a
   producer that is still paused has no room left in its stream's window (window minus what is already queued) *)
ProducersResumed == \A s \in Streams : (paused[s] /\ Opened(s) /\ ~ended[s]) => Win(s) - Queue(s) <= 0

OkS(s) == s \in Streams

TNext == \/ (E.e = "open" /\ Step(Open) /\ last'.s = E.s)
         \/ (E.e = "wu" /\ (E.s = 0 \/ OkS(E.s)) /\ Step(WindowUpdate(E.s, E.n)))
         \/ (E.e = "settings" /\ Step(Settings(E.iw, E.mf)))
         \/ (E.e = "write" /\ OkS(E.s) /\ Step(AppWrite(E.s, E.n)))
         \/ (E.e = "finish" /\ OkS(E.s) /\ Step(AppFinish(E.s)))
         \/ (E.e = "data" /\ OkS(E.s) /\ Step(SendData(E.s, E.n)) /\ last'.off = E.off)
         \/ (E.e = "end" /\ OkS(E.s) /\ Step(SendEnd(E.s)))
         \/ (E.e = "quiesce" /\ Step(Quiesce) /\ ProducersResumed)
         \/ (E.e = "pause" /\ OkS(E.s) /\ Prod(E.s, TRUE))
         \/ (E.e = "resume" /\ OkS(E.s) /\ Prod(E.s, FALSE))
         \/ (E.e = "unprod" /\ OkS(E.s) /\ Prod(E.s, FALSE))
         \/ (E.e = "alldone" /\ Step(AllDone))

TSpec == TInit /\ [][l <= Len(T.ev) /\ TNext]_<<vars, tid, l, paused>>

Progress == TLCSet(tid, IF TLCGet(tid) > l THEN TLCGet(tid) ELSE l)
Rejected == {<<t, TLCGet(t)>> : t \in {u \in 1..Len(Traces) : TLCGet(u) # Len(Traces[u].ev) + 1}}
Accepted == Rejected = {} \/ (PrintT(<<"REJECTED", Rejected>>) /\ FALSE)
=============================================================================
