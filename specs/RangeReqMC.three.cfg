SPECIFICATION Spec
CONSTANT MaxSize = 2
CONSTANT MaxVal = 3
CONSTANT MinSpecs = 3
CONSTANT MaxSpecs = 3
CONSTANT WithBad = FALSE
CONSTANT EmitCases = TRUE
CONSTRAINT Emit
INVARIANT CanonAllowed
INVARIANT SomeResponse
INVARIANT Inv
CHECK_DEADLOCK FALSE
