---------------------------- MODULE WriteBufAbsMC ----------------------------
(* Exhaustive TLC run of the acceptor: every sequence of micro-events the property allows, for
   small sizes (bufferSize 2, writes of 0..3 bytes, at most MaxW bytes, call nesting <= 2).
   Checks the consequences (Inv), that every action is reachable (vacuity) and that the
   interesting end states are reachable (EndDone = orderly close after data, HalfClose = write-side
   shutdown after data, EndLost = error path are separate actions whose coverage the harness requires). *)
EXTENDS WriteBufAbs, TLC
CONSTANTS Depth, MaxW
Init == InitWith([bufferSize |-> 2])
Sizes == 0..3
EndNone == End("dowrite", "none") /\ stack # <<>>
EndDone == End("dowrite", "done") /\ stack # <<>>
EndDoneData == End("dowrite", "done") /\ written > 2 \* an orderly close after data was written and handed over
EndLost == End("dowrite", "lost") /\ stack # <<>>
HalfClose == WClose /\ written > 0                    \* a half-close after data
Next == \/ \E n \in Sizes : Write(n)
        \/ \E ns \in {<<>>, <<1, 2>>, <<0, 3>>} : WriteSeq(ns)
        \/ \E k \in {"push", "pull"} : Reg(k)
        \/ Unreg \/ Lose \/ LoseW
        \/ \E nm \in {"ppause", "presume"} : Other(nm)
        \/ DoWrite \/ Lost
        \/ \E len \in 0..(written - handed), acc \in (0 - 1)..3 : Wsd(handed, len, acc, TRUE)
        \/ Pause \/ Resume \/ PStop \/ AddW \/ RmW \/ WClose \/ HalfClose \/ Closed
        \/ \E of \in {"write", "writeseq", "reg", "unreg", "lose", "losew", "ppause", "presume", "lost"},
              r \in {"ok", "EXC:RuntimeError"} : End(of, r)
        \/ EndNone \/ EndDone \/ EndDoneData \/ EndLost
Spec == Init /\ [][Next]_vars
Bound == written <= MaxW /\ Len(stack) <= 2 /\ TLCGet("level") <= Depth
=============================================================================
