------------------------------ MODULE DnsCacheMC ------------------------------
(* Exhaustive exploration of DnsCache over 2 queries, 5 payloads (several records with different TTLs,
   one empty, one with a zero TTL), cacheTime None / 0 / past, advances 0..3, lookups, clearEntry. *)
EXTENDS DnsCache, TLC
CONSTANTS MaxNow, MaxLevel
R(t, p, a) == [t |-> t, p |-> p, a |-> a]
MCPayloads == { <<<<R(2, 1, TRUE)>>, <<>>, <<>>>>,
                <<<<R(3, 1, FALSE), R(1, 2, TRUE)>>, <<R(2, 3, FALSE)>>, <<>>>>,
                <<<<R(3, 3, FALSE)>>, <<>>, <<R(4, 4, TRUE)>>>>,
                <<<<R(0, 2, FALSE)>>, <<R(2, 4, FALSE)>>, <<>>>>,
                NoPl }
MCQ == {1, 2}
Cache  == \E q \in MCQ, pl \in MCPayloads, ct \in {-1, 1, 2} : CacheResult(q, pl, ct)
Look   == \E q \in MCQ : LookupHit(q) \/ LookupMiss(q) \/ LookupStale(q)
LookAll == LookupAll(1)
Clear  == \E q \in MCQ : ClearEntry(q)
Adv    == \E d \in 0..3 : Advance(d)
Next == Cache \/ Look \/ LookAll \/ Clear \/ Adv
Spec == Init /\ [][Next]_vars
Bound == now <= MaxNow /\ Len(timers) <= 4 /\ TLCGet("level") <= MaxLevel
View == <<now, cache, timers, want, cleared>>
=============================================================================
