SPECIFICATION SSpec
CONSTANT ND = 3
CONSTANT FireOuts = {"ok", "err", "berr", "acan"}
CONSTANT RaiseKinds = {"err", "berr", "acan", "cancelled"}
CONSTANT NG = 3
CONSTANT MaxLevel = 100
CONSTANT Depth = 24
CONSTRAINT Emit
CONSTRAINT Stop
CHECK_DEADLOCK FALSE
