SPECIFICATION SSpec
CONSTANT ND = 3
CONSTANT NG = 3
CONSTANT MaxLevel = 100
CONSTANT Depth = 24
CONSTRAINT Emit
CONSTRAINT Stop
CHECK_DEADLOCK FALSE
