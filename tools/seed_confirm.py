#!/usr/bin/env python3
"""tools/seed_confirm.py <dir with patch.diff demo.py meta.json> [--tests "<pytest args relative to tree>"] [--check]
Confirm a seeded change independently: demo passes on a clean tree and fails on the patched one; optionally run
test modules on the patched tree; optionally (--check) run the property's quick check against the patched tree.
On success copies the directory to /verif/seeded/<name>/ with the confirmation recorded in meta.json."""
import argparse, json, os, shutil, subprocess, sys, tempfile, time
ap = argparse.ArgumentParser()
ap.add_argument("dir"); ap.add_argument("--tests", default=""); ap.add_argument("--check", action="store_true")
ap.add_argument("--tier", default="quick")
a = ap.parse_args()
src = os.path.abspath(a.dir.rstrip("/")); name = os.path.basename(src)
meta = json.load(open(os.path.join(src, "meta.json")))
pid = meta["property"]
tmp = tempfile.mkdtemp(prefix="seedc-")
wt = os.path.join(tmp, "wt")
def sh(cmd, **kw):
    return subprocess.run(cmd, shell=True, capture_output=True, text=True, **kw)
r = sh("git -C /repo worktree add --detach -f %s HEAD" % wt)
assert r.returncode == 0, r.stderr
out = {}
try:
    env = dict(os.environ, PYTHONPATH=wt + "/src", PYTHONHASHSEED="0")
    r0 = sh("/venv/bin/python %s/demo.py" % src, env=env, cwd=tmp, timeout=600)
    out["demo_original_exit"] = r0.returncode
    ra = sh("git -C %s apply %s/patch.diff" % (wt, src))
    out["patch_applies"] = ra.returncode == 0
    if ra.returncode != 0:
        out["apply_err"] = ra.stderr[-500:]
    else:
        rc = sh("/venv/bin/python -c 'import twisted'", env=env)
        r1 = sh("/venv/bin/python %s/demo.py" % src, env=env, cwd=tmp, timeout=600)
        out["demo_changed_exit"] = r1.returncode
        out["demo_changed_tail"] = (r1.stdout + r1.stderr)[-400:]
        if a.tests:
            rt = sh("cd %s && /venv/bin/python -m pytest -q -p no:cacheprovider --timeout=900 %s 2>&1 | tail -3" % (wt, a.tests), env=env, timeout=3600)
            out["tests_cmd"] = a.tests; out["tests_tail"] = rt.stdout[-400:]
        if a.check:
            t0 = time.time()
            e2 = dict(os.environ, VERIF_REPO=wt, VERIF_EVIDENCE_DIR=os.path.join(tmp, "ev"))
            rk = sh("/verif/check %s --tier %s" % (pid, a.tier), env=e2, cwd="/verif", timeout=7200)
            out["check_exit"] = rk.returncode
            out["check_lines"] = [l for l in rk.stdout.splitlines() if l.startswith(("VIOLATION", "KNOWN-FINDING", "  what"))][:6]
            out["check_wall_s"] = round(time.time() - t0, 1)
            if rk.returncode == 2:
                out["check_err"] = rk.stderr[-600:]
finally:
    sh("git -C /repo worktree remove --force %s" % wt); shutil.rmtree(tmp, ignore_errors=True)
ok = out.get("demo_original_exit") == 0 and out.get("patch_applies") and out.get("demo_changed_exit", 0) != 0
out["confirmed"] = bool(ok)
print(json.dumps(out, indent=1))
if ok:
    dst = os.path.join("/verif/seeded", name)
    os.makedirs(dst, exist_ok=True)
    for f in ("patch.diff", "demo.py"):
        shutil.copy(os.path.join(src, f), dst)
    meta["confirmation"] = {k: v for k, v in out.items() if not k.startswith("check_")}
    if a.check:
        meta["detection"] = {k: v for k, v in out.items() if k.startswith("check_")}
        meta["detection"]["tier"] = a.tier
    json.dump(meta, open(os.path.join(dst, "meta.json"), "w"), indent=1)
sys.exit(0 if ok else 1)
