#!/usr/bin/env python3-vt
"""Regenerate /verif/MANIFEST.json from the property modules' META records."""
import importlib, json, os, sys
HERE = os.path.dirname(os.path.dirname(os.path.abspath(__file__)))
sys.path.insert(0, HERE)
props = [json.loads(l) for l in open(os.path.join(HERE, "properties.jsonl"))]
na = json.load(open(os.path.join(HERE, "tools", "not_applicable.json")))
hooks = json.load(open(os.path.join(HERE, "tools", "hooks.json")))
ready = set(json.load(open(os.path.join(HERE, "tools", "ready.json"))))
checks, notapp, engines = [], [], {}
for p in props:
    pid = p["id"]
    path = os.path.join(HERE, "harness", "props", pid.lower() + ".py")
    if pid in na:
        notapp.append(dict(property_id=pid, reason=na[pid]))
        continue
    if not os.path.exists(path) or pid not in ready:
        notapp.append(dict(property_id=pid, reason="specification not yet bound to the implementation (see DESIGN.md section 9); a specification nothing binds to the code decides nothing and is not claimed"))
        continue
    m = importlib.import_module("harness.props." + pid.lower())
    M = m.META
    if M.get("ready") is False:
        notapp.append(dict(property_id=pid, reason=M.get("not_ready_reason", "check under construction")))
        continue
    checks.append(dict(
        property_id=pid,
        quick_cmd="./check %s --tier quick" % pid,
        thorough_cmd="./check %s --tier thorough" % pid,
        evidence_file="/verif/evidence/%s.json" % pid,
        replay_cmd_template="./check %s --replay {path}" % pid,
        engine="tlc",
        level_claimed=dict(category=M.get("level", "model_checking"), text=M["level_text"], design_ref="DESIGN.md " + M.get("design_ref", "")),
        level_note=M["level_note"],
        technique=M["technique"],
    ))
    for s in M.get("specs", []):
        engines.setdefault(s, []).append(pid)
man = dict(
    version=1,
    setup_cmd="cd /verif && sh tools/setup.sh",
    hooks=hooks,
    engines=[dict(name="tlc", path="/opt/veriftools/tla/tla2tools.jar", serves_properties=[c["property_id"] for c in checks],
                  kind_free_text="TLC 1.8.0 explicit-state model checker: exhaustive checking of the TLA+ design specs in /verif/specs and batched trace validation of executions of the real code (harness/core.py)")],
    checks=checks,
    notes="Every check is `./check <ID> --tier quick|thorough` (harness/props/<id>.py). Specs: /verif/specs. Known findings: /verif/known_findings.json. VERIF_REPO overrides the tree under test (default /repo).",
    not_applicable=notapp,
)
json.dump(man, open(os.path.join(HERE, "MANIFEST.json"), "w"), indent=1)
try:
    import jsonschema
    jsonschema.validate(man, json.load(open("/root/.vp/MANIFEST.schema.json")))
    print("MANIFEST.json valid: %d checks, %d not_applicable" % (len(checks), len(notapp)))
except ImportError:
    print("MANIFEST.json written (jsonschema not importable here): %d checks, %d not_applicable" % (len(checks), len(notapp)))
