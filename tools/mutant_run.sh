#!/bin/sh
# tools/mutant_run.sh <patch.diff> <ID> [tier]  -- run a check against a scratch worktree of /repo with a patch applied.
# Nothing is written to /verif/evidence (evidence goes to the scratch dir); the worktree is removed afterwards.
set -u
PATCH=$(readlink -f "$1"); ID=$2; TIER=${3:-quick}
WT=$(mktemp -d /tmp/mut-XXXXXX)
git -C /repo worktree add --detach -f "$WT/wt" HEAD >/dev/null 2>&1 || { echo "worktree failed"; exit 3; }
if ! git -C "$WT/wt" apply "$PATCH"; then echo "patch does not apply"; git -C /repo worktree remove --force "$WT/wt"; rm -rf "$WT"; exit 3; fi
VERIF_REPO="$WT/wt" VERIF_EVIDENCE_DIR="$WT/ev" /verif/check "$ID" --tier "$TIER"
RC=$?
git -C /repo worktree remove --force "$WT/wt"; rm -rf "$WT"
echo "mutant_run exit=$RC"
exit $RC
