#!/usr/bin/env python3
"""tools/run_all.py [--tier quick] [--seeds 0,1,2] [--jobs 3] [--ids C07,C06] [--scratch]
Run every check registered in MANIFEST.json; print id, seed, exit code, wall time, VIOLATION/KNOWN-FINDING lines.
With --scratch evidence goes to a temp dir (use for seed sweeps so committed evidence stays from seed 0)."""
import argparse, json, os, subprocess, sys, tempfile, time
from concurrent.futures import ThreadPoolExecutor
ap = argparse.ArgumentParser()
ap.add_argument("--tier", default="quick"); ap.add_argument("--seeds", default="0"); ap.add_argument("--jobs", type=int, default=3)
ap.add_argument("--ids", default=""); ap.add_argument("--scratch", action="store_true")
a = ap.parse_args()
man = json.load(open("/verif/MANIFEST.json"))
ids = [c["property_id"] for c in man["checks"]]
if a.ids:
    ids = [i for i in a.ids.split(",")]
jobs = [(i, int(s)) for s in a.seeds.split(",") for i in ids]
scratch = tempfile.mkdtemp(prefix="verif-sweep-") if a.scratch else None
def one(j):
    pid, seed = j
    env = dict(os.environ, VERIF_SEED=str(seed), VERIF_TIER=a.tier)
    if scratch: env["VERIF_EVIDENCE_DIR"] = scratch
    t0 = time.time()
    p = subprocess.run(["/verif/check", pid, "--tier", a.tier], cwd="/verif", env=env, capture_output=True, text=True)
    lines = [l for l in p.stdout.splitlines() if l.startswith(("VIOLATION", "KNOWN-FINDING"))]
    err = [l for l in p.stderr.splitlines() if "MACHINERY" in l]
    return pid, seed, p.returncode, time.time() - t0, lines, err
bad = 0
with ThreadPoolExecutor(a.jobs) as ex:
    for pid, seed, rc, wall, lines, err in ex.map(one, jobs):
        print("%s seed=%d exit=%d %.1fs %s %s" % (pid, seed, rc, wall, " | ".join(lines), " | ".join(err)[:300]), flush=True)
        bad += rc != 0
if scratch:
    import shutil; shutil.rmtree(scratch, ignore_errors=True)
print("non-zero exits:", bad)
sys.exit(1 if bad else 0)
