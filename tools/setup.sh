#!/bin/sh
# Offline setup: nothing is fetched.  Creates work dirs and (for C17) the py3.11 dependency symlinks.
set -e
cd /verif
mkdir -p evidence/replays .work vendor
java -version >/dev/null 2>&1 || { echo "java missing"; exit 1; }
test -f /opt/veriftools/tla/tla2tools.jar || { echo "tla2tools.jar missing"; exit 1; }
# pure-Python deps of twisted made importable for /usr/bin/python3 (3.11, has pyOpenSSL) -- used by C17 only
D=vendor/py311deps
mkdir -p $D
for m in attr attrs automat constantly hyperlink incremental idna typing_extensions.py zope; do
  if [ -e /venv/lib/python3.12/site-packages/$m ] && [ ! -e $D/$m ]; then ln -s /venv/lib/python3.12/site-packages/$m $D/$m; fi
done
echo "setup ok"
