#!/usr/bin/env python3-vt
"""Validate MANIFEST.json and every evidence/*.json against the schemas."""
import glob, json, sys, jsonschema
ok = True
try:
    jsonschema.validate(json.load(open("/verif/MANIFEST.json")), json.load(open("/root/.vp/MANIFEST.schema.json")))
    print("MANIFEST ok")
except Exception as e:
    ok = False; print("MANIFEST INVALID:", str(e)[:500])
sch = json.load(open("/root/.vp/EVIDENCE.schema.json"))
for f in sorted(glob.glob("/verif/evidence/*.json")):
    try:
        jsonschema.validate(json.load(open(f)), sch)
    except Exception as e:
        ok = False; print("EVIDENCE INVALID", f, str(e)[:300])
print("evidence files:", len(glob.glob("/verif/evidence/*.json")))
sys.exit(0 if ok else 1)
