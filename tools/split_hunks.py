#!/usr/bin/env python3
"""tools/split_hunks.py patch.diff outprefix -> outprefix-1.diff ... one file per hunk (single-file or multi-file diffs)."""
import re, sys
src, pre = sys.argv[1], sys.argv[2]
lines = open(src).read().split("\n")
files, cur = [], None
for ln in lines:
    if ln.startswith("diff --git") or (ln.startswith("--- ") and (cur is None or cur["hunks"])):
        cur = dict(head=[ln], hunks=[]); files.append(cur)
    elif ln.startswith("@@"):
        cur["hunks"].append([ln])
    elif cur is not None:
        (cur["hunks"][-1] if cur["hunks"] else cur["head"]).append(ln)
n = 0
for f in files:
    for h in f["hunks"]:
        n += 1
        body = "\n".join(f["head"] + h)
        if not body.endswith("\n"):
            body += "\n"
        open("%s-%d.diff" % (pre, n), "w").write(body)
print(n, "hunks")
