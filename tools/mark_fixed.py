#!/usr/bin/env python3
"""tools/mark_fixed.py CNN <commit> [substring ...]: move the open findings of CNN (those whose fingerprint contains
one of the substrings; all if none given) to 'fixed' entries citing <commit>; then regenerate known_findings.json."""
import json, os, subprocess, sys
pid, commit, subs = sys.argv[1], sys.argv[2], sys.argv[3:]
p = "/verif/known_findings.d/%s.json" % pid
d = json.load(open(p))
keep, fixed = [], d.get("fixed", [])
for f in d.get("findings", []):
    if not subs or any(s in f["fingerprint"] for s in subs):
        fixed.append(dict(property=pid, commit=commit, fingerprint=f["fingerprint"],
                          entry="fixed: property=%s %s %s" % (pid, commit, f["what"])))
    else:
        keep.append(f)
d["findings"], d["fixed"] = keep, fixed
json.dump(d, open(p, "w"), indent=1)
subprocess.run(["/verif/tools/merge_known.py"])
