#!/bin/sh
# second seeding round: like seed_prep.sh but asks for changes c and d and lists the first-round ideas to avoid
ID=$1; WT=/tmp/seed/$ID
[ -d $WT ] || git -C /repo worktree add --detach -f $WT HEAD >/dev/null 2>&1
git -C $WT checkout -q -- . ; git -C $WT clean -fdq; git -C $WT checkout -q --detach $(git -C /repo rev-parse HEAD)
python3 - "$ID" "$WT" <<'PY'
import json,sys,os
pid,wt=sys.argv[1],sys.argv[2]
prop=[json.loads(l) for l in open('/verif/properties.jsonl') if json.loads(l)['id']==pid][0]
for k in ('added_in_round','source'): prop.pop(k,None)
t=open('/verif/tools/prompts/seeder.txt').read()
t=t.replace('{WT}',wt).replace('{ID}',pid).replace('{PROP}',json.dumps(prop,indent=1))
t=t.replace('for change k in {a, b}','for change k in {c, d}').replace('{ID}-k','{ID}-k')
done=[]
for k in 'ab':
    p='/verif/seeded/%s-%s/meta.json'%(pid,k)
    if os.path.exists(p):
        done.append('- '+str(json.load(open(p)).get('summary',''))[:300])
t+="\n\nThis is a SECOND round: name your two changes %s-c and %s-d (directories /tmp/seed-out/%s/%s-c and %s-d). Changes already planted by someone else in the first round - do NOT repeat these ideas or code sites, find different clauses of the property and different mechanisms:\n%s\n" % (pid,pid,pid,pid,pid,"\n".join(done))
open('/tmp/seed-out/%s/prompt2.txt'%pid,'w').write(t)
PY
