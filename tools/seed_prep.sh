#!/bin/sh
# tools/seed_prep.sh CNN  -> creates/refreshes the scratch worktree at /repo HEAD and writes the seeder prompt
ID=$1; WT=/tmp/seed/$ID
[ -d $WT ] || git -C /repo worktree add --detach -f $WT HEAD >/dev/null 2>&1
git -C $WT checkout -q -- . ; git -C $WT clean -fdq; git -C $WT checkout -q --detach $(git -C /repo rev-parse HEAD)
mkdir -p /tmp/seed-out/$ID
python3 - "$ID" "$WT" <<'PY'
import json,sys
pid,wt=sys.argv[1],sys.argv[2]
prop=[json.loads(l) for l in open('/verif/properties.jsonl') if json.loads(l)['id']==pid][0]
for k in ('added_in_round','source'): prop.pop(k,None)
t=open('/verif/tools/prompts/seeder.txt').read()
t=t.replace('{WT}',wt).replace('{ID}',pid).replace('{PROP}',json.dumps(prop,indent=1))
open('/tmp/seed-out/%s/prompt.txt'%pid,'w').write(t)
print('/tmp/seed-out/%s/prompt.txt'%pid)
PY
