#!/usr/bin/env python3
"""Collect the 'Corrections' (false alarms fixed in the machinery) sections of notes/CNN.md into /verif/CORRECTIONS.md."""
import glob, os, re
out = ["# CORRECTIONS - false alarms met while building, and what was changed (collected from notes/CNN.md; generated)", ""]
for f in sorted(glob.glob("/verif/notes/C*.md")):
    pid = os.path.basename(f)[:-3]
    txt = open(f).read()
    m = re.search(r"^#+\s*[^\n]*(Correction|False alarm)[^\n]*\n(.*?)(?=^#+\s|\Z)", txt, re.S | re.M | re.I)
    if m:
        out += ["## " + pid, "", m.group(2).strip(), ""]
open("/verif/CORRECTIONS.md", "w").write("\n".join(out) + "\n")
print(len(out), "lines")
