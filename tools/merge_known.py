#!/usr/bin/env python3
"""Regenerate /verif/known_findings.json from known_findings.d/*.json (one file per property).
Run by hand when a finding is recorded or repaired -- never by a check."""
import glob, json, os
HERE = os.path.dirname(os.path.dirname(os.path.abspath(__file__)))
findings, fixed = [], []
for f in sorted(glob.glob(os.path.join(HERE, "known_findings.d", "*.json"))):
    d = json.load(open(f))
    findings += d.get("findings", [])
    fixed += d.get("fixed", [])
out = dict(
    comment="Genuine defects of twisted/twisted found by the checks. 'findings' with status=open are recorded, not repaired: the check prints KNOWN-FINDING for an execution whose fingerprint matches and still reports any other violation. 'fixed' entries suppress nothing.",
    findings=findings, fixed=fixed)
tmp = os.path.join(HERE, "known_findings.json.tmp%d" % os.getpid())
json.dump(out, open(tmp, "w"), indent=1)
os.replace(tmp, os.path.join(HERE, "known_findings.json"))
print("known_findings.json: %d findings, %d fixed" % (len(findings), len(fixed)))
