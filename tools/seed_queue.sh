#!/bin/sh
# tools/seed_queue.sh [njobs]: confirm + run the quick check for every delivered seed that has no log yet.
N=${1:-2}
cd /verif
ls -d /tmp/seed-out/*/C??-[a-d] 2>/dev/null | while read d; do
  s=$(basename $d)
  [ -f $d/patch.diff ] && [ -f $d/demo.py ] && [ -f $d/meta.json ] || continue
  [ -e .work/seedlogs/$s.log ] && continue
  : > .work/seedlogs/$s.log
  echo $d
done | xargs -r -P $N -I{} sh -c 's=$(basename {}); tools/seed_confirm.py {} --check > .work/seedlogs/$s.log 2>&1'
