import sys
sys.path.insert(0,'/verif')
from harness import core
core.use_repo()
from harness.props import c22
from twisted.web import http
ctx = core.Ctx("C22", "quick", 0)
chunks=[bytes([i%251 for i in range(int(sys.argv[1]))])]*int(sys.argv[2])
wire = b"".join(b"".join(http.toChunk(c)) for c in chunks) + b"".join(http.toChunk(b""))
el=list(wire)+[1,2,3]
ts=[c22.run_stream({"lmax":1024}, el, cuts, want=list(b"".join(chunks)), tag="toChunk") for cuts in ([],)]
print(len(el), ctx.validate("ChunkedTrace", ts))
import shutil; shutil.rmtree(ctx.work, ignore_errors=True)
