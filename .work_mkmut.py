import subprocess, sys, os, shutil
def mk(name, path, old, new):
    wt='/tmp/mkmut-%d' % os.getpid()
    subprocess.run(['git','-C','/repo','worktree','add','--detach','-f',wt,'HEAD'],capture_output=True,check=True)
    try:
        p=os.path.join(wt,path); s=open(p).read()
        assert s.count(old)==1, (name, s.count(old))
        open(p,'w').write(s.replace(old,new))
        d=subprocess.run(['git','-C',wt,'diff'],capture_output=True,text=True).stdout
        open('/verif/notes/mutants/%s.diff'%name,'w').write(d)
        print(name, len(d.splitlines()),'lines')
    finally:
        subprocess.run(['git','-C','/repo','worktree','remove','--force',wt],capture_output=True)
H='src/twisted/web/http.py'
B='src/twisted/protocols/basic.py'
which=sys.argv[1]
if which=='C22':
    mk('C22-1',H,"            self._start = len(self._buffer) - 1\n","            self._start = len(self._buffer)\n")
    mk('C22-2',H,"        if eolIndex >= maxChunkSizeLineLength or (","        if eolIndex > maxChunkSizeLineLength + 16 or (")
    mk('C22-3',H,"        data = memoryview(self._buffer)[2:].tobytes()","        data = memoryview(self._buffer)[:].tobytes()")
    mk('C22-4',H,'        if ext and ext.translate(None, _chunkExtChars) != b"":','        if ext and ext.translate(None, _chunkExtChars + b"\\x00\\x7f") != b"":')
    mk('C22-5',H,'        if self.state != "FINISHED":\n            raise _DataLoss(','        if self.state not in ("FINISHED", "TRAILER"):\n            raise _DataLoss(')
    mk('C22-6',H,"        if not self._buffer.startswith(b\"\\r\\n\"):","        if not self._buffer.startswith(b\"\\r\"):")
if which=='C16':
    mk('C16-1',B,"                        if len(self._buffer) >= (self.MAX_LENGTH + len(self.delimiter)):","                        if len(self._buffer) >= self.MAX_LENGTH:")
    mk('C16-2',B,"                        if lineLength > self.MAX_LENGTH:","                        if lineLength >= self.MAX_LENGTH:")
    mk('C16-3',B,"            if length > self.MAX_LENGTH:\n                self._unprocessed = alldata","            if length >= self.MAX_LENGTH:\n                self._unprocessed = alldata")
    mk('C16-4',B,"            if len(line) > self.MAX_LENGTH:\n                return self.lineLengthExceeded(line)","            if len(line) > self.MAX_LENGTH + 1:\n                return self.lineLengthExceeded(line)")
    mk('C16-5',B,"        if length > self.MAX_LENGTH:\n            raise NetstringParseError(self._TOO_LONG % (self.MAX_LENGTH,))\n        return length","        if length > self.MAX_LENGTH + 1:\n            raise NetstringParseError(self._TOO_LONG % (self.MAX_LENGTH,))\n        return length")
    mk('C16-6',B,"            if len(alldata) < messageEnd:\n                break","            if len(alldata) <= messageEnd:\n                break")
    mk('C16-7',B,"        while self._remainingData:\n            try:","        while len(self._remainingData) > 1:\n            try:")
    mk('C16-8',B,"                        if why or self.transport and self.transport.disconnecting:\n                            return why","                        if why:\n                            return why")
