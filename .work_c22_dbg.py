import sys, json
sys.path.insert(0,'/verif')
from harness import core
core.use_repo()
from harness.props import c22
ctx = core.Ctx("C22", "quick", 0)
traces = c22.build_traces(ctx)
traces = [t for t in traces if t["tag"] != "alpha"][:6000]
rej = ctx.validate("ChunkedTrace", traces, shard_size=1500)
print(len(traces), len(rej))
nb = 0
for x in rej:
    t = traces[x.idx]
    if 0x5c in t["str"]:
        nb += 1
    else:
        print(t["tag"], t["cfg"]["lmax"], bytes(b"".join(c22.conc(t["str"])))[:100], t["cuts"][:10], x.reached, t["ev"][x.reached] if x.reached < len(t["ev"]) else None)
print("with backslash", nb)
import shutil; shutil.rmtree(ctx.work, ignore_errors=True)
