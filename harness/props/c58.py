"""C58 -- ClientService keeps one connection and resolves every waiter.

Spec:     specs/ClientSvc.tla (the service the property describes; one operator per public call /
          environment stimulus; re-entrant calls of user callbacks are sub-steps), ClientSvcMC (exhaustive TLC),
          ClientSvcTrace (trace validation), ClientSvcSim (behaviour generator, spec -> code).
Binding:  the REAL twisted.application.internet.ClientService with a fake endpoint (answers asynchronously,
          or succeeds / fails inside connect()), fake transports (close reported later or inside
          loseConnection()), a scripted prepareConnection hook (ok / raises / Deferred) and task.Clock
          (harness/adapters/c58_adapter.py).  One event per top-level call or environment stimulus with its
          outcome, the effects observed while it ran and the re-entrant calls user callbacks made.  TLC decides.
"""
import json

META = dict(
    id="C58",
    specs=["ClientSvc.tla", "ClientSvcMC.tla", "ClientSvcTrace.tla", "ClientSvcSim.tla", "ClientSvcGroup.tla", "ClientSvcImpl.tla", "ClientSvcImplMC.tla", "ClientSvcImplSim.tla"],
    technique="TLA+ spec of the service the property describes (TLC exhaustive over 36 environment configurations, re-entrant calls included) + TLA+ model of ClientService as coded (automat state table, automat's dispatch semantics for re-entrant inputs, the Deferred chain of attemptConnection) checked by TLC against it: accepted under five environment restrictions, one counterexample per dropped restriction, each replayed on the real service + TLC trace validation of real ClientService executions: breadth-first exhaustive short histories with state hashing over the real service, seeded random long histories, and TLC-generated behaviours of both layers replayed on the real service",
    level_text="TLC checks on the specification, for every history up to the stated depth, that there is at most one open connection or attempt, that a retry is due exactly at failure time + policy(consecutive failures), that whenConnected Deferreds are resolved by the next connection / their failure limit / the stop, that stopService Deferreds fire exactly when nothing is open any more, and that every call and stimulus (re-entrant ones included) is accepted; TLC checks the model of the coded state machine against that specification (finding the defect classes at design level); every recorded execution of the real ClientService is validated by TLC as a behaviour of the specification with every logged field matched, and the coded-machine model is shown to predict the real service's observable events exactly on generated behaviours (impl_drift).",
    level_note="Trusted: TLC, the adapter's logging (callback arguments, exception classes, calls reaching the fake endpoint/transport/hook/policy). Failure classes delivered to Deferreds are logged but not constrained. Liveness is checked only as 'fires in the event that makes it due'. Histories beyond the enumerated depth are sampled. An execution is checked up to its first rejected event only. The breadth-first enumeration is exhaustive modulo hashing of the real service's state.",
    design_ref="2.10 C58",
    rule="history = sequence of startService/stopService/whenConnected calls (with scripted re-entrant callbacks), endpoint/hook/transport stimuli and clock advances on one service; distinct = hash of (cfg, events); non-trivial = at least two different event kinds",
)

THENS = ["none", "start", "stop", "when"]
MODES = ["async", "ok", "fail"]


def _adapter():
    from harness.adapters import c58_adapter
    return c58_adapter


def run_history(cfg, ops):
    return _adapter().run_history(cfg, ops)


# ----------------------------------------------------------------------------- exploration helpers
def state_key(env):
    """Search-pruning key (never part of a verdict): what determines the service's future behaviour.
    Uses private attributes of the service when they exist; returns None (= never prune) otherwise."""
    try:
        m = env.svc._machine
        st = m.__automat_transitioner__._state.name
        core = m.__automat_core__
        rem = tuple(r for (_d, r) in core.awaitingConnected)
        nstop = len(core.stopWaiters)
        fa = core.failedAttempts
    except Exception:
        return None
    timers = tuple(sorted(int(c.getTime() - env.clock.seconds()) for c in env.clock.getDelayedCalls()))
    conns = tuple((c in env.hooks) for c in sorted(env.conns))
    dead_hooks = len([c for c in env.hooks if c not in env.conns])
    return (st, fa, rem, nstop, timers, bool(env.att), conns, dead_hooks, env.cmode, env.hmode,
            tuple(sorted(env.wthen.values())), tuple(sorted(env.sthen.values())), bool(env.svc.running))


def alphabet(env, full):
    ops = [["start"], ["stop", "none"], ["stop", "start"], ["when", -1, "none"], ["when", 0, "none"], ["when", 1, "none"], ["when", 2, "none"]]
    if full:
        ops += [["stop", "when"], ["when", -1, "stop"], ["when", -1, "when"], ["when", 1, "start"]]
    ops += env.enabled_env_ops()
    ops += [["adv", 1], ["adv", 2]]
    return ops


def replay_env(cfg, ops):
    ad = _adapter()
    env = ad.Env(cfg)
    for op in ops:
        env.step(list(op))
    return env


def trace_of(env, cfg, ops):
    return {"cfg": cfg, "ops": [list(o) for o in ops], "ev": env.ev, "ctx": env.ctx, "errs": env.errs}


def bfs_level(cfg, frontier, seen, full):
    """Extend every history of `frontier` by every applicable op on a fresh real service.
    Returns (traces, candidates) where candidates = [(ops, key)] for states not seen before."""
    traces, cands = [], []
    for ops in frontier:
        base = replay_env(cfg, ops)
        for op in alphabet(base, full):
            env = replay_env(cfg, ops)
            if not env.step(list(op)):
                continue
            h = ops + [op]
            traces.append(trace_of(env, cfg, h))
            k = state_key(env)
            if k is None or k not in seen:
                if k is not None:
                    seen.add(k)
                cands.append(h)
            else:
                cands.append(None)
    return traces, cands


def random_history(rng, n, profile):
    ad = _adapter()
    cfg = {"hook": rng.random() < 0.6, "cmode": rng.choice(MODES) if rng.random() < 0.5 else "async",
           "hmode": rng.choice(["ok", "fail", "async"]), "pol": rng.choice([[1, 2], [2, 3, 5], [1, 1, 4], [3], [2, 1]]),
           "syncClose": rng.random() < 0.3}
    if profile == "simple":      # long accepted runs: no hook, callbacks that only restart
        cfg["hook"] = False
    env = ad.Env(cfg)
    ops = []
    thens = THENS if profile == "full" else ["none", "none", "start"]
    started = False
    for _ in range(n):
        r = rng.random()
        envops = env.enabled_env_ops()
        if r < 0.40 and envops:
            op = rng.choice(envops)
        elif r < 0.55:
            op = ["adv", rng.choice([1, 1, 2, 3, 5])]
        elif r < 0.68:
            op = ["start"]
            started = True
        elif r < 0.78:
            if profile != "full" and not started:
                continue
            op = ["stop", rng.choice(thens)]
        elif r < 0.94:
            if profile != "full" and not started:
                continue
            op = ["when", rng.choice([-1, -1, 0, 1, 2, 3]), rng.choice(thens)]
        elif r < 0.97:
            op = ["cmode", rng.choice(MODES)]
        else:
            op = ["hmode", rng.choice(["ok", "fail", "async"])]
        if env.step(op):
            ops.append(op)
    return trace_of(env, cfg, ops)


# ----------------------------------------------------------------------------- reporting
def fingerprint(trace, rej):
    """Stable description of the first event the specification could not take: the stimulus, its outcome,
    the situation before it (as a user knows it), what was observed during it and the re-entrant calls."""
    i = rej.reached
    if i >= len(trace["ev"]):
        return "end"
    e = trace["ev"][i]
    ph = trace["ctx"][i]
    bad_nested = sorted({"%s-callback:%s=%s" % (n["by"], n["call"], n["res"]) for n in e["nested"] if n["res"] != "ok"})
    if bad_nested and e["res"] == "ok":
        # a call made by a user callback while the service was delivering a result was refused
        return "reentrant/" + bad_nested[0]
    if e["e"] == "drop":
        return "drop(connection %s)/%s" % (ph["conns"].get(str(e["a"]), "?"), e["res"])
    arg = ""
    if e["e"] == "when":
        arg = "(limit)" if e["k"] >= 0 else "()"
    before = ph["intent"] + "|" + ",".join((["attempt"] if ph["attempt"] else []) + sorted(set(ph["conns"].values())) or ["-"])
    if e["e"] == "stop" and ph["intent"] == "never-started" and ph["waiters_pending"]:
        before += "|waiters-pending"
    return "%s%s/%s/before=%s" % (e["e"], arg, e["res"], before)


def normalise(trace, reached):
    """If the rejected event is a stopService/whenConnected call whose Deferred had already fired when it was
    returned, its callback ran right after the call returned, i.e. the program is the sequential one in which the
    callback's call is the next top-level call.  Return that history (or None): it names the failing call site better."""
    if reached >= len(trace["ev"]):
        return None
    e = trace["ev"][reached]
    if e["e"] not in ("stop", "when") or e["then"] == "none" or e["res"] != "ok":
        return None
    kind = "s" if e["e"] == "stop" else "w"
    if not any(o["k"] == kind and o["i"] == e["newid"] for o in e["obs"]):
        return None
    ops = [list(o) for o in trace["ops"][: reached + 1]]
    last = ops[-1]
    then = last[-1]
    last[-1] = "none"
    follow = {"start": ["start"], "stop": ["stop", "none"], "when": ["when", -1, "none"]}[then]
    return ops + [follow]


def report(ctx, traces, rejects, limit=40):
    # histories whose rejected event can be split into sequential calls are re-run in that form and re-validated
    norm, owner = [], []
    for x in rejects:
        ops = normalise(traces[x.idx], x.reached)
        if ops is not None:
            norm.append(run_history(traces[x.idx]["cfg"], ops))
            owner.append(x)
    better = {}
    if norm:
        rej2 = ctx.validate("ClientSvcTrace", norm, count=False, shard_size=4000)
        for y in rej2:
            better[id(owner[y.idx])] = (norm[y.idx], y)
    by_fp = {}
    for x in rejects:
        t, y = better.get(id(x), (traces[x.idx], x))
        by_fp.setdefault(fingerprint(t, y), []).append((t, y))
    for fp, xs in sorted(by_fp.items()):
        t, x = min(xs, key=lambda ty: (ty[1].reached, len(ty[0]["ops"])))     # shortest witness
        ev = t["ev"][x.reached] if x.reached < len(t["ev"]) else None
        ops = t["ops"][: x.reached + 1]
        ctx.violation(fp, "real ClientService execution not explained by ClientSvc.tla at event %d %s after ops %s (cfg %s); %d executions with this fingerprint"
                      % (x.reached, json.dumps(ev), json.dumps(ops), json.dumps(t["cfg"]), len(xs)),
                      dict(cfg=t["cfg"], ops=ops, rejected_at=x.reached))
    ctx.extra["reject_fingerprints"] = {fp: len(xs) for fp, xs in by_fp.items()}


def canon(e):
    d = {k: e[k] for k in ("e", "a", "k", "then", "m", "res", "newid")}
    d["obs"] = sorted(json.dumps(o, sort_keys=True) for o in e["obs"])
    d["nested"] = [json.dumps(x, sort_keys=True) for x in e["nested"]]
    return d


def mutate(t, rng):
    """Corrupt one logged field / drop one observation (binding self-test)."""
    evs = t["ev"]
    if not evs:
        return None
    c = rng.random()
    withobs = [i for i, e in enumerate(evs) if e["obs"]]
    if c < 0.35 and withobs:
        i = rng.choice(withobs)
        del evs[i]["obs"][rng.randrange(len(evs[i]["obs"]))]          # an effect goes unobserved
    elif c < 0.6 and withobs:
        i = rng.choice(withobs)
        o = rng.choice(evs[i]["obs"])
        o["i"] += 1                                                   # wrong attempt / waiter / policy argument
    elif c < 0.75:
        i = rng.randrange(len(evs))
        evs[i]["res"] = "EXC:RuntimeError"                            # a call was rejected
    elif c < 0.9:
        i = rng.randrange(len(evs))
        evs[i]["obs"].append({"k": "connect", "i": 99, "r": "-", "c": 0})   # a second attempt
    else:
        fired = [(i, o) for i, e in enumerate(evs) for o in e["obs"] if o["k"] == "w"]
        if not fired:
            return None
        i, o = rng.choice(fired)
        evs[-1]["obs"].append(dict(o))                                # a Deferred fires twice
        if i == len(evs) - 1:
            return t
    return t


# ----------------------------------------------------------------------------- the check
def run(ctx):
    import re
    from harness.core import MachineryError, parse_tla_value

    r = ctx.mc("ClientSvcMC", ctx.pick("ClientSvcMC.cfg", "ClientSvcMC.thorough.cfg"))
    if not r.ok:
        raise MachineryError("ClientSvc spec violates its own invariants: " + r.error)
    ctx.require_actions("ClientSvcMC", ["Start", "Stop", "When", "Succeed", "Fail", "PrepOk", "PrepFail", "Drop", "Adv", "Nested"])

    # Impl layer: ClientService AS CODED (automat table + dispatch semantics + Deferred chain, ClientSvcImpl.tla) against the
    # property.  Under the three environment restrictions C..E TLC must find it accepted; dropping any one must give a
    # counterexample, which is replayed on the real service below (a counterexample that does not reproduce = impl_drift).
    ri = ctx.mc("ClientSvcImplMC", ctx.pick("ClientSvcImplMC.ALL.cfg", "ClientSvcImplMC.ALL.thorough.cfg"), coverage=False,
                label="coded machine under environment restrictions C-E")
    if not ri.ok:
        raise MachineryError("ClientSvcImpl under restrictions C-E is not accepted by ClientSvc (new defect class or model error): " + ri.error[:1500]
                             + "\n" + "".join(ri.cex[-1:])[-1500:])
    design_cex = {}
    for x in "CDE":
        rx = ctx.mc("ClientSvcImplMC", "ClientSvcImplMC.%s.cfg" % x, must_pass=False, coverage=False,
                    label="restriction %s dropped (counterexample expected)" % x)
        if rx.ok or rx.kind != "invariant":
            raise MachineryError("restriction %s is not necessary in the Impl model (%s): the model or the restriction is wrong" % (x, rx.kind or "no violation"))
        m = re.search(r"ops = (<<.*)", rx.cex[-1], re.S)
        cm = re.search(r"cfg = (\[.*?\])\n", rx.cex[-1], re.S)
        design_cex[x] = dict(ops=parse_tla_value(m.group(1)), cfg=parse_tla_value(cm.group(1)))

    all_traces, all_rej = [], []

    def validate(ts):
        base = len(all_traces)
        all_traces.extend(ts)
        rej = ctx.validate("ClientSvcTrace", ts, shard_size=ctx.pick(4000, 6000))
        for x in rej:
            x.idx += base
        all_rej.extend(rej)
        return {x.idx - base for x in rej}

    # 1. exhaustive short histories, breadth first with state hashing over the real service; a history the
    #    specification rejected is not extended (nothing after the first rejected event can be checked).
    depth = ctx.pick(3, 4)
    cfgs = []
    for hook in (False, True):
        for sc in (False, True):
            for cm in MODES:
                for hm in (["ok", "fail", "async"] if hook else ["ok"]):
                    cfgs.append({"hook": hook, "cmode": cm, "hmode": hm, "pol": [1, 2], "syncClose": sc})
    frontiers = {i: [[]] for i in range(len(cfgs))}
    seens = {i: set() for i in range(len(cfgs))}
    nstates = 0
    for lvl in range(1, depth + 1):
        lvl_traces, owners = [], []
        for ci, cfg in enumerate(cfgs):
            # quick tier: the last level uses the reduced alphabet (no re-entrant whenConnected/stopService scripts)
            ts, cands = bfs_level(cfg, frontiers[ci], seens[ci], full=not (ctx.quick and lvl == depth))
            lvl_traces.extend(ts)
            owners.extend((ci, c) for c in cands)
            frontiers[ci] = []
        bad = validate(lvl_traces)
        for j, (ci, cand) in enumerate(owners):
            if cand is not None and j not in bad:
                frontiers[ci].append(cand)
        nnew = sum(len(f) for f in frontiers.values())
        nstates += nnew
        ctx.log("exhaustive level %d: %d executions, %d rejected, %d new states" % (lvl, len(lvl_traces), len(bad), nnew))
    ctx.exhaustive = True          # every op of the alphabet from every distinct state of the real service up to `depth`
    ctx.extra["exhaustive_note"] = "breadth-first with hashing of the real service's state; histories rejected by TLC are not extended"
    ctx.extra["exhaustive_depth"] = depth
    ctx.extra["exhaustive_states_of_real_service"] = nstates

    # 2. seeded random long histories
    nrand = ctx.pick(900, 15000)
    rnd = []
    for i in range(nrand):
        profile = ("full", "plain", "simple")[i % 3]
        rnd.append(random_history(ctx.rng, ctx.rng.randint(8, 40), profile))
    validate(rnd)

    # 3. spec -> code: behaviours generated by TLC from the specification are stepped through the real service;
    #    the real observables must be the predicted ones (decided again by TLC in validate()).
    behs = ctx.simulate("ClientSvcSim", "ClientSvcSim.cfg", num=ctx.pick(50, 800), depth=14)
    sim = []
    for b in behs:
        ops = [[int(x) if isinstance(x, str) and x.lstrip("-").isdigit() else x for x in h] for h in b["hist"]]
        sim.append(run_history(b["cfg"], ops))
    validate(sim)
    ctx.extra["spec_behaviours_replayed"] = len(behs)

    # 4. Impl layer bound to the code: (a) the design-level counterexamples replayed on the real service must be rejected too;
    #    (b) random behaviours of the Impl model (unrestricted environment) must be reproduced event for event.
    drift = 0
    cex_traces = [run_history(v["cfg"], v["ops"]) for v in design_cex.values()]
    bad = validate(cex_traces)
    rep = {}
    for j, x in enumerate(design_cex):
        if j in bad:
            rj = [r for r in all_rej if r.idx == len(all_traces) - len(cex_traces) + j][0]
            rep[x] = fingerprint(all_traces[rj.idx], rj)
        else:
            rep[x] = "NOT REPRODUCED on the real service"
            drift += 1
        ctx.log("design counterexample, restriction %s dropped: ops %s -> %s" % (x, json.dumps(design_cex[x]["ops"]), rep[x]))
    ctx.extra["design_counterexamples"] = {x: dict(ops=design_cex[x]["ops"], real_code=rep[x]) for x in design_cex}
    ibehs = ctx.simulate("ClientSvcImplSim", "ClientSvcImplSim.cfg", num=ctx.pick(20, 300), depth=13)
    isim = []
    for b in ibehs:
        t = run_history(b["cfg"], b["ops"])
        if [canon(e) for e in t["ev"]] != [canon(e) for e in b["ev"]]:
            drift += 1
            if drift <= 3:
                ctx.log("impl drift: cfg %s ops %s" % (json.dumps(b["cfg"]), json.dumps(b["ops"])))
        isim.append(t)
    validate(isim)
    ctx.impl_drift = drift
    ctx.extra["impl_behaviours_compared"] = len(ibehs)

    ctx.note_traces(all_traces)
    ctx.log("recorded %d real executions, %d rejected, impl drift %d" % (len(all_traces), len(all_rej), drift))
    acc_len = [len(t["ev"]) for i, t in enumerate(all_traces) if i not in {x.idx for x in all_rej}]
    ctx.extra["accepted_events_total"] = sum(acc_len)
    ctx.extra["accepted_events_checked_in_rejected"] = sum(x.reached for x in all_rej)
    report(ctx, all_traces, all_rej)
    badidx = {x.idx for x in all_rej}
    good = [t for i, t in enumerate(all_traces) if i not in badidx and len(t["ev"]) >= 4]
    ctx.selftest_rejects("ClientSvcTrace", good[-300:], mutate, n=24)


def replay(ctx, obj):
    t = run_history(obj["cfg"], [list(o) for o in obj["ops"]])
    ctx.note_trace(t)
    rej = ctx.validate("ClientSvcTrace", [t])
    report(ctx, [t], rej)
    for e in t["ev"]:
        print(e)
