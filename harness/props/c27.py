"""C27 -- redirect following resolves targets correctly and confines credentials.

Spec:     specs/Redirect.tla (RFC 3986 5.2 reference resolution transcribed; redirect limit; method
          rules of the two agents; sensitive-header confinement), RedirectMC (exhaustive, two modes),
          RedirectTrace (trace validation), RedirectSim (behaviour generation).
Binding:  real twisted.web.client.RedirectAgent / BrowserLikeRedirectAgent wrapped around a
          recording inner agent that answers from a scripted chain of (status, Location).  Logged:
          every request that reaches the inner agent (method, URI split into RFC 3986 components,
          which sensitive header names it carries), every scripted answer, and how the Deferred
          returned to the caller fired.  TLC decides.
"""
import itertools
import re

META = dict(
    id="C27",
    specs=["Redirect.tla", "RedirectMC.tla", "RedirectTrace.tla", "RedirectSim.tla"],
    technique="TLA+ spec of redirect following with RFC 3986 reference resolution as operators (TLC exhaustive over a small universe of origins, paths, Location forms, codes, methods, limits) + TLC trace validation of real RedirectAgent/BrowserLikeRedirectAgent runs over a recording inner agent (exhaustive short chains, random chains up to 8) + spec-generated behaviours replayed",
    level_text="TLC checks on the specification that every follow-up request targets the RFC 3986 resolution of the Location against the URI of the request that received the redirect, that at most `limit` redirects are followed, that 307/308 keep the method and 303 (and 301/302 for the browser-like agent) switch to GET, and that sensitive headers only travel to the original origin; every recorded run of the real agents is validated by TLC as a behaviour of that specification with every logged request matched.",
    level_note="Trusted: TLC, the adapter's component split of the requested URI bytes and its serialisation of abstract URIs/Locations. How a refused or over-limit redirect is reported (failure class) is left free. Header values, bodies and non-sensitive headers are not examined. URIs without dot-segment-free double slashes, userinfo, IPv6 literals or percent-encoding.",
    design_ref="2.7 C27",
    rule="run = (agent class, limit, method, start URI, sensitive headers supplied, chain of (status, Location) answers); distinct = hash of (cfg, events); non-trivial = at least one redirect answered",
)

# configured sensitive names include spellings whose canonical header form is not str.title(): '_', digit+letter, special-cased DNT
CONFIGURED = ["x-secret", "x_api_key", "x-oauth2token", "dnt"]
NAMES = ["authorization", "cookie", "proxy-authorization"] + CONFIGURED
CODES = [200, 301, 302, 303, 307, 308, 404]


# ----------------------------------------------------------------------------- abstract URIs <-> bytes
def U(scheme, host, port, segs, q=None, f=None):
    return dict(scheme=scheme, host=host, port=port, abs=bool(segs), segs=list(segs), hasq=q is not None, q=q or "", hasf=f is not None, f=f or "")


def R(kind, scheme="", host="", port="", abs_=False, segs=(), q=None, f=None):
    return dict(kind=kind, scheme=scheme, host=host, port=port, abs=abs_, segs=list(segs), hasq=q is not None, q=q or "", hasf=f is not None, f=f or "")


MISSING = R("missing")


def path_str(x):
    return ("/" if x["abs"] else "") + "/".join(x["segs"])


def tail_str(x):
    return path_str(x) + ("?" + x["q"] if x["hasq"] else "") + ("#" + x["f"] if x["hasf"] else "")


def auth_str(x):
    return x["host"] + (":" + x["port"] if x["port"] else "")


def uri_bytes(u):
    return (u["scheme"] + "://" + auth_str(u) + tail_str(u)).encode("ascii")


def ref_bytes(r):
    if r["kind"] == "abs":
        return (r["scheme"] + "://" + auth_str(r) + tail_str(r)).encode("ascii")
    if r["kind"] == "net":
        return ("//" + auth_str(r) + tail_str(r)).encode("ascii")
    if r["kind"] == "path":
        return tail_str(r).encode("ascii")
    return None


_URI = re.compile(rb"^([A-Za-z][A-Za-z0-9+.-]*)://([^/?#]*)([^?#]*)(\?[^#]*)?(#.*)?$", re.S)


def split_uri(b):
    """RFC 3986 appendix B component split of the bytes the inner agent was asked for (no normalisation)."""
    m = _URI.match(b)
    if not m:
        return dict(scheme="?", host=b.decode("latin1"), port="", abs=False, segs=[], hasq=False, q="", hasf=False, f="")
    scheme, auth, path, q, f = m.groups()
    host, port = auth, b""
    if b":" in auth and auth.rsplit(b":", 1)[1].isdigit():
        host, port = auth.rsplit(b":", 1)
    p = path.decode("latin1")
    return dict(scheme=scheme.decode("latin1"), host=host.decode("latin1"), port=port.decode("latin1"),
                abs=p.startswith("/"), segs=(p[1:].split("/") if p.startswith("/") else ([] if p == "" else p.split("/"))),
                hasq=q is not None, q=(q or b"?")[1:].decode("latin1"), hasf=f is not None, f=(f or b"#")[1:].decode("latin1"))


# ----------------------------------------------------------------------------- the real agents over a recording inner agent
def run_chain(cfg, chain, style=None):
    """cfg = {agent, limit, method, uri, given}; chain = [[code, ref], ...] (answers of the inner agent; 200 afterwards).
    style = {"none": headers=None when nothing is given, "case": header-name spelling, "async": fire answers later}"""
    from twisted.internet import defer
    from twisted.web import client
    from twisted.web.http_headers import Headers

    style = style or {}
    ev = []
    pending = []
    answers = list(chain)

    class FakeResponse:
        version = (b"HTTP", 1, 1)
        phrase = b""
        length = 0
        request = None
        previousResponse = None

        def __init__(self, code, loc):
            self.code = code
            self.headers = Headers({b"content-type": [b"text/plain"]})
            lb = ref_bytes(loc)
            if lb is not None:
                self.headers.addRawHeader(b"Location", lb)

        def setPreviousResponse(self, r):
            self.previousResponse = r

        def deliverBody(self, p):
            pass

    class Inner:
        def request(self, method, uri, headers=None, bodyProducer=None):
            present = set()
            if headers is not None:
                for k, _v in headers.getAllRawHeaders():
                    if k.lower().decode("latin1") in NAMES:
                        present.add(k.lower().decode("latin1"))
            ev.append(dict(e="req", method=method.decode("latin1"), uri=split_uri(uri), sens=sorted(present)))
            code, loc = answers.pop(0) if answers else (200, MISSING)
            ev.append(dict(e="resp", code=code, loc=loc))
            d = defer.Deferred()
            if style.get("async"):
                pending.append((d, FakeResponse(code, loc)))
            else:
                d.callback(FakeResponse(code, loc))
            return d

    cls = client.RedirectAgent if cfg["agent"] == "strict" else client.BrowserLikeRedirectAgent
    spell = {"lower": lambda s: s, "upper": lambda s: s.upper(), "title": lambda s: s.title()}[style.get("case", "title")]
    agent = cls(Inner(), redirectLimit=cfg["limit"], sensitiveHeaderNames=[spell(n).encode() for n in CONFIGURED])
    if not cfg["given"] and style.get("none"):
        headers = None
    else:
        headers = Headers({b"Accept": [b"*/*"]})
        for n in cfg["given"]:
            headers.addRawHeader(spell(n).encode(), b"secret-" + n.encode())
    out = []
    extra = {}
    try:
        d = agent.request(cfg["method"].encode(), uri_bytes(cfg["uri"]), headers, None)
        d.addCallbacks(lambda r: out.append(("ok", r.code)), lambda f: out.append(("fail", f)))
        n = 0
        while pending and n < 100:
            dd, r = pending.pop(0)
            dd.callback(r)
            n += 1
    except Exception as e:   # request() itself raising is not an action of the spec
        ev.append(dict(e="raise", res=type(e).__name__, code=0))
    if out:
        kind, v = out[0]
        if kind == "ok":
            ev.append(dict(e="done", res="ok", code=v))
        else:
            code = getattr(getattr(v.value, "response", None), "code", 0)
            reasons = getattr(v.value, "reasons", None)
            extra["failure"] = v.type.__name__ + (":" + reasons[0].type.__name__ if reasons else "")
            ev.append(dict(e="done", res="fail", code=code if isinstance(code, int) else 0))
    elif not any(e["e"] == "raise" for e in ev):
        ev.append(dict(e="hang", res="", code=0))
    t = {"cfg": cfg, "chain": [[c, r] for c, r in chain], "style": {k: v for k, v in style.items()}, "ev": ev}
    t.update(extra)
    return t


# ----------------------------------------------------------------------------- case generation
A, A2, B, AS, A80 = ("http", "a.test", ""), ("http", "a.test", "8080"), ("http", "b.test", ""), ("https", "a.test", ""), ("http", "a.test", "80")
SMALL_REFS = [R("path", abs_=False, segs=["y"]), R("path", abs_=True, segs=["z", ""]), R("abs", *B, abs_=True, segs=["y"]),
              R("abs", *A, abs_=True, segs=["w"], f="sec"), MISSING]


def exhaustive_chains(codes, refs, maxlen):
    items = [(c, r) for c in codes for r in (refs if c in (301, 302, 303, 307, 308) else [MISSING])]
    for n in range(maxlen + 1):
        for ch in itertools.product(items, repeat=n):
            yield list(ch)


def random_ref(rng):
    k = rng.random()
    segs_abs = rng.choice([[], [""], ["y"], ["y", ""], ["y", "z"], ["y", "..", "z"], ["..", "y"], [".", "y"], ["y", "."]])
    segs_rel = rng.choice([[], ["y"], ["y", ""], ["..", "y"], [".", "y"], [".."], ["."], ["..", "..", "y"], ["y", "..", "z"], ["..", ""], ["y", "z", ".."]])
    q = rng.choice([None, None, "n=2"])
    f = rng.choice([None, None, "sec"])
    if k < 0.4:
        segs_abs = rng.choice([[], [""], ["y"], ["y", ""], ["y", "z"]])      # dot segments only in path references
    if k < 0.3:
        a = rng.choice([A, A2, B, AS, A80])
        return R("abs", *a, abs_=bool(segs_abs), segs=segs_abs, q=q if segs_abs else None, f=f)
    if k < 0.4:
        a = rng.choice([A, A2, B, A80])
        return R("net", "", a[1], a[2], abs_=bool(segs_abs), segs=segs_abs, q=q if segs_abs else None, f=f)
    if k < 0.6:
        return R("path", abs_=True, segs=segs_abs or [""], q=q, f=f)
    if k < 0.95:
        return R("path", abs_=False, segs=segs_rel, q=q, f=f)
    return MISSING


def random_run(rng):
    a = rng.choice([A, A, AS, A2, A80])
    segs = rng.choice([[], [""], ["x"], ["x", "y"], ["x", ""], ["x", "y", "z"]])
    cfg = dict(agent=rng.choice(["strict", "browser"]), limit=rng.choice([0, 1, 2, 3, 4, 8, 20]),
               method=rng.choice(["GET", "GET", "HEAD", "POST", "PUT"]),
               uri=U(a[0], a[1], a[2], segs, q=rng.choice([None, "k=1"]) if segs else None, f=rng.choice([None, None, "top"])),
               given=sorted(rng.sample(NAMES, rng.choice([0, 1, 2, 4, 7]))))
    n = rng.randint(0, 8)
    chain = []
    for i in range(n):
        c = rng.choice([301, 302, 303, 307, 308, 302, 307])
        chain.append([c, random_ref(rng)])
    if rng.random() < 0.5:
        chain.append([rng.choice([200, 404]), MISSING])
    style = dict(none=rng.random() < 0.3, case=rng.choice(["lower", "upper", "title"]), **({"async": True} if rng.random() < 0.3 else {}))
    return cfg, chain, style


def mutate(t, rng):
    reqs = [i for i, e in enumerate(t["ev"]) if e["e"] == "req"]
    r = rng.random()
    if len(reqs) > 1 and r < 0.35:
        e = t["ev"][rng.choice(reqs[1:])]
        e["uri"]["segs"] = e["uri"]["segs"] + ["extra"]
        e["uri"]["abs"] = True
    elif len(reqs) > 1 and r < 0.6:
        e = t["ev"][rng.choice(reqs[1:])]
        e["method"] = "POST" if e["method"] != "POST" else "GET"
    elif len(reqs) > 1 and r < 0.8:
        e = t["ev"][reqs[-1]]
        e["uri"]["host"] = "evil.test"
        e["sens"] = ["authorization"]
        if "authorization" not in t["cfg"]["given"]:
            t["cfg"]["given"] = sorted(t["cfg"]["given"] + ["authorization"])
            t["ev"][reqs[0]]["sens"] = sorted(set(t["ev"][reqs[0]]["sens"]) | {"authorization"})
    elif len(reqs) > 1:
        del t["ev"][reqs[1]]          # a follow-up request the wrapper made is not in the log
    else:
        d = t["ev"][-1]
        if d["e"] != "done":
            return None
        d["code"] += 1
    return t


def _pyjoin(base, url):
    """urllib's resolution + fragment inheritance; used only to *name* a failure, never to decide one."""
    from urllib.parse import urldefrag, urljoin
    base, bf = urldefrag(base)
    u, uf = urldefrag(urljoin(base, url))
    return u + ((b"#" + (uf or bf)) if (uf or bf) else b"")


def fingerprint(t, reached):
    ev = t["ev"]
    e = ev[reached] if reached < len(ev) else {"e": "end"}
    reqs = [x for x in ev[:reached] if x["e"] == "req"]
    resps = [x for x in ev[:reached] if x["e"] == "resp"]
    code = resps[-1]["code"] if resps else 0
    if e["e"] == "req" and reqs:
        before, after = reqs[-1]["method"], e["method"]
        if code in (307, 308) and before != after:
            return "%s/follow-up-after-%d-changes-method" % (t["cfg"]["agent"], code)
        kind = resps[-1]["loc"]["kind"]
        if len(reqs) >= 2 and kind != "missing" and e["uri"]["scheme"] != "?":
            orig, curb, loc, obs = uri_bytes(t["cfg"]["uri"]), uri_bytes(reqs[-1]["uri"]), ref_bytes(resps[-1]["loc"]), uri_bytes(e["uri"])
            if obs == _pyjoin(orig, loc) and obs != _pyjoin(curb, loc):
                return "follow-up/target-resolved-against-original-request-URI"
        return "follow-up/hop%d/code=%d/loc=%s/%s->%s" % (len(reqs), code, kind, before, after)
    if e["e"] == "done":
        return "done/%s/%s/after-%d/%s" % (t["cfg"]["agent"], e["res"], code, reqs[-1]["method"] if reqs else "")
    return "%s/after-%d" % (e["e"], code)


def _report(ctx, traces, rej):
    for x in rej:
        t = traces[x.idx]
        e = t["ev"][x.reached] if x.reached < len(t["ev"]) else None
        what = "%s(limit=%d) %s %s, answers %s: event %d not explained by Redirect.tla: %s" % (
            "RedirectAgent" if t["cfg"]["agent"] == "strict" else "BrowserLikeRedirectAgent", t["cfg"]["limit"], t["cfg"]["method"],
            uri_bytes(t["cfg"]["uri"]).decode(), [(c, (ref_bytes(r) or b"<none>").decode()) for c, r in t["chain"]][:6], x.reached,
            dict(e, uri=uri_bytes(e["uri"]).decode()) if e and e.get("e") == "req" and e["uri"]["scheme"] != "?" else e)
        ctx.violation(fingerprint(t, x.reached), what, dict(cfg=t["cfg"], chain=t["chain"], style=t["style"], rejected_at=x.reached))


def run(ctx):
    from harness.core import MachineryError

    for cfgname in ["RedirectMC.cfg", ctx.pick("RedirectMC.resolve.cfg", "RedirectMC.resolve.thorough.cfg")]:
        r = ctx.mc("RedirectMC", cfgname)
        if not r.ok:
            raise MachineryError("Redirect spec violates its own invariants (%s): %s" % (cfgname, r.error))
    ctx.require_actions("RedirectMC", ["Start", "Env", "Follow", "FinishOk", "FinishFail"])

    traces = []
    # exhaustive short chains over a small alphabet
    codes = ctx.pick([200, 302, 303, 307, 308], CODES)
    maxlen = ctx.pick(2, 3)
    start = U("http", "a.test", "", ["x", "y"], q="k=1")
    for agent in ("strict", "browser"):
        for method in ("GET", "HEAD", "POST"):
            for limit in ctx.pick([1, 2], [1, 3]):
                cfg = dict(agent=agent, limit=limit, method=method, uri=start, given=["authorization", "dnt", "x-oauth2token", "x-secret", "x_api_key"])
                for ch in exhaustive_chains(codes, SMALL_REFS[:4] if maxlen == 3 else SMALL_REFS, maxlen):
                    traces.append(run_chain(cfg, ch))
    ctx.exhaustive = True
    ctx.extra["exhaustive_chain_length"] = maxlen
    nex = len(traces)
    nrand = ctx.pick(2500, 60000)
    for _ in range(nrand):
        cfg, chain, style = random_run(ctx.rng)
        traces.append(run_chain(cfg, chain, style))
    # spec -> code: behaviours generated by TLC; the answers are fed to the real agent, which must issue the predicted requests
    behs = ctx.simulate("RedirectSim", "RedirectSim.cfg", num=ctx.pick(300, 5000), depth=14)
    drift = 0
    for b in behs:
        cfg = dict(b["cfg"], given=sorted(b["cfg"]["given"]))
        chain = [[h["code"], h["loc"]] for h in b["hist"] if h["e"] == "resp"]
        t = run_chain(cfg, chain)
        pred = [(h["method"], uri_bytes(h["uri"])) for h in b["hist"] if h["e"] == "req"]
        real = [(e["method"], uri_bytes(e["uri"])) for e in t["ev"] if e["e"] == "req"]
        if real[:len(pred)] != pred:
            drift += 1
        traces.append(t)
    ctx.extra["spec_behaviours_replayed"] = len(behs)
    ctx.extra["spec_behaviours_not_reproduced"] = drift
    for t in traces:
        ctx.note_trace(t, nontrivial=any(e["e"] == "resp" and e["code"] in (301, 302, 303, 307, 308) for e in t["ev"]))
    ctx.log("recorded %d real runs (%d exhaustive short chains, %d random, %d spec-generated)" % (len(traces), nex, nrand, len(behs)))
    rej = ctx.validate("RedirectTrace", traces, shard_size=ctx.pick(2500, 8000))
    byfp = {}
    for x in rej:
        fp = fingerprint(traces[x.idx], x.reached)
        byfp[fp] = byfp.get(fp, 0) + 1
    ctx.extra["rejected_by_class"] = byfp
    _report(ctx, traces, rej)
    bad = {x.idx for x in rej}
    good = [t for i, t in enumerate(traces) if i not in bad and sum(1 for e in t["ev"] if e["e"] == "req") >= 2]
    if good or not ctx.violations:
        ctx.selftest_rejects("RedirectTrace", good[::max(1, len(good) // 80)], mutate, n=24)
    else:
        ctx.log("selftest skipped: no accepted run to corrupt (violations reported above)")


def replay(ctx, obj):
    t = run_chain(obj["cfg"], [tuple(x) for x in obj["chain"]], obj.get("style"))
    ctx.note_trace(t, nontrivial=True)
    rej = ctx.validate("RedirectTrace", [t])
    _report(ctx, [t], rej)
    for e in t["ev"]:
        print(dict(e, uri=uri_bytes(e["uri"]).decode()) if e["e"] == "req" and e["uri"]["scheme"] != "?" else
              dict(e, loc=(ref_bytes(e["loc"]) or b"<none>").decode()) if e["e"] == "resp" else e)
    print(t.get("failure", ""))
