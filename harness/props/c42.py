"""C42 -- IMAP4 client parses what the IMAP4 server serialises.

Spec:     specs/ImapSexp.tla (property Holds; RFC 3501 reference serialiser Ser and tokeniser PStep),
          ImapSexpMC (exhaustive TLC: Parse(Ser(x)) = Expected(x)), ImapSexpTrace (trace validation;
          ImapSexpTraceRef.cfg additionally runs the reference tokeniser on the REAL serialiser's output --
          diagnostic: which side is at fault).
Binding:  real collapseNestedLists -> real parseNestedParens (with literal handling).  Structures are logged
          flat (token sequence); octets are logged as integers.  One trace = ser event + parse event.
"""
import json

META = dict(
    id="C42",
    specs=["ImapSexp.tla", "ImapSexpMC.tla", "ImapSexpTrace.tla"],
    technique="TLA+ reference serialiser + octet-stepped tokeniser for RFC 3501 parenthesised lists (TLC exhaustive: Parse(Ser(x)) = x, ints as decimal text, all bounded structures over a 16-octet class alphabet); TLC trace validation of real collapseNestedLists -> parseNestedParens runs (exhaustive small structures, random hostile structures to depth 4); failing runs shrunk on the real code with TLC deciding each step",
    level_text="TLC checks on the specification that an RFC 3501 serialiser/tokeniser pair round-trips every bounded nested list (strings over quotes, backslashes, CR, LF, braces, parentheses, NIL letters, 8-bit), and decides for every recorded run of the real serialiser and real client parser whether the parsed structure equals the input with integers as decimal text.",
    level_note="Trusted: TLC, the adapter's flattening of nested lists to token sequences (a bijection). Not decided: the rest of the IMAP4 client line/literal reassembly (IMAP4Client.lineReceived), str items (ASCII-encoded by the serialiser), DontQuoteMe and file-like items. Structures beyond the enumerated size are sampled.",
    design_ref="2.6 C42",
    rule="case = nested list (depth <= 4) of byte strings / None / ints; distinct = hash of the trace; non-trivial = at least one string contains an octet outside [A-Za-z0-9] or the structure is nested",
)

DQ, BS, CR, LF, LB, RB, LP, RP, SP = 34, 92, 13, 10, 123, 125, 40, 41, 32
CLASS_ALPHA = [DQ, BS, CR, LF, LB, RB, LP, RP, SP, 78, 73, 76, 120, 200, 49, 91]
HOSTILE = [DQ, BS, CR, LF, LB, RB, LP, RP, SP, 78, 73, 76, 120, 200, 49, 91, 93, 0, 9, 11, 12, 31, 37, 42, 45, 48, 57, 127, 128, 255, 110, 105, 108]


def bcls(b):
    names = {DQ: "DQUOTE", BS: "BSLASH", CR: "CR", LF: "LF", LB: "LBRACE", RB: "RBRACE", LP: "LPAREN", RP: "RPAREN",
             SP: "SP", 91: "LBRACK", 93: "RBRACK", 0: "NUL", 9: "TAB", 11: "VT", 12: "FF", 127: "DEL", 37: "PCT", 42: "STAR", 45: "MINUS",
             78: "N", 73: "I", 76: "L"}
    if b in names:
        return names[b]
    if 48 <= b <= 57:
        return "DIGIT"
    if b < 32:
        return "CTL"
    if b > 127:
        return "OBS"
    return "X"


def sig(toks):
    out = []
    for tag, p in toks:
        if tag == "s":
            cl = [bcls(b) for b in p]
            rl = []
            for c in cl:
                if rl and rl[-1][0] == c:
                    rl[-1][1] += 1
                else:
                    rl.append([c, 1])
            out.append("s[" + ",".join(c if n == 1 else "%s*%d" % (c, n) for c, n in rl) + "]")
        else:
            out.append(tag)
    return " ".join(out) if out else "empty"


def classes(toks):
    """Features a failure may depend on: special octet classes present, and LONG (a string the serialiser
    sends as a literal because of its length)."""
    cl = {bcls(b) for tag, p in toks if tag == "s" for b in p} - {"X"}
    if any(tag == "s" and len(p) > 1000 for tag, p in toks):
        cl.add("LONG")
    return cl


def to_obj(toks):
    stack = [[]]
    for tag, p in toks:
        if tag == "(":
            stack.append([])
        elif tag == ")":
            top = stack.pop()
            stack[-1].append(top)
        elif tag == "nil":
            stack[-1].append(None)
        elif tag == "i":
            stack[-1].append(int(p[0]))
        else:
            stack[-1].append(bytes(p))
    assert len(stack) == 1
    return stack[0]


def flatten(obj):
    out = []
    for it in obj:
        if it is None:
            out.append(["nil", []])
        elif isinstance(it, bytes):
            out.append(["s", list(it)])
        elif isinstance(it, list):
            out.append(["(", []])
            out.extend(flatten(it))
            out.append([")", []])
        else:
            out.append(["?" + type(it).__name__, []])
    return out


def run_case(toks):
    from twisted.mail import imap4

    ev = []
    try:
        out = imap4.collapseNestedLists(to_obj(toks))
        if not isinstance(out, bytes):
            raise TypeError("serialiser returned %s" % type(out).__name__)
        ev.append({"e": "ser", "x": toks, "out": list(out), "exc": ""})
    except Exception as e:
        ev.append({"e": "ser", "x": toks, "out": [], "exc": type(e).__name__})
        return {"cfg": {}, "toks": toks, "ev": ev}
    try:
        res = imap4.parseNestedParens(out)
        ev.append({"e": "parse", "toks": flatten(res), "exc": ""})
    except Exception as e:
        ev.append({"e": "parse", "toks": [], "exc": type(e).__name__})
    return {"cfg": {}, "toks": toks, "ev": ev}


def run_parse_only(toks, out):
    """Diagnostic route: the real parser applied to octets produced by the specification's serialiser."""
    from twisted.mail import imap4

    ev = [{"e": "refser", "x": toks, "out": list(out), "exc": ""}]
    try:
        res = imap4.parseNestedParens(bytes(out))
        ev.append({"e": "parse", "toks": flatten(res), "exc": ""})
    except Exception as e:
        ev.append({"e": "parse", "toks": [], "exc": type(e).__name__})
    return {"cfg": {}, "toks": toks, "ev": ev}


# ---------------------------------------------------------------- generators
def strings_upto(alpha, L):
    import itertools
    for n in range(L + 1):
        for t in itertools.product(alpha, repeat=n):
            yield list(t)


def exhaustive(L):
    S = lambda s: ["s", s]
    NIL, O, C = ["nil", []], ["(", []], [")", []]
    for s in strings_upto(CLASS_ALPHA, L):
        yield [S(s)]
        yield [O, S(s), C]
        yield [S(s), NIL]
        yield [NIL, S(s)]
        yield [O, O, S(s), C, ["i", [12]], C]
    for a in strings_upto(CLASS_ALPHA, 1):
        for b in strings_upto(CLASS_ALPHA, 1):
            yield [S(a), S(b)]
            yield [O, S(a), C, S(b)]
    for it in (NIL, ["i", [0]], ["i", [12]], ["i", [-7]], ["i", [2147483647]]):
        yield [it]
        yield [O, it, C]
        yield [it, it]
    yield []
    yield [O, C]
    yield [O, O, C, C]
    yield [O, C, O, C]


def random_struct(rng, depth=0):
    toks = []
    for _ in range(rng.randint(0, 4 if depth else 5)):
        r = rng.random()
        if r < 0.12:
            toks.append(["nil", []])
        elif r < 0.24:
            toks.append(["i", [rng.choice([0, 1, 9, 10, 42, 1000, -1, -35, 2147483647])]])
        elif r < 0.45 and depth < 3:
            toks.append(["(", []])
            toks.extend(random_struct(rng, depth + 1))
            toks.append([")", []])
        else:
            r2 = rng.random()
            if r2 < 0.04:
                n = rng.choice([1000, 1001])
                s = [120] * n
                if rng.random() < 0.5:
                    s[rng.randrange(n)] = rng.choice(HOSTILE)
                if rng.random() < 0.3:
                    s[-1] = rng.choice([SP, 9, 120])
            elif r2 < 0.5:
                s = [rng.choice(HOSTILE) for _ in range(rng.randint(0, 6))]
            elif r2 < 0.6:
                s = list(rng.choice([b"NIL", b"nil", b"NI", b"NILL", b"{3}", b"{0}", b"{1}\r\n", b"()", b"\\", b'"', b'\\"', b"[", b"12", b"-7", b""]))
            else:
                # mostly harmless text with a sprinkle of hostile octets (so defect-free regions are explored too)
                s = [rng.choice([120, 97, 65, 48, 45, 46, 47]) for _ in range(rng.randint(0, 8))]
                if rng.random() < 0.4 and s:
                    s[rng.randrange(len(s))] = rng.choice([DQ, CR, LF, LB, RB, LP, RP, SP, 200, 91, 93, 0, 9, 37, 42])
            toks.append(["s", s])
    return toks


# ---------------------------------------------------------------- shrinking (TLC decides every step)
def key(toks):
    return json.dumps(toks, separators=(",", ":"))


def variants(toks, cap=160):
    """One-move reductions, biggest first: delete item, unwrap list, delete octet, octet -> 'x'."""
    out = []
    if len(toks) > 1:                       # biggest move first: a single item alone
        for i, (tag, p) in enumerate(toks):
            if tag in ("s", "nil", "i"):
                out.append([toks[i]])
    for i, (tag, p) in enumerate(toks):
        if tag in ("s", "nil", "i"):
            out.append(toks[:i] + toks[i + 1:])
    for i, (tag, p) in enumerate(toks):
        if tag == "(":
            d = 0
            for j in range(i, len(toks)):
                if toks[j][0] == "(":
                    d += 1
                elif toks[j][0] == ")":
                    d -= 1
                    if d == 0:
                        out.append(toks[:i] + toks[i + 1:j] + toks[j + 1:])
                        break
    for i, (tag, p) in enumerate(toks):
        if tag == "s":
            idxs = range(len(p)) if len(p) <= 12 else [0, 1, len(p) // 2, len(p) - 2, len(p) - 1]
            if len(p) > 12:
                out.append(toks[:i] + [["s", p[: len(p) // 2]]] + toks[i + 1:])
                out.append(toks[:i] + [["s", p[len(p) // 2:]]] + toks[i + 1:])
            for j in idxs:
                out.append(toks[:i] + [["s", p[:j] + p[j + 1:]]] + toks[i + 1:])
        elif tag == "i" and p[0] != 0:
            out.append(toks[:i] + [["i", [0]]] + toks[i + 1:])
    for i, (tag, p) in enumerate(toks):
        if tag == "s":
            odd = [j for j in range(len(p)) if p[j] != 120]
            if len(p) > 12 and len(odd) > 1:      # long string: all but the last special octet -> 'x' in one move
                q = [120] * len(p)
                q[odd[-1]] = p[odd[-1]]
                out.append(toks[:i] + [["s", q]] + toks[i + 1:])
            for j in odd[:12]:
                out.append(toks[:i] + [["s", p[:j] + [120] + p[j + 1:]]] + toks[i + 1:])
    return out[:cap]


class Oracle:
    """Memoised 'does the real code fail the property on this structure' -- answered by TLC only."""

    def __init__(self, ctx):
        self.ctx = ctx
        self.memo = {}      # key -> (fails, trace)
        self.runs = 0

    def learn(self, traces, rejidx):
        for i, t in enumerate(traces):
            self.memo[key(t["toks"])] = (i in rejidx, t)

    def ask(self, list_of_toks):
        new = {}
        for tk in list_of_toks:
            k = key(tk)
            if k not in self.memo and k not in new:
                new[k] = run_case(tk)
        if new:
            ts = list(new.values())
            self.rounds = getattr(self, "rounds", 0) + 1
            rej = self.ctx.validate("ImapSexpTrace", ts, count=False, shard_size=4000)
            self.runs += len(ts)
            self.learn(ts, {x.idx for x in rej})

    def fails(self, toks):
        return self.memo[key(toks)][0]


def shrink(oracle, seeds, max_rounds=40):
    """Lock-step greedy delta debugging of several failing structures; returns {key(seed): minimal toks}."""
    cur = {key(s): s for s in seeds}
    done = {}
    for _ in range(max_rounds):
        if not cur:
            break
        allv = {}
        for k, t in cur.items():
            allv[k] = variants(t)
        oracle.ask([v for vs in allv.values() for v in vs])
        nxt = {}
        for k, t in cur.items():
            f = next((v for v in allv[k] if oracle.fails(v)), None)
            if f is None:
                done[k] = t
            else:
                nxt[k] = f
        cur = nxt
    done.update(cur)    # not converged within max_rounds: keep what we have
    return done


def remove_classes(toks, cl):
    out = []
    for tag, p in toks:
        if tag == "s":
            p = [b for b in p if bcls(b) not in cl]
            if "LONG" in cl and len(p) > 1000:
                p = p[:999] + p[-1:]
        out.append([tag, p])
    return out


def fingerprint(mintoks, blame):
    return "roundtrip/%s/min=%s" % (blame, sig(mintoks))


def describe(t):
    toks = t["toks"]
    obj = to_obj(toks)
    e1 = t["ev"][0]
    out = bytes(e1["out"])
    last = t["ev"][-1]
    if last["e"] == "parse" and last["exc"] == "":
        got = repr(to_obj(last["toks"])) if all(x[0] in ("s", "nil", "(", ")") for x in last["toks"]) else repr(last["toks"])
    else:
        got = "exception " + last["exc"] + " in " + last["e"]
    import re
    r = "collapseNestedLists(%r) = %r; parseNestedParens of that gives %s" % (obj, out, got)
    r = re.sub(r"x{20,}", lambda m: "x{%d}" % len(m.group(0)), r)
    return r if len(r) < 600 else r[:600] + "..."


def report(ctx, traces, rejidx, oracle, quick_budget=True):
    """Attribute every TLC-rejected run to a minimal failing structure (shrunk on the real code, TLC deciding)."""
    failing = [traces[i] for i in sorted(rejidx)]
    if not failing:
        return
    # representatives: the distinct failing structures, smallest first
    size = lambda tk: (sum(len(p) for _, p in tk) + len(tk), key(tk))
    reps = sorted({key(t["toks"]): t["toks"] for t in failing}.values(), key=size)
    mins = {}           # sig -> minimal failing structure
    attributed = {}     # key(structure) -> sig of the minimal structure that explains it
    alias = {}          # key(original) -> reduced structure that still fails (explained via that one)
    pending = list(reps)
    for rounds in range(3):
        if not pending:
            break
        # 1. delta-debug the smallest pending structures on the real code
        for k, mt in shrink(oracle, pending[:25]).items():
            mins.setdefault(sig(mt), mt)
            attributed[k] = sig(mt)
        pending = [tk for tk in pending if key(tk) not in attributed]
        # 2. explain the others: removing every octet class that occurs in a minimal structure must make them pass
        causes = set()
        for mt in mins.values():
            causes |= classes(mt)
        stripped = {key(tk): remove_classes(tk, causes) for tk in pending}
        oracle.ask(list(stripped.values()))
        nxt = {}
        for tk in pending:
            s_ = stripped[key(tk)]
            cand = [sg for sg, mt in sorted(mins.items()) if classes(mt) and classes(mt) <= classes(tk)]
            if key(s_) != key(tk) and not oracle.fails(s_) and cand:
                attributed[key(tk)] = cand[0]
            elif key(s_) != key(tk) and oracle.fails(s_):
                alias[key(tk)] = s_
                nxt[key(s_)] = s_
            else:
                nxt[key(tk)] = tk
        pending = sorted(nxt.values(), key=size)
    if pending:
        res = shrink(oracle, pending[:40])
        for tk in pending:
            mt = res.get(key(tk), tk)
            mins.setdefault(sig(mt), mt)
            attributed[key(tk)] = sig(mt)
    def resolve(k, depth=0):
        if k in attributed:
            return attributed[k]
        if k in alias and depth < 5:
            return resolve(key(alias[k]), depth + 1)
        return None
    # blame for each minimal structure: does the reference tokeniser recover x from the REAL serialiser's output?
    mlist = sorted(mins.items())
    mtraces = [oracle.memo[key(mt)][1] if key(mt) in oracle.memo else run_case(mt) for _, mt in mlist]
    rr = ctx.validate("ImapSexpTrace", mtraces, cfg="ImapSexpTraceRef.cfg", count=False)
    at0 = {x.idx for x in rr if x.reached == 0}
    blame = {sg: ("serializer-output-not-RFC-parsable" if i in at0 else "client-parser") for i, (sg, _) in enumerate(mlist)}
    ctx.extra["minimal_failing_structures"] = {sg: describe(mtraces[i]) for i, (sg, _) in enumerate(mlist)}
    ctx.extra["shrink_real_runs"] = oracle.runs
    ctx.extra["shrink_tlc_batches"] = getattr(oracle, "rounds", 0)
    ctx.log("attribution: %d extra real runs in %d TLC batches, %d minimal structures" % (oracle.runs, getattr(oracle, "rounds", 0), len(mins)))
    counts = {}
    for t in failing:
        sg = resolve(key(t["toks"])) or sig(t["toks"])
        counts[sg] = counts.get(sg, 0) + 1
        mt = mins.get(sg, t["toks"])
        mtr = oracle.memo[key(mt)][1] if key(mt) in oracle.memo else t
        ctx.violation(fingerprint(mt, blame.get(sg, "client-parser")),
                      "minimal failing structure: " + describe(mtr), dict(toks=mt, first_seen=t["toks"] if len(key(t["toks"])) < 2000 else "long"))
    ctx.extra["failing_runs_by_minimal_structure"] = counts


def mutate(t, rng):
    ev = t["ev"]
    if len(ev) < 2 or ev[1]["exc"]:
        return None
    r = rng.random()
    toks = ev[1]["toks"]
    strs = [i for i, x in enumerate(toks) if x[0] == "s"]
    if r < 0.4 and strs:
        i = rng.choice(strs)
        toks[i][1] = toks[i][1] + [120]
    elif r < 0.6 and toks:
        del toks[rng.randrange(len(toks))]
    elif r < 0.8:
        ev[1]["exc"] = "MismatchedNesting"
    else:
        del ev[0]
    return t


def nontrivial(t):
    return any(tag == "(" or (tag == "s" and any(not (48 <= b <= 57 or 65 <= b <= 90 or 97 <= b <= 122) for b in p)) for tag, p in t["toks"])


def run(ctx):
    from harness.core import MachineryError

    for cfg, lab in ((ctx.pick("ImapSexpMC.cfg", "ImapSexpMC.thorough.cfg"), "octet-stepped tokeniser"),
                     (ctx.pick("ImapSexpMCFold.cfg", "ImapSexpMCFold.thorough.cfg"), "one-shot, longer strings"),
                     (ctx.pick("ImapSexpMCFold2.cfg", "ImapSexpMCFold2.thorough.cfg"), "one-shot, two items")):
        r = ctx.mc("ImapSexpMC", cfg, label=lab)
        if not r.ok:
            raise MachineryError("ImapSexp reference serialiser/tokeniser do not round-trip: " + r.error)
    kinds = ["space", "open", "close", "qstart", "lstart", "astart", "aend", "aendclose", "achar", "qesc", "qend", "qchar",
             "qescaped", "ldigit", "lbrace", "lcr", "llf", "lchar"]
    ctx.require_actions("ImapSexpMC", ["AddOctet", "OpenStr", "BCloseStr", "AddNil", "AddInt", "OpenList", "BClose", "Serialize", "PFinish"] + ["P_" + k for k in kinds])

    L = ctx.pick(2, 3)
    traces = [run_case(tk) for tk in exhaustive(L)]
    nex = len(traces)
    ctx.exhaustive = True
    ctx.extra["exhaustive_string_len"] = L
    for _ in range(ctx.pick(2500, 25000)):
        traces.append(run_case(random_struct(ctx.rng)))
    for t in traces:
        ctx.note_trace(t, nontrivial=nontrivial(t))
    ctx.log("recorded %d real executions (%d exhaustive)" % (len(traces), nex))
    rej = ctx.validate("ImapSexpTrace", traces, shard_size=ctx.pick(1500, 4000))
    rejidx = {x.idx for x in rej}
    ctx.log("%d of %d real executions rejected by TLC" % (len(rejidx), len(traces)))
    oracle = Oracle(ctx)
    oracle.learn(traces, rejidx)
    report(ctx, traces, rejidx, oracle)

    good = [t for i, t in enumerate(traces) if i not in rejidx]
    # diagnostic on accepted runs: real serialiser output vs the reference tokeniser
    sample = [t for t in good if sum(len(p) for _, p in t["toks"]) < 200][:: max(1, len(good) // ctx.pick(800, 10000))]
    rr = ctx.validate("ImapSexpTrace", sample, cfg="ImapSexpTraceRef.cfg", count=False)
    ctx.extra["real_serialiser_vs_reference_tokeniser_checked"] = len(sample)
    ctx.extra["real_serialiser_vs_reference_tokeniser_mismatches"] = len(rr)
    ctx.impl_drift += len(rr)
    # spec -> code (diagnostic): TLC's REFERENCE serialisation of every small structure fed to the real parser
    from harness.core import extract_printed
    rs = ctx.mc("ImapSexpMC", ctx.pick("ImapSexpSer.cfg", "ImapSexpSer.thorough.cfg"), label="reference serialisations printed")
    if not rs.ok:
        raise MachineryError("ImapSexpSer run failed: " + rs.error)
    rts = []
    for j in sorted({v[1] for v in extract_printed(rs.out, "BEH")}):
        b = json.loads(j)
        rts.append(run_parse_only(b["x"], b["out"]))
    rr2 = ctx.validate("ImapSexpTrace", rts, count=False, shard_size=4000)
    at1 = [x for x in rr2 if x.reached >= 1]
    if len(at1) != len(rr2):
        raise MachineryError("reference serialisation printed by TLC is not Ser(x) according to the trace spec")
    ctx.extra["real_parser_on_reference_serialisation_checked"] = len(rts)
    ctx.extra["real_parser_on_reference_serialisation_mismatches"] = len(rr2)
    ctx.extra["real_parser_on_reference_serialisation_mismatch_classes"] = sorted({",".join(sorted(classes(rts[x.idx]["toks"]))) for x in rr2})[:40]
    ctx.impl_drift += len(rr2)
    small = [t for t in good if sum(len(p) for _, p in t["toks"]) < 100]
    ctx.selftest_rejects("ImapSexpTrace", small[-300:], mutate, n=20)


def replay(ctx, obj):
    t = run_case(obj["toks"])
    ctx.note_trace(t)
    rej = ctx.validate("ImapSexpTrace", [t])
    oracle = Oracle(ctx)
    oracle.learn([t], {x.idx for x in rej})
    report(ctx, [t], {x.idx for x in rej}, oracle)
    for e in t["ev"]:
        print(e)
