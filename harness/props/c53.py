"""C53 -- rotating log files lose and reorder nothing.

Spec:     specs/LogRotate.tla (Abs = the property), specs/LogRotateImpl.tla (LogFile.write / rotate /
          _openFile as coded, over specs/lib/FsModel.tla; LogRotateMC = exhaustive TLC run with a crash at
          every point of rotate()), LogRotateTrace (verdict), LogRotateImplTrace (drift).
Binding:  the real twisted.python.logfile.LogFile on a scratch directory: writes of bytes and of (multi-byte)
          text, reopen(), close + new LogFile, a crash injected at every mutating file-system call of
          rotate() followed by a new LogFile; the directory is listed after every call and each file is
          parsed back into the chunks that were written.  TLC decides.
"""
import itertools
import os
import shutil

META = dict(
    id="C53",
    specs=["LogRotate.tla", "LogRotateImpl.tla", "LogRotateMC.tla", "LogRotateTrace.tla", "LogRotateImplTrace.tla", "lib/FsModel.tla"],
    technique="TLA+ spec of size-based log rotation (write, rotation cascade, retention, reopen) over a file-system model, TLC exhaustive with a crash at every step of rotate() + TLC trace validation of real LogFile executions (bytes and multi-byte text, all small rotation lengths and retention counts, reopenings, crash at every intercepted file-system call of rotate())",
    level_text="TLC proves on the design (LogRotateImpl over FsModel) for every history up to the stated bounds, every rotateLength/maxRotatedFiles combination and a crash at every step of rotate(), that rotated files oldest-first plus the current file are a suffix of everything written (everything, without a retention count), every rotated file had at least rotateLength bytes, exactly the newest N rotated files are kept, and a crash never reorders; every recorded execution of the real LogFile is validated by TLC against the property specification LogRotate on the directory listing after every call.",
    level_note="Trusted: TLC; the interception layer (process-crash model, crash only at the file-system calls of rotate(), as the property states); chunk identities are recovered by parsing file contents (each written chunk is a distinct byte pattern). When rotation must happen is not decided (the property only bounds it from below); after a crash in a history with a retention count only order/suffix/at-most-N are required of later rotations. maxRotatedFiles=0 is outside the generated domain (see notes).",
    design_ref="2.9 C53",
    rule="case = (rotateLength, maxRotatedFiles, history of bytes/text writes, reopen, restart, crash points inside rotate()); distinct = hash of (cfg, events); non-trivial = at least two different event kinds",
)

LOGNAME = "app.log"
TEXT_BASE = {2: 0x100, 3: 0x4E00, 4: 0x1F600}


def chunk_bytes(c, op):
    """The data argument of write number c and its UTF-8 bytes."""
    if op[1] == "b":
        data = bytes([c]) * op[2]                 # c < 100: plain ASCII-range byte, unique per chunk
        return data, data
    ch = chr(TEXT_BASE[op[3]] + c)                # one code point per chunk, op[3] bytes wide in UTF-8
    data = ch * op[2]
    return data, data.encode("utf8")


def run_trace(work, case, plans, seq=[0]):
    """case: {"L": rotateLength or 0, "N": maxRotatedFiles or 0, "ops": [["w","b",n] | ["w","t",n,width] | ["reopen"] | ["restart"]]}
    plans: {op index: {"at": i}} -- the process dies at mutating call i of that write (only calls that precede the
    data write, i.e. inside rotate(), are crash points)."""
    from twisted.python.logfile import LogFile
    from harness.adapters.c51_fs import FsTap, run_tapped

    seq[0] += 1
    root = os.path.join(work, "r%d" % seq[0])
    shutil.rmtree(root, ignore_errors=True)
    os.makedirs(root)
    L, N = case["L"], case["N"]
    chunks = {}          # id -> bytes

    def namer(path):
        n = os.path.basename(path)
        if n == LOGNAME:
            return ["log", 0]
        if n.startswith(LOGNAME + "."):
            try:
                return ["log", int(n[len(LOGNAME) + 1:])]
            except ValueError:
                pass
        return ["other:" + n, -1]

    def ident(data):
        for c, b in chunks.items():
            if b == bytes(data):
                return c
        return 0

    def parse(b):
        ids, p = [], 0
        while p < len(b):
            for c, cb in chunks.items():
                if b.startswith(cb, p):
                    ids.append(c)
                    p += len(cb)
                    break
            else:
                ids.append(0)          # bytes nobody wrote (or a torn chunk)
                break
        return ids

    def view():
        v = []
        for n in os.listdir(root):
            with open(os.path.join(root, n), "rb") as f:
                b = f.read()
            v.append([namer(n)[1], parse(b)])
        v.sort(key=lambda e: -e[0])
        return {"e": "view", "v": v}

    def new_process():
        tap = FsTap(root, namer, ident=ident)
        # the property's crash points are inside rotate(): never at a data write that no rotate() call preceded
        tap.crash_ok = lambda op, i: op != "write" or i > 0
        st, x = run_tapped(tap, lambda: LogFile(LOGNAME, root, rotateLength=L or None, maxRotatedFiles=N or None))
        return tap, st, x

    ev = []
    calls = {}
    tap, st, lf = new_process()
    if st != "ok":
        raise RuntimeError("LogFile() failed on an empty directory: %r" % (lf,))
    ev.append(view())
    nchunk = 0
    for j, op in enumerate(case["ops"]):
        plan = plans.get(j) or plans.get(str(j))
        if op[0] == "w":
            nchunk += 1
            data, raw = chunk_bytes(nchunk, op)
            chunks[nchunk] = raw
            ev.append({"e": "write", "c": nchunk, "sz": len(raw), "tsz": len(data)})
            tap.arm(crash_at=plan["at"] if plan else None)
            st, x = run_tapped(tap, lambda: lf.write(data))
            ev.extend(tap.events)
            calls[j] = list(tap.calls)
            if st == "ok":
                ev.append({"e": "ret", "res": "ok"})
            elif st == "exc":
                ev.append({"e": "ret", "res": "EXC:" + type(x).__name__})
                break
            else:
                ev.append({"e": "crash"})
                tap.reap()
                tap, st2, lf = new_process()
                ev.extend(tap.events)
                if st2 != "ok":
                    ev.append({"e": "ret", "res": "EXC:restart:" + type(lf).__name__})
                    break
                ev.append({"e": "restart"})
        elif op[0] == "reopen":
            tap.arm()
            st, x = run_tapped(tap, lambda: lf.reopen())
            ev.extend(tap.events)
            if st != "ok":
                ev.append({"e": "ret", "res": "EXC:reopen:" + type(x).__name__})
                break
            ev.append({"e": "reopen"})
        else:   # close + a new LogFile object (a clean process restart)
            tap.arm()
            st, x = run_tapped(tap, lambda: lf.close())
            ev.extend(tap.events)
            tap.reap()
            tap, st2, lf = new_process()
            ev.extend(tap.events)
            if st != "ok" or st2 != "ok":
                ev.append({"e": "ret", "res": "EXC:restart"})
                break
            ev.append({"e": "reopen"})
        ev.append(view())
    try:
        lf.close()
    except Exception:
        pass
    tap.reap()
    shutil.rmtree(root, ignore_errors=True)
    return {"cfg": {"L": L, "N": N}, "ev": ev, "case": case, "plans": {str(k): v for k, v in plans.items()}, "_calls": calls}


def rotate_crash_points(calls):
    """Indices of the mutating calls of a write that went through rotate(): before each call of rotate() and
    before the data write that follows it."""
    w = [i for i, c in enumerate(calls) if c[0] == "write"]
    if not w or w[-1] == 0:
        return []
    return list(range(0, w[-1] + 1))


def enumerate_crashes(work, case, which=None, limit=None):
    base = run_trace(work, case, {})
    yield base
    js = [j for j in sorted(base["_calls"]) if rotate_crash_points(base["_calls"][j])]
    if which is not None:
        js = which(js)
    for j in js:
        for at in rotate_crash_points(base["_calls"][j]):
            yield run_trace(work, case, {j: {"at": at}})


ALPHA = [["w", "b", 1], ["w", "b", 2], ["w", "t", 1, 2], ["reopen"]]


def random_case(rng, nops, Ls, Ns):
    ops = []
    for _ in range(nops):
        r = rng.random()
        if r < 0.5:
            ops.append(["w", "b", rng.choice([1, 1, 2, 3, 5])])
        elif r < 0.8:
            ops.append(["w", "t", rng.choice([1, 2, 3]), rng.choice([2, 3, 4])])
        elif r < 0.9:
            ops.append(["reopen"])
        else:
            ops.append(["restart"])
    # chunk ids must stay below 100 (byte chunks use the id as byte value)
    return {"L": rng.choice(Ls), "N": rng.choice(Ns), "ops": ops}


def fingerprint(t, reached):
    ev = t["ev"]
    e = ev[reached] if reached < len(ev) else {"e": "end"}
    what = "start"
    prev = None
    for x in ev[:reached]:
        if x["e"] in ("write", "reopen"):
            what = x["e"]
        elif x["e"] == "crash":
            what = "crash-in-rotate"
        elif x["e"] == "view":
            prev = x["v"]
    cfgc = "L%s:N%s" % ("0" if not t["cfg"]["L"] else "+", "0" if not t["cfg"]["N"] else "+")
    if e["e"] == "view" and prev is not None:
        flat = lambda v: [c for f in v for c in f[1]]
        a, b = flat(prev), flat(e["v"])
        if 0 in b:
            sym = "foreign-or-torn-bytes"
        elif len(set(b)) != len(b):
            sym = "duplicated"
        elif [c for c in b if c in a] != [c for c in a if c in b]:
            sym = "reordered"
        elif set(a) - set(b):
            sym = "lost" if (a and a[0] in b) or not t["cfg"]["N"] else "retention-or-early-loss"
        else:
            sym = "rotation-or-retention-rule"
    elif e["e"] == "ret":
        sym = "ret-" + e["res"]
    else:
        sym = e["e"]
    return "%s:%s:%s" % (what, cfgc, sym)


def mutate(t, rng):
    """Corrupt one directory listing: duplicate a chunk or swap two chunks (binding self-test)."""
    views = [i for i, e in enumerate(t["ev"]) if e["e"] == "view" and sum(len(f[1]) for f in e["v"]) >= 1]
    if not views:
        return None
    e = t["ev"][rng.choice(views)]
    files = [f for f in e["v"] if f[1]]
    allc = [c for f in e["v"] for c in f[1]]
    if len(allc) >= 2 and rng.random() < 0.5:
        # swap the first and the last retained chunk
        f0, f1 = files[0], files[-1]
        f0[1][0], f1[1][-1] = f1[1][-1], f0[1][0]
    else:
        f = rng.choice(files)
        f[1].append(f[1][-1])
    return t


def mutate_impl(t, rng):
    fs = [i for i, e in enumerate(t["ev"]) if e["e"] == "fs" and e["op"] != "write"]
    if not fs:
        return None
    i = rng.choice(fs)
    if rng.random() < 0.5:
        del t["ev"][i]
    else:
        t["ev"][i]["op"] = {"rename": "remove", "open": "rename", "remove": "rename"}[t["ev"][i]["op"]]
    return t


def strip(t):
    return {k: v for k, v in t.items() if not k.startswith("_")}


def run(ctx):
    from harness.core import MachineryError
    r = ctx.mc("LogRotateMC", ctx.pick("LogRotateMC.cfg", "LogRotateMC.thorough.cfg"))
    if not r.ok:
        raise MachineryError("LogRotateImpl violates the property on the design: %s\n%s" % (r.error, "".join(r.cex[-6:])))
    ctx.require_actions("LogRotateMC", ["IWrite", "RotStep", "RotMove", "RotOpen", "Data", "Ret", "ICrash", "RestartCreate", "IRestart", "IReopen", "IView"])

    rng = ctx.rng
    traces = []
    # (1) exhaustive: every history of `depth` calls over {1 byte, 2 bytes, one 2-byte character, reopen()} for every
    #     rotateLength 1..3 and retention None/1/2, with a crash at every point of every rotate()
    depth = ctx.pick(3, 4)
    alpha = ctx.pick([ALPHA[0], ALPHA[2], ALPHA[3]], ALPHA)
    for Lv, Nv in itertools.product([1, 2, 3], [0, 1, 2]):
        for ops in itertools.product(alpha, repeat=depth):
            traces.extend(enumerate_crashes(ctx.work, {"L": Lv, "N": Nv, "ops": [list(o) for o in ops]}))
    n_exh = len(traces)
    ctx.exhaustive = True
    ctx.extra["exhaustive_depth"] = depth
    ctx.extra["exhaustive_traces"] = n_exh
    # (2) random longer histories: deep cascades, retention 1..3, rotation disabled, long chunks, wide characters,
    #     restarts; every crash point of some rotations; several crashes in one history
    nrand = ctx.pick(40, 600)
    for i in range(nrand):
        case = random_case(rng, rng.randint(6, 24), [0, 1, 2, 3, 4, 6, 10], [0, 0, 1, 2, 3])
        pick = lambda js: rng.sample(js, min(len(js), ctx.pick(2, 3)))
        got = list(enumerate_crashes(ctx.work, case, which=pick))
        traces.extend(got)
        base = got[0]
        plans = {}
        for j, cs in base["_calls"].items():
            pts = rotate_crash_points(cs)
            if pts and rng.random() < 0.4:
                plans[j] = {"at": rng.choice(pts)}
        if plans:
            traces.append(run_trace(ctx.work, case, plans))
    traces = [strip(t) for t in traces]
    ctx.note_traces(traces)
    ctx.log("recorded %d real executions (%d in the exhaustive part)" % (len(traces), n_exh))
    ctx.extra["crash_runs"] = sum(1 for t in traces if t["plans"])
    from harness.adapters.c51_fs import validate_layers
    rej, drift, slim = validate_layers(ctx, "LogRotateTrace", "LogRotateImplTrace", traces)
    for idx, reached in rej[:50]:
        t = traces[idx]
        ctx.violation(fingerprint(t, reached), "real LogFile execution not allowed by LogRotate.tla at event %d: %s (cfg %s)" % (
            reached, t["ev"][reached] if reached < len(t["ev"]) else None, t["cfg"]),
            dict(case=t["case"], plans=t["plans"], rejected_at=reached))
    ctx.impl_drift += len(drift)
    for idx, reached in drift[:5]:
        t = traces[idx]
        ctx.log("impl drift (not a violation): event %d %s of case=%s plans=%s" % (
            reached, t["ev"][reached] if reached < len(t["ev"]) else None, t["case"], t["plans"]))
    bad = {i for i, _ in rej}
    drifted = {i for i, _ in drift}
    ctx.selftest_rejects("LogRotateTrace", [slim[i] for i in range(len(traces)) if i not in bad][-300:], mutate, n=20)
    nodrift = [{"cfg": t["cfg"], "ev": t["ev"]} for i, t in enumerate(traces) if i not in bad and i not in drifted]
    if nodrift:
        ctx.selftest_rejects("LogRotateImplTrace", nodrift[-300:], mutate_impl, n=12)


def replay(ctx, obj):
    t = strip(run_trace(ctx.work, obj["case"], {int(k): v for k, v in obj["plans"].items()}))
    ctx.note_trace(t)
    for e in t["ev"]:
        print(e)
    for x in ctx.validate("LogRotateTrace", [t]):
        ctx.violation(fingerprint(t, x.reached), "replayed execution rejected at event %d: %s" % (
            x.reached, t["ev"][x.reached] if x.reached < len(t["ev"]) else None),
            dict(case=t["case"], plans=t["plans"], rejected_at=x.reached))
