"""C16 -- framed-message receivers are segmentation-invariant with exact length limits.

Spec:     specs/Framing.tla (reference framing automaton per receiver kind + Rel), FramingMC (TLC: the
          receivers' algorithms as coded against the reference, all streams/splits), FramingTrace.
Binding:  real LineReceiver / LineOnlyReceiver / NetstringReceiver / Int8/16/32StringReceiver subclasses
          on a StringTransport.  The test application reacts to message contents ('Q' -> loseConnection,
          'P' -> pauseProducing, 'R<d>' -> raw mode for d bytes then setLineMode(rest)); the same script
          is part of the spec.  A trace = stream elements, cuts, resume plan, per call the events raised;
          each step also carries the events of a one-piece run of the same prefix.  TLC decides.
"""
import itertools

META = dict(
    id="C16",
    specs=["Framing.tla", "FramingMC.tla", "FramingTrace.tla", "FramingSim.tla"],
    technique="TLA+ reference framing automata (line/CRLF+LF, netstring, int8/16/32) with a relation leaving oversize-report timing free; TLC exhaustively checks Impl-layer transcriptions of the receivers' algorithms against it for all streams over a class alphabet and all splits; TLC trace validation of real receiver runs (all splits of short streams, grammar-based random streams, lengths around small and default MAX_LENGTH, pause/resume, raw mode, sendLine/sendString round trip) incl. differential comparison with one-piece runs of every prefix reached",
    level_text="TLC checks on the specification that the receivers' algorithms produce, for every stream up to the stated length and every split, exactly the reference framing (a message within the maximum never rejected, a longer one never delivered); every recorded execution of the real receivers is validated by TLC against the reference and against the one-piece run of the same prefix, every logged event compared.",
    level_note="Trusted: TLC, the adapter's event logging, the scripted test application (modelled in the spec). Oversize notifications are compared by kind and count, not argument. Events after the first close request are not compared (as the property says). Streams longer than the enumerated length are sampled.",
    design_ref="2.6 C16",
    rule="case = (receiver kind, MAX_LENGTH, delimiter/prefix size, element stream, cuts, resume plan); distinct = hash of all of it; non-trivial = at least two calls or at least one message event",
)

RUN = 1000
X = 0x78
KINDS = ("LR", "LO", "NS", "IN")


def conc(elems):
    return [bytes([e]) if e < RUN else b"x" * (e - RUN) for e in elems]


def enc(data):
    """bytes -> elements (every maximal run of 'x' becomes one run element)."""
    out = []
    for b in data:
        if b == X:
            if out and out[-1] >= RUN:
                out[-1] += 1
            else:
                out.append(RUN + 1)
        else:
            out.append(b)
    return out


def norm(elems):
    """generator helper: literal 'x' bytes become run elements (adjacent runs are fine)."""
    return [RUN + 1 if e == X else e for e in elems]


def make(cfg, ev):
    """Build the real receiver for cfg on a recording StringTransport; events go to `ev`."""
    from twisted.protocols import basic
    from twisted.internet.testing import StringTransport

    class T(StringTransport):
        def loseConnection(self):
            ev.append(["close", []])
            StringTransport.loseConnection(self)

    class App:
        apppaused = False

        def react(self, data):
            if data[:1] == b"Q":
                self.transport.loseConnection()
            elif data[:1] == b"P" and cfg["kind"] in ("LR", "IN"):
                self.apppaused = True
                self.pauseProducing()
            elif cfg["kind"] == "LR" and len(data) >= 2 and data[:1] == b"R" and data[1:2] in b"123456789":
                self.rawleft = data[1] - 48
                self.setRawMode()

        def lineReceived(self, line):
            ev.append(["line", enc(line)])
            self.react(line)

        def stringReceived(self, s):
            ev.append(["str", enc(s)])
            self.react(s)

        def rawDataReceived(self, data):
            n = min(len(data), self.rawleft)
            ev.append(["raw", enc(data[:n])])
            self.rawleft -= n
            if self.rawleft == 0:
                self.setLineMode(data[n:])

        def lineLengthExceeded(self, line):
            ev.append(["exc", []])
            return self.base.lineLengthExceeded(self, line)

        def lengthLimitExceeded(self, length):
            ev.append(["exc", []])
            return self.base.lengthLimitExceeded(self, length)

    base = {"LR": basic.LineReceiver, "LO": basic.LineOnlyReceiver, "NS": basic.NetstringReceiver,
            "IN": {1: basic.Int8StringReceiver, 2: basic.Int16StringReceiver, 4: basic.Int32StringReceiver}.get(cfg["n"])}[cfg["kind"]]
    P = type("P", (App, base), {"base": base})
    p = P()
    if cfg["max"] >= 0:                       # -1: keep the class default
        p.MAX_LENGTH = cfg["max"]
    if cfg["kind"] in ("LR", "LO"):
        p.delimiter = bytes(cfg["dlm"])
    t = T()
    p.makeConnection(t)
    return p, t


def default_max(kind):
    return 16384 if kind in ("LR", "LO") else 99999


def call(ev, f, *a):
    del ev[:]
    try:
        f(*a)
    except BaseException as e:          # not an action of the spec: the step is rejected
        ev.append(["EXC:" + type(e).__name__, []])
    return [[k, list(c)] for k, c in ev]


def one_piece(cfg, pieces):
    ev = []
    p, t = make(cfg, ev)
    out = call(ev, p.dataReceived, b"".join(pieces))
    n = 0
    while getattr(p, "apppaused", False) and not t.disconnecting and n < 200:
        p.apppaused = False
        out += call(ev, p.resumeProducing)
        n += 1
    return out


def run_stream(cfg, elems, cuts, plan=(), want=None, tag=""):
    """Split run on the real receiver + one-piece runs of every prefix reached."""
    pieces = conc(elems)
    ev = []
    p, t = make(cfg, ev)
    tcfg = dict(cfg)
    if tcfg["max"] < 0:
        tcfg["max"] = default_max(cfg["kind"])
    events = []
    plan = list(plan)
    pi = 0
    bounds = [0] + sorted(set(c for c in cuts if 0 < c < len(elems))) + [len(elems)]
    segs = list(zip(bounds, bounds[1:]))
    si = 0
    while not t.disconnecting:
        paused = getattr(p, "apppaused", False)
        if paused:
            decide = plan[pi] if pi < len(plan) else 1
            pi += 1
            if decide or si >= len(segs):
                p.apppaused = False
                out = call(ev, p.resumeProducing)
                events.append({"e": "resume", "out": out, "one": one_piece(cfg, pieces[:segs[si - 1][1] if si else 0])})
                continue
        if si >= len(segs):
            break
        a, b = segs[si]
        si += 1
        out = call(ev, p.dataReceived, b"".join(pieces[a:b]))
        events.append({"e": "data", "n": b - a, "out": out, "one": one_piece(cfg, pieces[:b])})
    return {"cfg": tcfg, "rawmax": cfg["max"], "str": list(elems), "cuts": sorted(cuts), "plan": plan,
            "haswant": want is not None, "want": want or [], "tag": tag, "ev": events}


# ---------------------------------------------------------------- generators
def all_cuts(n):
    for k in range(n):
        for c in itertools.combinations(range(1, n), k):
            yield list(c)


def random_cuts(rng, n, hot=()):
    """random cut set; `hot` = positions worth cutting at (inside delimiters, prefixes, at the limit)."""
    if n < 2:
        return []
    r = rng.random()
    if r < 0.1:
        return []
    if r < 0.25:
        return list(range(1, n))
    k = rng.randint(1, min(5, n - 1))
    cs = set(rng.sample(range(1, n), k))
    for h in hot:
        if 0 < h < n and rng.random() < 0.5:
            cs.add(h)
    return sorted(cs)


def lens_around(rng, m):
    return rng.choice([0, 1, m - 1, m, m, m + 1, m + 2, max(0, m // 2), 2 * m + 1])


def content(rng, n, first=None, avoid=()):
    """n bytes of message content as elements: runs of x plus a few distinct/boundary bytes."""
    if n <= 0:
        return []
    out = [first] if first is not None else []
    pool = [b for b in (0x00, 0x0d, 0x0a, 0x20, 0x2c, 0x3a, 0x30, 0x39, 0x61, 0x7f, 0x80, 0xff, 0x41) if b not in avoid]
    left = n - len(out)
    while left > 0:
        if left > 6 or rng.random() < 0.5:
            k = left if rng.random() < 0.6 else rng.randint(1, left)
            out.append(RUN + k)
            left -= k
        else:
            out.append(rng.choice(pool))
            left -= 1
    return out


def gen_lines(rng, kind, m, dlm):
    """(elements, hot cut positions): lines with lengths around m, P/Q/R reactions, bare CR / LF inside."""
    el, hot = [], []
    for _ in range(rng.randint(1, 5)):
        n = lens_around(rng, m)
        r = rng.random()
        first = None
        if n >= 1 and r < 0.12 and kind == "LR":
            first = 80
        elif n >= 1 and r < 0.18:
            first = 81
        avoid = (0x0a,) if dlm == [10] else ()
        c = content(rng, n, first, avoid)
        if dlm == [13, 10]:
            # "\r\n" must not appear inside the content: drop LF that follows CR
            c = [b for i, b in enumerate(c) if not (b == 10 and i > 0 and c[i - 1] == 13)]
        if kind == "LR" and m >= 2 and rng.random() < 0.15:
            d = rng.randint(1, 9)
            el += [82, 48 + d] + dlm
            raw = content(rng, d, None)
            el += raw
            hot += [len(el) - 1, len(el)]
            continue
        el += c
        hot += [len(el), len(el) + 1]
        el += dlm
        hot.append(len(el))
    if rng.random() < 0.4:
        el += content(rng, lens_around(rng, m), None, (0x0a, 0x0d))      # unterminated tail
        if rng.random() < 0.5 and dlm == [13, 10]:
            el.append(13)
    return el, hot


def gen_netstrings(rng, m):
    el, hot = [], []
    for _ in range(rng.randint(1, 4)):
        n = lens_around(rng, m)
        first = 81 if n >= 1 and rng.random() < 0.08 else None
        el += list(str(n).encode()) + [0x3a]
        hot += [len(el) - 1, len(el)]
        el += content(rng, n, first)
        hot.append(len(el))
        el.append(0x2c)
    r = rng.random()
    if r < 0.15:
        el += rng.choice([[0x30, 0x31, 0x3a], [0x3a], [0x61], [0x31, 0x3a, 0x61, 0x62], [0x2d, 0x31, 0x3a], [0x31, 0x20, 0x3a]])
    elif r < 0.3:
        el += list(str(rng.choice([m, m + 1, 10 * m, 10 ** 7])).encode())
    return el, hot


def gen_intn(rng, n, m):
    el, hot = [], []
    cap = 256 ** n - 1
    for _ in range(rng.randint(1, 4)):
        ln = min(lens_around(rng, m), cap)
        r = rng.random()
        first = 80 if ln >= 1 and r < 0.12 else 81 if ln >= 1 and r < 0.18 else None
        pre = list(ln.to_bytes(n, "big"))
        hot += [len(el) + i for i in range(1, n + 1)]
        el += pre
        if ln > m:
            el += content(rng, rng.randint(0, 3), None)
            break
        el += content(rng, ln, first)
        hot.append(len(el))
    if rng.random() < 0.2:
        el += list(min(cap, rng.choice([cap, m + 1, 256 ** n // 2])).to_bytes(n, "big"))[:rng.randint(1, n)]
    return el, hot


def cfgs_small(rng):
    k = rng.choice(KINDS)
    if k in ("LR", "LO"):
        return {"kind": k, "max": rng.choice([1, 2, 3, 4, 7]), "dlm": rng.choice([[13, 10], [10]]), "n": 0}
    if k == "NS":
        return {"kind": k, "max": rng.choice([1, 2, 9, 10, 12]), "dlm": [], "n": 0}
    return {"kind": k, "max": rng.choice([1, 2, 3, 5]), "dlm": [], "n": rng.choice([1, 2, 4])}


def cfgs_default(rng):
    k = rng.choice(KINDS)
    if k in ("LR", "LO"):
        return {"kind": k, "max": -1, "dlm": rng.choice([[13, 10], [10]]), "n": 0}
    if k == "NS":
        return {"kind": k, "max": -1, "dlm": [], "n": 0}
    return {"kind": k, "max": -1, "dlm": [], "n": rng.choice([2, 4])}      # Int8 cannot express 99999


def gen_for(rng, cfg):
    m = cfg["max"] if cfg["max"] >= 0 else default_max(cfg["kind"])
    if cfg["kind"] in ("LR", "LO"):
        return gen_lines(rng, cfg["kind"], m, cfg["dlm"])
    if cfg["kind"] == "NS":
        return gen_netstrings(rng, m)
    return gen_intn(rng, cfg["n"], m)


def exhaustive_cases(quick):
    """(cfg, alphabet, maxlen): every stream over the alphabet up to maxlen, every split."""
    CRLF, LFd = [13, 10], [10]
    x = RUN + 1
    L = 4 if quick else 6
    cases = []
    for kind in ("LR", "LO"):
        for dlm in (CRLF, LFd):
            cases.append(({"kind": kind, "max": 2, "dlm": dlm, "n": 0}, [13, 10, x], L if dlm == CRLF or quick else L - 1))
    cases.append(({"kind": "LR", "max": 2, "dlm": CRLF, "n": 0}, [13, 10, x, 80], L - 1))
    cases.append(({"kind": "LO", "max": 1, "dlm": CRLF, "n": 0}, [13, 10, x, 81], L - 1))
    cases.append(({"kind": "NS", "max": 2, "dlm": [], "n": 0}, [0x30, 0x31, 0x33, 0x3a, 0x2c, x], L - 1 if quick else L - 2))
    cases.append(({"kind": "IN", "max": 2, "dlm": [], "n": 1}, [0, 1, 2, 3, x], L - 1))
    cases.append(({"kind": "IN", "max": 2, "dlm": [], "n": 2}, [0, 2, 3, x], L - 1 if quick else L - 2))
    if not quick:
        cases.append(({"kind": "IN", "max": 1, "dlm": [], "n": 4}, [0, 1, 2, x], 6))
    return cases


def send_roundtrip(rng, cfg):
    """Messages sent with the real send method on one instance, received by another."""
    ev = []
    sender, st = make(cfg, ev)
    m = cfg["max"] if cfg["max"] >= 0 else default_max(cfg["kind"])
    msgs = []
    for _ in range(rng.randint(1, 4)):
        n = rng.choice([0, 1, m - 1, m, max(0, m // 2)])
        if cfg["kind"] == "IN":
            n = min(n, 256 ** cfg["n"] - 1)
        c = content(rng, n, None, (0x0a,) if cfg["dlm"] == [10] else ())
        if c and c[0] in (80, 81, 82):
            c[0] = 0x61
        if cfg["dlm"] == [13, 10]:
            c = [b for i, b in enumerate(c) if not (b == 10 and i > 0 and c[i - 1] == 13)]
        msgs.append(c)
    for c in msgs:
        data = b"".join(conc(c))
        (sender.sendLine if cfg["kind"] in ("LR", "LO") else sender.sendString)(data)
    wire = st.value()
    kind = "line" if cfg["kind"] in ("LR", "LO") else "str"
    want = [[kind, enc(b"".join(conc(c)))] for c in msgs]
    return enc(wire), want


def build_traces(ctx):
    rng = ctx.rng
    traces = []
    for cfg, alpha, L in exhaustive_cases(ctx.quick):
        for k in range(1, L + 1):
            for el in itertools.product(alpha, repeat=k):
                for cuts in all_cuts(k):
                    plan = [rng.randint(0, 1) for _ in range(3)] if 80 in alpha else []
                    traces.append(run_stream(cfg, list(el), cuts, plan, tag="alpha"))
    ctx.extra["exhaustive"] = [dict(cfg=c, alphabet=a, maxlen=L) for c, a, L in exhaustive_cases(ctx.quick)]
    for i in range(ctx.pick(900, 20000)):
        cfg = cfgs_small(rng)
        el, hot = gen_for(rng, cfg)
        if not el:
            continue
        plan = [rng.randint(0, 1) for _ in range(6)]
        traces.append(run_stream(cfg, el, random_cuts(rng, len(el), hot), plan, tag="small"))
        if len(el) <= 24:
            traces.append(run_stream(cfg, el, list(range(1, len(el))), plan, tag="small"))
    for i in range(ctx.pick(150, 3000)):
        cfg = cfgs_default(rng)
        el, hot = gen_for(rng, cfg)
        if el:
            traces.append(run_stream(cfg, el, random_cuts(rng, len(el), hot), [rng.randint(0, 1) for _ in range(6)], tag="default"))
    for i in range(ctx.pick(300, 6000)):
        cfg = cfgs_small(rng) if rng.random() < 0.8 else cfgs_default(rng)
        el, want = send_roundtrip(rng, cfg)
        if el:
            traces.append(run_stream(cfg, el, random_cuts(rng, len(el)), [], want=want, tag="send"))
    return traces


def nontrivial(t):
    return len(t["ev"]) >= 2 or any(e["out"] for e in t["ev"])


def sel_mutate(t, rng):
    evs = [e for e in t["ev"] if e["out"]]
    if not evs:
        return None
    e = rng.choice(evs)
    r = rng.random()
    # close requests only delimit the comparison (the property does not compare them): corrupt messages / notifications
    idx = [j for j, x in enumerate(e["out"]) if x[0] != "close"]
    if not idx:
        return None
    i = rng.choice(idx)
    k, c = e["out"][i]
    if r < 0.4 and c:
        j = rng.randrange(len(c))
        c[j] = c[j] + 1 if c[j] != 80 else 0x61
    elif r < 0.6:
        del e["out"][i]
        if any(x[0] == "close" for x in e["out"][:i]):
            return None
    elif r < 0.8:
        if any(x[0] == "close" for x in e["out"][:i]):
            return None
        e["out"].insert(i, ["exc", []])
    else:
        if any(x[0] == "close" for x in e["out"][:i + 1]):
            return None
        e["out"].insert(i, [k, list(c)])
    return t


def fingerprint(t, rej):
    """receiver kind + failing call + events shown + input class (derived from the input bytes only)."""
    e = t["ev"][rej.reached] if rej.reached < len(t["ev"]) else {}
    consumed = sum(x.get("n", 0) for x in t["ev"][:rej.reached + 1])
    data = b"".join(conc(t["str"][:consumed]))
    cls = "other"
    if t["cfg"]["kind"] in ("LR", "LO"):
        d = bytes(t["cfg"]["dlm"])
        tail = data.split(d)[-1]
        if len(d) == 2 and tail.endswith(d[:1]) and len(tail) - 1 == t["cfg"]["max"]:
            cls = "line-of-exactly-max-then-first-delimiter-byte"
        elif len(tail) == t["cfg"]["max"]:
            cls = "partial-line-of-exactly-max"
    kinds = [x[0] for x in e.get("out", [])]
    shown = "+".join(k for k in ("exc", "close") if k in kinds) or ("messages" if kinds else "nothing")
    if any(k.startswith("EXC:") for k in kinds):
        shown = [k for k in kinds if k.startswith("EXC:")][0]
    return "%s/dlm%d/%s/%s/%s" % (t["cfg"]["kind"], len(t["cfg"]["dlm"]), e.get("e"), shown, cls)


def report(ctx, traces, rej, what):
    for x in rej:
        t = traces[x.idx]
        ev = t["ev"][x.reached] if x.reached < len(t["ev"]) else None
        ctx.violation(fingerprint(t, x), "%s: real %s(MAX_LENGTH=%d, delimiter=%r, prefix=%d) run not explained by Framing.tla at call %d: showed %s, one-piece run of the same prefix showed %s; stream=%r cuts=%s"
                      % (what, t["cfg"]["kind"], t["cfg"]["max"], bytes(t["cfg"]["dlm"]), t["cfg"]["n"], x.reached, ev and ev["out"], ev and ev["one"],
                         b"".join(conc(t["str"]))[:60], t["cuts"][:12]),
                      dict(cfg=dict(t["cfg"], max=t["rawmax"]), str=t["str"], cuts=t["cuts"], plan=t["plan"], haswant=t["haswant"], want=t["want"], tag=t["tag"], rejected_at=x.reached))


def cex_to_case(cex):
    """A TLC counterexample of FramingMC (Impl layer) -> (cfg, elements, cuts, plan) for the real receiver."""
    import re
    from harness.core import parse_tla_value

    def var(st, name):
        m = re.search(r"/\\ %s = (.*?)(?=\n/\\ |\Z)" % name, st, re.S)
        return parse_tla_value(m.group(1).strip())

    cfg = var(cex[-1], "cfg")
    elems = norm(var(cex[-1], "str"))
    cuts, plan = [], []
    for prev, st in zip(cex, cex[1:]):
        last = var(st, "last")
        if last["e"] == "extend":
            continue
        if var(prev, "obs")["paused"]:
            plan.append(1 if last["e"] == "resume" else 0)
        if last["e"] == "data":
            cuts.append(var(st, "pos"))
    return dict(kind=cfg["kind"], max=cfg["max"], dlm=list(cfg["dlm"]), n=cfg["n"]), elems, cuts[:-1] if cuts and cuts[-1] == len(elems) else cuts, plan


def design_check(ctx):
    """TLC on the Impl layer, one run per receiver kind.  A counterexample is replayed on the real receiver:
    reported only if the real code reproduces a run the reference rejects; otherwise the model is wrong."""
    from harness.core import MachineryError
    acts = ["MCExtend", "DeliverMsg", "DeliverQuiet"]
    extra = {"LO": ["DeliverExc"], "LR": ["DeliverExc", "MCResume"], "IN": ["DeliverExc", "MCResume"], "NS": ["DeliverClose"]}
    for kind in ("LO", "LR", "IN", "NS"):
        ctx.coverage_actions = {k: v for k, v in ctx.coverage_actions.items() if not k.startswith("FramingMC.")}
        r = ctx.mc("FramingMC", "FramingMC_%s%s.cfg" % (kind, ctx.pick("", ".thorough")), label=kind, timeout=4 * 3600)
        if r.ok:
            ctx.require_actions("FramingMC", acts + extra[kind])
            ctx.extra["FramingMC_%s_actions" % kind] = {k: v for k, v in ctx.coverage_actions.items() if k.startswith("FramingMC.")}
            continue
        if r.kind != "invariant" or not r.cex:
            raise MachineryError("FramingMC/%s failed: %s" % (kind, r.error))
        cfg, elems, cuts, plan = cex_to_case(r.cex)
        t = run_stream(cfg, elems, cuts, plan, tag="mc-cex")
        ctx.note_trace(t, True)
        rej = ctx.validate("FramingTrace", [t])
        ctx.log("FramingMC/%s: TLC counterexample on the Impl layer (stream %r, cuts %s); real receiver %s" % (
            kind, b"".join(conc(elems)), cuts, "reproduces it" if rej else "does NOT reproduce it"))
        if not rej:
            raise MachineryError("FramingMC/%s: Impl-layer counterexample not reproduced by the real code (model drift): %r cuts=%s" % (kind, b"".join(conc(elems)), cuts))
        report(ctx, [t], rej, "Impl-layer counterexample found by TLC, reproduced on the real receiver")
        ctx.extra.setdefault("impl_counterexamples", []).append(dict(kind=kind, stream=elems, cuts=cuts, reproduced=True))


def run(ctx):
    import os
    if os.environ.get("VERIF_SKIP_DESIGN"):
        # developer switch for mutant runs: the spec-only TLC runs do not touch the code under test
        ctx.log("VERIF_SKIP_DESIGN set: spec-only TLC runs skipped")
        ctx.extra["design_skipped"] = True
    else:
        design_check(ctx)
    traces = build_traces(ctx)
    # spec -> code: behaviours of the Impl layer generated by TLC are replayed on the real receivers
    drift = replayed = 0
    for kind in ("LO", "LR", "IN", "NS"):
        for b in ctx.simulate("FramingSim", "FramingSim_%s.cfg" % kind, num=ctx.pick(12, 300), depth=13):
            datas = [h for h in b["hist"] if h["e"] == "data"]
            if not datas:
                continue
            n = sum(h["n"] for h in datas)
            cuts = list(itertools.accumulate(h["n"] for h in datas))[:-1]
            plan, paused = [], False
            for h in b["hist"]:
                if paused:
                    plan.append(1 if h["e"] == "resume" else 0)
                hasp = kind in ("LR", "IN") and any(k in ("line", "str") and c[:1] == [80] for k, c in h["out"])
                paused = hasp if h["e"] == "resume" else (paused or hasp)
            t = run_stream(dict(b["cfg"]), norm(b["str"][:n]), cuts, plan, tag="sim")
            pred = [[h["e"], [[k, enc(bytes(c))] for k, c in h["out"]]] for h in b["hist"]]
            real = [[e["e"], e["out"]] for e in t["ev"][:len(pred)]]
            if pred != real:
                drift += 1
            replayed += 1
            traces.append(t)
    ctx.extra["spec_behaviours_replayed"] = replayed
    ctx.impl_drift = drift
    for t in traces:
        ctx.note_trace(t, nontrivial(t))
    ctx.log("recorded %d real executions (%d replayed spec behaviours, %d differ from the Impl layer's prediction)" % (len(traces), replayed, drift))
    rej = ctx.validate("FramingTrace", traces, shard_size=ctx.pick(1500, 4000))
    report(ctx, traces, rej, "trace")
    ctx.extra["rejected_traces"] = len(rej)
    bad = {x.idx for x in rej}
    good = [t for i, t in enumerate(traces) if i not in bad and t["tag"] in ("small", "send") and t["cfg"]["max"] < 100]
    if good or not rej:
        ctx.selftest_rejects("FramingTrace", good[-600:], sel_mutate, n=24)
    else:   # every fully constrained execution was rejected (reported above): nothing left to corrupt
        ctx.log("binding self-test skipped: no accepted execution to corrupt")


def replay(ctx, obj):
    t = run_stream(obj["cfg"], obj["str"], obj["cuts"], obj.get("plan", []), want=obj["want"] if obj.get("haswant") else None, tag=obj.get("tag", ""))
    ctx.note_trace(t, True)
    rej = ctx.validate("FramingTrace", [t])
    report(ctx, [t], rej, "replay")
    print(b"".join(conc(t["str"]))[:200])
    for e in t["ev"]:
        print(e)
