"""C17 -- TLS layer delivers application bytes intact and terminates cleanly.

Spec:     specs/SecureStream.tla (+ SecureStreamMC exhaustive, SecureStreamTrace trace validation)
Binding:  real twisted.protocols.tls.TLSMemoryBIOFactory client and server (BufferingTLSTransport, and the
          plain TLSMemoryBIOProtocol as a variant) over a scheduler-controlled in-memory pipe and a task.Clock,
          real OpenSSL through pyOpenSSL.  /venv has no pyOpenSSL, so the adapter
          (harness/adapters/c17_runner.py) runs as a subprocess under /usr/bin/python3 (3.11, Debian pyOpenSSL)
          with PYTHONPATH=$VERIF_REPO/src:/verif/vendor/py311deps; it generates a self-signed certificate under
          ctx.work, executes the schedules and prints the traces as JSON; this module validates them with TLC.
"""
import json
import os
import subprocess

META = dict(
    id="C17",
    specs=["SecureStream.tla", "SecureStreamMC.tla", "SecureStreamTrace.tla", "TlsImpl.tla", "TlsImplSim.tla"],
    technique="TLA+ spec of the secure byte stream as seen by the two applications and the two underlying transports (TLC exhaustive over bounded write/close/delivery interleavings) + TLC trace validation of real TLSMemoryBIOFactory client/server pairs (real OpenSSL) under random schedules of writes before/during/after the handshake, producers, transport back-pressure, segmentation of the encrypted streams, clock ticks and loseConnection by either side at any point",
    level_text="TLC checks on the property-level specification that an application only ever receives a prefix of what its peer wrote before the peer's loseConnection, at most one connectionLost, no close without a loseConnection, and the quiescence clauses (exactly one connectionLost each and both transports closed once somebody closed; a side that did not itself close has received everything); every recorded execution of the real TLS client/server pair is validated by TLC as a behaviour of that specification with every logged field matched.",
    level_note="Trusted: TLC, OpenSSL 3 / pyOpenSSL 23 (under /usr/bin/python3.11, not the repo's venv), the adapter's in-memory transports (a transport asked to close finishes only when the scheduler says so; bytes already written stay deliverable) and content-offset projection. The Impl layer (TlsImpl.tla) models only the sending side of Twisted's TLS wrapper with OpenSSL as an environment and is bound to the code by replaying TLC-generated behaviours, not by a TLC refinement proof against SecureStream; where the statement is ambiguous about a side that itself closed, only the prefix clause is demanded of it (documented in notes/C17.md). Pull producers are not driven (twisted wraps them with the global cooperator).",
    design_ref="2.5 C17",
    rule="case = schedule of write/writeSequence/loseConnection/producer/back-pressure/deliver(k)/tick/transport-close operations on the two sides; distinct = hash of the event sequence; non-trivial = at least two event kinds",
)

PY311 = "/usr/bin/python3"


def run_plans(ctx, plans):
    from harness import core
    repo = os.environ.get("VERIF_REPO", core.REPO)
    deps = os.path.join(core.VERIF, "vendor", "py311deps")
    if not os.path.exists(os.path.join(deps, "zope")):
        raise core.MachineryError("C17: %s missing; run `sh /verif/tools/setup.sh`" % deps)
    runner = os.path.join(core.VERIF, "harness", "adapters", "c17_runner.py")
    env = dict(os.environ)
    env["PYTHONPATH"] = os.path.join(repo, "src") + ":" + deps
    env["PYTHONHASHSEED"] = "0"
    env["PYTHONDONTWRITEBYTECODE"] = "1"       # never write python3.11 byte code into /repo
    env.pop("PYTHONHOME", None)
    nproc = max(1, min(int(os.environ.get("VERIF_SHARDS") or 8), 8, len(plans) // 400 + 1))
    chunks = [plans[i::nproc] for i in range(nproc)]
    procs = []
    for i, ch in enumerate(chunks):
        wd = os.path.join(ctx.work, "c17-%d" % i)
        os.makedirs(wd, exist_ok=True)
        p = subprocess.Popen([PY311, runner, wd], stdin=subprocess.PIPE, stdout=subprocess.PIPE, stderr=subprocess.PIPE, env=env)
        procs.append((p, ch))
    # feed and collect (outputs are large: communicate() each in a thread)
    from concurrent.futures import ThreadPoolExecutor

    def one(pc):
        p, ch = pc
        out, err = p.communicate(json.dumps(ch).encode())
        return p.returncode, out, err
    with ThreadPoolExecutor(len(procs)) as ex:
        res = list(ex.map(one, procs))
    traces = [None] * len(plans)
    for i, (rc, out, err) in enumerate(res):
        if rc != 0:
            raise core.MachineryError("C17 adapter subprocess failed (rc=%s): %s" % (rc, err.decode("utf8", "replace")[-2000:]))
        d = json.loads(out)
        if not d["twisted"].startswith(os.path.realpath(os.path.join(repo, "src"))):
            raise core.MachineryError("C17 adapter imported twisted from %s" % d["twisted"])
        ctx.extra["pyopenssl"] = d["pyopenssl"]
        for j, t in enumerate(d["traces"]):
            traces[i + j * nproc] = t
    return traces


SIZES = [lambda r: r.randint(1, 20), lambda r: r.randint(1, 20), lambda r: r.randint(100, 2000), lambda r: r.choice([16383, 16384, 16385]),
         lambda r: r.randint(30000, 63000), lambda r: r.randint(64001, 90000)]
KS = [lambda r: r.randint(1, 10), lambda r: r.randint(20, 400), lambda r: r.randint(400, 3000), lambda r: 0, lambda r: 0]


def gen_plan(rng):
    ops = []
    n = rng.randint(4, 40)
    style = rng.choice(["early", "mixed", "mixed", "late"])   # when application activity starts relative to the handshake
    if style == "late":
        ops.append(["quiesce"])
    lost = [False, False]
    reg = [False, False]
    for i in range(n):
        r = rng.random()
        p = rng.randint(0, 1)
        if r < 0.22:
            o = ["write", p, rng.choice(SIZES)(rng)]
            if rng.random() < 0.15:
                o.append("seq")
            ops.append(o)
        elif r < 0.27 and not lost[p]:
            lost[p] = True
            ops.append(["lose", p])
        elif r < 0.31 and not reg[p] and not lost[p]:
            reg[p] = True
            ops.append(["reg", p, [rng.choice(SIZES[:4])(rng) for _ in range(rng.randint(1, 4))]])
        elif r < 0.42 and reg[p]:
            ops.append(["produce", p])
        elif r < 0.46:
            ops.append([rng.choice(["tpause", "tresume"]), p])
        elif r < 0.80:
            ops.append(["deliver", p, rng.choice(KS)(rng)])
        elif r < 0.90:
            ops.append(["tick"])
        elif r < 0.95:
            ops.append(["xclose", p])
        else:
            ops.append(["quiesce"])
        if style == "early" and i < 3 and rng.random() < 0.5:
            continue
    ops.append(["quiesce"])
    return dict(ops=ops, variant="buffered" if rng.random() < 0.8 else "unbuffered")


def fingerprint(trace, rej):
    ev = trace["ev"]
    if rej.reached >= len(ev):
        return "end-of-trace"
    e = ev[rej.reached]
    prev = ev[:rej.reached]
    lose = [any(x["e"] == "lose" and x["p"] == p for x in prev) for p in (0, 1)]
    hs = [any(x["e"] == "hs" and x["p"] == p for x in prev) for p in (0, 1)]
    ctxs = "lose=%d%d/hs=%d%d/%s" % (lose[0], lose[1], hs[0], hs[1], trace["cfg"]["variant"])
    if e["e"] == "exc":
        return "exception/%s/%s/%s" % (e["cls"], e["where"], ctxs)
    if e["e"] == "quiesce":
        acc = [0, 0]
        rc = [0, 0]
        prod = [False, False]
        ls = [False, False]
        lostn = [0, 0]
        tcl = [False, False]
        for x in prev:
            if x["e"] == "write" and (not ls[x["p"]] or prod[x["p"]]):
                acc[x["p"]] += x["n"]
            elif x["e"] == "lose":
                ls[x["p"]] = True
            elif x["e"] == "reg":
                prod[x["p"]] = True
            elif x["e"] == "unreg":
                prod[x["p"]] = False
            elif x["e"] == "data":
                rc[x["p"]] += x["n"]
            elif x["e"] == "lost":
                lostn[x["p"]] += 1
            elif x["e"] == "tclose":
                tcl[x["p"]] = True
        why = []
        for p in (0, 1):
            if not ls[p] and rc[p] != acc[1 - p]:
                why.append("passive-side-%d-missing-%d-bytes" % (p, acc[1 - p] - rc[p]) if False else "passive-side-incomplete")
        if any(ls):
            if lostn != [1, 1]:
                why.append("connectionLost-missing")
            if tcl != [True, True]:
                why.append("transport-not-closed")
        return "quiesce/%s/%s" % ("+".join(sorted(set(why))) or "other", ctxs)
    return "%s/not-enabled/%s" % (e["e"], ctxs)


def mutate(t, rng):
    ev = t["ev"]
    datas = [i for i, e in enumerate(ev) if e["e"] == "data"]
    losts = [i for i, e in enumerate(ev) if e["e"] == "lost"]
    r = rng.random()
    if datas and r < 0.3:
        ev[rng.choice(datas)]["off"] += 1               # bytes from another position
    elif datas and r < 0.5:
        i = rng.choice(datas)
        ev.insert(i, dict(ev[i]))                        # a delivery repeated
    elif losts and r < 0.7:
        i = rng.choice(losts)
        ev.insert(i, dict(ev[i]))                        # connectionLost twice
    elif losts and r < 0.85:
        del ev[rng.choice(losts)]                        # connectionLost never delivered (quiesce must fail)
    elif datas:
        # a passive receiver loses the tail of the stream: drop the last delivery to a side that never closed
        for i in reversed(datas):
            p = ev[i]["p"]
            if not any(x["e"] == "lose" and x["p"] == p for x in ev):
                del ev[i]
                return t
        return None
    else:
        return None
    return t


UNIT = 20000        # one TlsImpl model unit in bytes (MAX_BUFFER_SIZE = 64000 = 3.2 units)


def impl_layer(ctx):
    """Impl layer (specs/TlsImpl.tla): the sending side of BufferingTLSTransport/TLSMemoryBIOProtocol as coded, with
    OpenSSL as environment.  TLC checks it exhaustively (order, nothing after loseConnection, close_notify after the
    data, close when done); two deliberately broken variants must fail (vacuity); behaviours generated by TLC from the
    model are replayed on the real TLS pair: the real executions are validated by the SecureStream trace spec like all
    others, and the amount of data the model says went out is compared with what the real peer received (a
    difference is model drift, reported as impl_drift, never a violation)."""
    from harness.core import MachineryError
    r = ctx.mc("TlsImpl", "TlsImpl.cfg")
    if not r.ok:
        raise MachineryError("TlsImpl (as coded) violates a sender clause: %s\n%s" % (r.error, "".join(r.cex[-3:])[:3000]))
    ctx.require_actions("TlsImpl", ["Write", "Tick", "Lose", "HandshakeDone", "PeerClose", "Reg", "Unreg"])
    for cfgname in ("TlsImplNoFlush.cfg", "TlsImplReversed.cfg"):
        v = ctx.mc("TlsImpl", cfgname, must_pass=False, coverage=False, label="vacuity: broken variant must violate an invariant")
        if v.ok or v.kind != "invariant":
            raise MachineryError("vacuity: %s does not violate the TlsImpl invariants (%s)" % (cfgname, v.kind))
    behs = ctx.simulate("TlsImplSim", "TlsImplSim.cfg", num=ctx.pick(300, 2000), depth=16)
    plans, predicted = [], []
    for b in behs:
        ops = []
        for h in b["hist"]:
            e = h["e"]
            if e == "write":
                ops.append(["write", 0, h["n"] * UNIT])
            elif e == "tick":
                ops.append(["tick"])
            elif e == "lose":
                ops.append(["lose", 0])
            elif e == "handshake":
                ops += [["deliver", 0, 0], ["deliver", 1, 0], ["deliver", 0, 0], ["deliver", 1, 0]]
            elif e == "peerclose":
                ops += [["lose", 1], ["deliver", 1, 0]]
            elif e == "reg":
                ops.append(["reg", 0, []])
            elif e == "unreg":
                ops.append(["unreg", 0])
        ops.append(["quiesce"])
        plans.append(dict(ops=ops, variant="buffered", impl_beh=True))
        predicted.append(b["units"] * UNIT)
    traces = run_plans(ctx, plans) if plans else []
    drift = 0
    for t, want in zip(traces, predicted):
        got = sum(e["n"] for e in t["ev"] if e["e"] == "data" and e["p"] == 1)
        if got != want:
            drift += 1
            if drift <= 3:
                ctx.log("TlsImpl drift: model says %d bytes out, real peer received %d: %s" % (want, got, json.dumps(t["plan"]["ops"])[:400]))
    ctx.impl_drift = drift
    ctx.extra["impl_behaviours_replayed"] = len(traces)
    ctx.extra["impl_behaviours_not_reproduced"] = drift
    return traces



def report(ctx, traces, rej):
    for x in rej[:40]:
        t = traces[x.idx]
        e = t["ev"][x.reached] if x.reached < len(t["ev"]) else None
        ctx.violation(fingerprint(t, x),
                      "real TLS client/server execution not explained by SecureStream.tla at event %d: %s (before: %s)"
                      % (x.reached, e, json.dumps(t["ev"][max(0, x.reached - 8):x.reached])),
                      dict(plan=t["plan"], rejected_at=x.reached))


def run(ctx):
    from harness.core import MachineryError
    r = ctx.mc("SecureStreamMC", ctx.pick("SecureStreamMC.cfg", "SecureStreamMC.thorough.cfg"))
    if not r.ok:
        raise MachineryError("SecureStream spec violates its own invariants: " + r.error)
    ctx.require_actions("SecureStreamMC", ["MCWrite", "MCLose", "Reg", "Unreg", "XClose", "Eof", "Hs", "AppData", "Lost", "TClose", "Quiesce"])
    impl_traces = impl_layer(ctx)
    n = ctx.pick(1500, 20000)
    plans = [gen_plan(ctx.rng) for _ in range(n)]
    traces = impl_traces + run_plans(ctx, plans)
    ctx.log("recorded %d real executions, %d events" % (len(traces), sum(len(t["ev"]) for t in traces)))
    ctx.note_traces(traces)
    lean = [{"cfg": t["cfg"], "ev": t["ev"]} for t in traces]
    rej = ctx.validate("SecureStreamTrace", lean, shard_size=ctx.pick(800, 4000))
    report(ctx, traces, rej)
    bad = {x.idx for x in rej}
    good = [t for i, t in enumerate(lean) if i not in bad]
    ctx.extra["closed_connections"] = sum(1 for t in good if any(e["e"] == "lose" for e in t["ev"]))
    ctx.extra["bytes_delivered"] = sum(e["n"] for t in good for e in t["ev"] if e["e"] == "data")
    if not ctx.violations:
        ctx.selftest_rejects("SecureStreamTrace", good[:400], mutate, n=24)


def replay(ctx, obj):
    t = run_plans(ctx, [obj["plan"]])[0]
    ctx.note_trace({"cfg": t["cfg"], "ev": t["ev"]})
    rej = ctx.validate("SecureStreamTrace", [{"cfg": t["cfg"], "ev": t["ev"]}])
    report(ctx, [t], rej)
    for i, e in enumerate(t["ev"]):
        print(i, e)
