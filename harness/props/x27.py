"""X27 (extension, not a listed property) -- producer helpers: web.client.FileBodyProducer,
internet._producer_helpers._PullToPush, protocols.basic.FileSender.
Spec: specs/Producers.tla.  Driver: harness/adapters/x27_driver.py.
Reported under coverage.extra_modules of the nearest property (C14)."""

META = dict(
    id="X27", extension=True, nearest="C14",
    specs=["Producers.tla", "ProducersMC.tla", "ProducersTrace.tla"],
    technique="TLA+ spec of FileBodyProducer / FileSender / _PullToPush over a planned file (chunks, short reads, read errors) "
              "+ TLC exhaustive check + TLC trace validation of the real classes on a real Cooperator with a captured "
              "scheduler, a fake file and a recording consumer (all short histories and seeded random histories)",
    level_text="extension module: grows the specification beyond the listed properties",
    level_note="not a listed property; alarms are reported as EXTRA-ALARM, never as VIOLATION.  Trusted: TLC, the driver's "
               "logging, the mapping of written bytes to read indexes (exact equality with what the fake file returned, "
               "after the transform).  _PullToPush is bound to the harness Cooperator by replacing the module-level name "
               "`cooperate` in _producer_helpers.  One work unit per tick; re-entrant calls from inside consumer.write, "
               "several producers per Cooperator and Cooperator.stop are not exercised.",
    design_ref="4 (extensions)",
    rule="history of start/tick/pause/resume/stop/cancel/unreg/pull calls on one producer with a planned file; "
         "distinct by (cfg, event sequence); non-trivial = at least two event kinds",
)

OPS = {
    "fbp": ["start", "tick", "pause", "resume", "stop", "cancel"],
    "fs": ["start", "tick", "pause", "resume", "stop", "unreg"],
    "fsd": ["start", "pull", "pause", "stop"],
    "p2p": ["start", "tick", "pause", "resume", "stop", "unreg"],
}


def _run(cfg, ops):
    from harness.adapters.x27_driver import run_history
    return run_history(cfg, ops)


def mkcfg(kind, plan, rs=4, xf=False, unreg="stop"):
    return {"kind": kind, "plan": list(plan), "rs": 0 if kind == "p2p" else rs, "xf": bool(xf and kind in ("fs", "fsd")),
            "unreg": unreg if kind == "p2p" else "stop"}


def exhaustive_histories(depth, full):
    """start followed by every sequence of depth-1 further calls (for FileBodyProducer also every sequence of depth-1 calls
    not beginning with start), for a few plans per kind; identical event logs are merged afterwards"""
    import itertools
    if full:
        plans = {"fbp": [[], [3], [9, 2], [2, 0]], "fs": [[], [3], [9, 2], [2, 0]], "fsd": [[], [3], [2, 0, 4]],
                 "p2p": [[0], [1, 0]]}
    else:
        plans = {"fbp": [[], [9, 2], [2, 0]], "fs": [[], [9, 2], [2, 0]], "fsd": [[3], [2, 0, 4]], "p2p": [[1, 0]]}
    for kind, pls in plans.items():
        for plan in pls:
            for unreg in (("stop", "raise", "forget") if kind == "p2p" else ("stop",)):
                cfg = mkcfg(kind, plan, xf=(len(plan) != 2), unreg=unreg)
                for seq in itertools.product(OPS[kind][1:], repeat=depth - 1):
                    yield cfg, [("start",)] + [(o,) for o in seq]
                if kind == "fbp":      # calls before startProducing too
                    for seq in itertools.product(OPS[kind], repeat=depth - 1):
                        if seq[0] != "start":
                            yield cfg, [(o,) for o in seq]


def random_history(rng):
    kind = rng.choice(["fbp", "fbp", "fs", "fs", "fsd", "p2p"])
    n = rng.choice([0, 1, 2, 3, 4, 6])
    plan = [rng.choice([1, 2, 3, 4, 4, 7, 16]) for _ in range(n)]
    if plan and rng.random() < 0.35:
        plan[rng.randrange(len(plan))] = 0
    if kind == "p2p" and rng.random() < 0.5:
        plan.append(0)
    cfg = mkcfg(kind, plan, rs=rng.choice([1, 4, 16]), xf=rng.random() < 0.5, unreg=rng.choice(["stop", "stop", "raise", "forget"]))
    ops = []
    if kind != "fbp" or rng.random() < 0.9:
        ops.append(("start",))
    w = {"start": 1, "tick": 10, "pull": 10, "pause": 3, "resume": 3.5, "stop": 0.8, "cancel": 0.8, "unreg": 0.6}
    names = OPS[kind]
    for _ in range(rng.randint(3, 22)):
        ops.append((rng.choices(names, [w[x] for x in names])[0],))
    return cfg, ops


def _report(ctx, traces, rej):
    for x in rej[:10]:
        t = traces[x.idx]
        e = t["ev"][x.reached] if x.reached < len(t["ev"]) else None
        ctx.violation("producers/%s/%s" % (t["cfg"]["kind"], (e or {}).get("e")),
                      "%s execution not explained by Producers.tla at event %d: %s" % (t["cfg"]["kind"], x.reached, e),
                      dict(cfg=t["cfg"], ops=t["ops"]))


def run(ctx):
    import json
    ctx.mc("ProducersMC", ctx.pick("ProducersMC.cfg", "ProducersMC.thorough.cfg"))
    ctx.require_actions("ProducersMC", ["Start", "FbpTick", "Pause", "Resume", "FbpStop", "FbpCancel", "FsTick", "FsdPull",
                                        "FsdPause", "FsStop", "Unregister", "P2pTick", "P2pStop"])
    # (a) every short history on the real classes
    traces, seen = [], set()
    depth = ctx.pick(5, 6)
    nex = 0
    for cfg, ops in exhaustive_histories(depth, not ctx.quick):
        t = _run(cfg, ops)
        nex += 1
        k = json.dumps([t["cfg"], t["ev"]], sort_keys=True)
        if k not in seen:
            seen.add(k)
            traces.append(t)
    ctx.extra["exhaustive_histories_run"] = nex
    ctx.extra["exhaustive_histories_distinct"] = len(traces)
    ctx.extra["exhaustive_depth"] = depth
    # (b) seeded random longer histories
    for _ in range(ctx.pick(1500, 40000)):
        cfg, ops = random_history(ctx.rng)
        t = _run(cfg, ops)
        k = json.dumps([t["cfg"], t["ev"]], sort_keys=True)
        if k not in seen and t["ev"]:
            seen.add(k)
            traces.append(t)
    ctx.log("real executions: %d distinct (%d exhaustive-short histories run at depth %d)" % (len(traces), nex, depth))
    ctx.note_traces(traces)
    # code-side vacuity guard: every modelled situation occurs among the recorded executions
    sit = {}
    for t in traces:
        k = t["cfg"]["kind"]
        for e in t["ev"]:
            for tag in ([k + "/" + e["e"] + "/" + e["res"]] + [k + "/fired/" + f[0] for f in e["fired"]]
                        + ([k + "/logged/%d" % e["logged"]] if e["logged"] else [])
                        + ([k + "/lastbyte"] if any(f[0] == "ok" and f[1] > 0 for f in e["fired"]) else [])
                        + ([k + "/shortwrite"] if e["w"] and t["cfg"]["plan"][e["w"][0] - 1:e["w"][0]] not in ([], [t["cfg"]["rs"]]) else [])):
                sit[tag] = sit.get(tag, 0) + 1
    ctx.extra["situations"] = dict(sorted(sit.items()))
    need = ["fbp/fired/ok", "fbp/fired/IOError", "fbp/fired/ValueError", "fbp/fired/CancelledError", "fbp/pause/AttributeError",
            "fbp/stop/AttributeError", "fbp/pause/TaskDone", "fbp/pause/TaskStopped", "fbp/pause/TaskFailed", "fbp/resume/NotPaused",
            "fs/fired/ok", "fs/lastbyte", "fs/fired/Exception", "fs/logged/1", "fs/pause/TaskStopped", "fs/unreg/ok",
            "fsd/fired/ok", "fsd/pull/IOError", "fsd/fired/Exception", "p2p/logged/1", "p2p/logged/2", "p2p/pause/TaskDone",
            "p2p/pause/TaskStopped", "p2p/stop/ok", "fbp/shortwrite", "fs/shortwrite"]
    missing = [n for n in need if not sit.get(n)]
    if missing:
        from harness.core import MachineryError
        raise MachineryError("vacuity: situations never recorded: %s" % missing)
    rej = ctx.validate("ProducersTrace", traces, shard_size=4000)
    _report(ctx, traces, rej)

    fields = ["w", "reads", "fired", "closes", "unreg", "p", "res"]

    def mutate(t, rng):
        i = rng.randrange(len(t["ev"]))
        e = t["ev"][i]
        f = rng.choice(fields)
        if f in ("w", "reads"):
            e[f] = e[f] + [1] if not e[f] else []
        elif f == "fired":
            e[f] = [["ok", 0]] if not e[f] else []
        elif f in ("closes", "unreg"):
            e[f] = 1 - e[f] if e[f] in (0, 1) else 0
        elif f == "p":
            e[f] = not e[f]
        else:
            e[f] = "NotPaused" if e[f] == "ok" else "ok"
        return t
    bad = {x.idx for x in rej}
    good = [t for i, t in enumerate(traces) if i not in bad and len(t["ev"]) >= 4]
    ctx.rng.shuffle(good)
    ctx.selftest_rejects("ProducersTrace", good[:300], mutate, n=40)


def replay(ctx, obj):
    t = _run(obj["cfg"], [tuple(o) for o in obj["ops"]])
    for e in t["ev"]:
        print(e)
    for x in ctx.validate("ProducersTrace", [t]):
        ctx.violation("producers/replay", "rejected at %d" % x.reached, dict(cfg=t["cfg"], ops=t["ops"]))
