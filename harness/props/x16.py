"""X16 (extension, not a listed property) -- protocols.memcache.MemCacheProtocol command pipelining.
Spec: specs/MemCache.tla.  Reported under coverage.extra_modules of the nearest property (C31).

The real MemCacheProtocol is bound to a StringTransport and a task.Clock.  The harness plays the user
(issues commands), the server (chooses an answer for the oldest unanswered command, delivers the answer
bytes in fragments it chooses), the clock and the network (connection loss).  One event per call; every
event logs what a user / the boundary fakes can observe: bytes written, Deferreds fired (id, outcome),
loseConnection() calls, time of the pending delayed call, exception escaping the call."""

META = dict(
    id="X16", extension=True, nearest="C31",
    specs=["MemCache.tla", "MemCacheMC.tla", "MemCacheTrace.tla"],
    technique="TLA+ spec of the memcache client's command queue, answer parser and timeout + TLC model checking + "
              "TLC trace validation of the real MemCacheProtocol on StringTransport/task.Clock",
    level_text="extension module: grows the specification beyond the listed properties",
    level_note="not a listed property; alarms are reported as EXTRA-ALARM, never as VIOLATION.  The server is "
               "well-behaved (each answer has the form the protocol document gives for its command, or is an "
               "ERROR/CLIENT_ERROR/SERVER_ERROR line); a transport asked to close delivers no more bytes; "
               "texts are ASCII.  Malformed or unsolicited answers are not decided.",
    design_ref="4 (extensions)",
    rule="history of issue/respond/deliver/advance/lose events: all histories over a 10-letter alphabet up to a "
         "length bound, plus seeded random histories; distinct by event sequence",
)

SET_KINDS = ("set", "add", "replace", "append", "prepend", "cas")
GET_KINDS = ("get", "gets", "getm", "getsm")
ITEM0 = dict(k="", s="", f=0, c="", v="", m=0)


def item(k, **kw):
    d = dict(ITEM0)
    d["k"] = k
    d.update(kw)
    return d


def item_bytes(it):
    """Concretise one answer item (the spec recomputes this text and compares: MemCache!ItemText)."""
    k = it["k"]
    if k == "VALUE":
        s = "VALUE %s %d %d" % (it["s"], it["f"], it["m"]) + (" " + it["c"] if it["c"] else "")
    elif k == "DATA":
        s = it["v"]
    elif k == "STAT":
        s = "STAT %s %s" % (it["s"], it["v"])
    elif k == "VERSION":
        s = "VERSION " + it["v"]
    elif k == "NUM":
        s = "%d" % it["f"]
    elif k in ("CLIENT_ERROR", "SERVER_ERROR"):
        s = k + " " + it["v"]
    else:
        s = k
    return (s + "\r\n").encode("latin-1")


def _s(b):
    return b.decode("latin-1") if isinstance(b, bytes) else "!" + repr(b)


def _i(n):
    return n if isinstance(n, int) and not isinstance(n, bool) and abs(n) < 2 ** 30 else -999


def _trow(k, t):
    if isinstance(t, bytes):
        return [k, 0, "", _s(t), 1, 1]
    if isinstance(t, (tuple, list)) and len(t) == 2:
        return [k, _i(t[0]), "", "" if t[1] is None else _s(t[1]), 0 if t[1] is None else 1, 2]
    if isinstance(t, (tuple, list)) and len(t) == 3:
        return [k, _i(t[0]), _s(t[1]), "" if t[2] is None else _s(t[2]), 0 if t[2] is None else 1, 3]
    return [k, -999, "", "!" + repr(t), 1, 9]


def enc_ok(r):
    """Uniformly typed rendering of a Deferred's result: ["OK", type, rows]."""
    if isinstance(r, bool):
        return ["OK", "bool", [["", int(r), "", "", 1, 0]]]
    if isinstance(r, int):
        return ["OK", "int", [["", _i(r), "", "", 1, 0]]]
    if isinstance(r, bytes):
        return ["OK", "bytes", [["", 0, "", _s(r), 1, 0]]]
    if isinstance(r, tuple):
        return ["OK", "tuple", [_trow("", r)]]
    if isinstance(r, dict):
        return ["OK", "dict", [_trow(_s(k), v) for k, v in r.items()]]
    return ["OK", "other", [["", 0, "", "!" + repr(r), 1, 0]]]


def enc_err(f):
    return ["ERR", f.type.__name__, [["", 0, "", str(f.value), 1, 0]]]


class Runner:
    """Drives one real MemCacheProtocol; every method is one event."""

    def __init__(self, cfg):
        from twisted.internet import task
        from twisted.internet.testing import StringTransport
        from twisted.protocols.memcache import MemCacheProtocol

        runner = self

        class T(StringTransport):
            def loseConnection(self):
                runner.closes += 1
                StringTransport.loseConnection(self)

        self.cfg = dict(cfg)
        self.clock = task.Clock()
        self.tr = T()
        self.proto = MemCacheProtocol(timeOut=cfg["P"])
        self.proto.callLater = self.clock.callLater
        self.proto.makeConnection(self.tr)
        self.cfg["maxkey"] = MemCacheProtocol.MAX_KEY_LENGTH
        self.closes = 0
        self.firedlog = []
        self.nid = 0
        self.ev = []
        self.ops = []
        self.unanswered = []      # (kind, key texts) of accepted commands the harness has not answered yet
        self.wire = b""           # answer bytes not yet delivered
        self.bounds = []          # lengths of the undelivered items (first one reduced by what was delivered)
        self.lost = False
        self.broken = False       # an exception escaped: the history stops here

    # -- observation
    def _obs(self, e, mark, exc):
        calls = self.clock.getDelayedCalls()
        e.update(wrote=_s(self.tr.value()), fired=self.firedlog[mark[0]:], close=self.closes - mark[1],
                 tmo=int(min(c.getTime() for c in calls)) if calls else -1, exc=exc)
        if len(calls) > 1:
            e["exc"] = e["exc"] or "TwoTimers"
        self.tr.clear()
        self.ev.append(e)
        if e["exc"]:
            self.broken = True
        return e

    def _mark(self):
        return (len(self.firedlog), self.closes)

    @property
    def closing(self):
        return self.tr.disconnecting

    # -- user
    def issue(self, kind, keys, val, f=0, x=0, cas=""):
        self.ops.append(["issue", kind, keys, val, f, x, cas])
        p = self.proto
        ks = [k[0].encode("latin-1") if k[1] else k[0] for k in keys]
        v = val[0].encode("latin-1") if val[1] else val[0]
        self.nid += 1
        cid = self.nid
        mark = self._mark()
        exc = ""
        try:
            if kind in ("set", "add", "replace"):
                d = getattr(p, kind)(ks[0], v, f, x)
            elif kind in ("append", "prepend"):
                d = getattr(p, kind)(ks[0], v)
            elif kind == "cas":
                d = p.checkAndSet(ks[0], v, cas.encode("latin-1"), f, x)
            elif kind in ("get", "gets"):
                d = p.get(ks[0], kind == "gets")
            elif kind in ("getm", "getsm"):
                d = p.getMultiple(ks, kind == "getsm")
            elif kind == "incr":
                d = p.increment(ks[0], f)
            elif kind == "decr":
                d = p.decrement(ks[0], f)
            elif kind == "delete":
                d = p.delete(ks[0])
            elif kind == "stats":
                d = p.stats(v or None)
            elif kind == "version":
                d = p.version()
            else:
                d = p.flushAll()
            d.addCallbacks(lambda r: self.firedlog.append([cid, enc_ok(r)]),
                           lambda fl: self.firedlog.append([cid, enc_err(fl)]))
        except Exception as ex:      # noqa: BLE001 - recorded, TLC decides
            exc = type(ex).__name__
        e = self._obs(dict(e="issue", kind=kind, keys=[dict(s=k[0], b=bool(k[1])) for k in keys],
                           val=dict(s=val[0], b=bool(val[1])), f=f, x=x, cas=cas), mark, exc)
        if e["wrote"]:
            self.unanswered.append((kind, [k[0] for k in keys]))
        return e

    # -- server
    def respond(self, items):
        self.ops.append(["respond", items])
        mark = self._mark()
        data = b"".join(item_bytes(it) for it in items)
        self.wire += data
        self.bounds += [len(item_bytes(it)) for it in items]
        self.unanswered.pop(0)
        return self._obs(dict(e="respond", items=items, text=_s(data)), mark, "")

    def deliver(self, d):
        self.ops.append(["deliver", d])
        mark = self._mark()
        chunk, self.wire = self.wire[:d], self.wire[d:]
        n = len(chunk)
        while n and self.bounds:
            if self.bounds[0] <= n:
                n -= self.bounds.pop(0)
            else:
                self.bounds[0] -= n
                n = 0
        exc = ""
        try:
            self.proto.dataReceived(chunk)
        except Exception as ex:      # noqa: BLE001
            exc = type(ex).__name__
        return self._obs(dict(e="deliver", d=len(chunk)), mark, exc)

    # -- clock / network
    def advance(self, d):
        self.ops.append(["advance", d])
        mark = self._mark()
        exc = ""
        try:
            self.clock.advance(d)
        except Exception as ex:      # noqa: BLE001
            exc = type(ex).__name__
        return self._obs(dict(e="advance", d=d), mark, exc)

    def lose(self, cls="ConnectionDone"):
        from twisted.internet import error
        from twisted.python.failure import Failure
        self.ops.append(["lose", cls])
        mark = self._mark()
        reason = Failure(getattr(error, cls)())
        exc = ""
        try:
            self.proto.connectionLost(reason)
        except Exception as ex:      # noqa: BLE001
            exc = type(ex).__name__
        self.lost = True
        self.wire, self.bounds, self.unanswered = b"", [], []
        return self._obs(dict(e="lose", cls=cls, text=str(reason.value)), mark, exc)

    def trace(self):
        return {"cfg": self.cfg, "ops": self.ops, "ev": self.ev}


def replay_ops(cfg, ops):
    r = Runner(cfg)
    for op in ops:
        if r.broken:
            break
        name, args = op[0], op[1:]
        if name == "respond" and not r.unanswered:
            continue
        if name == "deliver" and not r.wire:
            continue
        getattr(r, name)(*args)
    return r.trace()


# ---------------------------------------------------------------- answers the server may give
VALUES = ["", "v", "0123456789", "END", "a\r\nEND\r\nb", "STORED\r\n", "\r\n", "VALUE k 0 1\r\nx"]
KEYS = ["k", "foo", "bar", "a" * 250]
LONG = "a" * 251


def pair(key, flags, cas, v):
    return [item("VALUE", s=key, f=flags, c=cas, m=len(v)), item("DATA", v=v)]


def answer(rng, kind, keys, positive=None):
    """A well-formed answer for a command of this kind.  positive=True: the canonical success answer,
    False: an error line, None: random."""
    if positive is False or (positive is None and rng.random() < 0.12):
        k = "ERROR" if positive is False else rng.choice(["ERROR", "CLIENT_ERROR", "SERVER_ERROR"])
        return [item(k, v="" if k == "ERROR" else rng.choice(["oops", "out of memory", "bad data chunk"]))]
    pos = positive is True
    if kind in SET_KINDS:
        if kind == "cas":
            return [item("STORED" if pos else rng.choice(["STORED", "EXISTS", "NOT_FOUND"]))]
        return [item("STORED" if pos else rng.choice(["STORED", "STORED", "NOT_STORED"]))]
    if kind in ("incr", "decr"):
        return [item("NUM", f=7)] if pos else [rng.choice([item("NUM", f=rng.choice([0, 5, 10, 123456])), item("NOT_FOUND")])]
    if kind == "delete":
        return [item("DELETED" if pos else rng.choice(["DELETED", "NOT_FOUND"]))]
    if kind == "version":
        return [item("VERSION", v="1.6.21" if pos else rng.choice(["1.6.21", "1.4 beta", "x"]))]
    if kind == "flush_all":
        return [item("OK")]
    if kind == "stats":
        if pos:
            return [item("STAT", s="pid", v="42"), item("STAT", s="uptime", v="7"), item("END")]
        names = ["pid", "uptime", "version", "pid"]
        return [item("STAT", s=rng.choice(names), v=rng.choice(["1", "", "a b c", "END"]))
                for _ in range(rng.randint(0, 4))] + [item("END")]
    gets = kind in ("gets", "getsm")
    if kind in ("get", "gets"):
        if pos:
            return pair(keys[0], 5, "31" if gets else "", "a\r\nEND\r\nb") + [item("END")]
        if rng.random() < 0.3:
            return [item("END")]
        return pair(keys[0], rng.choice([0, 0, 3, 65535]), rng.choice(["1", "987"]) if gets else "", rng.choice(VALUES)) + [item("END")]
    # multiple
    if pos:
        hit = list(reversed(keys))
    else:
        hit = [k for k in keys if rng.random() < 0.6]
        rng.shuffle(hit)
    out = []
    for k in hit:
        out += pair(k, rng.choice([0, 1, 9]), rng.choice(["2", "44"]) if gets else "", "v" if pos else rng.choice(VALUES))
    return out + [item("END")]


def random_issue(rng):
    kind = rng.choice(["set", "set", "get", "get", "get", "getm", "getm", "getsm", "gets", "add", "replace", "append",
                       "prepend", "cas", "incr", "decr", "delete", "stats", "version", "flush_all"])
    badkey = rng.random() < 0.08
    longkey = rng.random() < 0.08
    def key():
        return [rng.choice(KEYS), 1]
    if kind in ("stats", "version", "flush_all"):
        keys = []
    elif kind in ("getm", "getsm"):
        keys = [key() for _ in range(rng.randint(1, 3))]
    else:
        keys = [key()]
    if keys and badkey:
        keys[rng.randrange(len(keys))][1] = 0
    if keys and longkey:
        keys[rng.randrange(len(keys))][0] = LONG
    val = ["", 1]
    f = x = 0
    cas = ""
    if kind in SET_KINDS:
        val = [rng.choice(VALUES), 0 if rng.random() < 0.06 else 1]
        if kind not in ("append", "prepend"):
            f, x = rng.choice([0, 0, 3, 65535]), rng.choice([0, 0, 60])
        if kind == "cas":
            cas = rng.choice(["1", "987", ""])
    elif kind in ("incr", "decr"):
        f = rng.choice([1, 1, 2, 10])
    elif kind == "stats":
        val = [rng.choice(["", "", "items", "slabs"]), 1]
    return kind, keys, val, f, x, cas


def random_history(rng, cfg, n):
    r = Runner(cfg)
    P = cfg["P"]
    for _ in range(n):
        if r.broken:
            break
        u = rng.random()
        can_serve = not r.closing and not r.lost
        if u < 0.30:
            r.issue(*random_issue(rng))
        elif u < 0.50 and can_serve and r.unanswered:
            kind, keys = r.unanswered[0]
            r.respond(answer(rng, kind, keys))
        elif u < 0.84 and can_serve and r.wire:
            v = rng.random()
            if v < 0.3:
                d = len(r.wire)
            elif v < 0.6:
                d = max(1, min(len(r.wire), r.bounds[0] + rng.choice([-2, -1, 0, 0, 1, 2])))
            else:
                d = rng.randint(1, min(len(r.wire), 12))
            r.deliver(d)
        elif u < 0.96:
            r.advance(rng.choice([0, 1, 1, 1, 2, P - 1, P]))
        elif u < 0.98 and not r.lost:
            r.lose(rng.choice(["ConnectionDone", "ConnectionLost"]))
        else:
            r.issue(*random_issue(rng))
    return r.trace()


# ---------------------------------------------------------------- all short histories over a small alphabet
LETTERS = ["Iset", "Iget", "Imul", "Ibad", "R+", "R-", "Dcut", "Dall", "A1", "L"]


def apply_letter(r, letter, rng):
    """Returns False when the letter is not applicable in the current situation."""
    can_serve = not r.closing and not r.lost
    if letter == "Iset":
        r.issue("set", [["k", 1]], ["a\r\nb", 1], 3, 0, "")
    elif letter == "Iget":
        r.issue("get", [["k", 1]], ["", 1])
    elif letter == "Imul":
        r.issue("getsm", [["k", 1], ["foo", 1]], ["", 1])
    elif letter == "Ibad":
        r.issue("incr", [[LONG, 1]], ["", 1], 1)
    elif letter in ("R+", "R-"):
        if not (can_serve and r.unanswered):
            return False
        kind, keys = r.unanswered[0]
        r.respond(answer(rng, kind, keys, positive=(letter == "R+")))
    elif letter == "Dcut":         # everything but the last byte of the first undelivered item
        if not (can_serve and r.wire and r.bounds[0] > 1):
            return False
        r.deliver(r.bounds[0] - 1)
    elif letter == "Dall":
        if not (can_serve and r.wire):
            return False
        r.deliver(len(r.wire))
    elif letter == "A1":
        r.advance(1)
    elif letter == "L":
        if r.lost:
            return False
        r.lose("ConnectionDone")
    return True


def exhaustive_histories(rng, cfg, depth):
    """Depth-first over LETTERS; the real objects cannot be cloned, so every history is re-run from the start.
    Only maximal histories are returned (acceptance of a trace implies acceptance of its prefixes)."""
    out = []

    def run(word):
        r = Runner(cfg)
        for w in word:
            if r.broken or not apply_letter(r, w, rng):
                return None
        return r

    def rec(word):
        if len(word) == depth:
            out.append(run(word).trace())
            return
        ext = 0
        for w in LETTERS:
            r = run(word + [w])
            if r is None:
                continue
            ext += 1
            if r.broken:
                out.append(r.trace())
            else:
                rec(word + [w])
        if not ext:
            out.append(run(word).trace())

    rec([])
    return out


_quiet = []


def _silence_log():
    """cmd_ERROR & co call log.err(); without an observer twisted prints those to stderr."""
    if _quiet:
        return
    _quiet.append(1)
    from twisted.logger import globalLogBeginner
    try:
        globalLogBeginner.beginLoggingTo([lambda e: None], redirectStandardIO=False, discardBuffer=True)
    except Exception:      # noqa: BLE001 - cosmetic only
        pass


MC_ACTIONS = ["IssueRejected", "IssueAccepted", "MCRespond", "MCDeliver", "Tick", "Expire", "Lose"]


def fingerprint(t, reached):
    e = t["ev"][reached] if reached < len(t["ev"]) else {"e": "end"}
    extra = e.get("kind", "") if e["e"] == "issue" else ("exc-" + e["exc"] if e.get("exc") else "")
    return "memcache/%s%s" % (e["e"], "/" + extra if extra else "")


def run(ctx):
    _silence_log()
    # 1. the specification, exhaustively: three command groups (storage+get / multi-line / the rest)
    for g, cfg in ((1, ctx.pick("MemCacheMC.cfg", "MemCacheMC.thorough.cfg")),
                   (2, ctx.pick("MemCacheMC.g2.cfg", "MemCacheMC.g2.thorough.cfg")),
                   (3, ctx.pick("MemCacheMC.g3.cfg", "MemCacheMC.g3.thorough.cfg"))):
        ctx.mc("MemCacheMC", cfg, label="group %d" % g)
    ctx.require_actions("MemCacheMC", MC_ACTIONS)

    # 2. the real protocol: every history over LETTERS up to a length bound ...
    traces = exhaustive_histories(ctx.rng, {"P": 2}, ctx.pick(4, 5))
    nex = len(traces)
    ctx.extra["exhaustive_short_histories"] = nex
    # ... and seeded random histories
    for _ in range(ctx.pick(1000, 5000)):
        traces.append(random_history(ctx.rng, {"P": ctx.rng.choice([1, 2, 3, 5])}, ctx.rng.randint(5, 40)))
    ctx.note_traces(traces)
    ctx.extra["events"] = sum(len(t["ev"]) for t in traces)
    ctx.log("%d real executions (%d exhaustive-short, %d random), %d events" % (len(traces), nex, len(traces) - nex, ctx.extra["events"]))
    rej = ctx.validate("MemCacheTrace", traces, shard_size=ctx.pick(800, 2500))
    seen = set()
    for x in rej:
        t = traces[x.idx]
        fp = fingerprint(t, x.reached)
        if fp not in seen and len(seen) >= 6:      # at most six distinct alarms are reported
            continue
        seen.add(fp)
        e = t["ev"][x.reached] if x.reached < len(t["ev"]) else None
        ctx.violation(fp, "MemCacheProtocol execution not explained by MemCache.tla at event %d: %s" % (x.reached, str(e)[:400]),
                      dict(cfg=t["cfg"], ops=t["ops"]))

    # 3. binding demonstration: corrupt one observed field
    def mutate(t, rng):
        idx = list(range(len(t["ev"])))
        rng.shuffle(idx)
        how = rng.randrange(5)
        for i in idx:
            e = t["ev"][i]
            if how == 0 and e["fired"]:
                e["fired"] = e["fired"][1:]                     # a Deferred that did not fire
                return t
            if how == 1 and len(e["fired"]) >= 2:
                e["fired"][0], e["fired"][1] = e["fired"][1], e["fired"][0]     # answers matched in the wrong order
                if e["fired"][0] != e["fired"][1]:
                    return t
            if how == 2 and e["e"] == "issue" and e["wrote"]:
                e["wrote"] = e["wrote"][:-2]                    # truncated request
                return t
            if how == 3 and e["tmo"] >= 0:
                e["tmo"] += 1                                   # timeout scheduled later than specified
                return t
            if how == 4 and e["fired"] and e["fired"][0][1][0] == "OK" and e["fired"][0][1][2]:
                row = e["fired"][0][1][2][0]
                row[3] = row[3] + "x"                           # wrong value delivered
                return t
        return None
    bad = {x.idx for x in rej}
    good = [t for i, t in enumerate(traces) if i not in bad and len(t["ev"]) >= 6]
    ctx.rng.shuffle(good)
    ctx.selftest_rejects("MemCacheTrace", good[:200], mutate, n=20)


def replay(ctx, obj):
    _silence_log()
    t = replay_ops(obj["cfg"], obj["ops"])
    for e in t["ev"]:
        print({k: v for k, v in e.items() if k not in ("keys", "items")})
    for x in ctx.validate("MemCacheTrace", [t]):
        ctx.violation(fingerprint(t, x.reached), "rejected at event %d" % x.reached, dict(cfg=t["cfg"], ops=t["ops"]))
