"""C54 -- the FTP server never touches paths outside its root.

Spec:     specs/PathNS.tla (path resolution, the property: FtpCmd), PathFtp.tla (FTP session model: working
          directory, toSegments + FilePath.descendant under the shell root, the accesses each command makes
          on a small directory-tree model), PathFtpMC (exhaustive TLC over all sessions up to the bound; it also prints a
          transition cover of the model as sessions with predicted outcomes), PathNSTrace (trace validation).
Binding:  real twisted.protocols.ftp.FTP protocol instances built by a real FTPFactory / Portal / FTPRealm
          (FTPShell for the logged-in user, FTPAnonymousShell for anonymous) over StringTransport, driven
          command by command on a scratch tree (root, prefix-sharing sibling, parent); the data connection
          is a DTP instance over StringTransport.  Every file-system access made while a command is handled
          is recorded with sys.addaudithook and logged split at "/"; TLC decides whether it is inside the root.
"""
import itertools
import os

META = dict(
    id="C54",
    specs=["PathNS.tla", "PathFtp.tla", "PathFtpMC.tla", "PathNSTrace.tla"],
    technique="TLA+ FTP-session model over the PathNS namespace spec (toSegments and FilePath.descendant transcribed; TLC exhaustive over all sessions of <=2..3 path-taking commands with every path of <=2 components over the hostile alphabet, both containment variants, both shells) + TLC trace validation of real FTP/FTPShell/FTPAnonymousShell sessions (exhaustive one-command sessions from every working directory, random long sessions, and the transition cover of the model printed by TLC replayed as sessions) with file-system accesses observed by sys.addaudithook",
    level_text="TLC checks on the session model that whatever a command opens, lists, creates, renames or deletes is inside the shell root for every session up to the bound, and every command of every recorded session of the real FTP server is validated by TLC: each recorded file-system access (and each file whose content was sent on the data connection) must resolve inside the root.",
    level_note="Trusted: TLC, CPython's audit events (open, os.listdir, os.scandir, os.mkdir, os.rename, os.remove, os.rmdir, ...), the lexical split of paths at '/'. Symbolic links are excluded (none in the scratch tree). Accesses by the import system / linecache are not attributed to the server; os.stat (SIZE/MDTM, existence tests) is not observed -- the property lists open/list/create/rename/delete. libc reads of /etc/passwd and /etc/group for LIST owner names do not raise audit events. Sessions longer than the enumerated depth are sampled. The model's predicted replies/accesses are compared with the real ones only as impl_drift, never as a verdict.",
    design_ref="2.10 C54",
    rule="session = login + sequence of FTP commands with hostile path arguments on a fresh scratch tree; one event per command; distinct = hash of (shell, events); non-trivial = at least two different access patterns in the session",
)

DATA_VERBS = ("LIST", "NLST", "RETR", "STOR")
PATH_VERBS = ("CWD", "LIST", "NLST", "RETR", "STOR", "SIZE", "MDTM", "MKD", "RMD", "DELE", "RNFR", "RNTO")


def alphabet():
    from harness.adapters import c26_c54_pathns as A
    return {
        "a": "a", "f": "f", "nx": A.MISSING, "root": A.ROOTNAME, "rootbar": A.SIBNAME, ".": ".", "..": "..", "": "",
        "nul": "a\0b", "bs": "..\\" + A.SIBNAME, "pct2e": "%2e%2e", "pct2f": "..%2f" + A.SIBNAME, "xff": "\xff",
        "star": "*", "sp": "a b", "nx.ext": "nx.ext", "index.html": "index.html", "e": "e",
    }


CORE = ["a", "e", "f", "nx", "root", "rootbar", ".", "..", "", "nul"]
FULL = CORE + ["bs", "pct2e", "pct2f", "xff", "star", "sp"]
DEEP = ["a", "f", "nx", "rootbar", ".", "..", "", "root"]

# "." / ".." segments with an ignorable or odd byte before, inside or after them: a server that drops, trims or
# translates such a byte *after* it has looked for "." and ".." turns the segment into a live parent reference.
ODD_BYTES = ["\0", " ", "\t", "\r", "\x7f", "\xa0", "\xff", "\\", "\x01", "%00", "\0\0"]


def odd_forms(b):
    return [b + "..", ".." + b, "." + b + ".", b + ".", "." + b]


ODD_NUL = odd_forms("\0")
ODD_OTHER = [f for b in ODD_BYTES[1:] for f in odd_forms(b)]
ODD_ALL = ODD_NUL + ODD_OTHER


def odd_lines(wd, thorough):
    """Every verb on every NUL-decorated dot segment (alone, before and after an ordinary name), the main verbs on
    the dot segments decorated with the other odd bytes."""
    al = alphabet()
    for form in ODD_NUL:
        for p in [form, form + "/a", form + "/" + al["rootbar"], "a/" + form, "/" + form, form + "/" + form + "/" + al["rootbar"]]:
            for g in _verb_lines(PATH_VERBS, p, wd):
                yield g
    for form in ODD_OTHER:
        for p in [form, form + "/" + al["rootbar"]] + (["a/" + form, "/" + form + "/" + form] if thorough else []):
            for g in _verb_lines(PATH_VERBS if thorough else ("CWD", "RETR", "MKD", "RNTO"), p, wd):
                yield g


def _verb_lines(verbs, p, wd):
    for v in verbs:
        if v == "RNFR":
            yield ["RNFR " + p, "RNTO /got"]
        elif v == "RNTO":
            yield ["RNFR /f", "RNTO " + p]
        elif v == "CWD":
            yield ["CWD " + p, "CWD " + wd]
        else:
            yield [v + " " + p]


# Sessions that create things under the root and then remove *everything* under it (and then go on creating and
# removing in the empty root, and remove / re-create the root itself): a server that prunes, renames or removes
# "upwards" shows it here.
TREE_DIRS = [("a",), ("a", "a"), ("a", "e")]
TREE_FILES = [("f",), ("nx.ext",), ("a", "f"), ("a", "index.html"), ("a", "a", "f")]
WIPE_TAIL = ["MKD x", "RMD x", "MKD y/z", "RMD y/z", "RMD y", "STOR q", "DELE q", "MKD w", "RNFR w", "RNTO v", "RMD v",
             "MKD t/u", "RMD t/u/", "RMD ./t", "LIST /", "RMD /", "MKD /", "MKD k", "RMD k", "RMD .", "MKD m/n", "RMD m/n", "RMD m"]


def wipe_session(rng):
    """-> (lines, index of the line after which nothing is left under the root)."""
    dirs = set(TREE_DIRS)
    files = set(TREE_FILES)
    wd = ()
    lines = []

    def ref(t):
        r = 0.0 if rng is None else rng.random()      # rng None: deterministic order, absolute paths
        if r < 0.35:
            return "/" + "/".join(t)
        c = 0
        while c < min(len(wd), len(t)) and wd[c] == t[c]:
            c += 1
        p = "/".join([".."] * (len(wd) - c) + list(t[c:])) or "."
        if r < 0.55:
            p = "./" + p
        elif r < 0.65:
            p += "/"
        elif r < 0.75 and t:
            p = "/".join(t[:1]) + "/../" + "/".join(t) if not wd else p
        return p

    if rng is not None:
        # create some more first
        for i in range(rng.randint(0, 3)):
            base = rng.choice(sorted(dirs | {()}))
            d = base + ("n%d" % i,)
            if rng.random() < 0.5:
                lines.append("MKD " + ref(d + ("o",)))
                dirs |= {d, d + ("o",)}
            else:
                lines.append("STOR " + ref(d))
                files.add(d)
    while dirs or files:
        if rng is not None and rng.random() < 0.2:
            wd = rng.choice(sorted(dirs | {()}))
            lines.append("CWD /" + "/".join(wd))
        removable = sorted(files) + sorted(d for d in dirs if not any(x[:len(d)] == d and x != d for x in dirs | files))
        t = removable[0] if rng is None else rng.choice(removable)
        if t in files:
            files.discard(t)
            lines.append("DELE " + ref(t))
        else:
            dirs.discard(t)
            lines.append("RMD " + ref(t))
    k = len(lines)
    lines.append("CWD /")
    tail = list(WIPE_TAIL)
    lines += tail
    return lines, k





def concrete(syms, abssib=None):
    al = alphabet()
    return "/".join(abssib if s == "abssib" else al.get(s, s) for s in syms)


class Server:
    """One real FTPFactory + Portal + FTPRealm over the scratch namespace."""

    def __init__(self, ns, reactor):
        from twisted.cred import checkers, portal
        from twisted.protocols import ftp
        from harness.adapters import c26_c54_pathns as A
        self.ns = ns
        self.reactor = reactor
        realm = ftp.FTPRealm(anonymousRoot=ns.root, userHome=ns.parent)     # user "root" -> home = P/root
        p = portal.Portal(realm)
        p.registerChecker(checkers.AllowAnonymousAccess())
        db = checkers.InMemoryUsernamePasswordDatabaseDontUse()
        db.addUser(A.ROOTNAME, "pw")
        p.registerChecker(db)
        self.factory = ftp.FTPFactory(p)
        self.factory.timeOut = None
        self.data_errors = {}      # exception classes that escaped from data-connection callbacks (informational)


class Session:
    def __init__(self, server, anon):
        from twisted.internet.address import IPv4Address
        from twisted.internet.testing import StringTransport
        from harness.adapters import c26_c54_pathns as A
        self.s = server
        self.ns = server.ns
        self.anon = anon
        self.proto = server.factory.buildProtocol(IPv4Address("TCP", "127.0.0.1", 5000))
        self.tr = StringTransport(hostAddress=IPv4Address("TCP", "127.0.0.1", 21), peerAddress=IPv4Address("TCP", "127.0.0.1", 5000))
        self.ev = []
        self.lines = []
        self.data_errors = server.data_errors
        self.dead = False
        with A.AUDIT.record() as acc:
            self.proto.makeConnection(self.tr)
            A.settle(server.reactor)
        self._log("<connect>", self.tr.value(), b"", acc)
        self.tr.clear()
        self.ftp = self.proto.wrappedProtocol
        if anon:
            self.cmd("USER anonymous")
            self.cmd("PASS x@y")
        else:
            self.cmd("USER " + A.ROOTNAME)
            self.cmd("PASS pw")

    def _log(self, line, out, dout, acc):
        try:
            code = int(out[:3])
        except ValueError:
            code = 0
        # the last reply line decides success of multi-reply commands (125 ... 226 / 550)
        lines = [x for x in out.split(b"\r\n") if x]
        try:
            final = int(lines[-1][:3]) if lines else 0
        except ValueError:
            final = 0
        self.ev.append({"e": "ftp", "acc": [[k, self.ns.short(c)] for k, c in acc], "served": self.ns.served(dout),
                        "line": line, "code": code, "final": final})

    def cmd(self, line, data=None):
        """Send one command line; drive the data connection if the command uses it."""
        from twisted.internet.error import ConnectionDone
        from twisted.internet.testing import StringTransport
        from twisted.python.failure import Failure
        from harness.adapters import c26_c54_pathns as A
        R = self.s.reactor
        verb = line.split(" ", 1)[0].upper()
        if verb in DATA_VERBS:
            self._pasv()
        with A.AUDIT.record() as acc:
            self.proto.dataReceived(line.encode("latin-1") + b"\r\n")
            A.settle(R)
            dout = b""
            dtp = self.ftp.dtpInstance if self.ftp is not None else None
            if verb in DATA_VERBS and dtp is not None and dtp.transport is not None:
                # An exception escaping from the data connection's producer / dataReceived is what a reactor would
                # log before dropping that connection (seen: ASCIIConsumerWrapper.write raising TypeError for RETR
                # after TYPE A; DTP.dataReceived with no consumer) -- the driver drops the connection as well.
                try:
                    k = 0
                    while dtp.transport.producer is not None and k < 200:
                        dtp.transport.producer.resumeProducing()
                        k += 1
                    if verb == "STOR":
                        dtp.dataReceived(data if data is not None else b"stored-by-client")
                except Exception as e:
                    self.data_errors[type(e).__name__] = self.data_errors.get(type(e).__name__, 0) + 1
                    self.dead = True      # the command never completes; a client would see the control connection hang
                dout = dtp.transport.value()
                try:
                    dtp.connectionLost(Failure(ConnectionDone()))
                    A.settle(R)
                except Exception as e:
                    self.data_errors[type(e).__name__] = self.data_errors.get(type(e).__name__, 0) + 1
            acc = list(acc)
        out = self.tr.value()
        self.tr.clear()
        self._log(line, out, dout, acc)
        return self.ev[-1]

    def _pasv(self):
        from twisted.internet.testing import StringTransport
        from harness.adapters import c26_c54_pathns as A
        with A.AUDIT.record() as acc:
            self.proto.dataReceived(b"PASV\r\n")
            A.settle(self.s.reactor)
            if self.ftp.dtpFactory is not None:
                d = self.ftp.dtpFactory.buildProtocol(None)
                if d is not None:
                    d.makeConnection(StringTransport())
            A.settle(self.s.reactor)
            acc = list(acc)
        out = self.tr.value()
        self.tr.clear()
        self._log("PASV", out, b"", acc)

    def close(self):
        from twisted.internet.error import ConnectionDone
        from twisted.python.failure import Failure
        from harness.adapters import c26_c54_pathns as A
        with A.AUDIT.record() as acc:
            self.proto.connectionLost(Failure(ConnectionDone()))
            A.settle(self.s.reactor)
            acc = list(acc)
        self._log("<disconnect>", b"", b"", acc)
        for c in self.s.reactor.getDelayedCalls():
            c.cancel()


def run_session(server, anon, lines, probe_after=None):
    """lines: list of command lines (str).  Fresh scratch tree, fresh connection.  probe_after: index of the line
    after which the harness looks (audit off) whether anything is left under the root (bookkeeping for the
    vacuity guard of the wipe sessions; not part of the trace)."""
    from harness.adapters import c26_c54_pathns as A
    ns = server.ns
    ns.build()
    s = Session(server, anon)
    emptied = None
    for i, ln in enumerate(lines):
        if s.dead:
            break
        if probe_after is not None and i == probe_after:
            A.AUDIT.enabled = False
            emptied = (not os.path.exists(ns.root)) or os.listdir(ns.root) == []
        s.cmd(ln)
    s.close()
    return {"cfg": {"root": ns.comps(ns.root), "cwd": ns.comps(os.getcwd())}, "anon": anon, "lines": list(lines), "ev": s.ev,
            "emptied": emptied}


SPEC_KEYS = ("e", "acc", "served")


def spec_view(t):
    return {"cfg": t["cfg"], "ev": [{k: e[k] for k in SPEC_KEYS} for e in t["ev"]]}


# --------------------------------------------------------------------------- session generators

WDS = ["/", "/a", "/a/a"]


READ_VERBS = ("CWD", "LIST", "NLST", "RETR", "SIZE", "MDTM")
WRITE_VERBS = ("STOR", "MKD", "RMD", "DELE", "RNFR", "RNTO")


def exhaustive_lines(verbs, alpha, lo, hi, wd):
    """Every (verb, path) with path of lo..hi components over alpha, issued from working directory wd.
    (The protocol's working directory is a list of names, so it stays `wd` whatever the write verbs do to the
    tree; after every CWD the session changes back to `wd`.)"""
    for n in range(lo, hi + 1):
        for syms in itertools.product(alpha, repeat=n):
            p = concrete(syms)
            for v in verbs:
                if v == "RNFR":
                    yield ["RNFR " + p, "RNTO /got"]
                elif v == "RNTO":
                    yield ["RNFR /f", "RNTO " + p]
                elif v == "CWD":
                    yield ["CWD " + p, "CWD " + wd]
                else:
                    yield [v + " " + p]


def batches(groups, n):
    buf = []
    for g in groups:
        buf.extend(g)
        if len(buf) >= n:
            yield buf
            buf = []
    if buf:
        yield buf


def random_session(rng, ns, n):
    lines = []
    for _ in range(n):
        r = rng.random()
        if r < 0.08:
            lines.append(rng.choice(["PWD", "CDUP", "NOOP", "SYST", "TYPE A", "TYPE I", "FEAT", "LIST", "LIST -al", "NLST", "STAT", "CWD"]))
            continue
        k = rng.choice([1, 1, 2, 2, 3, 3, 4, 5, 6, 8])
        syms = [rng.choice(FULL if rng.random() < 0.6 else CORE) for _ in range(k)]
        if rng.random() < 0.05:
            syms[0] = "abssib"
        if rng.random() < 0.25:
            syms[rng.randrange(k)] = rng.choice(ODD_ALL)
        p = concrete(syms, ns.sibling)
        v = rng.choice(PATH_VERBS + ("CWD", "CWD", "RETR", "STOR", "RNTO"))
        if v == "RNTO" and rng.random() < 0.6:
            k2 = rng.choice([1, 2, 3])
            lines.append("RNFR " + concrete([rng.choice(FULL) for _ in range(k2)]))
        lines.append(v + " " + p)
    return lines


# --------------------------------------------------------------------------- reporting (no verdicts)

def fingerprint(t, ev):
    from harness.props.c26 import fingerprint as fp26
    return "%s %s" % (ev["line"].split(" ", 1)[0].upper(), fp26(t, ev))


def describe(t, i):
    ev = t["ev"][i]
    return "%s shell rooted at %s, after %r: command %r -> %s accesses=%s sent=%s" % (
        "anonymous" if t["anon"] else "user", "/".join(t["cfg"]["root"]), [e["line"] for e in t["ev"][2:i] if not e["line"].startswith("<")][-6:],
        ev["line"], ev["final"], [(k, "/".join(p)) for k, p in ev["acc"]], ["/".join(p) for p in ev["served"]])


def report(ctx, traces, rej):
    for x in rej:
        t = traces[x.idx]
        if x.reached >= len(t["ev"]):
            continue
        ev = t["ev"][x.reached]
        upto = [e["line"] for e in t["ev"][:x.reached + 1] if not e["line"].startswith("<") and e["line"] != "PASV" and not e["line"].startswith(("USER", "PASS"))]
        ctx.violation(fingerprint(t, ev), "not allowed by PathNS.tla: " + describe(t, x.reached), dict(anon=t["anon"], lines=upto))


def mutate(t, rng):
    from harness.props.c26 import mutate as m26
    return m26(t, rng)


# --------------------------------------------------------------------------- spec -> code

def cover_sessions(out):
    """Sessions printed by PathFtpMC (EmitCover): deduplicated list of {"anon", "hist": [{cmd, arg, ok, acc}]}."""
    import json
    from harness.core import extract_printed
    seen, res = set(), []
    for v in extract_printed(out, "BEH"):
        if v[1] not in seen:
            seen.add(v[1])
            res.append(json.loads(v[1]))
    return res


def model_path(p):
    """A path of the model (root = /P/root, names = alphabet symbols) as the adapter would log the real one."""
    from harness.adapters import c26_c54_pathns as A
    al = alphabet()
    return ["", "{G}"] + list(p[1:3]) + [A.comps(al.get(c, c))[0] for c in p[3:]]


def compare_prediction(t, pred):
    """Commands whose real reply class / accesses differ from the model's (impl drift; never a verdict)."""
    real = [e for e in t["ev"] if not e["line"].startswith("<") and e["line"] != "PASV" and not e["line"].startswith(("USER", "PASS"))]
    drift = []
    for e, h in zip(real, pred):
        ok = 200 <= e["final"] < 400
        acc = [[k, model_path(p)] for k, p in h["acc"]]
        if ok != h["ok"] or acc != e["acc"]:
            drift.append((e["line"], e["final"], e["acc"], h["ok"], acc))
    return drift


# --------------------------------------------------------------------------- run

def run(ctx):
    from harness.adapters import c26_c54_pathns as A
    from harness.core import MachineryError
    reactor = A.memory_reactor()
    from twisted.logger import globalLogBeginner
    globalLogBeginner.beginLoggingTo([lambda e: None], redirectStandardIO=False, discardBuffer=True)

    # (no -coverage: TLC's cost accounting of the recursive path operators makes this model several hundred times
    #  slower; the vacuity guard is taken from the transition cover the run prints instead)
    r = ctx.mc("PathFtpMC", ctx.pick("PathFtpMC.cfg", "PathFtpMC.thorough.cfg"), coverage=False)
    if not r.ok:
        if r.kind in ("invariant", "property"):
            raise MachineryError("the FTP session model itself leaves the root (PathFtpMC): " + r.error + "\n" + "".join(r.cex[-2:])[:1500])
        raise MachineryError("PathFtpMC failed: " + r.error)
    behs = cover_sessions(r.out)
    taken = {}
    for b in behs:
        h = b["hist"][-1]
        key = h["cmd"] + ("+" if h["ok"] else "-")
        taken[key] = taken.get(key, 0) + 1
    missing = [k for k in ("CWD+", "CWD-", "LIST+", "RETR+", "RETR-", "SIZE+", "STOR+", "STOR-", "MKD+", "MKD-", "RMD+", "RMD-",
                           "DELE+", "DELE-", "RNFR+", "RNTO+", "RNTO-") if not taken.get(k)]
    if missing:
        raise MachineryError("vacuity: the FTP model never took: %s" % missing)
    ctx.extra["model_transitions_by_command"] = taken

    ns = A.Namespace(os.path.join(ctx.work, "ns"))
    server = Server(ns, reactor)
    rng = ctx.rng
    traces = []
    K = 40

    # exhaustive: every verb with every path of <= L components, from every working directory, user shell
    L = ctx.pick(2, 3)
    nex = 0
    for alpha, hi in ((CORE, L),) if ctx.quick else ((CORE, L), (FULL, L - 1)):
        for wd in WDS:
            for verbs in (READ_VERBS, WRITE_VERBS):
                for b in batches(exhaustive_lines(verbs, alpha, 1, hi, wd), K):
                    traces.append(run_session(server, False, ["CWD " + wd] + b))
                    nex += len(b)
    # one component more for the deepest working directory
    for verbs in (("CWD", "RETR"), ("STOR", "RNTO")) if ctx.quick else (READ_VERBS, WRITE_VERBS):
        for b in batches(exhaustive_lines(verbs, DEEP, L + 1, L + 1, WDS[2]), K):
            traces.append(run_session(server, False, ["CWD " + WDS[2]] + b))
            nex += len(b)
    # anonymous shell
    for wd in WDS[:2]:
        for b in batches(exhaustive_lines(PATH_VERBS, CORE, 1, ctx.pick(1, 2), wd), K):
            traces.append(run_session(server, True, ["CWD " + wd] + b))
            nex += len(b)
    # dot segments decorated with NUL / odd bytes
    for wd in WDS[:2]:
        for b in batches(odd_lines(wd, not ctx.quick), K):
            traces.append(run_session(server, False, ["CWD " + wd] + b))
            nex += len(b)
    for b in batches(odd_lines("/", False), K):
        traces.append(run_session(server, True, b))
        nex += len(b)
    ctx.log("exhaustive: %d commands in %d sessions" % (nex, len(traces)))
    # create-then-remove-everything sessions, both shells
    nwipe = 0
    lines, k = wipe_session(None)
    for anon in (False, True):
        traces.append(run_session(server, anon, lines, probe_after=k))
    for i in range(ctx.pick(12, 300)):
        lines, k = wipe_session(rng)
        traces.append(run_session(server, i % 8 == 7, lines, probe_after=k))
    wipes = [t for t in traces if t.get("emptied") is not None]
    nwipe = sum(1 for t in wipes if t["emptied"] and not t["anon"])
    if nwipe < (len([t for t in wipes if not t["anon"]]) + 1) // 2:
        raise MachineryError("vacuity: only %d of %d wipe sessions left the root empty" % (nwipe, len(wipes)))
    ctx.extra.update(wipe_sessions=len(wipes), wipe_sessions_root_emptied=nwipe)
    # random long sessions
    nrand = ctx.pick(60, 1500)
    for i in range(nrand):
        traces.append(run_session(server, rng.random() < 0.2, random_session(rng, ns, rng.randint(10, 40))))
    # spec -> code: the model's transition cover (printed by TLC during the exhaustive run) replayed as sessions
    # on the real server; the model's predicted reply class and accesses are compared with the real ones.
    ncover = len(behs)
    cap = ctx.pick(300, 3000)
    if len(behs) > cap:
        behs = [behs[i] for i in sorted(rng.sample(range(len(behs)), cap))]
    ndrift, nsteps, examples = 0, 0, []
    for b in behs:
        lines = [h["cmd"] + " " + concrete(h["arg"]) for h in b["hist"]]
        t = run_session(server, b["anon"], lines)
        d = compare_prediction(t, b["hist"])
        ndrift += len(d)
        nsteps += len(b["hist"])
        if d and len(examples) < 5:
            examples.append(dict(lines=lines, first_difference=[str(x) for x in d[0]]))
        traces.append(t)
    ctx.impl_drift = ndrift
    ctx.extra.update(model_cover_sessions=ncover, spec_behaviours_replayed=len(behs), spec_steps_replayed=nsteps,
                     spec_steps_not_reproduced=ndrift, drift_examples=examples)
    ctx.log("model cover: %d sessions printed by TLC, %d replayed, %d/%d steps differ from the model's prediction" % (ncover, len(behs), ndrift, nsteps))
    ncmd = sum(len(t["ev"]) for t in traces)
    ctx.log("recorded %d sessions, %d commands" % (len(traces), ncmd))
    ctx.exhaustive = True
    codes = {}
    kinds = {}
    for t in traces:
        for e in t["ev"]:
            codes[e["final"]] = codes.get(e["final"], 0) + 1
            for k, _ in e["acc"]:
                kinds[k] = kinds.get(k, 0) + 1
        pats = {(e["line"].split(" ", 1)[0], tuple(k for k, _ in e["acc"])) for e in t["ev"]}
        ctx.note_trace(_slim(t), nontrivial=len(pats) >= 4)
    ctx.extra.update(commands=ncmd, exhaustive_commands=nex, exhaustive_path_len=L, random_sessions=nrand,
                     reply_codes={str(k): v for k, v in sorted(codes.items())}, access_kinds=kinds,
                     interpreter_accesses_ignored=A.AUDIT.interp, data_connection_errors=dict(server.data_errors))
    for k in ("open", "list", "create", "rename", "delete"):
        if not kinds.get(k):
            raise MachineryError("vacuity: no %r access was ever recorded" % k)
    # PathNSTrace records an unexplained command and goes on, so every command of every session is checked
    rej = ctx.validate("PathNSTrace", [spec_view(t) for t in traces], shard_size=max(40, -(-len(traces) // ctx.pick(4, 16))), count=False)
    bad = {x.idx for x in rej}
    ctx.traces_ok += len(traces) - len(bad)
    ctx.extra["commands_rejected"] = len(rej)
    report(ctx, traces, rej)
    good = [spec_view(t) for i, t in enumerate(traces) if i not in bad]
    pool = [good[i] for i in sorted(rng.sample(range(len(good)), min(40, len(good))))]
    ctx.selftest_rejects("PathNSTrace", pool, mutate, n=24)


def _slim(t):
    import hashlib
    import json
    return dict(cfg=t["cfg"], anon=t["anon"], n=len(t["ev"]), ev=t["ev"][:8],
                digest=hashlib.sha1(json.dumps(t["ev"], sort_keys=True).encode()).hexdigest())


def replay(ctx, obj):
    from harness.adapters import c26_c54_pathns as A
    reactor = A.memory_reactor()
    from twisted.logger import globalLogBeginner
    globalLogBeginner.beginLoggingTo([lambda e: None], redirectStandardIO=False, discardBuffer=True)
    ns = A.Namespace(os.path.join(ctx.work, "ns"))
    server = Server(ns, reactor)
    t = run_session(server, obj["anon"], obj["lines"])
    ctx.note_trace(_slim(t), nontrivial=True)
    rej = ctx.validate("PathNSTrace", [spec_view(t)])
    report(ctx, [t], rej)
    for i in range(len(t["ev"])):
        print(describe(t, i))
