"""C14 -- Transport write buffering delivers bytes exactly once and honours producers.

Spec:     specs/WriteBufAbs.tla  (the property as an acceptor over observable micro-events),
          specs/WriteBufImpl.tla (the two-level send buffer as coded; TLC checks it against the acceptor),
          WriteBufAbsMC / WriteBufImplMC (exhaustive TLC), WriteBufAbsTrace (trace validation),
          WriteBufImplSim (behaviour generator, spec -> code).
Binding:  a REAL twisted.internet.abstract.FileDescriptor whose only supplied part is writeSomeData
          (scripted adversarial acceptance: all / none / k bytes / a fraction / error) on a fake reactor
          recording addWriter/removeWriter, with recording producers that write from resumeProducing
          (harness/adapters/c14_adapter.py).  Micro-events in program order.  TLC decides.
"""
import json

META = dict(
    id="C14",
    specs=["WriteBufAbs.tla", "WriteBufAbsMC.tla", "WriteBufAbsTrace.tla", "WriteBufImpl.tla", "WriteBufImplMC.tla", "WriteBufImplSim.tla"],
    technique="TLA+ acceptor stating the property over observable micro-events + TLA+ model of the two-level send buffer as coded, checked by TLC to be accepted by it for all small histories and adversarial acceptance counts; TLC trace validation of real FileDescriptor executions (exhaustive short histories with state hashing, seeded random long ones with writes up to 1 MiB); TLC-generated behaviours of the coded algorithm replayed on the real object",
    level_text="TLC checks that the model of the buffer algorithm (dataBuffer/offset/_tempDataBuffer/SEND_LIMIT, producers, loseConnection/loseWriteConnection) only produces behaviours the property acceptor allows, for every history up to the stated bounds and every acceptance pattern; every recorded execution of the real FileDescriptor is validated by TLC against the acceptor with every logged field matched (position, length, contiguity and accepted count of every offer to the OS; producer pause/resume/stop calls; writer registration; close and half-close times).",
    level_note="Trusted: TLC, the adapter's logging and its location of offered bytes in the written stream (seeded random payloads; a >=16-byte slice identifies its position). Interpretations: a write is 'written while connected' if the transport is connected and its write side not shut down; the pause clause is evaluated after writes that buffered data (a producer registered on an already full buffer need not be paused before its next data write, as DESIGN 2.5 decides); loseConnection after a completed half-close may close at once. Not decided: the read side, real sockets.",
    design_ref="2.5 C14",
    rule="history = sequence of write/writeSequence/registerProducer/unregisterProducer/loseConnection/loseWriteConnection/pause/resume calls and doWrite invocations with a chosen acceptance; distinct = hash of (cfg, events); non-trivial = at least two different event kinds",
)

KIB = 1024
BIG = [0, 1, 2, 100, 4095, 65535, 65536, 65537, 131071, 131072, 131073, 200000, 1048576]


def _adapter():
    from harness.adapters import c14_adapter
    return c14_adapter


def run_history(cfg, ops, seed=0):
    return _adapter().run_history(cfg, ops, seed)


# ----------------------------------------------------------------------------- exploration
def state_key(env):
    """Search-pruning key only (never part of a verdict)."""
    fd = env.fd
    try:
        return (len(fd.dataBuffer), fd.offset, tuple(len(b) for b in fd._tempDataBuffer), fd._tempDataLen,
                bool(fd.connected), bool(fd.disconnecting), bool(fd._writeDisconnecting), bool(fd._writeDisconnected),
                None if fd.producer is None else (bool(fd.streamingProducer), json.dumps(fd.producer.script)),
                bool(fd.producerPaused), fd in env.writers)
    except Exception:
        return None


SMALL_OPS = [["write", 1], ["write", 3], ["write", 0], ["writeseq", [1, 2]], ["reg", "push", []], ["reg", "pull", [["w", 2], ["fin"]]],
             ["unreg"], ["lose"], ["losew"], ["dowrite", "all"], ["dowrite", "abs", 1], ["dowrite", "zero"], ["dowrite", "err"]]


def bfs(cfg, depth, alphabet):
    """Breadth-first over op histories on fresh real descriptors, pruning states already seen.
    Returns the maximal histories' traces (every explored edge is a prefix of one of them or one itself)."""
    ad = _adapter()
    seen = set()
    frontier = [[]]
    traces = []
    nstates = 0
    for lvl in range(depth):
        nxt = []
        for ops in frontier:
            extended = False
            for op in alphabet:
                env = ad.Env(cfg, 0)
                for o in ops:
                    env.step(o)
                if not env.step(op):
                    continue
                h = ops + [op]
                k = state_key(env)
                new = k is None or k not in seen
                if new and k is not None:
                    seen.add(k)
                if new and lvl + 1 < depth:
                    nxt.append(h)
                    extended = True
                else:
                    traces.append({"cfg": cfg, "ops": h, "ev": env.ev, "seed": 0})
        nstates += len(nxt)
        frontier = nxt
    return traces, nstates


def random_history(rng, seed, big):
    if big:
        cfg = {"bufferSize": 65536, "sendLimit": 128 * KIB}
        sizes = BIG
    else:
        cfg = {"bufferSize": rng.choice([1, 2, 4, 6]), "sendLimit": rng.choice([1, 3, 4, 8])}
        sizes = [0, 1, 1, 2, 3, 4, 5, 7, 9]

    def size():
        return rng.choice(sizes) if rng.random() < 0.8 or not big else rng.randrange(0, 1048577)

    def script():
        out = []
        for _ in range(rng.randint(0, 4)):
            r = rng.random()
            out.append(["w", size()] if r < 0.6 else ["ws", [size(), size()]] if r < 0.75 else ["fin"] if r < 0.85 else ["-"])
        return out
    ad = _adapter()
    env = ad.Env(cfg, seed)
    ops = []
    churn = (not big) and rng.random() < 0.35     # producer churn: register / overfill / unregister while paused / register again
    for _ in range(rng.randint(8, 45)):
        r = rng.random()
        if churn and r < 0.75:
            c = rng.random()
            if c < 0.30:
                op = ["write", rng.choice([1, 2, 3, 5, 9])]
            elif c < 0.50:
                op = ["reg", "push" if rng.random() < 0.8 else "pull", script() if rng.random() < 0.3 else []]
            elif c < 0.68:
                op = ["unreg"]
            elif c < 0.90:
                op = ["dowrite", "abs", rng.choice([1, 1, 2, 3])]
            else:
                op = ["dowrite", rng.choice(["zero", "all"])]
        elif r < 0.28:
            op = ["write", size()]
        elif r < 0.36:
            op = ["writeseq", [size() for _ in range(rng.randint(0, 3))]]
        elif r < 0.44:
            op = ["reg", rng.choice(["push", "pull"]), script()]
        elif r < 0.50:
            op = ["unreg"]
        elif r < 0.54:
            op = ["lose"]
        elif r < 0.57:
            op = ["losew"]
        elif r < 0.60:
            op = [rng.choice(["ppause", "presume"])]
        else:
            m = rng.random()
            if m < 0.35:
                op = ["dowrite", "all"]
            elif m < 0.5:
                op = ["dowrite", "zero"]
            elif m < 0.75:
                op = ["dowrite", "abs", max(1, size())]
            elif m < 0.97:
                op = ["dowrite", "frac", rng.randint(1, 7)]
            else:
                op = ["dowrite", "err"]
        if env.step(op):
            ops.append(op)
    return {"cfg": cfg, "ops": ops, "ev": env.ev, "seed": seed}


# ----------------------------------------------------------------------------- reporting
def fingerprint(trace, rej):
    i = rej.reached
    evs = trace["ev"]
    if i >= len(evs):
        return "end"
    e = evs[i]
    stack, prod = [], "none"
    for x in evs[:i]:
        if "d" in x and x["e"] != "end":
            stack.append(x["e"])
            if x["e"] == "reg":
                pending_reg = x["r"]
        elif x["e"] == "end":
            nm = stack.pop()
            if nm == "reg" and x["r"] == "ok":
                prod = pending_reg
            if nm == "unreg":
                prod = "none"
        elif x["e"] in ("pstop",):
            prod = "none"
    what = e["e"]
    if what == "end":
        what = "end:%s=%s" % (e["of"], e["r"])
    elif what == "wsd":
        what = "wsd(%s,%s)" % ("contiguous" if e["contig"] else "NOT-contiguous", "error" if e["acc"] < 0 else "accepted")
    return "%s/in=%s/producer=%s" % (what, stack[-1] if stack else "-", prod)


def report(ctx, traces, rejects):
    by_fp = {}
    for x in rejects:
        by_fp.setdefault(fingerprint(traces[x.idx], x), []).append(x)
    for fp, xs in sorted(by_fp.items()):
        x = min(xs, key=lambda r: (len(traces[r.idx]["ops"]), r.reached))
        t = traces[x.idx]
        lo = max(0, x.reached - 6)
        ctx.violation(fp, "real FileDescriptor execution not accepted by WriteBufAbs.tla at micro-event %d %s (preceded by %s); ops %s cfg %s; %d executions with this fingerprint"
                      % (x.reached, json.dumps(t["ev"][x.reached]) if x.reached < len(t["ev"]) else None,
                         json.dumps(t["ev"][lo:x.reached]), json.dumps(t["ops"])[:600], json.dumps(t["cfg"]), len(xs)),
                      dict(cfg=t["cfg"], ops=t["ops"], seed=t.get("seed", 0), rejected_at=x.reached))
    ctx.extra["reject_fingerprints"] = {fp: len(xs) for fp, xs in by_fp.items()}


def mutate(t, rng):
    """Corrupt one logged field / duplicate one event so that the result is certainly not allowed."""
    evs = t["ev"]
    c = rng.random()
    wsd = [i for i, e in enumerate(evs) if e["e"] == "wsd" and e["len"] > 0]
    ends = [i for i, e in enumerate(evs) if e["e"] == "end"]
    if c < 0.2 and wsd:
        evs[rng.choice(wsd)]["off"] += 1                 # an offer that skips a byte
    elif c < 0.35 and wsd:
        e = evs[rng.choice(wsd)]
        e["acc"] = e["len"] + 1                           # OS "accepts" more than offered
    elif c < 0.5:
        acc = [i for i in wsd if evs[i]["acc"] > 0]
        if not acc:
            return None
        i = rng.choice(acc)
        evs.insert(i + 1, dict(evs[i]))                   # the same bytes handed to the OS twice
    elif c < 0.6 and wsd:
        evs[rng.choice(wsd)]["contig"] = False            # bytes offered out of order
    elif c < 0.75:
        if any(e["e"] == "lose" for e in evs):
            return None
        cand = [i for i in ends if evs[i]["of"] == "dowrite" and evs[i]["r"] == "none"]
        if not cand:
            return None
        evs[rng.choice(cand)]["r"] = "done"               # closed although loseConnection was never called
    elif c < 0.9 and ends:
        cand = [i for i in ends if evs[i]["of"] in ("write", "writeseq")]
        if not cand:
            return None
        evs[rng.choice(cand)]["r"] = "EXC:RuntimeError"   # a write was refused
    elif ends:
        evs[rng.choice(ends)]["d"] += 1                   # a call that does not return to its caller
    else:
        return None
    return t


# ----------------------------------------------------------------------------- the check
def run(ctx):
    from harness.core import MachineryError

    r = ctx.mc("WriteBufAbsMC", ctx.pick("WriteBufAbsMC.cfg", "WriteBufAbsMC.thorough.cfg"))
    if not r.ok:
        raise MachineryError("WriteBufAbs violates its own consequences: " + r.error)
    ctx.require_actions("WriteBufAbsMC", ["Write", "WriteSeq", "Reg", "Unreg", "Lose", "LoseW", "Other", "DoWrite", "Lost", "Wsd",
                                          "Pause", "Resume", "PStop", "AddW", "RmW", "WClose", "HalfClose", "Closed", "End",
                                          "EndNone", "EndDone", "EndDoneData", "EndLost"])
    impl = ctx.mc("WriteBufImplMC", ctx.pick("WriteBufImplMC.cfg", "WriteBufImplMC.thorough.cfg"))
    if not impl.ok:
        # the algorithm as modelled breaks the property: a design-level counterexample.  It is only a finding if the
        # real code reproduces it, which the trace validation below decides; report it as machinery otherwise.
        ctx.extra["impl_counterexample"] = impl.error[:2000]
        raise MachineryError("WriteBufImpl is not accepted by WriteBufAbs: " + impl.error[:1500])
    ctx.require_actions("WriteBufImplMC", ["IWrite", "IWriteSeq", "IReg", "IUnreg", "ILose", "ILoseW", "IOther", "IDoWrite", "IEmit"])

    traces = []
    depth = ctx.pick(4, 5)
    nst = 0
    for cfg in ({"bufferSize": 2, "sendLimit": 3}, {"bufferSize": 4, "sendLimit": 1}):
        ts, n = bfs(cfg, depth, SMALL_OPS)
        traces += ts
        nst += n
    ctx.exhaustive = True
    ctx.extra["exhaustive_depth"] = depth
    ctx.extra["exhaustive_states_of_real_descriptor"] = nst
    ctx.log("exhaustive: %d maximal histories, %d distinct descriptor states" % (len(traces), nst))
    nsmall, nbig = ctx.pick((800, 60), (10000, 800))
    for i in range(nsmall):
        traces.append(random_history(ctx.rng, ctx.rng.randrange(1 << 30), False))
    for i in range(nbig):
        traces.append(random_history(ctx.rng, ctx.rng.randrange(1 << 30), True))

    # spec -> code: behaviours of the modelled algorithm (ops + acceptance counts chosen by TLC) are run on the real
    # descriptor; the micro-events predicted by the model are compared (impl_drift), and TLC validates the real ones.
    behs = ctx.simulate("WriteBufImplSim", "WriteBufImplSim.cfg", num=ctx.pick(25, 250), depth=15)
    drift = 0
    for b in behs:
        t = run_history(b["cfg"], b["ops"], 0)
        if [strip(e) for e in t["ev"]][:len(b["ev"])] != [strip(e) for e in b["ev"]]:
            drift += 1
            if drift <= 3:
                ctx.log("impl drift example: ops %s" % json.dumps(b["ops"]))
        traces.append(t)
    ctx.impl_drift = drift
    ctx.extra["spec_behaviours_replayed"] = len(behs)

    ctx.note_traces(traces)
    ctx.log("recorded %d real executions (%d micro-events)" % (len(traces), sum(len(t["ev"]) for t in traces)))
    rej = ctx.validate("WriteBufAbsTrace", traces, shard_size=ctx.pick(1500, 3000))
    report(ctx, traces, rej)
    bad = {x.idx for x in rej}
    good = [t for i, t in enumerate(traces) if i not in bad and len(t["ev"]) > 12]
    ctx.selftest_rejects("WriteBufAbsTrace", good[-400:], mutate, n=24)


def strip(e):
    return {k: v for k, v in e.items() if k not in ("d", "contig")}


def replay(ctx, obj):
    t = run_history(obj["cfg"], obj["ops"], obj.get("seed", 0))
    ctx.note_trace(t)
    rej = ctx.validate("WriteBufAbsTrace", [t])
    report(ctx, [t], rej)
    for e in t["ev"]:
        print(e)
