"""C31 -- AMP matches answers to questions and fails pending calls on disconnect.

Spec:     specs/AmpRPC.tla (+ AmpRPCMC exhaustive, AmpRPCTrace trace validation, AmpRPCSim behaviours)
Binding:  two real twisted.protocols.amp.AMP instances joined by an in-memory network owned by the
          harness: bytes written by one side are handed to the other side's dataReceived in
          fragments chosen by the driver, Deferreds returned by "Later" responders are fired by the
          driver, and the driver injects application closes, a network drop and the two
          connectionLost notifications.  One trace event per driver step, carrying the ordered
          observations of that step (responder invocations, callRemote Deferred firings, transport
          writes with sizes, loseConnection calls).  TLC decides.
"""

META = dict(
    id="C31",
    specs=["AmpRPC.tla", "AmpRPCMC.tla", "AmpRPCTrace.tla", "AmpRPCSim.tla"],
    technique="TLA+ spec of AMP call/answer matching between two peers over a scheduler-controlled byte pipe (TLC exhaustive: all "
              "interleavings, fragmentations, responder kinds, closes, drop and connectionLost positions for a bounded number of "
              "calls) + TLC trace validation of two real AMP peers (disconnect sweeps at every byte boundary, random schedules, "
              "TLC-generated behaviours replayed)",
    level_text="TLC checks on the specification, for every schedule of the bounded model, that each callRemote Deferred fires exactly "
               "once with its own command's answer / declared error / UnknownRemoteError or with the reason given to its own peer's "
               "connectionLost, that nothing stays pending after the loss and that calls made after it fail at once; every recorded "
               "execution of the two real AMP peers is validated by TLC as a behaviour of that specification with every observation of "
               "every step matched and the invariants evaluated at every step.",
    level_note="Trusted: TLC; the harness network (in-order byte pipe, a closing side stops reading, write-after-close kept or dropped "
               "per run, connectionLost only (a) after a drop, (b) after the side's own loseConnection, (c) at EOF after everything "
               "the closed peer wrote was consumed) -- real TCP resets are not modelled. Argument values are abstracted to the call id. "
               "Not covered: StartTLS / ProtocolSwitchCommand, requiresAnswer=False commands, callRemote issued re-entrantly from "
               "inside success callbacks or responders (re-entrant calls from an errback at disconnect ARE driven), callers that leave errors unhandled (AMP then drops the connection by design). Schedules of the "
               "real peers are sampled (sweeps + random + spec-generated), not enumerated.",
    design_ref="2.8 C31",
    rule="case = (write-after-close flag, sequence of driver steps call/deliver/fire/close/drop/notify); distinct = hash of "
         "(cfg, events); non-trivial = at least two different step kinds",
)

OUTCOMES = ["Ok", "Decl", "DeclSub", "Fatal", "FatalSub", "Undecl"]
KINDS = [t + o for t in ("Now", "Later") for o in OUTCOMES] + ["Never"]


def outcome_of(kind):
    return "None" if kind == "Never" else kind[3:] if kind.startswith("Now") else kind[5:]

_CACHE = {}


def _classes():
    """Command / AMP subclasses (created once per process, after twisted is importable)."""
    if _CACHE:
        return _CACHE
    from twisted.internet import defer
    from twisted.protocols import amp

    class DeclErr(Exception):
        pass

    class SubDeclErr(DeclErr):          # a strict subclass of a declared error: still the declared error for the caller
        pass

    class FatalErr(Exception):
        pass

    class SubFatalErr(FatalErr):
        pass

    class Cmd(amp.Command):
        arguments = [(b"n", amp.Integer()), (b"k", amp.String())]
        response = [(b"r", amp.Integer())]
        errors = {DeclErr: b"DECL"}
        fatalErrors = {FatalErr: b"FATAL"}

    def outcome(o, n):
        """what a responder of outcome o produces for call n: a result dict or an exception instance"""
        if o == "Ok":
            return {"r": n}
        return {"Decl": DeclErr, "DeclSub": SubDeclErr, "Fatal": FatalErr, "FatalSub": SubFatalErr}.get(o, RuntimeError)(str(n))

    class Peer(amp.AMP):
        h = None
        pid = 0

        def cmd(self, n, k):
            k = k.decode("ascii")
            self.h.obs.append(["resp", n, k, self.pid])
            if k.startswith("Now"):
                r = outcome(outcome_of(k), n)
                if isinstance(r, Exception):
                    raise r
                return r
            d = defer.Deferred()
            self.h.later[n] = d
            return d

        Cmd.responder(cmd)

    # AMP logs every undeclared responder error through the global log publisher, which prints critical events to
    # stderr until logging is started; start it with a null observer (harness environment only).
    from twisted.logger import globalLogBeginner
    try:
        globalLogBeginner.beginLoggingTo([lambda event: None], redirectStandardIO=False, discardBuffer=True)
    except Exception:
        pass
    _CACHE.update(DeclErr=DeclErr, FatalErr=FatalErr, Cmd=Cmd, Peer=Peer, outcome=outcome)
    return _CACHE


def _box_end(buf):
    """length of the first complete AMP box at the start of buf, or 0 (harness-side framing of the OBSERVED bytes, so
    that one observation = one box however the protocol chunks its transport.write calls)"""
    i, n = 0, len(buf)
    while True:
        if i + 2 > n:
            return 0
        kl = (buf[i] << 8) | buf[i + 1]
        i += 2
        if kl == 0:
            return i
        i += kl
        if i + 2 > n:
            return 0
        i += 2 + ((buf[i] << 8) | buf[i + 1])
        if i > n:
            return 0


class _Transport:
    def __init__(self, h, p):
        self.h, self.p = h, p
        self.state = "open"
        self.disconnecting = False
        self.wbuf = bytearray()

    def write(self, data):
        if self.state == "lost":
            return                      # a dead transport: not an observation (see AmpRPC.tla)
        self.wbuf += data
        while True:
            n = _box_end(self.wbuf)
            if not n:
                break
            self.h.obs.append(["wr", self.p, "", n])
            if self.state == "open" or (self.state == "closing" and self.h.wac):
                self.h.pipe[self.p] += self.wbuf[:n]
                self.h.msgs[self.p].append(n)
            del self.wbuf[:n]

    def writeSequence(self, seq):
        for d in seq:
            self.write(d)

    def loseConnection(self):
        if self.state == "lost":
            return
        self.h.obs.append(["lose", self.p, "", 0])
        if self.state == "open":
            self.state = "closing"
            self.disconnecting = True

    def getPeer(self):
        return "peer%d" % (3 - self.p)

    def getHost(self):
        return "peer%d" % self.p


class Harness:
    def __init__(self, cfg):
        K = _classes()
        self.K = K
        self.wac = bool(cfg["wac"])
        self.obs = []
        self.later = {}
        self.pipe = {1: bytearray(), 2: bytearray()}
        self.msgs = {1: [], 2: []}          # sizes of the writes still (partly) in the pipe -- used only to pick fragment sizes
        self.moff = {1: 0, 2: 0}
        self.net = "up"
        self.kinds = []
        self.ncall = 0
        self.tr = {}
        self.peer = {}
        for p in (1, 2):
            t = _Transport(self, p)
            a = K["Peer"]()
            a.h, a.pid = self, p
            a.makeConnection(t)
            self.tr[p], self.peer[p] = t, a
        self.obs = []

    # ---- legality (the network model; mirrors the enabling conditions of AmpRPC.tla)
    def can_deliver(self, p):
        return self.net == "up" and self.tr[3 - p].state == "open" and len(self.pipe[p]) > 0

    def notify_reason(self, p):
        t, o = self.tr[p], self.tr[3 - p]
        if t.state == "lost":
            return None
        if self.net == "down":
            return "ConnectionLost"
        if t.state == "closing":
            return "ConnectionDone"
        if o.state != "open" and len(self.pipe[3 - p]) == 0:
            return "ConnectionDone"
        return None

    def can_fire(self, c):
        return 1 <= c <= self.ncall and c in self.later and self.kinds[c - 1].startswith("Later")

    # ---- steps
    def _guard(self, who, fn):
        try:
            fn()
        except BaseException as e:      # not an action of the spec
            self.obs.append(["exc", who, type(e).__name__, 0])

    def call(self, p, kind, flag=False):
        K = self.K
        self.ncall += 1
        c = self.ncall
        self.kinds.append(kind)

        def ok(resp):
            r = resp.get("r") if isinstance(resp, dict) else None
            self.obs.append(["fire", c, "OK", r if isinstance(r, int) and 0 <= r < 2 ** 30 else -1])

        def err(f):
            from twisted.internet import error
            if f.check(K["DeclErr"], K["FatalErr"]):
                s = str(f.value)
                self.obs.append(["fire", c, f.type.__name__, int(s) if s.isdigit() and len(s) < 9 else -1])
            elif f.check(error.ConnectionDone, error.ConnectionLost):
                self.obs.append(["fire", c, f.type.__name__, getattr(f.value, "marker", 0)])
                if flag:                # application code that retries from its errback: a re-entrant callRemote
                    self.call(p, "NowOk", False)
            else:
                self.obs.append(["fire", c, f.type.__name__, 0])

        def go():
            d = self.peer[p].callRemote(K["Cmd"], n=c, k=kind.encode("ascii"))
            d.addCallbacks(ok, err)
        self._guard(p, go)

    def deliver(self, p, n):
        q = 3 - p
        data = bytes(self.pipe[p][:n])
        del self.pipe[p][:n]
        # bookkeeping of write boundaries (schedule choice only)
        left = n + self.moff[p]
        while self.msgs[p] and self.msgs[p][0] <= left:
            left -= self.msgs[p].pop(0)
        self.moff[p] = left if self.msgs[p] else 0
        self._guard(q, lambda: self.peer[q].dataReceived(data))

    def fire(self, c):
        K = self.K
        from twisted.python.failure import Failure
        d = self.later.pop(c)
        r = K["outcome"](outcome_of(self.kinds[c - 1]), c)
        if isinstance(r, Exception):
            self._guard(0, lambda: d.errback(Failure(r)))
        else:
            self._guard(0, lambda: d.callback(r))

    def close(self, p):
        self._guard(p, lambda: self.peer[p].transport.loseConnection())

    def notify(self, p, reason):
        from twisted.internet import error
        from twisted.python.failure import Failure
        exc = getattr(error, reason)()
        exc.marker = p
        self.tr[p].state = "lost"
        self._guard(p, lambda: self.peer[p].connectionLost(Failure(exc)))

    def units_to_bytes(self, p, units):
        """n spec units (half boxes) -> bytes, given what is in p's pipe (schedule choice only)"""
        cur, i, n = self.moff[p], 0, 0
        for _ in range(units):
            if i >= len(self.msgs[p]):
                break
            size = self.msgs[p][i]
            if cur < size // 2:
                n += size // 2 - cur
                cur = size // 2
            else:
                n += size - cur
                cur = 0
                i += 1
        return n

    def next_boundary(self, p):
        """bytes up to the end of the first incompletely delivered write of p (schedule choice only)"""
        return (self.msgs[p][0] - self.moff[p]) if self.msgs[p] else len(self.pipe[p])


def run_rpc(cfg, ops):
    """ops: ("call", p, kind) | ("deliver", p, n) | ("deliver_box", p, num, den) | ("fire", c) | ("close", p) | ("drop",)
    | ("notify", p).  Steps that the network model does not allow in the current state are skipped (not logged);
    the executed steps are stored in resolved form under "ops"."""
    h = Harness(cfg)
    ev, rops = [], []
    for op in ops:
        h.obs = []
        k = op[0]
        if k == "call":
            flag = bool(op[3]) if len(op) > 3 else False
            h.call(op[1], op[2], flag)
            ev.append({"e": "call", "p": op[1], "k": op[2], "f": flag, "obs": h.obs})
            rops.append(["call", op[1], op[2], flag])
        elif k in ("deliver", "deliver_box", "deliver_units"):
            p = op[1]
            if not h.can_deliver(p):
                continue
            if k == "deliver":
                n = op[2]
            elif k == "deliver_units":              # spec units: every box is 2 units = (first half, second half) of its bytes
                n = h.units_to_bytes(p, op[2])
            else:                                   # a fraction num/den of the way to the next write boundary (>= 1 byte)
                b = h.next_boundary(p)
                n = max(1, (b * op[2]) // op[3])
            n = max(1, min(n, len(h.pipe[p])))
            h.deliver(p, n)
            ev.append({"e": "deliver", "p": p, "n": n, "obs": h.obs})
            rops.append(["deliver", p, n])
        elif k == "fire":
            if not h.can_fire(op[1]):
                continue
            h.fire(op[1])
            ev.append({"e": "fire", "c": op[1], "obs": h.obs})
            rops.append(["fire", op[1]])
        elif k == "close":
            if h.tr[op[1]].state == "lost" or h.peer[op[1]].transport is None:
                continue
            h.close(op[1])
            ev.append({"e": "close", "p": op[1], "obs": h.obs})
            rops.append(["close", op[1]])
        elif k == "drop":
            if h.net != "up":
                continue
            h.net = "down"
            ev.append({"e": "drop", "obs": []})
            rops.append(["drop"])
        elif k == "notify":
            r = h.notify_reason(op[1])
            if r is None:
                continue
            h.notify(op[1], r)
            ev.append({"e": "notify", "p": op[1], "r": r, "obs": h.obs})
            rops.append(["notify", op[1]])
        else:
            raise ValueError(op)
    return {"cfg": cfg, "ops": rops, "ev": ev}


# --------------------------------------------------------------------------- schedules

def run_sweep(cfg, calls, seed_rng, cut, order, late_calls, fault="drop"):
    """Drive step by step (the schedule depends on what is in the pipes)."""
    import random
    rng = random.Random(seed_rng)
    h_ops = [("call",) + tuple(c) for c in calls]          # c = (p, kind) or (p, kind, re-entrant flag)
    # first pass: dry-run on a harness to resolve fragment sizes deterministically, recording resolved ops
    h = Harness(cfg)
    ops = []

    def do(op):
        ops.append(op)

    for op in h_ops:
        h.obs = []
        h.call(op[1], op[2], bool(op[3]) if len(op) > 3 else False)
        do(op)
    delivered = 0
    guard = 0
    while delivered < cut and guard < 10000:
        guard += 1
        cands = [p for p in (1, 2) if h.can_deliver(p)]
        fires = [c for c in sorted(h.later) if h.can_fire(c)]
        if not cands and not fires:
            break
        if fires and (not cands or rng.random() < 0.35):
            c = rng.choice(fires)
            h.obs = []
            h.fire(c)
            do(("fire", c))
            continue
        p = rng.choice(cands)
        b = h.next_boundary(p)
        r = rng.random()
        n = 1 if r < 0.25 else b if r < 0.5 else max(1, b - 1) if r < 0.6 else rng.randint(1, len(h.pipe[p]))
        n = min(n, len(h.pipe[p]), cut - delivered)
        h.obs = []
        h.deliver(p, n)
        delivered += n
        do(("deliver", p, n))
    reached = delivered
    if fault == "drop":
        do(("drop",))
    else:
        do(("close", fault[1]))
    for p in order:
        do(("notify", p))
    # a Later responder fired after the loss, calls after the loss, then the other notification again (no-op if done)
    for c in sorted(h.later):
        do(("fire", c))
    for c in late_calls:
        do(("call",) + tuple(c))
    for p in (1, 2):
        do(("notify", p))
    return ops, reached


def total_bytes(cfg, calls, seed):
    """bytes that flow when everything is delivered (upper bound for the sweep)"""
    import random
    rng = random.Random(seed)
    h = Harness(cfg)
    for c in calls:
        h.obs = []
        h.call(c[0], c[1])
    tot = 0
    guard = 0
    while guard < 10000:
        guard += 1
        cands = [p for p in (1, 2) if h.can_deliver(p)]
        fires = [c for c in sorted(h.later) if h.can_fire(c)]
        if cands:
            p = cands[0]
            n = len(h.pipe[p])
            h.obs = []
            h.deliver(p, n)
            tot += n
        elif fires:
            h.obs = []
            h.fire(fires[0])
        else:
            break
    return tot


def random_ops(rng, n, maxcalls):
    ops = []
    ncall = 0
    for _ in range(n):
        r = rng.random()
        if r < 0.22 and ncall < maxcalls:
            ops.append(("call", rng.choice([1, 2]), rng.choice(KINDS), rng.random() < 0.3))
            ncall += 1
        elif r < 0.62:
            p = rng.choice([1, 2])
            x = rng.random()
            if x < 0.3:
                ops.append(("deliver_box", p, 1, 1))
            elif x < 0.5:
                ops.append(("deliver_box", p, rng.randint(1, 7), 8))
            elif x < 0.65:
                ops.append(("deliver", p, 1))
            else:
                ops.append(("deliver", p, rng.randint(1, 200)))
        elif r < 0.8 and ncall:
            ops.append(("fire", rng.randint(1, ncall)))
        elif r < 0.85:
            ops.append(("close", rng.choice([1, 2])))
        elif r < 0.89:
            ops.append(("drop",))
        elif r < 0.97:
            ops.append(("notify", rng.choice([1, 2])))
        elif ncall < maxcalls + 2:
            ops.append(("call", rng.choice([1, 2]), rng.choice(KINDS), rng.random() < 0.3))
            ncall += 1
    # drain: make late behaviour visible
    if rng.random() < 0.5:
        for p in (1, 2):
            ops.append(("deliver", p, 10 ** 6))
    if rng.random() < 0.6:
        ops.append(("drop",) if rng.random() < 0.6 else ("close", rng.choice([1, 2])))
        order = [1, 2]
        rng.shuffle(order)
        for p in order:
            ops.append(("notify", p))
        for c in range(1, ncall + 1):
            if rng.random() < 0.5:
                ops.append(("fire", c))
        if rng.random() < 0.7:
            ops.append(("call", rng.choice([1, 2]), rng.choice(KINDS), rng.random() < 0.3))
        for p in order:
            ops.append(("notify", p))
    return ops


# --------------------------------------------------------------------------- verdict plumbing

def fingerprint(trace, rej):
    if rej.reached >= len(trace["ev"]):
        return "end"
    e = trace["ev"][rej.reached]
    kinds = sorted({o[0] + ":" + (o[2] if o[0] in ("fire", "exc") else "") for o in e["obs"]})
    return "%s/%s" % (e["e"], ",".join(kinds))


def describe(trace, rej):
    if rej.reached >= len(trace["ev"]):
        return "trace rejected at end"
    return "execution of two real AMP peers not explained by AmpRPC.tla at step %d: %s (preceding steps: %s)" % (
        rej.reached, trace["ev"][rej.reached], trace["ops"][max(0, rej.reached - 6):rej.reached])


def mutate(t, rng):
    evs = t["ev"]
    cands = [i for i, e in enumerate(evs) if e["obs"]]
    if not cands:
        return None
    i = rng.choice(cands)
    obs = evs[i]["obs"]
    j = rng.randrange(len(obs))
    o = obs[j]
    r = rng.random()
    if o[0] == "lose" and evs[i]["e"] != "close":
        obs.insert(j, list(o))                       # (dropping it would be legal: closing after an undeclared error is free)
    elif r < 0.3:
        obs.pop(j)                                   # an observation lost (a Deferred that never fires, a box never written)
    elif r < 0.5:
        obs.insert(j, list(o))                       # ... duplicated (fires twice)
    elif o[0] == "fire":
        if r < 0.75:
            o[1] = o[1] + 1                          # the wrong call's Deferred
        else:
            o[2] = "OK" if o[2] != "OK" else "UnknownRemoteError"
            o[3] = o[1] if o[2] == "OK" else 0
    elif o[0] == "resp":
        o[1] = o[1] + 1
    elif o[0] == "wr":
        o[1] = 3 - o[1]
    else:
        o[0] = "wr"
    return t


def run(ctx):
    from harness.core import MachineryError

    # the full run goes without -coverage (it triples the cost); the vacuity guard runs on a sub-model with coverage on
    r = ctx.mc("AmpRPCMC", "AmpRPCMC.cfg", coverage=False, label="2 calls, 9 responder kinds (one per wire/result class), fatal/undeclared error may or may not close")
    if not r.ok:
        raise MachineryError("AmpRPC spec violates its own invariants: " + r.error)
    if not ctx.quick:
        r3 = ctx.mc("AmpRPCMC", "AmpRPCMC.thorough.cfg", coverage=False, label="3 calls (<= 2 per peer), 6 responder kinds")
        if not r3.ok:
            raise MachineryError("AmpRPC spec violates its own invariants: " + r3.error)
    rr = ctx.mc("AmpRPCMC", "AmpRPCMC.re.cfg", coverage=False, label="2 calls whose errbacks may re-enter callRemote at disconnect")
    if not rr.ok:
        raise MachineryError("AmpRPC spec violates its own invariants: " + rr.error)
    rc = ctx.mc("AmpRPCMC", "AmpRPCMC.cov.cfg", label="coverage / vacuity guard on a sub-model")
    if not rc.ok:
        raise MachineryError("AmpRPC spec violates its own invariants: " + rc.error)
    ctx.require_actions("AmpRPCMC", ["CallRemote", "DeliverSome", "FireLater", "AppClose", "NetDrop", "Notify"])

    traces = []
    rng = ctx.rng
    # (A) disconnect sweeps: for a scenario, one run per byte position at which the network dies
    scen = []
    fl = lambda: rng.random() < 0.4                     # does the call's errback re-enter callRemote on a loss reason?
    for k in KINDS:
        scen.append([(1, k, fl())])
    pairs = [(a, b) for a in KINDS for b in KINDS]
    rng.shuffle(pairs)
    for a, b in pairs[:ctx.pick(8, 80)]:
        scen.append([(1, a, fl()), (2, b, fl())])
        if not ctx.quick:
            scen.append([(1, a, fl()), (1, b, fl())])
    if not ctx.quick:
        for _ in range(30):
            scen.append([(rng.choice([1, 2]), rng.choice(KINDS), fl()) for _ in range(3)])
    nsweep = 0
    for calls in scen:
        cfg = {"wac": bool(rng.random() < 0.5)}
        seed = rng.randrange(10 ** 9)
        tot = total_bytes(cfg, calls, seed)
        step = 1 if (len(calls) == 1 or not ctx.quick) else 3
        for cut in range(0, tot + 1, step):
            order = (1, 2) if (cut % 2 == 0) else (2, 1)
            late = [(rng.choice([1, 2]), rng.choice(KINDS), fl())]
            fault = "drop" if rng.random() < 0.8 else ("close", rng.choice([1, 2]))
            ops, reached = run_sweep(cfg, calls, seed, cut, order, late, fault)
            traces.append(run_rpc(cfg, ops))
            nsweep += 1
    ctx.extra["sweep_runs"] = nsweep
    ctx.extra["sweep_scenarios"] = len(scen)
    # (B) random schedules
    for _ in range(ctx.pick(1500, 60000)):
        cfg = {"wac": bool(rng.random() < 0.5)}
        traces.append(run_rpc(cfg, random_ops(rng, rng.randint(6, 40), rng.choice([1, 2, 3, 4, 6]))))
    # (C) spec -> code: behaviours generated by TLC from AmpRPC are stepped through the two real peers; the real
    # observations of every step must be the predicted ones (sizes aside); every run is validated by TLC below too.
    behs = ctx.simulate("AmpRPCSim", "AmpRPCSim.cfg", num=ctx.pick(150, 4000), depth=14)
    drift = 0
    for b in behs:
        ops = []
        for hh in b["hist"]:
            e = hh["e"]
            ops.append(("call", hh["p"], hh["k"], hh["f"]) if e == "call" else ("deliver_units", hh["p"], hh["n"]) if e == "deliver"
                       else ("fire", hh["c"]) if e == "fire" else ("close", hh["p"]) if e == "close"
                       else ("drop",) if e == "drop" else ("notify", hh["p"]))
        t = run_rpc(b["cfg"], ops)
        strip = lambda obs: [[o[0], o[1], o[2], 0 if o[0] == "wr" else o[3]] for o in obs]
        if [(e["e"], strip(e["obs"])) for e in t["ev"]] != [(hh["e"], strip(hh["obs"])) for hh in b["hist"]]:
            drift += 1
        traces.append(t)
    ctx.extra["spec_behaviours_replayed"] = len(behs)
    ctx.extra["spec_behaviours_not_reproduced"] = drift      # each of these is also rejected by TLC below
    ctx.exhaustive = False
    import collections
    fires = collections.Counter(o[2] for t in traces for e in t["ev"] for o in e["obs"] if o[0] == "fire")
    ctx.extra["deferred_results_observed"] = dict(fires)          # non-vacuity: every result class occurs in real runs
    ctx.extra["calls_failed_immediately_after_loss"] = sum(1 for t in traces for e in t["ev"] if e["e"] == "call" and e["obs"] and e["obs"][0][0] == "fire")
    ctx.note_traces(traces)
    ctx.log("recorded %d real executions (%d sweep runs over %d scenarios)" % (len(traces), nsweep, len(scen)))
    rej = ctx.validate("AmpRPCTrace", traces, shard_size=ctx.pick(1200, 4000))
    for x in rej[:50]:
        t = traces[x.idx]
        ctx.violation(fingerprint(t, x), describe(t, x), dict(cfg=t["cfg"], ops=t["ops"], rejected_at=x.reached))
    bad = {x.idx for x in rej}
    good = [t for i, t in enumerate(traces) if i not in bad and len(t["ev"]) >= 4]
    ctx.selftest_rejects("AmpRPCTrace", good[-300:], mutate, n=24)


def replay(ctx, obj):
    t = run_rpc(obj["cfg"], [tuple(o) for o in obj["ops"]])
    ctx.note_trace(t)
    rej = ctx.validate("AmpRPCTrace", [t])
    for x in rej:
        ctx.violation(fingerprint(t, x), describe(t, x), dict(cfg=t["cfg"], ops=t["ops"], rejected_at=x.reached))
    for e in t["ev"]:
        print(e)
