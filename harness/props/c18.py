"""C18 -- HTTP/1.1 server parsing does not depend on how bytes are segmented.

Spec:     specs/HttpSrvSeg.tla (the property, differential form) + HttpSrvSegTrace (trace validation);
          specs/HttpServer.tla + HttpServerMC (seg cfg): TLC checks on the model of the channel algorithm that the
          output is a function of the consumed prefix for all item streams within the bounds and all splits.
Binding:  real twisted.web.http.HTTPChannel + recording Request subclass (deterministic resource echoing a digest of
          what it received; answers inside process() or right after the delivery call) over a recording
          StringTransport.  Streams: the C19 grammar catalogue (valid and mutated, pipelined, bodies, chunked,
          continuation lines, Expect: 100-continue), random valid pipelines, streams around the implementation limits.
          Splits: every 2-piece split and the byte-by-byte split of short streams, random splits (biased to CR/LF and
          request boundaries) of all.  For every cut a split run reaches, a fresh connection gets the same bytes in
          one piece; TLC compares requests received, bytes written and closure.
"""

META = dict(
    id="C18",
    specs=["HttpSrvSeg.tla", "HttpSrvSegTrace.tla", "HttpServer.tla", "HttpServerMC.tla"],
    technique="differential trace validation by TLC (split run vs one-piece run of every prefix reached, on the real HTTPChannel) + TLA+ model of the channel algorithm model-checked for 'output is a function of the consumed prefix' over all item streams and splits within the bounds",
    level_text="For every generated stream and split, TLC checks that after each delivery the requests handed to the application (method, target, version, field lines, body) and the bytes written equal those of a fresh real connection given the same bytes in one piece, up to the server's close; and TLC proves the same for the specification's channel machine for every item stream and every split within the bounds.",
    level_note="Trusted: TLC, the adapter's rendering of Request attributes and transport bytes. The resource is deterministic (digest echo; answers inside process() or immediately after the delivery call returns). After the server asks the transport to close nothing more is delivered (as a real transport). Long streams get sampled splits only.",
    design_ref="2.7 C18/C19/C21",
    rule="case = (stream, resource mode, split plan); distinct = hash of the trace; non-trivial = the server produced output at some cut",
)

SHORT = 90          # streams up to this length get every 2-piece split and the byte-by-byte split


def _adapter():
    from harness.adapters import c18_c19_c21_http as A
    return A


def interesting_cuts(stream):
    """Positions next to CR / LF and at request-ish boundaries."""
    pos = set()
    for i, b in enumerate(stream):
        if b in (13, 10):
            pos.update((i, i + 1))
    return sorted(p for p in pos if 0 < p < len(stream))


def plans_for(stream, rng, nrand):
    n = len(stream)
    plans = []
    if n <= SHORT:
        for c in range(1, n):
            plans.append([c, n])
        plans.append(list(range(1, n + 1)))
    else:
        ic = interesting_cuts(stream)
        # few line ends (long lines, e.g. near-limit trailers): cut next to every one of them; otherwise a sample
        for c in (ic if len(ic) <= 160 else rng.sample(ic, 12)):
            plans.append([c, n])
    ic = interesting_cuts(stream)
    for _ in range(nrand):
        k = rng.randint(1, 6)
        cuts = set()
        for _ in range(k):
            cuts.add(rng.choice(ic) if ic and rng.random() < 0.6 else rng.randrange(1, max(2, n)))
        plans.append(sorted(c for c in cuts if 0 < c < n) + [n])
    return plans


def make_trace(label, stream, mode, plans):
    A = _adapter()
    whole_idx = {}
    whole = []

    def widx(n):
        if n not in whole_idx:
            whole.append(A.run_pieces(stream[:n], [n], mode)[0])
            whole_idx[n] = len(whole)
        return whole_idx[n]

    ev = []
    for cuts in plans:
        obs = A.run_pieces(stream, cuts, mode)
        first = len(cuts) == 1
        if mode == "end":       # the application answers only after the last delivery: one comparison, at the end
            if not first:
                ev.append({"e": "cut", "n": cuts[-1], "w": widx(cuts[-1]), "split": obs[-1]})
            continue
        for j, (n, o) in enumerate(zip(cuts, obs)):
            if j == 0 and not first and n != cuts[-1]:
                # the first piece of a split run *is* the one-piece run of that prefix: nothing to compare
                continue
            ev.append({"e": "cut", "n": n, "w": widx(n), "split": o})
    return {"cfg": {"mode": mode}, "whole": whole, "ev": ev, "label": label, "stream": stream.hex(), "plans": plans}


def fingerprint(trace, rej):
    e = trace["ev"][rej.reached] if rej.reached < len(trace["ev"]) else None
    if e is None:
        return trace["label"] + "|?"
    w = trace["whole"][e["w"] - 1]
    s = e["split"]
    what = "reqs" if s["reqs"] != w["reqs"] else ("wire" if s["wire"] != w["wire"] else "closed")
    return "%s|%s|%s" % (trace["label"], trace["cfg"]["mode"], what)


def mutate(t, rng):
    evs = [e for e in t["ev"] if e["split"]["wire"] or e["split"]["reqs"]]
    if not evs:
        return None
    e = rng.choice(evs)
    s = e["split"]
    x = rng.random()
    if x < 0.35 and s["reqs"]:
        r = s["reqs"][-1]
        s["reqs"][-1] = r[:-2] + ("00" if r[-2:] != "00" else "01") if len(r) > 2 and r[-1] != "." else r + "41"
    elif x < 0.55 and s["reqs"]:
        s["reqs"] = s["reqs"][:-1]
    elif x < 0.8 and s["wire"]:
        s["wire"] = s["wire"][:-2]
    else:
        s["closed"] = not s["closed"]
    return t


def streams(ctx):
    A = _adapter()
    rng = ctx.rng
    out = []
    cat = list(A.mutated_requests(thorough=not ctx.quick))
    if ctx.quick:
        # the per-octet sweeps are C19's business; keep a sample of them and every structural mutation here
        cat = [(l, r) for (l, r) in cat if "-byte:" not in l or rng.random() < 0.06]
    else:
        cat = [(l, r) for (l, r) in cat if "-byte:" not in l or rng.random() < 0.25]
    for label, r in cat:
        s = r + A.FOLLOW
        if rng.random() < 0.3:
            v, close = A.valid_request(rng)
            if not close:
                s = v + s
        out.append((label, s))
    for i in range(ctx.pick(80, 600)):
        n = rng.randint(1, 3)
        s = b""
        for _ in range(n):
            v, close = A.valid_request(rng)
            s += (A.CRLF if rng.random() < 0.1 else b"") + v
        out.append(("valid-pipeline", s))
    for label, s in A.long_streams():
        out.append((label, s))
    return out


def run(ctx):
    from harness.core import MachineryError

    run_mc(ctx)
    traces = []
    nplans = 0
    for label, s in streams(ctx):
        both = (len(s) <= SHORT or ctx.rng.random() < 0.5) and (not ctx.quick or ctx.rng.random() < 0.5)
        for mode in (("now", "later", "end") if both else (ctx.rng.choice(["now", "later", "end"]),)):
            plans = plans_for(s, ctx.rng, ctx.pick(2, 6))
            if len(s) <= SHORT and ctx.quick and ctx.rng.random() < 0.5:
                plans = [p for p in plans if len(p) != 2 or ctx.rng.random() < 0.5]
            nplans += len(plans)
            traces.append(make_trace(label, s, mode, plans))
    ctx.extra["split_runs"] = nplans
    ctx.extra["streams"] = len(traces)
    slim = [{"cfg": t["cfg"], "whole": t["whole"], "ev": t["ev"]} for t in traces]
    import hashlib, json
    for t, full in zip(slim, traces):
        nt = any(e["split"]["wire"] for e in t["ev"])
        if len(full["stream"]) > 800:     # long streams: keep the evidence file small, note a digest of the trace
            ctx.note_trace({"cfg": t["cfg"], "label": full["label"], "comparisons": len(t["ev"]),
                            "sha1": hashlib.sha1(json.dumps(t, sort_keys=True).encode()).hexdigest()}, nontrivial=nt)
        else:
            ctx.note_trace(t, nontrivial=nt)
    ctx.log("recorded %d (stream, mode) cases, %d split runs, %d comparisons" % (len(traces), nplans, sum(len(t["ev"]) for t in traces)))
    rej = ctx.validate("HttpSrvSegTrace", slim, shard_size=ctx.pick(150, 400))
    for x in rej[:200]:
        t = traces[x.idx]
        e = t["ev"][x.reached]
        w = t["whole"][e["w"] - 1]
        ctx.violation(fingerprint(t, x),
                      "split delivery differs from one-piece delivery of the same %d bytes (%s, mode %s): split=%s one-piece=%s" % (
                          e["n"], t["label"], t["cfg"]["mode"], _short(e["split"]), _short(w)),
                      dict(stream=t["stream"], mode=t["cfg"]["mode"], plans=t["plans"], label=t["label"]))
    bad = {x.idx for x in rej}
    good = [slim[i] for i in range(len(slim)) if i not in bad and slim[i]["ev"]]
    ctx.rng.shuffle(good)
    ctx.selftest_rejects("HttpSrvSegTrace", good[:100], mutate, n=20)


def _short(o):
    return "reqs=%d wire=%s closed=%s" % (len(o["reqs"]), bytes.fromhex(o["wire"].split("!")[0])[-60:], o["closed"])


def run_mc(ctx):
    import os
    from harness.core import MachineryError, SPECS

    if os.environ.get("VERIF_SKIP_MC"):
        # the design-level TLC runs do not depend on the twisted tree; mutant runs may skip them
        ctx.log("VERIF_SKIP_MC set: design-level TLC runs skipped (binding only)")
        ctx.assumptions.append("design-level TLC runs skipped in this run (VERIF_SKIP_MC)")
        return

    if not os.path.exists(os.path.join(SPECS, "HttpServerMC.tla")):
        ctx.log("HttpServerMC not present: machine-level check skipped")
        return
    r = ctx.mc("HttpServerMC", ctx.pick("HttpServerMC.c18.cfg", "HttpServerMC.c18.thorough.cfg"), timeout=ctx.pick(900, 3000))
    if not r.ok:
        raise MachineryError("HttpServer (channel algorithm model): output is not a function of the consumed prefix: %s\n%s" % (
            r.error, "".join(r.cex[-3:])[-3000:]))
    ctx.require_actions("HttpServerMC", ["Deliver", "FinishLater", "Lose"])


def replay(ctx, obj):
    s = bytes.fromhex(obj["stream"])
    t = make_trace(obj.get("label", "replay"), s, obj["mode"], obj["plans"])
    slim = {"cfg": t["cfg"], "whole": t["whole"], "ev": t["ev"]}
    ctx.note_trace(slim, nontrivial=True)
    rej = ctx.validate("HttpSrvSegTrace", [slim])
    for x in rej:
        e = t["ev"][x.reached]
        w = t["whole"][e["w"] - 1]
        print("cut", e["n"], "split:", _short(e["split"]), "one-piece:", _short(w))
        ctx.violation(fingerprint(t, x), "replayed split differs at %d bytes" % e["n"],
                      dict(stream=obj["stream"], mode=obj["mode"], plans=obj["plans"], label=t["label"]))
