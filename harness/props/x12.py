"""X12 (extension, not a listed property) -- twisted.mail.smtp.SMTP / ESMTP server command + envelope state machine.
Spec: specs/SmtpSession.tla.  Reported under coverage.extra_modules of the nearest property (C40, which owns the
body-transparency clause; this module models HELO/EHLO, MAIL, RCPT, DATA, RSET, QUIT ordering, the replies, and the
life cycle of the IMessage objects).

Binding: a real smtp.SMTP / smtp.ESMTP on a StringTransport with a task.Clock for its idle timer and a recording
IMessageDelivery.  One event per call into the protocol (dataReceived of one line, a Deferred fired, the clock
advanced by the timeout, connectionLost).  Logged per event: every call the server made into user code
(validateFrom/validateTo/receivedHeader arguments, message factory, IMessage.lineReceived/eomReceived/connectionLost),
every reply written to the transport (code + which text + the failure counts), and transport.disconnecting."""
import itertools
import re

META = dict(
    id="X12", extension=True, nearest="C40",
    specs=["SmtpSession.tla", "SmtpSessionMC.tla", "SmtpSessionTrace.tla"],
    technique="TLA+ spec of the SMTP server's command/envelope state machine (deferred validators, refusing factories and "
              "messages, deferred eomReceived, timeout, QUIT, connection loss) + TLC trace validation of the real "
              "smtp.SMTP/ESMTP driven line by line on a StringTransport",
    level_text="extension module: grows the specification beyond the listed properties",
    level_note="not a listed property; alarms are reported as EXTRA-ALARM, never as VIOLATION. Trusted: TLC, the recording "
               "delivery/message fakes, StringTransport. AUTH/STARTTLS, cred portals, pipelined chunks and dot-stuffing "
               "(C40) are not modelled.",
    design_ref="4 (extensions)",
    rule="history of command lines (in and out of order), body lines, fired Deferreds, idle timeout, connection loss; "
         "exhaustive over a 7-line core alphabet up to a length bound + seeded random over the full alphabet; distinct by event sequence",
)

_QUIET = []
BODY = {1: b"Subject: x", 2: b"hello world", 3: b"", 4: b"POISON"}
TAGS = [
    (220, b"", "greet"), (221, b"", "bye"), (354, b"", "continue"), (421, b"", "timeout"),
    (250, b"nice to meet you", "hello"), (250, b"Sender address accepted", "sender-ok"),
    (250, b"Recipient address accepted", "rcpt-ok"), (250, b"I remember nothing", "rset"),
    (250, b"Delivery in progress", "delivered"), (550, b"Could not send e-mail", "undelivered"),
    (503, b"Only one sender", "one-sender"), (503, b"Must have sender", "need-sender"),
    (503, b"Must have valid receiver and originator", "need-rcpt"), (501, b"Syntax error", "syntax"),
    (500, b"Command not implemented", "unknown"), (500, b"Error: bad syntax", "badsyntax"),
    (500, b"Line too long", "toolong"), (550, b"Cannot receive from specified address", "bad-sender"),
    (550, b"Cannot receive for specified address", "bad-rcpt"), (452, b"mailbox full", "mkfail"), (552, b"poison", "poison"),
]


def parse_replies(data):
    """bytes written by the server -> [[code, tag, a, b], ...]; one entry per complete reply (its last line)."""
    out = []
    lines = data.split(b"\r\n")
    if lines and lines[-1] == b"":
        lines.pop()
    else:
        out.append([0, "partial", 0, 0])
    for ln in lines:
        if len(ln) >= 4 and ln[:3].isdigit() and ln[3:4] == b"-":
            continue
        if len(ln) < 3 or not ln[:3].isdigit():
            out.append([0, "garbage", 0, 0])
            continue
        code, text = int(ln[:3]), ln[4:]
        tag, a, b = "other", 0, 0
        for c, frag, t in TAGS:
            if c == code and frag in text:
                tag = t
                break
        if tag == "undelivered":
            m = re.search(rb"\((\d+) failures out of (\d+) recipients\)", text)
            if m:
                a, b = int(m.group(1)), int(m.group(2))
        out.append([code, tag, a, b])
    return out


def line_of(op):
    k = op[0]
    if k == "helo":
        return b"HELO h%d" % op[1]
    if k == "ehlo":
        return b"EHLO h%d" % op[1]
    if k == "mail":
        return b"MAIL FROM" if op[1] == 0 else (b"MAIL FROM:<>" if op[1] == 3 else b"MAIL FROM:<s%d@x.org>" % op[1])
    if k == "rcpt":
        return b"RCPT TO" if op[1] == 0 else b"RCPT TO:<r%d@x.org>" % op[1]
    if k == "body":
        return BODY[op[1]]
    if k == "long":
        return b"x" * 17000
    return {"data": b"DATA", "rset": b"RSET", "quit": b"QUIT", "dot": b"."}[k]


def run_history(cfg, ops):
    from zope.interface import implementer
    from twisted.internet import defer, task
    from twisted.internet.error import ConnectionDone
    from twisted.internet.testing import StringTransport
    from twisted.mail import smtp
    from twisted.mail.interfaces import IMessageDelivery, IMessageSMTP
    from twisted.python.failure import Failure

    if not _QUIET:
        # SMTP reports failed deliveries with log.err; the global publisher prints critical events to stderr until
        # logging is started: start it with a null observer (harness environment only).
        from twisted.logger import globalLogBeginner
        try:
            globalLogBeginner.beginLoggingTo([lambda event: None], redirectStandardIO=False, discardBuffer=True)
        except Exception:
            pass
        _QUIET.append(1)
    calls = []       # user-code calls made by the server during the current event
    pending = []     # [kind, Deferred, payload, done]
    nmsg = [0]
    verdict = ["ok"]

    def num(b, prefix):
        m = re.fullmatch(prefix + rb"(\d+)", b or b"")
        return int(m.group(1)) if m else -1

    def sid(addr):
        if addr is None:
            return -1
        return 3 if (addr.local == b"" and addr.domain == b"") else num(addr.local, rb"s")

    def hid(helo):
        return 0 if helo[0] is None else num(helo[0], rb"h")

    def cls(line):
        if line == b"Received: x":
            return 0
        if line == b"":
            return 3
        if line == BODY[4]:
            return 4
        return 1 if b":" in line else 2

    @implementer(IMessageSMTP)
    class Msg:
        def __init__(self, mid, r):
            self.mid, self.r = mid, r

        def lineReceived(self, line):
            c = cls(line)
            if c == 4 and cfg["picky"][self.r - 1]:
                calls.append(["line!", self.mid, c, 0, 0])
                raise smtp.SMTPServerError(552, b"poison")
            calls.append(["line", self.mid, c, 0, 0])

        def eomReceived(self):
            calls.append(["eom", self.mid, 0, 0, 0])
            how = cfg["eom"][self.r - 1]
            if how == "ok":
                return defer.succeed(None)
            if how == "fail":
                return defer.fail(RuntimeError("no space"))
            d = defer.Deferred()
            pending.append(["eom", d, None, False])
            return d

        def connectionLost(self):
            calls.append(["lost", self.mid, 0, 0, 0])

    def factory_for(r):
        def make():
            if cfg["mk"][r - 1]:
                calls.append(["mk!", 0, r, 0, 0])
                raise smtp.SMTPServerError(452, b"mailbox full")
            nmsg[0] += 1
            calls.append(["mk", nmsg[0], r, 0, 0])
            return Msg(nmsg[0], r)
        return make

    @implementer(IMessageDelivery)
    class Delivery:
        def receivedHeader(self, helo, origin, recipients):
            u = recipients[0]
            calls.append(["hdr", sid(origin), hid(helo), num(u.dest.local, rb"r"), sid(u.orig)] if len(recipients) == 1
                         else ["hdr?", len(recipients), 0, 0, 0])
            return b"Received: x"

        def validateFrom(self, helo, origin):
            calls.append(["vfrom", sid(origin), hid(helo), 0, 0])
            if verdict[0] == "ok":
                return origin
            if verdict[0] == "bad":
                raise smtp.SMTPBadSender(origin)
            d = defer.Deferred()
            pending.append(["from", d, origin, False])
            return d

        def validateTo(self, user):
            r = num(user.dest.local, rb"r")
            calls.append(["vto", r, sid(user.orig), hid(user.helo), 0])
            if verdict[0] == "ok":
                return factory_for(r)
            if verdict[0] == "bad":
                raise smtp.SMTPBadRcpt(user)
            d = defer.Deferred()
            pending.append(["to", d, (user, r), False])
            return d

    srv = smtp.ESMTP() if cfg["esmtp"] else smtp.SMTP()
    srv.delivery = Delivery()
    srv.noisy = False
    clock = task.Clock()
    srv.callLater = clock.callLater
    tr = StringTransport()
    ev = []

    def emit(e, exc=None):
        e["calls"] = [list(c) for c in calls]
        e["out"] = parse_replies(tr.value()) + ([[0, "exc:" + exc, 0, 0]] if exc else [])
        e["closing"] = bool(tr.disconnecting)
        del calls[:]
        tr.clear()
        ev.append(e)

    srv.makeConnection(tr)
    emit({"e": "connect"})
    for op in ops:
        k, exc = op[0], None
        try:
            if k == "fire":
                i, ok = op[1], bool(op[2])
                if i < 1 or i > len(pending) or pending[i - 1][3]:
                    continue
                kind, d, payload, _ = pending[i - 1]
                pending[i - 1][3] = True
                e = {"e": "fire", "i": i, "ok": ok}
                if kind == "from":
                    d.callback(payload) if ok else d.errback(Failure(smtp.SMTPBadSender(payload)))
                elif kind == "to":
                    d.callback(factory_for(payload[1])) if ok else d.errback(Failure(smtp.SMTPBadRcpt(payload[0])))
                else:
                    d.callback(None) if ok else d.errback(Failure(RuntimeError("no space")))
            elif k == "idle":
                e = {"e": "idle"}
                clock.advance(srv.timeout)
            elif k == "lost":
                e = {"e": "lost"}
                srv.connectionLost(Failure(ConnectionDone()))
            else:
                e = {"e": k}
                if k in ("helo", "ehlo"):
                    e["h"] = op[1]
                elif k == "mail":
                    e["s"], e["v"] = op[1], op[2]
                    verdict[0] = op[2]
                elif k == "rcpt":
                    e["r"], e["v"] = op[1], op[2]
                    verdict[0] = op[2]
                elif k == "body":
                    e["c"] = op[1]
                srv.dataReceived(line_of(op) + b"\r\n")
        except Exception as x:      # an exception escaping to the transport is itself an observable
            exc = type(x).__name__
        emit(e, exc)
        if k == "lost":
            break
    return {"cfg": cfg, "ops": [list(o) for o in ops], "ev": ev}


PLAIN = dict(esmtp=False, mk=[False, False, False], eom=["ok", "ok", "ok"], picky=[False, False, False])
CORE = [("helo", 1), ("mail", 1, "ok"), ("rcpt", 1, "ok"), ("data",), ("rset",), ("dot",), ("body", 2)]
# second exhaustive family: after an opened transaction with one recipient waiting for its validator
LATE = [("mail", 2, "later"), ("rcpt", 2, "later"), ("data",), ("rset",), ("dot",), ("fire", 1, True), ("fire", 2, True),
        ("fire", 1, False), ("body", 4), ("lost",)]
LATE_CFG = dict(esmtp=False, mk=[False, False, False], eom=["later", "fail", "ok"], picky=[False, True, False])


def random_cfg(rng):
    return dict(esmtp=rng.random() < 0.4,
                mk=[False, rng.random() < 0.15, rng.random() < 0.15],
                eom=[rng.choice(["ok", "ok", "later", "fail"]) for _ in range(3)],
                picky=[rng.random() < 0.3 for _ in range(3)])


def random_ops(rng, n):
    """Mostly follows the transaction path (so deep states are reached), with deviations from the full alphabet."""
    ops, phase = [], 0          # phase: 0 start, 1 greeted, 2 sender, 3 recipient(s), 4 in DATA
    verdict = lambda: rng.choice(["ok", "ok", "ok", "bad", "later", "later"])
    for _ in range(n):
        x = rng.random()
        if x < 0.66:
            if phase == 0:
                op = (rng.choice(["helo", "helo", "ehlo"]), rng.choice([1, 2]))
            elif phase == 1:
                op = ("mail", rng.choice([1, 1, 2, 3]), verdict())
            elif phase == 2:
                op = ("rcpt", rng.choice([1, 2, 3]), verdict())
            elif phase == 3:
                op = rng.choice([("rcpt", rng.choice([1, 2, 3]), verdict()), ("data",), ("data",)])
            else:
                op = rng.choice([("body", rng.choice([1, 2, 3, 4, 4])), ("body", rng.choice([1, 2, 3, 4, 4])), ("dot",)])
            if op[0] in ("helo", "ehlo"):
                phase = 1
            elif op[0] in ("mail", "rcpt"):
                phase = phase + 1 if (op[2] == "ok" and phase < 3) else phase
            elif op[0] == "data":
                phase = 4
            elif op[0] == "dot":
                phase = 1
        elif x < 0.80:
            op = ("fire", rng.randint(1, 4), rng.random() < 0.7)
        elif x < 0.83:
            op = ("rset",)
            phase = min(phase, 1) if phase != 4 else 4
        else:
            op = rng.choice([("helo", 1), ("ehlo", 2), ("mail", rng.choice([0, 1, 2]), verdict()), ("rcpt", rng.choice([0, 1, 2, 3]), verdict()),
                             ("data",), ("dot",), ("body", rng.randint(1, 4)), ("long",), ("rset",),
                             ("quit",) if rng.random() < 0.3 else ("body", 2),
                             ("idle",) if rng.random() < 0.3 else ("dot",),
                             ("lost",) if rng.random() < 0.3 else ("data",)])
        ops.append(op)
    return ops


def build_traces(ctx):
    traces = []
    # exhaustive-short: every order of the core lines (valid and out of order) up to the length bound
    for n in range(1, ctx.pick(4, 5) + 1):
        for seq in itertools.product(CORE, repeat=n):
            traces.append(run_history(PLAIN, list(seq)))
    nex = len(traces)
    # exhaustive-short with late validators / late and failing eomReceived / a picky message, after a fixed opening
    pre = [("helo", 1), ("mail", 1, "ok"), ("rcpt", 1, "ok")]
    for n in range(1, ctx.pick(3, 4) + 1):
        for seq in itertools.product(LATE, repeat=n):
            traces.append(run_history(LATE_CFG, pre + list(seq)))
    nlate = len(traces) - nex
    for _ in range(ctx.pick(1000, 12000)):
        traces.append(run_history(random_cfg(ctx.rng), random_ops(ctx.rng, ctx.rng.randint(4, 28))))
    ctx.extra["histories"] = dict(exhaustive_core=nex, exhaustive_late=nlate, random=len(traces) - nex - nlate)
    return traces


def fingerprint(t, reached):
    e = t["ev"][reached] if reached < len(t["ev"]) else {}
    return "smtpsession/%s" % e.get("e")


def run(ctx):
    ctx.mc("SmtpSessionMC", ctx.pick("SmtpSessionMC.cfg", "SmtpSessionMC.thorough.cfg"), label="wide")
    ctx.mc("SmtpSessionMC", ctx.pick("SmtpSessionMC.deep.cfg", "SmtpSessionMC.deep.thorough.cfg"), label="deep", coverage=False)
    ctx.require_actions("SmtpSessionMC", ["Connect", "Helo", "Ehlo", "Mail", "Rcpt", "Data", "Rset", "Quit", "Dot", "Body",
                                           "Long", "Idle", "Fire", "Lost"])
    # vacuity: the deviations the conditional invariants step around are reachable (TLC must find them)
    from harness.core import MachineryError
    for cfgfile, what in [("SmtpSessionMC.reachD2.cfg", "a recipient accepted late sits in an envelope without sender (D2)")] + \
                         ([] if ctx.quick else [("SmtpSessionMC.reachD4.cfg", "a message is told connectionLost twice (D4)")]):
        r = ctx.mc("SmtpSessionMC", cfgfile, must_pass=False, coverage=False, label="vacuity: reachable: " + what)
        if r.ok or r.kind != "invariant":
            raise MachineryError("vacuity: %s expected reachable, got ok=%s kind=%s" % (what, r.ok, r.kind))
    traces = build_traces(ctx)
    ctx.note_traces(traces)
    rej = ctx.validate("SmtpSessionTrace", traces, shard_size=ctx.pick(max(400, (len(traces) + 3) // 4), 3000))
    for x in rej[:10]:
        t = traces[x.idx]
        e = t["ev"][x.reached] if x.reached < len(t["ev"]) else None
        ctx.violation(fingerprint(t, x.reached),
                      "smtp server execution not explained by SmtpSession.tla at event %d: %s" % (x.reached, e),
                      dict(cfg=t["cfg"], ops=t["ops"]))

    def mutate(t, rng):
        idx = list(range(len(t["ev"])))
        rng.shuffle(idx)
        how = rng.choice(["reply", "code", "call", "closing"])
        for i in idx:
            e = t["ev"][i]
            if how == "reply" and e["out"]:
                e["out"].pop()
                return t
            if how == "code" and e["out"]:
                e["out"][0][0] = 250 if e["out"][0][0] != 250 else 503
                return t
            if how == "call" and e["calls"]:
                e["calls"].pop(rng.randrange(len(e["calls"])))
                return t
            if how == "closing":
                e["closing"] = not e["closing"]
                return t
        return None
    bad = {x.idx for x in rej}
    good = [t for i, t in enumerate(traces) if i not in bad]
    ctx.rng.shuffle(good)
    ctx.selftest_rejects("SmtpSessionTrace", good[:200], mutate, n=12)


def replay(ctx, obj):
    t = run_history(obj["cfg"], [tuple(o) for o in obj["ops"]])
    for e in t["ev"]:
        print(e)
    for x in ctx.validate("SmtpSessionTrace", [t]):
        ctx.violation("smtpsession/replay", "rejected at %d" % x.reached, dict(cfg=t["cfg"], ops=t["ops"]))
