"""C49 -- Team / ThreadPool: every task exactly once within the worker limit.

Specs:    specs/Team.tla (+ TeamMC exhaustive, TeamTrace trace validation)   -- the Team with in-memory workers
          specs/TPool.tla (+ TPoolMC, TPoolTrace)                            -- what a client of the real ThreadPool observes
Binding:  (a) the real twisted._threads.Team built by the real twisted._threads._pool.pool() (so the real
          limitedWorkerCreator is bound too), with _pool.LockWorker / _pool.ThreadWorker replaced by logging
          proxies around createMemoryWorker(): every unit of coordinator / worker work runs only when the
          harness calls that worker's perform(), so every schedule is harness-chosen.  One event per public
          call and per perform(); each carries the call outcome, the interactions with the collaborators
          (coordinator.do/quit, worker creation/do/quit, task runs, logException) and Team.statistics().
          The same with the real LockWorker as coordinator (its work runs inline; the recorded step is cut at
          logged markers into call + coordinator steps).
          (b) the real twisted.python.threadpool.ThreadPool under stress with real threads; events (submit,
          task begin/end, onResult, thread start/exit, stop call/return) are appended to one list in real-time
          order and validated as concurrent traces.  TLC decides.
"""
import itertools

META = dict(
    id="C49",
    specs=["Team.tla", "TeamMC.tla", "TeamTrace.tla", "TPool.tla", "TPoolMC.tla", "TPoolTrace.tla"],
    technique="TLA+ transcription of Team (coordinator queue, idle/busy/backlog/toShrink, worker queues) checked exhaustively by TLC over all schedules of calls, coordinator steps and worker steps; TLC trace validation of the real Team driven with memory workers (state-hashed exhaustive schedules for small call budgets, random long schedules) and of stress runs of the real ThreadPool with real threads",
    level_text="TLC checks on the Team specification, for every schedule within the bounds: each accepted task runs at most once and exactly once by quiescence (unless backlogged with no worker in existence), workers are created only below the limit, a worker is never handed a second task before finishing the first, calls after quit() are refused, and after quit() every worker and the coordinator are stopped at quiescence. Every recorded schedule of the real Team and every recorded stress run of the real ThreadPool is validated by TLC as a behaviour of the specification with every logged field matched and the invariants evaluated after every step.",
    level_note="Trusted: TLC; createMemoryWorker() as the test double for coordinator and workers (twisted's own); the proxies' logging; for the ThreadPool runs, that appending to one Python list orders events consistently with real time. Real-thread runs are samples of the OS scheduler's choices, not exhaustive. LockWorker/ThreadWorker themselves are exercised only through the ThreadPool stress runs.",
    design_ref="2.9 C49",
    rule="schedule = sequence of do/grow/shrink/setlimit/quit calls and coordinator/worker perform() steps; distinct = hash of (cfg, events); non-trivial = at least two different event kinds",
)

ALL = -1


class TaskAbort(BaseException):
    """A task failure that is not an Exception subclass."""


def exc_class(kind):
    """How a task fails: 0/False = it succeeds; 1/True RuntimeError; 2 a BaseException subclass that is not an
    Exception; 3 asyncio.CancelledError (BaseException since 3.8); 4 SystemExit (only used in pool threads)."""
    import asyncio
    return {1: RuntimeError, 2: TaskAbort, 3: asyncio.CancelledError, 4: SystemExit}[int(kind)]


# ============================================================================ (a) Team with memory workers

class TeamRun:
    """The real Team from the real pool(), with memory workers behind logging proxies."""

    def __init__(self, limit, hashes=None, coordinator="memory"):
        from twisted._threads import _pool, _memory
        self._pool = _pool
        self.limit = limit
        self.coordinator = coordinator
        self.sub = []          # interactions observed during the current step
        self.workers = []      # proxies, index = worker id - 1
        self.nT = 0
        self.ran = []
        self.hashes = hashes or {}
        run = self

        class Proxy:
            def __init__(p, idx):
                p.idx = idx
                p.inner, p.perform = _memory.createMemoryWorker()

            def __hash__(p):
                return run.hashes.get(p.idx, p.idx)

            def do(p, work):
                run.sub.append(["cdo", 0] if p.idx == 0 else ["wdo", p.idx])
                p.inner.do(work)

            def quit(p):
                run.sub.append(["cquit", 0] if p.idx == 0 else ["wquit", p.idx])
                p.inner.quit()

        self.Proxy = Proxy
        if coordinator == "memory":
            self.coord = Proxy(0)
        else:
            # the real LockWorker as coordinator: its work runs inline in the caller (queued when re-entrant);
            # a marker with the statistics at that moment is logged where each unit of work starts, so that the
            # step can be cut into "call" + "coordinator step(s)" for the specification
            import threading
            from twisted._threads import _threadworker
            real = _threadworker.LockWorker(threading.Lock(), threading.local())

            class LockProxy:
                idx = 0

                def do(p, work):
                    run.sub.append(["cdo", 0])

                    def marked():
                        run.sub.append(["cbegin", run.stats()])
                        try:
                            work()
                        except BaseException:
                            run.sub.append(["cexc", 0])    # this unit of coordinator work raised
                            raise
                    real.do(marked)

                def quit(p):
                    run.sub.append(["cquit", 0])
                    real.quit()

                def perform(p):
                    return False
            self.coord = LockProxy()

        self.fail_next = False     # the next worker creation fails the way a thread start fails

        def make_worker(startThread, queue):
            if run.fail_next:
                run.fail_next = False
                run.sub.append(["createfail", 0])
                raise RuntimeError("can't start new thread")
            w = Proxy(len(run.workers) + 1)
            run.workers.append(w)
            run.sub.append(["create", w.idx])
            return w

        def log_exception(*a, **k):
            run.sub.append(["logexc", run.current_task])

        self.saved = (_pool.LockWorker, _pool.ThreadWorker, _pool.err)
        _pool.LockWorker = lambda lock, local: self.coord
        _pool.ThreadWorker = make_worker
        _pool.err = log_exception
        self.current_task = 0
        try:
            self.team = _pool.pool(lambda: self.limit)
        except BaseException:
            self.close()
            raise

    def close(self):
        self._pool.LockWorker, self._pool.ThreadWorker, self._pool.err = self.saved

    def stats(self):
        s = self.team.statistics()
        return [s.idleWorkerCount, s.busyWorkerCount, s.backloggedWorkCount]

    def _event(self, e, n, raised, fn, boolres=False):
        self.sub = []
        x = ""
        try:
            r = fn()
            res = ("true" if r else "false") if boolres else "ok"
        except BaseException as ex:
            x = type(ex).__name__
            if ["cexc", 0] in self.sub:
                # raised by coordinator work that ran inline: attributed to that coordinator step (split_inline)
                res = "true" if boolres else "ok"
                x = ""
            else:
                res = x if x == "AlreadyQuit" and not boolres else "EXC"
            if res == "EXC":
                self.sub.append(["exc", 0])
        ev = {"e": e, "res": res, "n": n, "raised": raised, "sub": [list(s) for s in self.sub], "st": self.stats()}
        if x and res == "EXC":
            ev["x"] = x
        return ev

    def apply(self, op):
        """Perform one op on the real objects; returns the event (None if the op names a worker that does not exist)."""
        k = op[0]
        if k == "failnext":
            self.fail_next = True
            return None
        if k == "do":
            self.nT += 1
            t = self.nT
            raises = bool(op[1])
            exc = exc_class(op[1]) if raises else None

            def task():
                self.current_task = t
                self.sub.append(["run", t])
                self.ran.append(t)
                if raises:
                    raise exc("task %d" % t)
            task.t = t
            task.raises = raises
            self.tasks = getattr(self, "tasks", {})
            self.tasks[t] = task
            return self._event("do", t, False, lambda: self.team.do(task))
        if k == "grow":
            return self._event("grow", op[1], False, lambda: self.team.grow(op[1]))
        if k == "shrink":
            return self._event("shrink", op[1], False, lambda: self.team.shrink(None if op[1] == ALL else op[1]))
        if k == "setlimit":
            self.limit = op[1]
            return self._event("setlimit", op[1], False, lambda: None)
        if k == "quit":
            return self._event("quit", 0, False, lambda: self.team.quit())
        if k == "coord":
            return self._event("coord", 0, False, self.coord.perform, boolres=True)
        if k == "work":
            w = op[1]
            if w < 1 or w > len(self.workers):
                return None
            before = len(self.ran)
            ev = self._event("work", w, False, self.workers[w - 1].perform, boolres=True)
            if len(self.ran) > before:
                ev["raised"] = self.tasks[self.ran[-1]].raises
            return ev
        raise ValueError(op)


def split_inline(e):
    """Cut an event recorded with the LockWorker coordinator at its "cbegin" markers into the call / worker step
    itself and the coordinator steps that ran inline (a step whose work raised gets res "exc").  `fin` marks
    the last event of the harness operation."""
    if e is None:
        return []
    segs = [[]]
    sts = []
    for s in e["sub"]:
        if s[0] == "cbegin":
            sts.append(s[1])
            segs.append([])
        else:
            segs[-1].append(s)
    sts.append(e["st"])
    out = [dict(e, sub=segs[0], st=sts[0])]
    for i in range(1, len(segs)):
        failed = ["cexc", 0] in segs[i]
        out.append({"e": "coord", "res": "exc" if failed else "true", "n": 0, "raised": False,
                    "sub": [x for x in segs[i] if x[0] != "cexc"], "st": sts[i]})
    for x in out:
        x["fin"] = False
    out[-1]["fin"] = True
    return out


def run_history(limit, ops, hashes=None, coordinator="memory"):
    r = TeamRun(limit, hashes, coordinator)
    ev = []
    done = []
    try:
        for op in ops:
            if coordinator != "memory" and op[0] == "coord":
                continue
            if coordinator == "memory" and op[0] == "failnext":
                continue
            e = r.apply(tuple(op))
            if e is not None or op[0] == "failnext":
                ev += split_inline(e)
                done.append(list(op))
    finally:
        r.close()
    return {"cfg": {"limit": limit, "inline": coordinator != "memory"}, "ops": done, "hashes": {str(k): v for k, v in (hashes or {}).items()},
            "coordinator": coordinator, "ev": ev}


def absval(x, seen, extra):
    """Structural hash key of the real object graph (pruning only, never a verdict): no attribute is named."""
    import collections
    import types
    if x is None or isinstance(x, (bool, int, str)):
        return x
    if id(x) in seen:
        return ("ref", type(x).__name__, getattr(x, "idx", None))
    if isinstance(x, TeamRun):
        return ("run",)
    seen = seen | {id(x)}
    t = getattr(x, "t", None)
    if isinstance(x, types.FunctionType) and t is not None:
        return ("task", t)
    if isinstance(x, types.FunctionType):
        return ("fn", x.__code__.co_name, tuple(absval(c.cell_contents, seen, extra) for c in (x.__closure__ or ()) if _cell_ok(c)))
    if isinstance(x, types.MethodType):
        return ("meth", x.__func__.__name__, absval(x.__self__, seen, extra))
    if isinstance(x, (list, tuple, collections.deque)):
        return tuple(absval(v, seen, extra) for v in x)
    if isinstance(x, (set, frozenset)):
        return tuple(sorted((absval(v, seen, extra) for v in x), key=repr))
    if isinstance(x, dict):
        return tuple(sorted(((str(k), absval(v, seen, extra)) for k, v in x.items()), key=repr))
    d = getattr(x, "__dict__", None)
    if d is not None and type(x).__module__.startswith(("twisted.", "harness.")) or type(x).__name__ == "Proxy":
        return ("obj", type(x).__name__, absval(d, seen, extra))
    return ("opaque", type(x).__name__, repr(x) if isinstance(x, (float,)) or type(x).__module__ == "enum" or hasattr(x, "name") else "")


def _cell_ok(c):
    try:
        c.cell_contents
        return True
    except ValueError:
        return False


def state_key(r, used):
    return (absval(r.team, frozenset(), None), tuple(absval(w, frozenset(), None) for w in r.workers),
            r.limit, r.fail_next, tuple(r.ran), tuple(sorted(used.items())))


def explore(limit, budget, raises=(0, 2, 1, 3), max_runs=None, max_depth=40, coordinator="memory"):
    """State-hashed depth-first enumeration of all schedules of the real Team within a budget of public calls
    (do/grow/shrink/setlimit/quit counts) -- coordinator and worker steps are unbounded but only taken when they
    do something.  Every reachable state of the real objects is visited and every op is tried from it once.
    Returns (traces, states, complete)."""
    seen = set()
    traces = []
    stack = [[]]
    complete = True

    def candidates(r, used):
        ops = []
        if used["do"] < budget.get("do", 0):
            ops.append(("do", raises[used["do"] % len(raises)]))
        if used["grow"] < budget.get("grow", 0):
            ops += [("grow", 1), ("grow", 2)]
        if used["shrink"] < budget.get("shrink", 0):
            ops += [("shrink", 1), ("shrink", ALL)]
        if used["setlimit"] < budget.get("setlimit", 0):
            ops += [("setlimit", L) for L in (0, 1, 2) if L != r.limit]
        if used["quit"] < budget.get("quit", 0):
            ops.append(("quit",))
        if used["failnext"] < budget.get("failnext", 0) and not r.fail_next:
            ops.append(("failnext",))
        if coordinator == "memory":
            ops.append(("coord",))
        ops += [("work", w) for w in range(1, len(r.workers) + 1)]
        return ops

    while stack:
        if max_runs is not None and len(traces) >= max_runs:
            complete = False
            break
        prefix = stack.pop()
        r = TeamRun(limit, None, coordinator)
        ev = []
        path = []
        used = dict(do=0, grow=0, shrink=0, setlimit=0, quit=0, failnext=0)
        try:
            dead = False
            for op in prefix:
                e = r.apply(op)
                ev += split_inline(e)
                path.append(list(op))
                if op[0] in used:
                    used[op[0]] += 1
                if op[0] in ("coord", "work") and e is not None and e["res"] == "false":
                    dead = True       # a perform() with nothing to do: state unchanged, do not extend
            while not dead and len(path) < max_depth:
                k = state_key(r, used)
                if k in seen:
                    break
                seen.add(k)
                ops = candidates(r, used)
                for alt in ops[1:]:
                    stack.append(path + [alt])
                if not ops:
                    break
                op = ops[0]
                e = r.apply(op)
                ev += split_inline(e)
                path.append(list(op))
                if op[0] in used:
                    used[op[0]] += 1
                if op[0] in ("coord", "work") and e is not None and e["res"] == "false":
                    break
        finally:
            r.close()
        traces.append({"cfg": {"limit": limit, "inline": coordinator != "memory"}, "ops": path, "hashes": {}, "coordinator": coordinator, "ev": ev})
    return traces, len(seen), complete


def random_history(rng, n):
    limit = rng.choice([0, 1, 1, 2, 2, 3])
    ops = []
    nw = 0
    quit_at = rng.randrange(n // 2, n + 5)
    for i in range(n):
        r = rng.random()
        if i == quit_at:
            ops.append(("quit",))
        elif r < 0.22:
            ops.append(("do", rng.choice([1, 2, 3]) if rng.random() < 0.3 else 0))
        elif r < 0.27:
            ops.append(("grow", rng.choice([1, 1, 2, 3])))
        elif r < 0.33:
            ops.append(("shrink", rng.choice([1, 1, 2, ALL])))
        elif r < 0.37:
            ops.append(("setlimit", rng.choice([0, 1, 2, 3])))
        elif r < 0.39:
            ops.append(("quit",))
        elif r < 0.42:
            ops.append(("failnext",))
        elif r < 0.70:
            ops.append(("coord",))
        else:
            ops.append(("work", rng.randint(1, 4)))
    # drain: let everything finish so that the quiescence clauses are exercised
    for _ in range(12):
        ops.append(("coord",))
        for w in range(1, 5):
            ops.append(("work", w))
    hashes = {i: rng.randrange(1000) for i in range(0, 12)}
    return limit, ops, hashes


def team_fingerprint(t, reached):
    ev = t["ev"]
    if reached >= len(ev):
        return "team/trace-incomplete"
    e = ev[reached]
    kinds = ",".join(s[0] for s in e["sub"])
    return "team/%s/%s/sub=%s" % (e["e"], e["res"], kinds)


def team_mutate(t, rng):
    evs = t["ev"]
    i = rng.randrange(len(evs))
    e = evs[i]
    r = rng.random()
    if r < 0.3 and e["sub"]:
        j = rng.randrange(len(e["sub"]))
        if rng.random() < 0.5:
            del e["sub"][j]
        else:
            e["sub"][j][1] += 1
    elif r < 0.6:
        k = rng.randrange(3)
        e["st"][k] += 1
    elif r < 0.8:
        e["res"] = {"ok": "AlreadyQuit", "AlreadyQuit": "ok", "true": "false", "false": "true"}.get(e["res"], "ok")
    else:
        runs = [(a, b) for a, x in enumerate(evs) for b, s in enumerate(x["sub"]) if s[0] == "run"]
        if not runs:
            return None
        a, b = rng.choice(runs)
        evs[a]["sub"].insert(b, list(evs[a]["sub"][b]))     # the task ran twice
    return t


def check_team(ctx):
    from harness.core import MachineryError
    r = ctx.mc("TeamMC", ctx.pick("TeamMC.cfg", "TeamMC.thorough.cfg"))
    if not r.ok:
        raise MachineryError("Team specification violates its own invariants (%s): %s\n%s" % (r.kind, r.error, "".join(r.cex[-3:])[-3000:]))
    ctx.require_actions("TeamMC", ["Do", "Grow", "Shrink", "Quit", "CoordStep", "WorkerStep"] + ([] if ctx.quick else ["SetLimit"]))

    traces = []
    exh = []
    programs = [
        (1, dict(do=2, quit=1)), (2, dict(do=2, quit=1)), (0, dict(do=1, setlimit=1, grow=1)),
        (1, dict(do=2, shrink=1)), (2, dict(do=2, shrink=1, quit=1)), (1, dict(do=1, grow=1, shrink=1)),
        (2, dict(do=1, grow=1, quit=1)), (1, dict(do=2, setlimit=1, quit=1)),
    ]
    if not ctx.quick:
        programs += [(2, dict(do=3, quit=1)), (1, dict(do=3, shrink=1, quit=1)), (2, dict(do=2, grow=1, shrink=1, quit=1)),
                     (0, dict(do=2, setlimit=1, grow=1, quit=1)), (2, dict(do=2, grow=1, shrink=1, setlimit=1, quit=1))]
    all_complete = True
    for limit, budget in programs:
        ts, ns, complete = explore(limit, budget, max_runs=ctx.pick(1500, 4000))
        all_complete = all_complete and complete
        exh.append(dict(limit=limit, budget=budget, runs=len(ts), states=ns, complete=complete))
        ctx.log("explored real Team limit=%d budget=%s: %d runs, %d states, complete=%s" % (limit, budget, len(ts), ns, complete))
        traces += ts
    # the same Team with the real LockWorker as coordinator (coordinator work runs inline in the caller)
    for limit, budget in [(1, dict(do=2, shrink=1, quit=1)), (2, dict(do=2, grow=1, quit=1)), (0, dict(do=2, setlimit=1, grow=1, quit=1)),
                          (2, dict(do=3, failnext=1, quit=1)), (2, dict(do=2, grow=1, failnext=1, quit=1))]:
        ts, ns, complete = explore(limit, budget, max_runs=ctx.pick(1500, 4000), coordinator="lock")
        all_complete = all_complete and complete
        exh.append(dict(limit=limit, budget=budget, coordinator="LockWorker", runs=len(ts), states=ns, complete=complete))
        ctx.log("explored real Team + real LockWorker coordinator limit=%d budget=%s: %d runs, %d states, complete=%s" % (limit, budget, len(ts), ns, complete))
        traces += ts
    ctx.extra["exhaustive_schedules"] = exh
    ctx.exhaustive = all_complete
    for i in range(ctx.pick(700, 10000)):
        limit, ops, hashes = random_history(ctx.rng, ctx.rng.randint(10, 45))
        traces.append(run_history(limit, ops, hashes, coordinator="lock" if i % 4 == 3 else "memory"))
    ctx.note_traces(traces)
    ctx.log("recorded %d schedules of the real Team" % len(traces))
    rej = ctx.validate("TeamTrace", traces, shard_size=3000)
    for x in rej[:50]:
        t = traces[x.idx]
        ev = t["ev"][x.reached] if x.reached < len(t["ev"]) else None
        ctx.violation(team_fingerprint(t, x.reached),
                      "real Team (memory workers, %s coordinator) schedule not explained by Team.tla at event %d: %s; ops=%s" % (
                          t.get("coordinator", "memory"), x.reached, ev, t["ops"][:x.reached + 1] if t.get("coordinator", "memory") == "memory" else t["ops"]),
                      dict(kind="team", limit=t["cfg"]["limit"], ops=t["ops"], hashes=t["hashes"], coordinator=t.get("coordinator", "memory"), rejected_at=x.reached))
    bad = {x.idx for x in rej}
    good = [t for i, t in enumerate(traces) if i not in bad and len(t["ev"]) >= 6]
    _selftest(ctx, "TeamTrace", good[-300:], team_mutate, n=24)


# ============================================================================ (b) real ThreadPool, real threads

def pool_run(seed, script, maxthreads, minthreads=0, timeout=30.0):
    """Run the real ThreadPool along `script` (client thread) and return the event log.
    script items: ("start",) ("submit", failure kind (see exc_class), spin) ("adjust", max) ("sleep", k) ("stop",)"""
    import random
    import sys
    import threading
    import time
    from twisted.python import threadpool

    log = []
    ev = log.append
    thnum = {}
    count = itertools.count(1)
    rng = random.Random(seed)

    def num():
        return thnum.get(threading.current_thread(), 0)

    def factory(*a, **kw):
        target = kw.pop("target")
        n = next(count)

        def wrapped():
            try:
                target()
            finally:
                ev({"e": "exit", "t": 0, "th": n, "ok": False})
        th = threading.Thread(*a, target=wrapped, **kw)
        th.daemon = True
        thnum[th] = n
        ev({"e": "spawn", "t": 0, "th": n, "ok": False})
        return th

    pool = threadpool.ThreadPool(minthreads, maxthreads, name="c49")
    pool.threadFactory = factory
    results = {}

    def make(t, raises, spin):
        def func():
            ev({"e": "begin", "t": t, "th": num(), "ok": False})
            for _ in range(spin):
                time.sleep(0)
            ev({"e": "end", "t": t, "th": num(), "ok": not raises})
            if raises:
                raise exc_class(raises)("task %d" % t)
            return t * 7

        def on_result(success, value):
            good = (value == t * 7) if success else (bool(raises) and getattr(value, "type", None) is exc_class(raises))
            if not good:
                ev({"e": "badvalue", "t": t, "th": num(), "ok": bool(success)})
            ev({"e": "result", "t": t, "th": num(), "ok": bool(success)})
        return func, on_result

    state = {"err": None}

    def client():
        nt = 0
        try:
            for item in script:
                k = item[0]
                if k == "start":
                    ev({"e": "start", "t": 0, "th": 0, "ok": False})
                    pool.start()
                elif k == "submit":
                    nt += 1
                    f, r = make(nt, item[1], item[2])
                    ev({"e": "submit", "t": nt, "th": 0, "ok": False})
                    pool.callInThreadWithCallback(r, f)
                elif k == "adjust":
                    ev({"e": "adjust", "t": item[1], "th": 0, "ok": False})
                    pool.adjustPoolsize(None, item[1])
                elif k == "sleep":
                    for _ in range(item[1]):
                        time.sleep(0)
                elif k == "stop":
                    ev({"e": "stop_call", "t": 0, "th": 0, "ok": False})
                    pool.stop()
                    alive = sum(1 for th in pool.threads if th.is_alive())
                    ev({"e": "stop_ret", "t": alive, "th": 0, "ok": False})
        except BaseException as e:
            state["err"] = repr(e)
            ev({"e": "client_exception", "t": 0, "th": 0, "ok": False, "x": type(e).__name__})

    old = sys.getswitchinterval()
    sys.setswitchinterval(rng.choice([1e-6, 1e-5, 1e-4, 5e-3]))
    try:
        c = threading.Thread(target=client, daemon=True)
        c.start()
        c.join(timeout)
        if c.is_alive():
            ev({"e": "client_hang", "t": 0, "th": 0, "ok": False})
    finally:
        sys.setswitchinterval(old)
    return {"cfg": {"max": maxthreads, "min": minthreads}, "seed": seed, "script": [list(i) for i in script], "ev": list(log)}


def pool_script(rng):
    maxthreads = rng.choice([1, 1, 2, 2, 3, 4])
    minthreads = rng.choice([0, 0, 1]) if maxthreads > 1 else rng.choice([0, 1])
    n = rng.randint(3, 14)
    script = []
    for _ in range(rng.choice([0, 0, 1, 3])):
        script.append(("submit", rng.choice([1, 2, 3, 4]) if rng.random() < 0.3 else 0, rng.choice([0, 1, 5])))
    script.append(("start",))
    for _ in range(n):
        script.append(("submit", rng.choice([1, 2, 3, 4]) if rng.random() < 0.3 else 0, rng.choice([0, 0, 1, 3, 20])))
        r = rng.random()
        if r < 0.25:
            script.append(("sleep", rng.choice([1, 5, 50])))
        elif r < 0.33:
            script.append(("adjust", rng.choice([m for m in (1, 2, 3, 4) if m >= minthreads])))
    script.append(("stop",))
    if rng.random() < 0.5:
        script.append(("submit", 0, 0))      # refused: must never run
        script.append(("sleep", 20))
    return script, maxthreads, minthreads


def pool_fingerprint(t, reached):
    ev = t["ev"]
    if reached >= len(ev):
        return "pool/trace-incomplete"
    e = ev[reached]
    # classification only: a task that ended but whose outcome was never passed to onResult before this event
    ended = {x["t"] for x in ev[:reached] if x["e"] == "end"}
    reported = {x["t"] for x in ev[:reached] if x["e"] == "result"}
    if e["e"] in ("begin", "exit", "stop_ret") and ended - reported:
        return "pool/%s/outcome-never-reported" % e["e"]
    return "pool/%s" % e["e"]


def pool_mutate(t, rng):
    evs = t["ev"]
    kinds = {}
    for i, e in enumerate(evs):
        kinds.setdefault(e["e"], []).append(i)
    r = rng.random()
    if r < 0.3 and kinds.get("result"):
        i = rng.choice(kinds["result"])
        evs.insert(i, dict(evs[i]))                 # outcome reported twice
    elif r < 0.5 and kinds.get("result"):
        del evs[rng.choice(kinds["result"])]        # outcome never reported
    elif r < 0.7 and kinds.get("exit") and kinds.get("stop_ret"):
        i = rng.choice(kinds["exit"])
        e = evs.pop(i)
        evs.append(e)                               # a thread ends after stop() returned
    elif r < 0.85 and kinds.get("begin"):
        i = rng.choice(kinds["begin"])
        evs.insert(i, dict(evs[i]))                 # task runs twice
    elif kinds.get("result"):
        i = rng.choice(kinds["result"])
        evs[i]["ok"] = not evs[i]["ok"]             # wrong outcome reported
    else:
        return None
    return t


def check_pool(ctx):
    from harness.core import MachineryError
    r = ctx.mc("TPoolMC", "TPoolMC.cfg")
    if not r.ok:
        raise MachineryError("TPool specification violates its own invariants: " + r.error)
    ctx.require_actions("TPoolMC", ["Start", "Adjust", "Submit", "Spawn", "Begin", "End", "Result", "Exit", "StopCall", "StopRet"])
    traces = []
    for i in range(ctx.pick(60, 800)):
        script, mx, mn = pool_script(ctx.rng)
        traces.append(pool_run(ctx.rng.randrange(1 << 30), script, mx, mn, timeout=60.0))
        if traces[-1]["ev"] and traces[-1]["ev"][-1]["e"] == "client_hang":
            ctx.log("a ThreadPool run did not finish within 60 s (stop() or a call hangs); no further stress runs")
            break
    ctx.note_traces(traces)
    ctx.extra["threadpool_stress_runs"] = len(traces)
    ctx.extra["threadpool_events"] = sum(len(t["ev"]) for t in traces)
    ctx.log("recorded %d stress runs of the real ThreadPool (%d events)" % (len(traces), ctx.extra["threadpool_events"]))
    rej = ctx.validate("TPoolTrace", traces, shard_size=500)
    for x in rej[:20]:
        t = traces[x.idx]
        ev = t["ev"][x.reached] if x.reached < len(t["ev"]) else None
        ctx.violation(pool_fingerprint(t, x.reached),
                      "real ThreadPool run (max=%d, %d events) not explained by TPool.tla at event %d: %s; preceding: %s" % (
                          t["cfg"]["max"], len(t["ev"]), x.reached, ev, t["ev"][max(0, x.reached - 6):x.reached]),
                      dict(kind="pool", seed=t["seed"], script=t["script"], max=t["cfg"]["max"], min=t["cfg"]["min"], events=t["ev"][:x.reached + 1]))
    bad = {x.idx for x in rej}
    good = [t for i, t in enumerate(traces) if i not in bad]
    _selftest(ctx, "TPoolTrace", good[-100:], pool_mutate, n=16)


def _selftest(ctx, module, good, mutate_fn, n):
    """Binding self-test on accepted traces; when violations leave too few accepted traces, it is skipped (never masks them)."""
    from harness.core import MachineryError
    try:
        if not good:
            raise MachineryError("selftest: no accepted trace to corrupt")
        ctx.selftest_rejects(module, good, mutate_fn, n=n)
    except MachineryError as e:
        if ctx.violations and "no " in str(e):
            ctx.log("selftest skipped (%s)" % e)
        else:
            raise


def run(ctx):
    check_team(ctx)
    check_pool(ctx)


def replay(ctx, obj):
    if obj.get("kind", "team") == "pool":
        # real threads: the OS schedule cannot be imposed; re-run the script a number of times, and re-validate the stored events
        stored = {"cfg": {"max": obj["max"], "min": obj["min"]}, "ev": obj["events"]}
        ts = [stored] + [pool_run(obj["seed"], [tuple(i) for i in obj["script"]], obj["max"], obj["min"]) for _ in range(20)]
        ctx.note_traces(ts)
        for x in ctx.validate("TPoolTrace", ts):
            t = ts[x.idx]
            ctx.violation(pool_fingerprint(t, x.reached), "%s ThreadPool run rejected at event %d: %s" % ("stored" if x.idx == 0 else "re-run", x.reached, t["ev"][x.reached] if x.reached < len(t["ev"]) else None),
                          dict(kind="pool", seed=obj["seed"], script=obj["script"], max=obj["max"], min=obj["min"], events=t["ev"][:x.reached + 1]))
        return
    if obj.get("kind", "team") == "team":
        t = run_history(obj["limit"], [tuple(o) for o in obj["ops"]], {int(k): v for k, v in obj.get("hashes", {}).items()}, obj.get("coordinator", "memory"))
        ctx.note_trace(t)
        for e in t["ev"]:
            print(e)
        for x in ctx.validate("TeamTrace", [t]):
            ctx.violation(team_fingerprint(t, x.reached), "replayed schedule rejected at event %d: %s" % (x.reached, t["ev"][x.reached] if x.reached < len(t["ev"]) else None),
                          dict(kind="team", limit=t["cfg"]["limit"], ops=t["ops"], hashes=t["hashes"], rejected_at=x.reached))
