"""C11 -- Cooperator advances only runnable tasks, completes each once, starves none.

Spec:     specs/Coop.tla (+ CoopMC exhaustive TLC, CoopTrace trace validation, CoopSim spec->code)
Binding:  real twisted.internet.task.Cooperator with a capturing scheduler (the harness runs the requested
          tick when the history says so) and a termination predicate that allows a given number of work units.
          Iterators are scripted objects; every next() on one is an event.  Events carry what a user observes:
          which iterator was advanced and what it did, every whenDone()/coiterate() Deferred result (the
          iterator itself / exception class), the outcome (ok / exception class) of every public call, and
          whether the scheduler holds a tick request afterwards.  TLC decides.
"""

META = dict(
    id="C11",
    specs=["Coop.tla", "CoopMC.tla", "CoopTrace.tla", "CoopSim.tla"],
    technique="TLA+ spec of Cooperator/CooperativeTask (TLC exhaustive over all interleavings of "
              "cooperate/coiterate/whenDone/pause/resume/stop/ticks/Deferred firings/Cooperator.stop for small task sets) + "
              "TLC trace validation of real Cooperator executions with a capturing scheduler (exhaustive short histories, "
              "seeded random histories with up to 8 tasks, TLC-generated behaviours replayed)",
    level_text="TLC checks on the specification that only runnable tasks are advanced, that no task that stays runnable waits "
               "more than 4x(number of runnable tasks) work units, that every whenDone/coiterate Deferred fires exactly once "
               "with the iterator / failure / stop reason, and that operations on finished tasks raise the matching exception; "
               "every recorded execution of the real Cooperator is validated by TLC as a behaviour of that specification with "
               "every next() call, Deferred result and call outcome matched.",
    level_note="Trusted: TLC, the adapter's logging. Which runnable task runs next is left free (bounded wait only). The "
               "starvation bound uses the constant 4 (the property gives none). Re-entrant use (task operations from inside "
               "an iterator or a whenDone callback) and the default time-based predicate/scheduler are not exercised. "
               "resume() on finished tasks is left free (its documented contract is NotPaused only).",
    design_ref="2.4 C11",
    rule="history = sequence of cooperate/coiterate/whenDone/pause/resume/stop/fire/tick(budget)/coopstop/coopstart calls on one "
         "Cooperator with scripted iterators; distinct = hash of (cfg, events); non-trivial = at least three different event "
         "kinds and at least one next()",
)

OUTCOMES = ("val", "dfr", "dfrok", "dfrfail", "exh", "raise")


class Boom(Exception):
    pass


class InnerFail(Exception):
    pass


def run_history(cfg, ops, scripts, default="exh"):
    """Run ops on a real Cooperator; return the trace dict.
    ops: ("cooperate",) ("coiterate",) ("whenDone", t) ("pause", t) ("resume", t) ("stop", t) ("fire", d, ok)
         ("tick", budget) ("coopstop",) ("coopstart",).  Tasks, whenDone Deferreds and yielded Deferreds are
         numbered from 1 in creation order.  scripts[t-1] = outcomes of successive next() calls of task t's iterator."""
    from twisted.internet import task, defer

    ev = []
    cur = [None]
    pending = [None]
    budget = [1, 0]     # allowed, used

    class DC:
        def __init__(self, f):
            self.f = f

        def cancel(self):
            if pending[0] is self:
                pending[0] = None

    def scheduler(f):
        dc = DC(f)
        pending[0] = dc
        return dc

    def predicate_factory():
        def pred():
            budget[1] += 1
            return budget[1] >= budget[0]
        return pred

    def emit(e, **kw):
        rec = {"e": e, "res": "ok", "wdf": [], "p": False}
        rec.update(kw)
        ev.append(rec)
        cur[0] = rec
        return rec

    iters = []
    tasks = []      # CooperativeTask or None (coiterate)
    yielded = []    # unfired Deferreds yielded by iterators, creation order: [Deferred, fired by the harness]
    prefired = []   # already fired Deferreds yielded by iterators
    nwd = [0]

    class It:
        def __init__(self, tid, script):
            self.tid = tid
            self.script = script
            self.i = 0

        def __iter__(self):
            return self

        def __next__(self):
            o = self.script[self.i] if self.i < len(self.script) else default
            self.i += 1
            emit("next", t=self.tid, o=o)
            if o == "val":
                return self.i
            if o == "dfr":
                d = defer.Deferred()
                yielded.append([d, False])
                return d
            if o == "dfrok":
                d = defer.succeed(None)
                prefired.append(d)
                return d
            if o == "dfrfail":
                d = defer.fail(InnerFail())
                prefired.append(d)
                return d
            if o == "raise":
                raise Boom()
            raise StopIteration()

    names = {"TaskStopped": "TaskStopped", "SchedulerStopped": "SchedulerStopped", "Boom": "Boom", "InnerFail": "InnerFail"}

    def watch(d, it):
        nwd[0] += 1
        i = nwd[0]

        def ok(r):
            cur[0]["wdf"].append([i, "iter" if r is it else "other"])

        def err(f):
            n = f.type.__name__
            cur[0]["wdf"].append([i, names.get(n, "other:" + n)])

        d.addCallbacks(ok, err)

    coop = task.Cooperator(terminationPredicateFactory=predicate_factory, scheduler=scheduler, started=cfg["started"])
    done_ops = []

    def call(rec, f, *a):
        try:
            return f(*a)
        except Exception as e:
            n = type(e).__name__
            rec["res"] = n if isinstance(e, task.SchedulerError) else "EXC:" + n
            return None

    for op in ops:
        k = op[0]
        if k in ("cooperate", "coiterate"):
            tid = len(iters) + 1
            it = It(tid, list(scripts[tid - 1]) if tid - 1 < len(scripts) else [])
            iters.append(it)
            rec = emit(k)
            if k == "cooperate":
                tasks.append(call(rec, coop.cooperate, it))
            else:
                tasks.append(None)
                d = call(rec, coop.coiterate, it)
                if d is not None:
                    watch(d, it)
        elif k in ("whenDone", "pause", "resume", "stop"):
            t = op[1]
            if t > len(tasks) or tasks[t - 1] is None:
                continue
            rec = emit(k, t=t)
            if k == "whenDone":
                d = call(rec, tasks[t - 1].whenDone)
                if d is not None:
                    watch(d, iters[t - 1])
            else:
                call(rec, getattr(tasks[t - 1], k))
        elif k == "fire":
            d = op[1]
            if d > len(yielded) or yielded[d - 1][1]:
                continue
            yielded[d - 1][1] = True
            rec = emit("fire", d=d, ok=bool(op[2]))
            if op[2]:
                call(rec, yielded[d - 1][0].callback, None)
            else:
                call(rec, yielded[d - 1][0].errback, InnerFail())
        elif k == "tick":
            if pending[0] is None:
                continue
            dc, pending[0] = pending[0], None
            budget[0], budget[1] = op[1], 0
            emit("tick", b=op[1])
            exc = None
            try:
                dc.f()
            except Exception as e:
                exc = "EXC:" + type(e).__name__
            rec = emit("tickend")
            if exc:
                rec["res"] = exc
        elif k == "coopstop":
            rec = emit("coopstop")
            call(rec, coop.stop)
        elif k == "coopstart":
            rec = emit("coopstart")
            call(rec, coop.start)
        else:
            raise ValueError(op)
        cur[0]["p"] = pending[0] is not None
        done_ops.append(list(op))
    # the harness owns the yielded Deferreds: consume whatever the cooperator's callbacks left in them,
    # after the history is over (keeps "Unhandled error in Deferred" off stderr)
    for d in [y[0] for y in yielded] + prefired:
        d.addErrback(lambda f: None)
    return {"cfg": cfg, "ops": done_ops, "scripts": [list(s) for s in scripts], "default": default, "ev": ev}


def random_script(rng, style):
    n = rng.randint(8, 30) if style.get("long") else rng.randint(0, 6)
    s = []
    for _ in range(n):
        r = rng.random()
        if r < style["dfr"]:
            s.append("dfr")
        elif r < style["dfr"] + 0.05:
            s.append("dfrok")
        elif r < style["dfr"] + 0.08:
            s.append("dfrfail")
        else:
            s.append("val")
    s.append("raise" if rng.random() < 0.2 else "exh")
    return s


def random_history(rng):
    cfg = {"started": rng.random() < 0.9}
    style = {"dfr": rng.choice([0.0, 0.15, 0.35])}
    nt_max = rng.choice([1, 2, 3, 4, 6, 8])
    p_coopstop = rng.choice([0.0, 0.0, 0.02])
    p_ctl = rng.choice([0.1, 0.3, 0.5])          # pause / resume / stop / whenDone share
    n = rng.randint(6, 45)
    fixed_budget = rng.choice([None, None, 1, 1, 2, 3])     # the usual deployment: the same work-unit allowance every tick
    p_tick = 0.0
    if fixed_budget is not None and rng.random() < 0.6:       # long-running schedule: few control operations, many ticks
        p_tick = 0.7
        n = rng.randint(25, 70)
        style = dict(style, long=True)
    ops, scripts = [], []
    nt = 0
    nd_guess = 0
    for _ in range(n):
        r = rng.random()
        if nt and rng.random() < p_tick:
            ops.append(("tick", fixed_budget))
            continue
        if nt == 0 or (nt < nt_max and r < 0.18):
            ops.append(("coiterate",) if rng.random() < 0.25 else ("cooperate",))
            scripts.append(random_script(rng, style))
            nt += 1
            nd_guess += scripts[-1].count("dfr")
        elif r < 0.18 + p_coopstop:
            ops.append(("coopstop",))
        elif r < 0.18 + p_coopstop + 0.02:
            ops.append(("coopstart",))
        elif r < 0.22 + p_coopstop + p_ctl:
            t = rng.randint(1, nt)
            k = rng.choice(["pause", "pause", "resume", "resume", "resume", "stop", "whenDone", "whenDone"])
            ops.append((k, t))
        elif r < 0.22 + p_coopstop + p_ctl + 0.15 and nd_guess:
            ops.append(("fire", rng.randint(1, nd_guess), rng.random() < 0.8))
        else:
            ops.append(("tick", fixed_budget or rng.choice([1, 1, 2, 3, 5, 8])))
    return cfg, ops, scripts


def exhaustive(depth):
    """Every history of `depth` operations after creating two tasks (one with a whenDone) whose iterators
    yield an unfired Deferred and then a value; alphabet below."""
    import itertools
    alpha = [("tick", 1), ("tick", 2), ("pause", 1), ("resume", 1), ("stop", 1), ("whenDone", 1), ("fire", 1, True), ("fire", 1, False),
             ("pause", 2), ("resume", 2), ("coopstop",)]
    heads = [
        ([("cooperate",), ("cooperate",), ("whenDone", 1)], [["dfr", "val", "exh"], ["val", "val", "exh"]]),
        ([("cooperate",), ("coiterate",), ("whenDone", 1)], [["val", "raise"], ["dfr", "exh"]]),
    ]
    for head, scripts in heads:
        for tail in itertools.product(alpha, repeat=depth):
            yield {"started": True}, head + list(tail), scripts


def from_behaviour(b):
    ops, scripts = [], {}
    for h in b["hist"]:
        e = h["e"]
        if e in ("cooperate", "coiterate", "coopstop", "coopstart"):
            ops.append((e,))
        elif e in ("whenDone", "pause", "resume", "stop"):
            ops.append((e, h["t"]))
        elif e == "fire":
            ops.append(("fire", h["d"], h["ok"]))
        elif e == "tick":
            ops.append(("tick", h["b"]))
        elif e == "next":
            scripts.setdefault(h["t"], []).append(h["o"])
    nt = sum(1 for o in ops if o[0] in ("cooperate", "coiterate"))
    return dict(b["cfg"]), ops, [scripts.get(t, []) for t in range(1, nt + 1)]


def mutate(t, rng):
    """Corrupt one logged field / drop an event (binding self-test)."""
    evs = t["ev"]
    nexts = [i for i, e in enumerate(evs) if e["e"] == "next"]
    fired = [i for i, e in enumerate(evs) if e["wdf"]]
    r = rng.random()
    if fired and r < 0.25:
        i = rng.choice(fired)
        evs[i]["wdf"].append(list(evs[i]["wdf"][0]))          # a whenDone Deferred fired twice
    elif fired and r < 0.45:
        i = rng.choice(fired)
        w = evs[i]["wdf"][0]
        w[1] = "TaskStopped" if w[1] != "TaskStopped" else "iter"   # wrong result
    elif fired and r < 0.6:
        evs[rng.choice(fired)]["wdf"].pop()                  # a completion that did not fire its Deferred
    elif nexts and r < 0.8:
        i = rng.choice(nexts)
        fin = [j for j in nexts if evs[j]["o"] in ("exh", "raise", "dfr")]
        if not fin:
            return None
        j = rng.choice(fin)
        evs.insert(j + 1, {"e": "next", "t": evs[j]["t"], "o": "val", "res": "ok", "wdf": [], "p": False})   # advanced while finished / waiting
    else:
        ops = [i for i, e in enumerate(evs) if e["e"] in ("pause", "stop") and e["res"] == "ok"]
        if not ops:
            return None
        evs[rng.choice(ops)]["res"] = "TaskDone"             # wrong outcome of a public call
    return t


ROOT_RESUMED = "task-was-resumed-while-waiting-on-its-yielded-Deferred"
ROOT_FAILED_AFTER_STOP = "task-stopped-then-its-yielded-Deferred-failed"
ROOT_COOPSTOP = "task-unfinished-at-Cooperator.stop"


def fingerprint(trace, rej):
    """<public call or next>/<what was observed>/<situation of the task concerned>; the situation is reconstructed
    from the log prefix that TLC accepted (labelling only -- the verdict is TLC's)."""
    evs = trace["ev"]
    if rej.reached >= len(evs):
        return "end"
    e = evs[rej.reached]
    prior = evs[:rej.reached]
    owners = [x["t"] for x in prior if x["e"] == "next" and x["o"] == "dfr"]     # owner of yielded Deferred 1, 2, ...
    t = e.get("t")
    if e["e"] == "fire":
        t = owners[e["d"] - 1] if e["d"] - 1 < len(owners) else None
    ctx = []
    advanced_bad = False
    root = None
    if t is not None:
        pc = 0
        waiting = None          # id of the unfired Deferred the task yielded
        nd = 0
        flags = set()
        stopped_at = None
        alive_at_coopstop = False
        created = [i for i, x in enumerate(prior) if x["e"] in ("cooperate", "coiterate")]
        born = created[t - 1] if t - 1 < len(created) else len(prior)
        for i, x in enumerate(prior):
            if x["e"] == "coopstop" and i > born and stopped_at is None and "iteratorFinished" not in flags:
                alive_at_coopstop = True
            if x["e"] == "next" and x["o"] == "dfr":
                nd += 1
                if x["t"] == t:
                    waiting = nd
            if x["e"] == "fire" and waiting == x["d"]:
                waiting = None
                if stopped_at is not None and not x["ok"]:
                    flags.add("itsDeferredFailedAfterStop")
            if x.get("t") != t:
                continue
            if x["e"] == "pause" and x["res"] == "ok":
                pc += 1
            elif x["e"] == "resume" and x["res"] == "ok":
                if pc > 0:
                    pc -= 1
                elif waiting is not None:
                    flags.add("resumedWhileWaitingOnDeferred")
            elif x["e"] == "stop" and x["res"] == "ok":
                stopped_at = i
            elif x["e"] == "next" and x["o"] in ("exh", "raise", "dfrfail"):
                flags.add("iteratorFinished")
        if waiting is not None:
            ctx.append("taskWaitingOnDeferred")
        if pc > 0:
            ctx.append("userPaused")
        if stopped_at is not None:
            ctx.append("afterStop")
        ctx += sorted(flags - {"resumedWhileWaitingOnDeferred", "itsDeferredFailedAfterStop"})
        advanced_bad = waiting is not None or pc > 0 or stopped_at is not None or "iteratorFinished" in flags
        # situations that change what can be expected of this task from then on (one label, by priority)
        if "resumedWhileWaitingOnDeferred" in flags:
            root = ROOT_RESUMED
        elif "itsDeferredFailedAfterStop" in flags:
            root = ROOT_FAILED_AFTER_STOP
        elif alive_at_coopstop:
            root = ROOT_COOPSTOP
    detail = e["res"]
    if e["e"] == "next":
        detail = "advanced" if advanced_bad else e["o"]
    elif e["e"] == "coopstop" and e["res"] == "ok":
        return "Cooperator.stop/fewer-whenDone-fired-than-unfinished-runnable-tasks"
    elif e["e"] == "fire":
        detail = ("ok" if e["ok"] else "fail") + ("+wdf" if e["wdf"] else "")
    elif e["e"] == "whenDone" and e["res"] == "ok":
        detail = "got:" + (e["wdf"][0][1] if e["wdf"] else "nothing")
    if root == ROOT_RESUMED:
        return "%s/%s" % (root, e["e"])         # the task's pause accounting is off from then on
    if root == ROOT_FAILED_AFTER_STOP and (e["e"], detail) in (("pause", "TaskFailed"), ("stop", "TaskFailed"), ("whenDone", "got:InnerFail")):
        return "%s/%s/%s" % (root, e["e"], detail)
    if root == ROOT_COOPSTOP and (e["e"], detail) in (("pause", "EXC:ValueError"), ("stop", "EXC:ValueError"), ("whenDone", "got:nothing"),
                                                     ("next", e.get("o"))):
        return "%s/%s/%s" % (root, e["e"], "advanced" if e["e"] == "next" else detail)
    return "%s/%s%s" % (e["e"], detail, ("/" + "+".join(ctx)) if ctx else "")


def _report(ctx, traces, rej, label):
    for x in rej:
        t = traces[x.idx]
        ev = t["ev"][x.reached] if x.reached < len(t["ev"]) else None
        ctx.violation(fingerprint(t, x),
                      "real Cooperator execution (%s) not explained by Coop.tla at event %d: %s" % (label, x.reached, ev),
                      dict(cfg=t["cfg"], ops=t["ops"], scripts=t["scripts"], default=t["default"], rejected_at=x.reached))


def run(ctx):
    r = ctx.mc("CoopMC", ctx.pick("CoopMC.cfg", "CoopMC.thorough.cfg"))
    if not r.ok:
        from harness.core import MachineryError
        raise MachineryError("Coop spec violates its own invariants: " + r.error)
    ctx.require_actions("CoopMC", ["Create", "NWhenDone", "NPauseOk", "NPauseFinished", "NStopFinished", "NResumePaused",
                                   "NResumeNotPaused", "NResumeWaiting", "NResumeFinished", "NStopOk", "NFire",
                                   "TickBegin", "NStep", "TickEnd", "NCoopStop", "CoopStart"])
    traces = []
    seen = set()
    depth = ctx.pick(3, 4)
    for cfg, ops, scripts in exhaustive(depth):
        t = run_history(cfg, ops, scripts)
        key = repr(t["ev"])
        if key in seen:
            continue
        seen.add(key)
        traces.append(t)
    ctx.exhaustive = True
    ctx.extra["exhaustive_depth"] = depth
    ctx.extra["exhaustive_distinct_histories"] = len(traces)
    for _ in range(ctx.pick(2500, 60000)):
        traces.append(run_history(*random_history(ctx.rng)))
    behs = ctx.simulate("CoopSim", "CoopSim.cfg", num=ctx.pick(25, 300), depth=31)
    drift = 0
    for b in behs:
        t = run_history(*from_behaviour(b), default="val")
        if [(e["e"], e.get("t"), e.get("o")) for e in t["ev"]] != [(h["e"], h.get("t"), h.get("o")) for h in b["hist"]][:len(t["ev"])]:
            drift += 1      # the real scheduler chose another runnable task: allowed
        traces.append(t)
    ctx.extra["spec_behaviours_replayed"] = len(behs)
    ctx.extra["spec_behaviours_other_allowed_order"] = drift
    ctx.impl_drift = drift
    for t in traces:
        kinds = {e["e"] for e in t["ev"]}
        ctx.note_trace(t, nontrivial=len(kinds) >= 3 and "next" in kinds)
    ctx.log("recorded %d real executions" % len(traces))
    rej = ctx.validate("CoopTrace", traces, shard_size=3000)
    _report(ctx, traces, rej, "recorded")
    bad = {x.idx for x in rej}
    good = [t for i, t in enumerate(traces) if i not in bad]
    ctx.selftest_rejects("CoopTrace", good[-400:], mutate, n=24)


def replay(ctx, obj):
    t = run_history(obj["cfg"], [tuple(o) for o in obj["ops"]], obj["scripts"], default=obj.get("default", "exh"))
    ctx.note_trace(t)
    rej = ctx.validate("CoopTrace", [t])
    _report(ctx, [t], rej, "replayed")
    for e in t["ev"]:
        print(e)
