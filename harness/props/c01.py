"""C01 -- Deferred callback chains compute what a sequential interpreter predicts.

Spec:     specs/DeferredAbs.tla  (the reference interpreter, written from the documented
          chaining rules; DeferredAbsMC = exhaustive TLC run, DeferredAbsTrace = trace validation,
          DeferredAbsSim = behaviour generator; DeferredImpl = _runCallbacks as coded, refined
          against DeferredAbs by TLC)
Binding:  real twisted.internet.defer.Deferred objects driven along generated programs
          (bounded-exhaustive small ones, seeded random long ones, TLC-generated ones); every user
          callback is a recorder that logs (entry id, which function, kind/value of its argument)
          and then performs its scripted behaviour.  One event per top-level operation carrying
          the invocation list and the escaping exception class.  TLC decides.
"""

META = dict(
    id="C01",
    specs=["DeferredAbs.tla", "DeferredAbsMC.tla", "DeferredAbsTrace.tla", "DeferredAbsSim.tla",
           "DeferredImpl.tla", "DeferredImplMC.tla", "DeferredKnown.tla", "DeferredKnownTrace.tla"],
    technique="TLA+ reference interpreter of the Deferred chaining rules (TLC exhaustive over all short programs; "
              "the _runCallbacks loop as coded checked by TLC to refine it) + TLC trace validation of real Deferred "
              "executions (bounded-exhaustive programs, random long programs, TLC-simulated programs)",
    level_text="TLC checks the interpreter's invariants (each callback at most once, add order, nothing runnable left "
               "unrun, wait/resume bookkeeping) for every program up to the stated depth, and validates every recorded "
               "execution of real Deferreds as a behaviour of the interpreter: the invocation sequence of every operation "
               "(callback id, side, input kind and value) must equal the prediction; probe callbacks and a draining "
               "epilogue expose final results and unrun callbacks.",
    level_note="Trusted: TLC, the recorder closures. Values are small ints, exception classes are small ints. "
               "Programs do not fire from inside callbacks, do not return a Deferred from its own callback and do not use "
               "chainDeferred/cancel (outside the property's grammar). Programs beyond the enumerated sizes are sampled.",
    design_ref="2.1 C01",
    rule="program = sequence of add*/callback/errback/pause/unpause operations on up to 6 Deferreds followed by a draining "
         "epilogue; distinct = hash of (cfg, events); non-trivial = at least two different operation kinds",
)

NV = 3   # values 1..NV (0 is None)
NE = 3   # exception classes E1..E3
THRU = ["thru", 0]


# ----------------------------------------------------------------------------- real code

def run_program(cfg, body, tail=()):
    """Run the program body + draining epilogue `tail` on real Deferreds; return the trace dict."""
    ops = list(body) + list(tail)
    from twisted.internet import defer
    from twisted.python.failure import Failure

    nd = cfg["nd"]
    ds = [defer.Deferred() for _ in range(nd)]
    excs = [type("E%d" % i, (Exception,), {}) for i in range(NE + 1)]
    inv = []
    ev = []
    nid = [0]

    def classify(x):
        if isinstance(x, Failure):
            return ["err", excs.index(x.type) if x.type in excs else 99]
        if x is None:
            return ["ok", 0]
        if type(x) is int:
            return ["ok", x]
        if isinstance(x, defer.Deferred):
            return ["deferred", ds.index(x) + 1 if x in ds else 99]
        return ["other", 0]

    def mk(cid, side, beh):
        kind, arg = beh

        def f(x):
            inv.append([cid, side] + classify(x))
            if kind == "pass":
                return x
            if kind == "ret":
                return arg
            if kind == "raise":
                raise excs[arg]()
            if kind == "retfail":
                return Failure(excs[arg]())
            if kind == "retdef":
                return ds[arg - 1]
            raise AssertionError(kind)
        return f

    for op in ops:
        del inv[:]
        exc = ""
        name = op[0]
        d = ds[op[1] - 1]
        e = {"e": name, "d": op[1]}
        try:
            if name == "add":
                _, _, m, ok, err = op
                nid[0] += 1
                e.update(m=m, ok=list(ok), err=list(err))
                if m == "cb":
                    d.addCallback(mk(nid[0], "ok", ok))
                elif m == "eb":
                    d.addErrback(mk(nid[0], "err", err))
                elif m == "both":
                    d.addBoth(mk(nid[0], "both", ok))
                else:
                    d.addCallbacks(mk(nid[0], "ok", ok), mk(nid[0], "err", err))
            elif name == "fire":
                _, _, k, v = op
                e.update(k=k, v=v)
                if k == "ok":
                    d.callback(v)
                else:
                    d.errback(excs[v]())
            elif name == "pause":
                d.pause()
            elif name == "unpause":
                d.unpause()
            else:
                raise AssertionError(name)
        except BaseException as x:  # not an action of the spec
            exc = type(x).__name__
        e["inv"] = [list(i) for i in inv]
        e["exc"] = exc
        ev.append(e)
    # failures left in Deferreds are expected; consume them so nothing is reported at GC time
    for d in ds:
        d.addErrback(lambda f: None)
    return {"cfg": dict(cfg), "ops": [list(o) for o in ops], "nbody": len(body), "ev": ev}


# ----------------------------------------------------------------------------- programs

class ProgState:
    """What the *generator* must know to stay inside the program grammar (inputs only)."""

    def __init__(self, nd):
        self.nd = nd
        self.fired = [False] * (nd + 1)
        self.up = [0] * (nd + 1)

    def ok(self, op):
        if op[0] == "fire":
            return not self.fired[op[1]]
        if op[0] == "unpause":
            return self.up[op[1]] > 0
        if op[0] == "pause":
            return self.up[op[1]] < 2
        return True

    def apply(self, op):
        if op[0] == "fire":
            self.fired[op[1]] = True
        elif op[0] == "pause":
            self.up[op[1]] += 1
        elif op[0] == "unpause":
            self.up[op[1]] -= 1


def epilogue(ops, nd):
    """Draining operations appended to every program: unpause everything, fire everything, probe
    everything -- ordinary operations the interpreter predicts like any other; they expose the
    callbacks that had not run and the final result of every Deferred."""
    st = ProgState(nd)
    for o in ops:
        st.apply(o)
    out = []
    for d in range(1, nd + 1):
        out.append(("add", d, "both", ("pass", 0), ("pass", 0)))
    for d in range(1, nd + 1):
        while st.up[d] > 0:
            out.append(("unpause", d))
            st.up[d] -= 1
    for d in range(nd, 0, -1):
        if not st.fired[d]:
            out.append(("fire", d, "ok", NV))
    for d in range(1, nd + 1):
        out.append(("add", d, "both", ("pass", 0), ("pass", 0)))
    return out


def small_alphabet(nd):
    """Operation alphabet of the bounded-exhaustive driver."""
    al = []
    for d in range(1, nd + 1):
        others = [t for t in range(1, nd + 1) if t != d]
        al.append(("fire", d, "ok", 1))
        al.append(("fire", d, "err", 1))
        al.append(("pause", d))
        al.append(("unpause", d))
        al.append(("add", d, "both", ("pass", 0), ("pass", 0)))
        al.append(("add", d, "cb", ("ret", 2), THRU))
        al.append(("add", d, "eb", THRU, ("ret", 2)))
        al.append(("add", d, "cb", ("raise", 2), THRU))
        for t in others:
            al.append(("add", d, "both", ("retdef", t), ("retdef", t)))
    return al


def exhaustive(nd, depth, alphabet=None):
    al = alphabet or small_alphabet(nd)

    def rec(prefix, st, left):
        if not left:
            yield prefix
            return
        for op in al:
            if not st.ok(op):
                continue
            st2 = ProgState(nd)
            st2.fired = list(st.fired)
            st2.up = list(st.up)
            st2.apply(op)
            yield from rec(prefix + [op], st2, left - 1)
    yield from rec([], ProgState(nd), depth)


def random_beh(rng, nd, d):
    r = rng.random()
    if r < 0.30 and nd > 1:
        t = rng.choice([t for t in range(1, nd + 1) if t != d])
        return ("retdef", t)
    if r < 0.50:
        return ("pass", 0)
    if r < 0.70:
        return ("ret", rng.randint(1, NV))
    if r < 0.85:
        return ("raise", rng.randint(1, NE))
    return ("retfail", rng.randint(1, NE))


def random_program(rng, nd, nops):
    st = ProgState(nd)
    ops = []
    while len(ops) < nops:
        d = rng.randint(1, nd)
        r = rng.random()
        if r < 0.50:
            m = rng.choice(["cb", "eb", "both", "cbs", "both", "cb"])
            if m == "cb":
                op = ("add", d, m, random_beh(rng, nd, d), THRU)
            elif m == "eb":
                op = ("add", d, m, THRU, random_beh(rng, nd, d))
            elif m == "both":
                b = random_beh(rng, nd, d)
                op = ("add", d, m, b, b)
            else:
                op = ("add", d, m, random_beh(rng, nd, d), random_beh(rng, nd, d))
        elif r < 0.72:
            if rng.random() < 0.7:
                op = ("fire", d, "ok", rng.randint(1, NV))
            else:
                op = ("fire", d, "err", rng.randint(1, NE))
        elif r < 0.86:
            op = ("pause", d)
        else:
            op = ("unpause", d)
        if st.ok(op):
            st.apply(op)
            ops.append(op)
    return ops


# ----------------------------------------------------------------------------- verdict plumbing

def mutate(t, rng):
    """Corrupt one logged field / drop one invocation (binding self-test)."""
    evs = t["ev"]
    cands = [i for i, e in enumerate(evs) if e["inv"]]
    if not cands:
        return None
    i = rng.choice(cands)
    inv = evs[i]["inv"]
    j = rng.randrange(len(inv))
    r = rng.random()
    if r < 0.3:
        inv[j][3] = inv[j][3] + 1                      # wrong input value
    elif r < 0.5:
        inv[j][2] = "err" if inv[j][2] == "ok" else "ok"   # wrong input kind
    elif r < 0.7:
        del inv[j]                                      # a callback that did not run
    elif r < 0.85:
        inv.append(list(inv[j]))                        # a callback that ran twice
    elif len(inv) > 1:
        inv[0], inv[-1] = inv[-1], inv[0]               # wrong order
        if inv[0] == inv[-1]:
            return None
    else:
        evs[i]["exc"] = "AlreadyCalledError"
    return t


F1 = "F1:waiter-resumed-while-user-paused-strands-rest-of-chain"


def describe(trace, rej):
    k = rej.reached
    ops = trace["ops"]
    if k >= len(ops):
        return "trace ended early"
    ev = trace["ev"][k]
    return "operation #%d %s logged invocations %s exc=%r" % (k + 1, list(ops[k]), ev["inv"], ev["exc"])


def classify(t, r):
    """Fingerprint of a rejection the known-findings model does not explain: the kind of operation at which the
    real code and the interpreter part (with the escaping exception, if any) and the program features that led
    there (a callback returned a Deferred? a pause was in effect at some point?)."""
    ops = t["ops"]
    k = r.reached
    op = ops[k] if k < len(ops) else ("end",)
    ev = t["ev"][k] if k < len(t["ev"]) else {"inv": [], "exc": ""}
    retdef = any(o[0] == "add" and "retdef" in (o[3][0], o[4][0]) for o in ops[:k + 1])
    paused = any(o[0] == "pause" for o in ops[:k])
    return "diverges@%s%s/%s/%s" % (op[0], ("/exc=" + ev["exc"]) if ev["exc"] else "",
                                    "returned-deferred" if retdef else "no-returned-deferred",
                                    "pause-used" if paused else "no-pause")


def valid(nd, ops):
    st = ProgState(nd)
    for o in ops:
        if not st.ok(o):
            return False
        st.apply(o)
    return True


def shrink(ctx, trace, module, rounds=6):
    """Batch delta debugging: per round, every one-operation deletion is run on the real code and the
    whole batch validated by one TLC run; the first still-rejected candidate is kept."""
    nd = trace["cfg"]["nd"]
    nbody = trace.get("nbody", len(trace["ops"]))
    body = [tuple(o) for o in trace["ops"][:nbody]]
    best = None
    for _ in range(rounds):
        cands = [body[:i] + body[i + 1:] for i in range(len(body))]
        cands = [c for c in cands if valid(nd, c)]
        if not cands:
            break
        ts = [run_program({"nd": nd}, c, epilogue(c, nd)) for c in cands]
        rej = ctx.validate(module, ts, count=False)
        if not rej:
            break
        # prefer the candidate rejected earliest
        x = min(rej, key=lambda r: (r.reached, r.idx))
        best = (ts[x.idx], x)
        body = cands[x.idx]
    return best


def report(ctx, traces, rej):
    """Turn TLC's rejections into findings.  Rejected executions are first shown to DeferredKnown.tla
    (TLC again): those it explains completely carry the fingerprint of finding F1."""
    if not rej:
        return
    rts = [traces[x.idx] for x in rej]
    rej2 = ctx.validate("DeferredKnownTrace", rts, count=False)
    unexplained = {x.idx for x in rej2}
    ctx.extra["rejected_explained_by_known_model"] = len(rej) - len(unexplained)
    ctx.extra["rejected_unexplained"] = len(unexplained)
    known = [x for i, x in enumerate(rej) if i not in unexplained]
    if known:
        x = min(known, key=lambda x: len(traces[x.idx]["ops"]))
        t = traces[x.idx]
        for y in known:
            ctx.violation(F1, "Deferred resumed (by the Deferred it waited for) while user-paused: the resuming Deferred's "
                              "remaining callbacks are not run; e.g. %s; program %s" % (describe(t, x), t["ops"]),
                          dict(cfg=t["cfg"], ops=t["ops"], nbody=t.get("nbody"), rejected_at=x.reached))
    classes = {}
    for i, x in enumerate(rej):
        if i in unexplained:
            classes.setdefault(classify(traces[x.idx], x), []).append(x)
    for n, (fp, xs) in enumerate(sorted(classes.items())):
        x = min(xs, key=lambda x: len(traces[x.idx]["ops"]))
        t = traces[x.idx]
        if n < 2 and fp not in {k["fingerprint"] for k in ctx.known}:
            sm = shrink(ctx, t, "DeferredAbsTrace")
            if sm:
                t, x = sm
        ctx.violation(fp, "real Deferred execution not explained by DeferredAbs.tla: %s; program %s (%d executions in this class)"
                      % (describe(t, x), t["ops"], len(xs)),
                      dict(cfg=t["cfg"], ops=t["ops"], nbody=t.get("nbody"), rejected_at=x.reached))


# ----------------------------------------------------------------------------- entry points

def core_alphabet(nd):
    """Smaller alphabet for the deeper bounded-exhaustive families."""
    al = []
    for d in range(1, nd + 1):
        al.append(("fire", d, "ok", 1))
        al.append(("fire", d, "err", 1))
        al.append(("pause", d))
        al.append(("unpause", d))
        al.append(("add", d, "cb", ("ret", 2), THRU))
        al.append(("add", d, "eb", THRU, ("ret", 2)))
        for t in range(1, nd + 1):
            if t != d:
                al.append(("add", d, "both", ("retdef", t), ("retdef", t)))
    return al


def impl_layer(ctx):
    """Impl layer: _runCallbacks as coded (explicit chain list), lock-stepped by TLC against the interpreter.
    coded/known and fixed/abs must hold; coded/abs is expected to fail with the F1 counterexample, which is
    replayed on the real code (a design-level counterexample is reported only if the real code reproduces it)."""
    import re
    from harness.core import MachineryError, parse_tla_value
    r = ctx.mc("DeferredImplMC", ctx.pick("DeferredImplMC.cfg", "DeferredImplMC.thorough.cfg"), label="coded vs interpreter+F1, repaired vs interpreter")
    if not r.ok:
        raise MachineryError("DeferredImpl does not refine its interpreter: %s\n%s" % (r.error, (r.cex or [""])[-1][:1500]))
    ctx.require_actions("DeferredImplMC", ["MAddCb", "MAddEb", "MAddBoth", "MFireOk", "MFireErr", "MPause", "MUnpause", "Outer", "Inner", "After"])
    if ctx.quick:
        return          # the expected-counterexample run needs 5-operation programs: thorough tier only
    r = ctx.mc("DeferredImplMC", "DeferredImplMC.coded-abs.cfg", must_pass=False, coverage=False, label="coded vs interpreter (expected: F1 counterexample)")
    ctx.extra["impl_coded_refines_abs"] = bool(r.ok)
    if r.ok:
        return
    if r.kind != "invariant" or not r.cex:
        raise MachineryError("DeferredImplMC coded-abs failed unexpectedly: " + r.error)
    m = re.search(r"/\\ prog = (.*?)\n/\\ ", r.cex[-1] + "\n/\\ ", re.S)
    if not m:
        raise MachineryError("cannot find prog in the TLC counterexample")
    prog = parse_tla_value(m.group(1))
    ops = []
    for o in prog:
        if o[0] == "add":
            ops.append(("add", o[1], o[2], tuple(o[3]), tuple(o[4])))
        else:
            ops.append(tuple(o))
    nd = max(2, max(o[1] for o in ops))
    ctx.extra["impl_counterexample_program"] = [list(o) for o in ops]
    t = run_program({"nd": nd}, ops, epilogue(ops, nd))
    ctx.note_trace(t)
    rej = ctx.validate("DeferredAbsTrace", [t])
    if rej:
        ctx.log("TLC counterexample of the coded algorithm reproduces on the real code: %s" % [list(o) for o in ops])
        report(ctx, [t], rej)
    else:
        ctx.impl_drift += 1
        ctx.log("TLC counterexample of the coded-algorithm model does NOT reproduce on the real code (impl_drift): %s" % [list(o) for o in ops])


def mini_alphabet(nd):
    """Smallest alphabet that still has waiting, pausing and late-added callbacks (depth-5 family)."""
    al = []
    for d in range(1, nd + 1):
        al.append(("fire", d, "ok", 1))
        al.append(("pause", d))
        al.append(("unpause", d))
        al.append(("add", d, "cb", ("ret", 2), THRU))
        for t in range(1, nd + 1):
            if t != d:
                al.append(("add", d, "both", ("retdef", t), ("retdef", t)))
    return al


ALPHABETS = {"small": small_alphabet, "core": core_alphabet, "mini": mini_alphabet}


def sim_programs(ctx, num):
    """spec -> code: behaviours generated by TLC from DeferredAbs (operations + predicted observables) are stepped
    through real Deferreds; the recorded executions are validated by TLC with the others."""
    behs = ctx.simulate("DeferredAbsSim", "DeferredAbsSim.cfg", num=num, depth=13)
    drift = 0
    out = []
    for b in behs:
        ops = []
        for h in b["hist"]:
            if h["e"] == "add":
                ops.append(("add", h["d"], h["m"], tuple(h["ok"]), tuple(h["err"])))
            elif h["e"] == "fire":
                ops.append(("fire", h["d"], h["k"], h["v"]))
            else:
                ops.append((h["e"], h["d"]))
        nd = b["cfg"]["nd"]
        t = run_program({"nd": nd}, ops, epilogue(ops, nd))
        if [(e["inv"], e["exc"]) for e in t["ev"][:len(ops)]] != [(h["inv"], h["exc"]) for h in b["hist"]]:
            drift += 1
        out.append(t)
    ctx.extra["spec_behaviours_replayed"] = len(behs)
    ctx.extra["spec_behaviours_not_reproduced"] = drift   # each of these is also rejected by TLC in validate()
    return out


def run(ctx):
    from harness.core import MachineryError
    for c in ctx.pick(["DeferredAbsMC.cfg"], ["DeferredAbsMC.thorough.cfg", "DeferredAbsMC.thorough3.cfg"]):
        r = ctx.mc("DeferredAbsMC", c)
        if not r.ok:
            raise MachineryError("DeferredAbs violates its own invariants: " + r.error)
    ctx.require_actions("DeferredAbsMC", ["AddCb", "AddEb", "AddBoth", "AddCbs", "FireOk", "FireErr", "DoPause", "DoUnpause"])
    if not ctx.quick:
        # vacuity witness: a paused waiter with a later callback queued behind its resume entry must be reachable
        r = ctx.mc("DeferredAbsMC", "DeferredAbsMC.witness.cfg", must_pass=False, coverage=False, label="witness: must be violated")
        if r.ok or r.kind != "invariant":
            raise MachineryError("vacuity: the interesting wait state is not reachable in DeferredAbsMC (%s)" % (r.error or "passed"))
    impl_layer(ctx)

    traces = []
    # bounded-exhaustive small programs: (Deferreds, operations, alphabet)
    fams = ctx.pick([(2, 3, "core")], [(1, 5, "small"), (2, 4, "core"), (2, 5, "mini"), (3, 3, "core")])
    for nd, depth, al in fams:
        for p in exhaustive(nd, depth, ALPHABETS[al](nd)):
            traces.append(run_program({"nd": nd}, p, epilogue(p, nd)))
    ctx.exhaustive = True
    ctx.extra["exhaustive_families"] = ["%d Deferreds x %d ops (%s alphabet, %d symbols) + draining epilogue" %
                                        (nd, k, al, len(ALPHABETS[al](nd))) for nd, k, al in fams]
    nex = len(traces)
    # random long programs
    for i in range(ctx.pick(1200, 30000)):
        nd = ctx.rng.randint(2, 6)
        p = random_program(ctx.rng, nd, ctx.rng.randint(6, 20))
        traces.append(run_program({"nd": nd}, p, epilogue(p, nd)))
    # spec -> code: programs drawn by TLC from the interpreter, with its predictions, stepped through real Deferreds
    if not ctx.quick:
        traces.extend(sim_programs(ctx, 12))
    ctx.note_traces(traces)
    ctx.log("recorded %d real executions (%d exhaustive)" % (len(traces), nex))
    import os
    nsh = ctx.pick(2, max(2, int(os.environ.get("VERIF_SHARDS") or 8)))
    rej = ctx.validate("DeferredAbsTrace", traces, shard_size=(len(traces) + nsh - 1) // nsh)
    ctx.extra["rejected_executions"] = len(rej)
    report(ctx, traces, rej)
    bad = {x.idx for x in rej}
    good = [t for i, t in enumerate(traces) if i not in bad]
    ctx.selftest_rejects("DeferredAbsTrace", good[-300:], mutate, n=20)


def replay(ctx, obj):
    ops = [tuple(o) for o in obj["ops"]]
    t = run_program(obj["cfg"], ops, [])
    ctx.note_trace(t)
    rej = ctx.validate("DeferredAbsTrace", [t])
    report(ctx, [t], rej)
    for e in t["ev"]:
        print(e)
