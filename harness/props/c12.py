"""C12 -- system event triggers run once each, in phase and registration order.

Spec:     specs/ThreePhase.tla (+ ThreePhaseMC exhaustive, ThreePhaseTrace trace validation, ThreePhaseSim generator)
Binding:  real twisted.internet.base._ThreePhaseEvent ("raw") and a real ReactorBase subclass
          ("reactor": addSystemEventTrigger / removeSystemEventTrigger / fireSystemEvent).  Every trigger is a
          distinct callable that appends its id to a run log; one event per public call carrying the call's
          result (exception class if any) and the exact sequence of triggers the call ran.  TLC decides.
"""
import itertools

META = dict(
    id="C12",
    specs=["ThreePhase.tla", "ThreePhaseMC.tla", "ThreePhaseTrace.tla", "ThreePhaseSim.tla"],
    technique="TLA+ spec of the three-phase event (TLC exhaustive over all histories of <= 4-5 registrations with removals, two firings and every firing order of the Deferreds) + TLC trace validation of real _ThreePhaseEvent / ReactorBase executions (all small configurations with every Deferred order, random histories up to 20 triggers, spec-generated behaviours)",
    level_text="TLC checks the run-history invariants (each remaining trigger exactly once, before/during/after and registration order, no during/after trigger while a before-trigger's Deferred is unfired, raising triggers stop nothing) on the specification for every history within the stated bounds, and every recorded execution of the real _ThreePhaseEvent and ReactorBase system-event API is validated by TLC as a behaviour of that specification with the sequence of triggers run by every call matched.",
    level_note="Trusted: TLC, the adapter's run log (trigger ids appended by the trigger callables) and exception classes. Triggers may register/remove triggers of the event while they run (scripts, one level of nesting driven); overlapping firings of one event and triggers that fire the event are outside the stated property and not driven. What a removal of an already-run/removed trigger reports is left free (the property is silent). Histories beyond the enumerated configurations are sampled.",
    design_ref="2.4 C12",
    rule="history = sequence of add(phase, kind incl. the trigger's own register/remove script)/remove(handle)/fire/fire-Deferred(d, how) calls on one event; distinct = hash of (cfg, events); non-trivial = at least two different call kinds",
)

PHASES = ("before", "during", "after")
KINDS = ("plain", "raise", "defer", "fired")
_logging_begun = []


class Boom(Exception):
    pass


def _quiet_logging():
    """Raising triggers are reported to the global log publisher, which prints critical events to stderr
    until logging has begun: begin logging (public API) to a sink once per process."""
    if _logging_begun:
        return
    from twisted.logger import globalLogBeginner
    sink = []
    globalLogBeginner.beginLoggingTo([sink.append], discardBuffer=True, redirectStandardIO=False)
    _logging_begun.append(sink)


class _Unpauser:
    """'Firing' a called-but-paused Deferred = unpausing it."""
    def __init__(self, d):
        self.d = d

    def callback(self, _):
        self.d.unpause()

    def errback(self, _):
        self.d.unpause()

    def addErrback(self, f):
        return self


class Runner:
    """Drives one real event object through the public API and records observable events."""

    def __init__(self, api):
        from twisted.internet import base
        _quiet_logging()
        self.api = api
        self.runlog = []
        self.handles = {}
        self.kind = {}
        self.phase = {}
        self.unfired = {}        # id -> Deferred returned by that trigger, not fired yet
        self.waiting_on = set()  # before-trigger Deferreds of the firing in progress
        self.n = 0
        self.ev = []
        self.sub = []            # what the triggers' own registrations / removals reported, in program order
        if api == "raw":
            self.obj = base._ThreePhaseEvent()
        else:
            class R(base.ReactorBase):
                def installWaker(self):
                    pass
            self.obj = R()
            # decoys on another event type must never run
            for ph in PHASES:
                self.obj.addSystemEventTrigger(ph, "verif-other", self._decoy, ph)

    def _decoy(self, ph):
        self.runlog.append(-1000)

    def _trigger(self, tid, k, acts):
        from twisted.internet import defer

        def trig(*a, **kw):
            self.runlog.append(tid if (a == (tid,) and kw == {"tag": k}) else -tid)
            # the trigger's script: registrations / removals on the event being fired, through the public API
            for act in acts:
                if act["op"] == "add":
                    new, res = self._register(act["ph"], act["ret"], act["more"])
                    self.sub.append({"by": tid, "op": "add", "x": new, "res": res})
                else:
                    h = act["h"]
                    if h not in self.handles:
                        res = "nohandle"
                    else:
                        try:
                            self._remove_api()(self.handles[h])
                            res = "ok"
                        except ValueError:
                            res = "ValueError"
                        except BaseException as e:
                            res = "EXC:" + type(e).__name__
                    self.sub.append({"by": tid, "op": "rm", "x": h, "res": res})
            if k == "raise":
                raise Boom(tid)
            if k == "defer":
                d = defer.Deferred()
                self.unfired[tid] = d
                if self.phase[tid] == "before":
                    self.waiting_on.add(tid)
                return d
            if k == "fired":
                return defer.succeed(tid)
            if k in ("chained", "paused"):
                if k == "chained":          # called, but its result is an unfired inner Deferred
                    inner = defer.Deferred()
                    d = defer.succeed(tid)
                    d.addCallback(lambda _: inner)
                    self.unfired[tid] = inner
                else:                       # called, but paused: fires when unpaused
                    d = defer.Deferred()
                    d.pause()
                    d.callback(tid)
                    self.unfired[tid] = _Unpauser(d)
                if self.phase[tid] == "before":
                    self.waiting_on.add(tid)
                return d
            return None
        return trig

    def _remove_api(self):
        return self.obj.removeTrigger if self.api == "raw" else self.obj.removeSystemEventTrigger

    def _register(self, ph, k, acts):
        """Register a new trigger through the public API (from outside or from a running trigger)."""
        self.n += 1
        tid = self.n
        self.kind[tid], self.phase[tid] = k, ph
        f = self._trigger(tid, k, acts)
        try:
            # positional and keyword arguments are passed through the API and checked by the trigger
            if self.api == "raw":
                h = self.obj.addTrigger(ph, f, tid, tag=k)
            else:
                h = self.obj.addSystemEventTrigger(ph, "verif", f, tid, tag=k)
            self.handles[tid] = h
            return tid, "ok"
        except BaseException as e:
            return tid, "EXC:" + type(e).__name__

    def _call(self, f, *a):
        del self.runlog[:]
        del self.sub[:]
        import warnings
        with warnings.catch_warnings():
            warnings.simplefilter("ignore")
            try:
                r = f(*a)
                return "ok", r
            except BaseException as e:
                return ("ValueError" if type(e) is ValueError else "EXC:" + type(e).__name__), None

    def add(self, ph, k, acts=()):
        del self.runlog[:]
        del self.sub[:]
        tid, res = self._register(ph, k, list(acts))
        self.ev.append({"e": "add", "ph": ph, "k": k, "acts": list(acts), "id": tid, "res": res, "ran": list(self.runlog)})

    def remove(self, h):
        res, _ = self._call(self._remove_api(), self.handles[h])
        self.ev.append({"e": "remove", "h": h, "res": res, "ran": list(self.runlog)})

    def can_fire(self):
        return not self.waiting_on

    def fire(self):
        if self.api == "raw":
            res, _ = self._call(self.obj.fireEvent)
        else:
            res, _ = self._call(self.obj.fireSystemEvent, "verif")
        self.ev.append({"e": "fire", "res": res, "ran": list(self.runlog), "sub": [dict(x) for x in self.sub]})

    def fired(self, d, how):
        dd = self.unfired.pop(d)
        self.waiting_on.discard(d)
        if how == "ok":
            res, _ = self._call(dd.callback, None)
        else:
            res, _ = self._call(dd.errback, Boom(d))
            dd.addErrback(lambda f: None)    # consume, after the event machinery has seen it
        self.ev.append({"e": "fired", "d": d, "how": how, "res": res, "ran": list(self.runlog), "sub": [dict(x) for x in self.sub]})

    def apply(self, op):
        if op[0] == "add":
            self.add(op[1], op[2], op[3] if len(op) > 3 else ())
        elif op[0] == "remove":
            self.remove(op[1])
        elif op[0] == "fire":
            self.fire()
        else:
            self.fired(op[1], op[2])


def run_history(api, ops):
    r = Runner(api)
    done = []
    for op in ops:
        op = tuple(op)
        if op[0] == "fired" and op[1] not in r.unfired:
            continue          # (replay of a shrunk history) no such Deferred: skip
        if op[0] == "fire" and not r.can_fire():
            continue
        if op[0] == "remove" and op[1] not in r.handles:
            continue
        r.apply(op)
        done.append(list(op))
    return {"cfg": {"api": api}, "ops": done, "ev": r.ev}


def small_configs(n, kinds_other):
    """All registrations of exactly n triggers (before: every kind; during/after: kinds_other)."""
    choices = [("before", k) for k in KINDS] + [(ph, k) for ph in ("during", "after") for k in kinds_other]
    return itertools.product(choices, repeat=n)


def config_histories(conf, max_removed):
    """add all; remove every subset of size <= max_removed; fire; fire outstanding Deferreds in every order
    (alternating callback / errback); fire again (nothing may run twice)."""
    n = len(conf)
    adds = [("add", ph, k) for ph, k in conf]
    for nrem in range(0, max_removed + 1):
        for rem in itertools.combinations(range(1, n + 1), nrem):
            waits = [i + 1 for i, (ph, k) in enumerate(conf) if ph == "before" and k in ("defer", "chained", "paused") and (i + 1) not in rem]
            for order in itertools.permutations(waits):
                h = adds + [("remove", x) for x in rem] + [("fire",)]
                h += [("fired", d, "ok" if j % 2 == 0 else "err") for j, d in enumerate(order)]
                h += [("fire",)]
                yield h


def act_add(ph, ret="plain", more=()):
    return {"op": "add", "ph": ph, "ret": ret, "h": 0, "more": list(more)}


def act_rm(h):
    return {"op": "rm", "ph": "-", "ret": "-", "h": h, "more": []}


def reentrant_histories():
    """Triggers that, while running, register a trigger (for each phase) or remove trigger h (earlier, later,
    themselves, not existing): every 2-trigger configuration, every 3-trigger configuration with one such trigger,
    and every 2-trigger configuration behind a Deferred-returning before-trigger (the scripts then run in the
    continuation started by firing that Deferred)."""
    def kinds(nmax):
        return [("plain", ())] + [("plain", (act_add(ph),)) for ph in PHASES] + [("plain", (act_rm(h),)) for h in range(1, nmax + 1)]
    def trig(nmax):
        return [(ph, k, acts) for ph in PHASES for k, acts in kinds(nmax)]
    for conf in itertools.product(trig(3), repeat=2):
        if any(t[2] for t in conf):
            yield [("add",) + t for t in conf] + [("fire",), ("fire",)]
    plain = [(ph, "plain", ()) for ph in PHASES]
    for pos in range(3):
        for sc in [t for t in trig(4) if t[2]]:
            for rest in itertools.product(plain, repeat=2):
                conf = list(rest)
                conf.insert(pos, sc)
                yield [("add",) + t for t in conf] + [("fire",), ("fire",)]
    for conf in itertools.product(trig(4), repeat=2):
        if any(t[2] for t in conf):
            yield [("add", "before", "defer", ())] + [("add",) + t for t in conf] + [("fire",), ("fired", 1, "ok"), ("fire",)]


def random_script(rng, n, depth=0):
    acts = []
    for _ in range(rng.choice((1, 1, 2))):
        if rng.random() < 0.6:
            more = random_script(rng, n, depth + 1) if (depth == 0 and rng.random() < 0.3) else []
            acts.append(act_add(rng.choice(PHASES), rng.choice(("plain", "plain", "raise", "defer")), more))
        else:
            acts.append(act_rm(rng.randint(1, n + 3)))
    return acts


def random_history(rng, api, nops, maxt):
    """Generated online against the real object: the driver only uses what it observed
    (which triggers returned Deferreds that it has not fired yet)."""
    r = Runner(api)
    ops = []
    for _ in range(nops):
        x = rng.random()
        if r.unfired and x < 0.22:
            # prefer the Deferreds the firing is waiting on
            pool = sorted(r.waiting_on) if (r.waiting_on and rng.random() < 0.8) else sorted(r.unfired)
            op = ("fired", rng.choice(pool), rng.choice(["ok", "err"]))
        elif x < 0.62 and r.n < maxt:
            ph = rng.choice(PHASES)
            k = rng.choice(KINDS if ph == "before" else ("plain", "plain", "raise", "defer", "fired"))
            if ph == "before" and rng.random() < 0.4:
                k = rng.choice(("defer", "defer", "chained", "paused"))
            op = ("add", ph, k, random_script(rng, r.n) if rng.random() < 0.3 else [])
        elif x < 0.80 and r.n:
            op = ("remove", rng.randint(1, r.n))
        elif r.can_fire():
            op = ("fire",)
        else:
            continue
        r.apply(op)
        ops.append(list(op))
    # finish: fire everything outstanding, then fire once more
    for d in sorted(r.unfired, key=lambda _: rng.random()):
        r.apply(("fired", d, "ok"))
        ops.append(["fired", d, "ok"])
    if r.can_fire():
        r.apply(("fire",))
        ops.append(["fire"])
    return {"cfg": {"api": api}, "ops": ops, "ev": r.ev}


def mutate(t, rng):
    evs = t["ev"]
    runs = [i for i, e in enumerate(evs) if len(e["ran"]) >= 2]
    r = rng.random()
    if runs and r < 0.4:
        e = evs[rng.choice(runs)]
        i = rng.randrange(len(e["ran"]) - 1)
        e["ran"][i], e["ran"][i + 1] = e["ran"][i + 1], e["ran"][i]      # two triggers swapped
    elif runs and r < 0.6:
        e = evs[rng.choice(runs)]
        e["ran"].pop(rng.randrange(len(e["ran"])))                          # a trigger skipped
    elif runs and r < 0.8:
        e = evs[rng.choice(runs)]
        e["ran"].append(e["ran"][0])                                        # a trigger run twice
    else:
        cands = [i for i, e in enumerate(evs) if e["e"] in ("fire", "fired")]
        if not cands:
            return None
        e = evs[rng.choice(cands)]
        e["res"] = "EXC:Boom"                                               # an exception escaped
    return t


def fingerprint(t, rej):
    e = t["ev"][rej.reached] if rej.reached < len(t["ev"]) else {}
    return "%s/%s/%s" % (t["cfg"]["api"], e.get("e"), e.get("res"))


def report(ctx, traces, rej, what="real system-event execution not explained by ThreePhase.tla"):
    for x in rej[:20]:
        t = traces[x.idx]
        ev = t["ev"][x.reached] if x.reached < len(t["ev"]) else None
        ctx.violation(fingerprint(t, x), "%s at event %d: %s (history %s)" % (what, x.reached, ev, t["ops"][: x.reached + 1]),
                      dict(api=t["cfg"]["api"], ops=t["ops"], rejected_at=x.reached))


def run(ctx):
    from harness.core import MachineryError
    for cfg in ctx.pick(["ThreePhaseMC.a.cfg", "ThreePhaseMC.b.cfg", "ThreePhaseMC.r.cfg"], ["ThreePhaseMC.cfg", "ThreePhaseMC.thorough.cfg", "ThreePhaseMC.r.cfg"]):
        r = ctx.mc("ThreePhaseMC", cfg)
        if not r.ok:
            raise MachineryError("ThreePhase spec violates its own invariants: " + r.error)
    ctx.require_actions("ThreePhaseMC", ["DoAdd", "DoRemoveOk", "DoRemoveGone", "DoFire", "DoFireDeferred", "DoFireLoose"])
    # vacuity: two Deferreds outstanding with during and after triggers registered is reachable (TLC must find it)
    r = ctx.mc("ThreePhaseMC", "ThreePhaseMCreach.cfg", must_pass=False, coverage=False)
    if r.ok or r.kind != "invariant":
        raise MachineryError("vacuity: the waiting-on-two-Deferreds situation is unreachable in ThreePhaseMC")
    # ... and so are: a trigger registered by a running trigger of the same phase running after an earlier-registered
    # pending one; a trigger registered for a phase already over left behind; a pending trigger removed by a running one
    for inv in ("SamePhaseAdd", "Late", "RmPending"):
        r = ctx.mc("ThreePhaseMC", "ThreePhaseMCreach%s.cfg" % inv, must_pass=False, coverage=False)
        if r.ok or r.kind != "invariant":
            raise MachineryError("vacuity: situation Reach%s unreachable in ThreePhaseMC" % inv)

    traces = []
    nmax = ctx.pick(3, 4)
    for n in range(1, nmax + 1):
        kinds_other = ("plain", "raise", "defer") if n <= 3 else ("plain", "raise")
        for conf in small_configs(n, kinds_other):
            for i, h in enumerate(config_histories(conf, 1 if n <= 3 else 2)):
                traces.append(run_history("raw" if (len(traces) % 2 == 0) else "reactor", h))
    # every way a before-trigger can return a Deferred that has not fired yet, alone and in pairs, every firing order
    for n in (1, 2, 3):
        for conf in itertools.product([("before", k) for k in ("defer", "chained", "paused", "fired")] + [("during", "plain"), ("after", "plain")], repeat=n):
            if any(k in ("chained", "paused") for _, k in conf):
                for h in config_histories(conf, 0):
                    traces.append(run_history("raw" if (len(traces) % 2 == 0) else "reactor", h))
    nre = 0
    for h in reentrant_histories():
        traces.append(run_history("raw" if (len(traces) % 2 == 0) else "reactor", h))
        nre += 1
    ctx.exhaustive = True
    ctx.extra["exhaustive_configs_upto_triggers"] = nmax
    ctx.extra["exhaustive_reentrant_configs"] = nre
    nrand = ctx.pick(500, 30000)
    for i in range(nrand):
        traces.append(random_history(ctx.rng, ctx.rng.choice(["raw", "reactor"]), ctx.rng.randint(6, 60), 20))
    behs = ctx.simulate("ThreePhaseSim", "ThreePhaseSim.cfg", num=ctx.pick(150, 4000), depth=16)
    drift = 0
    for b in behs:
        ops = []
        for h in b["hist"]:
            if h["e"] == "add":
                ops.append(("add", h["ph"], h["k"]["ret"], h["k"]["acts"]))
            elif h["e"] == "remove":
                ops.append(("remove", h["h"]))
            elif h["e"] == "fire":
                ops.append(("fire",))
            else:
                ops.append(("fired", h["d"], h["how"]))
        t = run_history(b["cfg"]["api"], ops)
        # (what removing a no longer registered trigger reports is not predicted: compare who did what to whom)
        strip = lambda sub: [(x["by"], x["op"], x["x"]) for x in sub]
        pred = [(h["e"], h.get("res", "ok"), h.get("ran", []), strip(h.get("sub", []))) for h in b["hist"]]
        real = [(e["e"], e["res"], e["ran"], strip(e.get("sub", []))) for e in t["ev"]]
        if pred != real:
            drift += 1
        traces.append(t)
    ctx.extra["spec_behaviours_replayed"] = len(behs)
    ctx.extra["spec_behaviours_not_reproduced"] = drift
    ctx.note_traces(traces)
    ctx.log("recorded %d real executions, %d events" % (len(traces), sum(len(t["ev"]) for t in traces)))
    rej = ctx.validate("ThreePhaseTrace", traces, shard_size=ctx.pick(2500, 6000))
    report(ctx, traces, rej)
    bad = {x.idx for x in rej}
    good = [t for i, t in enumerate(traces) if i not in bad]
    ctx.selftest_rejects("ThreePhaseTrace", good[-300:], mutate, n=24)


def replay(ctx, obj):
    t = run_history(obj["api"], [tuple(o) for o in obj["ops"]])
    ctx.note_trace(t)
    rej = ctx.validate("ThreePhaseTrace", [t])
    report(ctx, [t], rej, "replayed history rejected")
    for e in t["ev"]:
        print(e)
