"""C06 -- DeferredLock and DeferredSemaphore are safe, fair and lose no capacity.

Spec:     specs/LockSem.tla (+ LockSemMC exhaustive TLC, LockSemTrace trace validation, LockSemSim generator)
Binding:  real twisted.internet.defer.DeferredLock / DeferredSemaphore driven along exhaustive short
          histories, seeded random long ones and TLC-generated behaviours.  One event per public call
          (acquire / run(f) / release / cancel of an acquisition's Deferred / firing the Deferred a run's
          function returned), carrying what user code observed during the call: the acquisitions granted
          (callbacks of acquire() Deferreds, invocations of run() functions) in order, the results of run()
          Deferreds and failures of acquisition Deferreds, the exception of the call, and the number of
          holders as published by the documented attributes `locked` / `tokens` / `limit`.  TLC decides.
"""
import re

META = dict(
    id="C06",
    specs=["LockSem.tla", "LockSemMC.tla", "LockSemTrace.tla", "LockSemSim.tla"],
    technique="TLA+ spec of lock/semaphore capacity, FIFO queue, cancellation and run() (TLC exhaustive for lock and semaphores 1..3) + TLC trace validation of real DeferredLock/DeferredSemaphore executions (exhaustive short histories, random long ones, TLC-generated behaviours replayed)",
    level_text="TLC checks safety (holders <= limit), no idle waiter, FIFO grants, cancelled-pending-never-granted, capacity accounting and run()-releases-exactly-once-after-result on the specification for every history up to the stated depth, and every recorded execution of the real DeferredLock / DeferredSemaphore is validated by TLC as a behaviour of that specification with every logged observation matched and every invariant evaluated after every step.",
    level_note="Trusted: TLC, the adapter's logging of callback invocations, results and exception classes, and the documented public attributes locked/tokens/limit as the holder count. Histories are sequences of top-level calls (no user re-entrancy beyond what run() itself does); release() is only issued on behalf of current holders (the property quantifies over 'release by holders'). Beyond the enumerated depth histories are sampled.",
    design_ref="2.3 C06",
    rule="history = sequence of acquire/run(kind)/release(holder)/cancel(acquisition)/fire(run,outcome) calls on one lock or semaphore; distinct = hash of (cfg, events); non-trivial = at least two different call kinds",
)

RUNKINDS = ["SyncOk", "SyncRaise", "Async"]
CONFIGS = [dict(limit=1, lock=True), dict(limit=1, lock=False), dict(limit=2, lock=False), dict(limit=3, lock=False)]


class Boom(Exception):
    pass


class Sys:
    """One real primitive plus the recorder.  step(op) performs one public call and logs one event."""

    def __init__(self, cfg, chained=False):
        from twisted.internet import defer

        self.defer = defer
        self.cfg = cfg
        # chained: an "Async" function returns an ALREADY FIRED Deferred that is waiting on a pending one
        # (succeed(None).addCallback(lambda _: pending)); its result is just as unavailable as an unfired one's
        self.chained = chained
        self.prim = defer.DeferredLock() if cfg["lock"] else defer.DeferredSemaphore(cfg["limit"])
        self.acq = []          # per acquisition: dict(kind, d, inner, val)
        self.gr = []
        self.rr = []
        self.ev = []
        # what the driver has seen (used only to choose applicable next calls)
        self.granted = set()
        self.ended = set()     # released by the driver / run result seen / failed
        self.dead = False      # a call raised: stop extending

    # ---- observation
    def held(self):
        p = self.prim
        if self.cfg["lock"]:
            return 1 if p.locked else 0
        return p.limit - p.tokens

    def _grant(self, a, v=None, check=False):
        ok = (v is self.prim) if check else True
        self.gr.append(a if ok else 1000 + a)
        self.granted.add(a)

    def _result(self, a, s):
        self.rr.append([a, s])
        self.ended.add(a)

    # ---- calls
    def step(self, op):
        defer = self.defer
        del self.gr[:]
        del self.rr[:]
        exc = "none"
        e = dict(e=op[0], a=0, k="", oc="")
        try:
            if op[0] == "acquire":
                a = len(self.acq) + 1
                e["a"] = a
                e["k"] = "Plain"
                rec = dict(kind="Plain", d=None, inner=None)
                self.acq.append(rec)
                d = self.prim.acquire()
                rec["d"] = d

                def on_ok(v, a=a):
                    self._grant(a, v, check=True)

                def on_err(f, a=a):
                    self._result(a, "ERR:" + f.type.__name__)

                d.addCallbacks(on_ok, on_err)
            elif op[0] == "run":
                a = len(self.acq) + 1
                kind = op[1]
                e["a"] = a
                e["k"] = kind
                rec = dict(kind=kind, d=None, inner=None, val=object())
                self.acq.append(rec)

                def f(a=a, kind=kind, rec=rec):
                    self._grant(a)
                    if kind == "SyncOk":
                        return rec["val"]
                    if kind == "SyncRaise":
                        raise Boom()
                    rec["inner"] = defer.Deferred()
                    if self.chained:
                        return defer.succeed(None).addCallback(lambda _, p=rec["inner"]: p)
                    return rec["inner"]

                d = self.prim.run(f)
                rec["d"] = d

                def r_ok(v, a=a, rec=rec):
                    self._result(a, "OK" if v is rec["val"] else "OK:wrong-value")

                def r_err(f, a=a):
                    self._result(a, "ERR:" + f.type.__name__)

                d.addCallbacks(r_ok, r_err)
            elif op[0] == "release":
                e["a"] = op[1]
                self.ended.add(op[1])
                self.prim.release()
            elif op[0] == "cancel":
                e["a"] = op[1]
                self.acq[op[1] - 1]["d"].cancel()
            elif op[0] == "fire":
                e["a"] = op[1]
                e["oc"] = op[2]
                rec = self.acq[op[1] - 1]
                if op[2] == "OK":
                    rec["inner"].callback(rec["val"])
                else:
                    rec["inner"].errback(Boom())
            else:
                raise ValueError(op)
        except BaseException as x:  # not an action of the spec
            exc = type(x).__name__
            self.dead = True
        e["exc"] = exc
        e["gr"] = list(self.gr)
        e["rr"] = [list(x) for x in self.rr]
        e["nh"] = self.held()
        self.ev.append(e)
        return e

    # ---- which calls the property's histories allow next (from what was observed)
    def applicable(self, cancel_targets="all"):
        ops = [("acquire",)] + [("run", k) for k in RUNKINDS]
        n = len(self.acq)
        for a in range(1, n + 1):
            rec = self.acq[a - 1]
            if rec["kind"] == "Plain" and a in self.granted and a not in self.ended:
                ops.append(("release", a))
            if rec["kind"] == "Async" and a in self.granted and a not in self.ended and rec["inner"] is not None:
                ops.append(("fire", a, "OK"))
                ops.append(("fire", a, "ERR:Boom"))
        for a in range(1, n + 1):
            ops.append(("cancel", a))
        return ops


def run_history(cfg, ops, chained=False):
    s = Sys(cfg, chained)
    for op in ops:
        s.step(tuple(op))
    return {"cfg": cfg, "ops": [list(o) for o in ops], "ev": s.ev, "mode": {"chained": chained}}


def exhaustive(cfg, depth):
    """All histories of exactly `depth` applicable calls (every shorter history is a prefix of one).
    The real object cannot be snapshotted, so each node re-runs its prefix on a fresh object."""
    out = []

    def rec(prefix):
        s = Sys(cfg)
        for op in prefix:
            s.step(op)
        if len(prefix) == depth or s.dead:
            out.append({"cfg": cfg, "ops": [list(o) for o in prefix], "ev": s.ev})
            return
        for op in s.applicable():
            rec(prefix + [op])

    rec([])
    return out


def abstract_state(s):
    """What the driver has observed of the object, up to renaming: the live acquisitions in request order with
    their kind and whether they are pending or holding, and whether any finished/cancelled one exists.  Used
    only to prune the exploration below (which histories are tried), never for a verdict."""
    live = []
    dead = False
    for a, rec in enumerate(s.acq, 1):
        if a in s.ended:
            dead = True
        elif a in s.granted:
            live.append((rec["kind"], "held"))
        else:
            live.append((rec["kind"], "pending"))
    return (tuple(live), dead)


def cover(cfg, depth, maxacq):
    """Breadth-first exploration of the real object with hashing on abstract_state: for every observed state
    reachable within `depth` calls, one history reaching it (the first found) is extended by every applicable
    call (cancel of a finished acquisition is tried for one representative; at most `maxacq` acquire/run calls
    per history, as in the TLC run's MaxAcq).  Each extension is a recorded
    execution; together they contain every (state, call) pair up to that depth, modulo the abstraction."""
    out = []
    seen = {abstract_state(Sys(cfg)): []}
    frontier = [[]]
    for level in range(depth):
        nxt = []
        for prefix in frontier:
            s0 = Sys(cfg)
            for op in prefix:
                s0.step(op)
            ops = s0.applicable()
            deadseen = False
            for op in ops:
                if op[0] in ("acquire", "run") and len(s0.acq) >= maxacq:
                    continue
                if op[0] == "cancel" and op[1] in s0.ended:
                    if deadseen:
                        continue
                    deadseen = True
                s = Sys(cfg)
                for o in prefix:
                    s.step(o)
                s.step(op)
                h = prefix + [op]
                out.append({"cfg": cfg, "ops": [list(o) for o in h], "ev": s.ev})
                if s.dead:
                    continue
                k = abstract_state(s)
                if k not in seen:
                    seen[k] = h
                    nxt.append(h)
        frontier = nxt
    return out, len(seen)


def random_history(rng, cfg, n):
    s = Sys(cfg)
    ops = []
    for _ in range(n):
        app = s.applicable()
        new = app[:4]
        rel = [o for o in app if o[0] in ("release", "fire")]
        can = [o for o in app if o[0] == "cancel"]
        r = rng.random()
        if rel and r < 0.35:
            op = rng.choice(rel)
        elif can and r < 0.55:
            # bias to recent acquisitions (more likely still pending)
            k = len(can) - 1 - int(rng.random() ** 2 * min(len(can), 6))
            op = can[max(0, k)]
        else:
            op = rng.choice(new)
        ops.append(op)
        s.step(op)
        if s.dead:
            break
    return {"cfg": cfg, "ops": [list(o) for o in ops], "ev": s.ev}


def mutate(t, rng):
    """Corrupt one logged field / drop one event (binding self-test)."""
    evs = t["ev"]
    if not evs:
        return None
    r = rng.random()
    i = rng.randrange(len(evs))
    e = evs[i]
    if r < 0.2:
        e["nh"] = e["nh"] + 1
    elif r < 0.4:
        withg = [x for x in evs if x["gr"]]
        if withg:
            x = rng.choice(withg)
            x["gr"] = x["gr"][:-1]           # a grant not seen
        else:
            e["gr"] = e["gr"] + [e["a"] or 1]
    elif r < 0.55:
        withr = [x for x in evs if x["rr"]]
        if withr:
            x = rng.choice(withr)
            x["rr"] = x["rr"] + [list(x["rr"][0])]   # result delivered twice
        else:
            e["rr"] = [[max(e["a"], 1), "OK"]]
    elif r < 0.7:
        withr = [x for x in evs if x["rr"]]
        if withr:
            x = rng.choice(withr)
            x["rr"][0][1] = "OK" if x["rr"][0][1] != "OK" else "ERR:Boom"
        else:
            e["exc"] = "AssertionError"
    elif r < 0.85:
        e["exc"] = "AssertionError"
    else:
        # drop an event that changed something
        ch = [j for j, x in enumerate(evs) if x["e"] in ("acquire", "run")]
        if not ch or ch[0] == len(evs) - 1:
            e["nh"] = e["nh"] + 1
        else:
            del evs[ch[0]]
    return t


def fingerprint(trace, rej):
    if rej.reached >= len(trace["ev"]):
        return "end"
    e = trace["ev"][rej.reached]
    kind = "lock" if trace["cfg"]["lock"] else "sem"
    return "%s/%s/%s/exc=%s/grants=%d/results=%s" % (kind, e["e"], e["k"] or "-", e["exc"], len(e["gr"]),
                                                     ",".join(sorted(x[1] for x in e["rr"])) or "-")


_COV = re.compile(r"^<(\w+) line \d+, col \d+ to line \d+, col \d+ of module (\w+)(?: \((\d+) (\d+) (\d+) (\d+)\))?>: (\d+):(\d+)", re.M)


def action_counts(out, specs_dir):
    """Per-action 'generated' counts from TLC -coverage output.  (core._parse_coverage renames
    parameterised actions after the first operator applied in their body; here the action's own
    name is kept, and only disjuncts reported under `Next` are named after the operator they apply.)"""
    import os
    cov = {}
    for m in _COV.finditer(out):
        name, mod, gen = m.group(1), m.group(2), int(m.group(8))
        if name == "Next" and m.group(3):
            with open(os.path.join(specs_dir, mod + ".tla")) as f:
                lines = f.read().split("\n")
            l1, c1, l2, c2 = (int(m.group(i)) for i in (3, 4, 5, 6))
            span = "\n".join(lines[l1 - 1:l2])[c1 - 1:]
            mm = re.search(r"\b([A-Z]\w*)\(", span)
            if mm:
                name = mm.group(1)
        cov[name] = cov.get(name, 0) + gen
    return cov


ACTIONS = ["AcqGrant", "AcqWait", "Release", "FireInner", "CancelPending", "CancelRunning", "CancelNoop"]


def report(ctx, traces, rej, label):
    for x in rej:
        t = traces[x.idx]
        ev = t["ev"][x.reached] if x.reached < len(t["ev"]) else None
        ctx.violation(fingerprint(t, x),
                      "real %s execution not explained by LockSem.tla at event %d (%s): %s" % (
                          "DeferredLock" if t["cfg"]["lock"] else "DeferredSemaphore(%d)" % t["cfg"]["limit"], x.reached, label, ev),
                      dict(cfg=t["cfg"], ops=t["ops"][:x.reached + 1], rejected_at=x.reached, mode=t.get("mode", {})))


def run(ctx):
    from harness.core import MachineryError, SPECS

    r = ctx.mc("LockSemMC", ctx.pick("LockSemMC.cfg", "LockSemMC.thorough.cfg"))
    if not r.ok:
        raise MachineryError("LockSem spec violates its own invariants: " + r.error)
    cov = action_counts(r.out, SPECS)
    missing = [a for a in ACTIONS if not cov.get(a)]
    if missing:
        raise MachineryError("vacuity: actions never taken in LockSemMC: %s" % missing)
    ctx.extra["mc_action_counts"] = {a: cov[a] for a in ACTIONS}

    depth = ctx.pick(4, 6)
    traces = []
    for cfg in CONFIGS:
        traces += exhaustive(cfg, depth)
    nex = len(traces)
    ctx.exhaustive = True
    ctx.extra["exhaustive_depth"] = depth
    ctx.extra["exhaustive_histories"] = nex
    # exploration of the real objects with state hashing (see cover()): closed under every applicable call
    # for histories with at most maxacq acquisitions
    maxacq = ctx.pick(4, 6)
    ncov = nstates = 0
    for cfg in CONFIGS:
        c, ns = cover(cfg, 3 * maxacq, maxacq)
        traces += c
        ncov += len(c)
        nstates += ns
    ctx.extra["cover_max_acquisitions"] = maxacq
    ctx.extra["cover_observed_states"] = nstates
    ctx.extra["cover_state_call_pairs"] = ncov
    nrand = ctx.pick(2000, 40000)
    for i in range(nrand):
        cfg = ctx.rng.choice(CONFIGS + [dict(limit=5, lock=False)])
        traces.append(random_history(ctx.rng, cfg, ctx.rng.randint(8, 40)))
    # spec -> code: behaviours generated by TLC from the specification are stepped through the real
    # object; the real observations are validated by TLC below, and compared with the prediction here.
    behs = ctx.simulate("LockSemSim", "LockSemSim.cfg", num=ctx.pick(30, 1000), depth=17)
    behs = behs[:ctx.pick(600, 20000)]
    drift = 0
    for b in behs:
        ops = []
        for h in b["hist"]:
            if h["e"] == "acquire":
                ops.append(("acquire",))
            elif h["e"] == "run":
                ops.append(("run", h["k"]))
            elif h["e"] == "fire":
                ops.append(("fire", h["a"], h["oc"]))
            else:
                ops.append((h["e"], h["a"]))
        t = run_history(b["cfg"], ops)
        norm = lambda e: (e["e"], e["a"], e["k"], e["oc"], e["exc"], list(e["gr"]), sorted(map(tuple, e["rr"])), e["nh"])
        if [norm(e) for e in t["ev"]] != [norm(h) for h in b["hist"]]:
            drift += 1
        traces.append(t)
    ctx.extra["spec_behaviours_replayed"] = len(behs)
    ctx.extra["spec_behaviours_not_reproduced"] = drift   # each of these is also rejected by TLC below
    # every second history is executed with the "already fired, chained on a pending Deferred" form of the
    # Async function (same calls, same specification: the function's result is not available until it fires)
    for i in range(1, len(traces), 2):
        traces[i] = run_history(traces[i]["cfg"], traces[i]["ops"], chained=True)
    ctx.extra["histories_with_fired_chained_async_function"] = len(traces) // 2
    ctx.note_traces(traces)
    ctx.log("recorded %d real executions (%d exhaustive depth %d, %d state/call pairs over %d observed states, %d random, %d from TLC behaviours)" % (
        len(traces), nex, depth, ncov, nstates, nrand, len(behs)))
    rej = ctx.validate("LockSemTrace", traces, shard_size=ctx.pick(3000, 6000))
    report(ctx, traces, rej, "run")
    bad = {x.idx for x in rej}
    good = [t for i, t in enumerate(traces) if i not in bad and len(t["ev"]) >= 6]
    ctx.selftest_rejects("LockSemTrace", good[-300:], mutate, n=24)


def replay(ctx, obj):
    t = run_history(obj["cfg"], [tuple(o) for o in obj["ops"]], **obj.get("mode", {}))
    ctx.note_trace(t)
    rej = ctx.validate("LockSemTrace", [t])
    report(ctx, [t], rej, "replay")
    for e in t["ev"]:
        print(e)
