"""C15 -- every reactor delivers TCP byte streams intact and reports loss exactly once.

Specs:    specs/TcpStream.tla       the property: per direction sent/rcvd positions, close requests, loss notifications
          specs/TcpStreamMC.tla     exhaustive TLC over all interleavings for small streams, clauses as invariants
          specs/TcpStreamTrace.tla  trace validation of real connections
Binding:  harness/adapters/c15_driver.py -- real loopback TCP connections under the select, poll, epoll and asyncio
          reactors (one subprocess per reactor), shrunk SO_SNDBUF/SO_RCVBUF, seeded write patterns (write,
          writeSequence, bursts, delays, 0..4 MiB), reading pauses, loseConnection / loseWriteConnection /
          abortConnection from either side.  Stream content is a function of the offset; the driver logs what the
          protocols observe; TLC decides.
"""
import json
import os
import subprocess
import sys

META = dict(
    id="C15",
    specs=["TcpStream.tla", "TcpStreamMC.tla", "TcpStreamTrace.tla"],
    technique="TLA+ spec of one TCP connection as seen by its two protocols (position-coded streams, close requests, half-close callbacks, connectionLost) checked exhaustively by TLC for small streams; TLC trace validation of real loopback connections under the select/poll/epoll/asyncio reactors with small socket buffers",
    level_text="TLC checks on the specification, for all interleavings of writes, deliveries, close requests and loss notifications with up to 2-4 bytes per direction, that a protocol told of a loss after an orderly close was told ConnectionDone and holds exactly the peer's bytes, that end-of-stream follows all data and that nothing happens after connectionLost; every recorded real connection (4 reactors, both close directions, lose/half-close/abort, writes up to 4 MiB) is validated by TLC as a behaviour of that specification with every logged field matched.",
    level_note="Trusted: TLC, the kernel's loopback TCP, the driver's logging and its decoding of offsets from position-coded content. Socket-level segmentation and OS scheduling are sampled, not enumerated. Scenarios respect the discipline under which the property applies (the closing side does not discard unread peer data). Not decided: TLS, producers, connection failures.",
    design_ref="2.5 C15",
    rule="case = one real loopback connection (reactor, closing side, close kind, half-closeable flags, buffer sizes, write scripts, reading pauses); distinct = hash of the recorded events; non-trivial = data delivered and at least one loss notification",
)

REACTORS = ["select", "poll", "epoll", "asyncio"]
HERE = os.path.dirname(os.path.abspath(__file__))
DRIVER = os.path.join(os.path.dirname(HERE), "adapters", "c15_driver.py")
MIB = 1024 * 1024
TIMEOUT_MS = 600000      # per connection; only ever reached by a connection that hangs
IDLE_MS = 40000          # ... or rather this: no event at all on the connection for 40 s


def py():
    return "/venv/bin/python" if os.path.exists("/venv/bin/python") else sys.executable


# --------------------------------------------------------------------------- scenarios

def gen_total(rng, cls):
    if cls == "zero":
        return 0
    if cls == "small":
        return rng.randint(1, 200)
    if cls == "medium":
        return rng.randint(1000, 64 * 1024)
    if cls == "large":
        return rng.randint(64 * 1024, MIB)
    return rng.randint(MIB, 4 * MIB)


def gen_ops(rng, total):
    """Split `total` bytes into write / writeSequence calls with bursts and delays (zero-length pieces included)."""
    ops = []
    left = total
    style = rng.choice(["one", "few", "many", "mixed"])
    if rng.random() < 0.2:
        ops.append(["d", rng.randint(1, 15)])
    while left > 0:
        if style == "one":
            n = left
        elif style == "few":
            n = min(left, max(1, int(total * rng.uniform(0.1, 0.6))))
        elif style == "many":
            n = min(left, rng.choice([1, 2, 7, 100, 1000, 4096, 65536, 65537, 70000]))
        else:
            n = min(left, rng.choice([1, 3, 500, 4095, 4096, 16384, 65535, 65536, 131072, 200000, MIB]))
        if len(ops) > 60:
            n = left
        r = rng.random()
        if r < 0.25 and n >= 2:
            k = rng.randint(2, 5)
            cuts = sorted(rng.randint(0, n) for _ in range(k - 1))
            parts = [b - a for a, b in zip([0] + cuts, cuts + [n])]
            if rng.random() < 0.3:
                parts.insert(rng.randrange(len(parts) + 1), 0)
            ops.append(["ws", parts])
        else:
            ops.append(["w", n])
        left -= n
        r = rng.random()
        if r < 0.15:
            ops.append(["w", 0])
        if r > 0.7:
            ops.append(["d", rng.choice([0, 1, 2, 5, 10, 25])])
    if total == 0 and rng.random() < 0.5:
        ops.append(["w", 0])
    return ops


def gen_scenario(rng, force=None, kind=None, closer=None, sizes=None):
    kind = kind or rng.choice(["lose", "lose", "half", "half", "abort"])
    closer = closer or rng.choice([1, 2])
    other = 3 - closer
    classes = ["zero", "small", "medium", "medium", "large", "large"]
    ctot = gen_total(rng, rng.choice(classes[1:]))
    otot = gen_total(rng, rng.choice(classes if kind != "lose" else ["zero", "zero", "small", "medium", "large"]))
    if sizes:
        ctot, otot = gen_total(rng, sizes[0]), gen_total(rng, sizes[1])
    if force == "huge":
        ctot = gen_total(rng, "huge")
        kind = rng.choice(["lose", "half"])
    hc = [rng.random() < 0.5, rng.random() < 0.5]
    if force == "hc":
        hc = [True, True]
    if kind == "half":
        hc[other - 1] = True           # the passive side of a half-close has to notice the end of the stream
    totals = {closer: ctot, other: otot}
    rdpause = [[], []]
    for s in (1, 2):
        peer_total = totals[3 - s]
        if peer_total > 2000 and rng.random() < 0.5:
            for _ in range(rng.randint(1, 2)):
                rdpause[s - 1].append([rng.randint(1, peer_total - 1), rng.choice([2, 5, 10, 30])])
    # a receive buffer below the loopback MSS makes the kernel crawl (window < MSS: ~16 KB/s); use those only for
    # small streams, and shrink the send buffer (which is what forces partial writes) freely
    small = max(totals.values()) <= 32 * 1024
    # what half-closeable protocols do from inside their half-close callbacks (see c15_driver.py)
    reent = [dict(rdl=rng.choice(["lose", "lose", "half", "write+lose", "write+half"]), wrl=rng.choice(["lose", "later"]),
                  extra=rng.choice([1, 100, 5000, 70000])) for _ in (1, 2)]
    ops = [gen_ops(rng, totals[1]), gen_ops(rng, totals[2])]
    for s in (1, 2):
        if kind == "half" and s != closer and hc[s - 1] and "write" in reent[s - 1]["rdl"]:
            totals[s] += reent[s - 1]["extra"]         # cfg.totals = all that side will ever write
    return dict(closer=closer, kind=kind, hc=hc, reent=reent,
                sndbuf=rng.choice([0, 1024, 2048, 4096, 4096, 16384]),
                rcvbuf=rng.choice([0, 1024, 2048, 4096, 16384] if small else [0, 0, 65536, 131072]),
                ops=ops, rdpause=rdpause,
                abort_delay_ms=rng.choice([0, 0, 1, 5, 30]), totals=[totals[1], totals[2]])


def plan(ctx):
    per = ctx.pick(6, 100)
    jobs = []
    for reactor in REACTORS:
        scs = [gen_scenario(ctx.rng, force="huge" if k == 0 or (k % 25 == 0) else None) for k in range(per)]
        # on every reactor: every close kind x closing side, with the traffic shape that close kind is made for
        # (lose / abort: the closer has sent a lot; half-close: the peer still sends a lot after the closer has finished)
        for kind, sizes in (("lose", ("large", "small")), ("half", ("small", "large")), ("half", ("medium", "medium")),
                            ("half", ("medium", "zero")), ("abort", ("large", "small"))):
            for closer in (1, 2):
                scs.append(gen_scenario(ctx.rng, force="hc" if kind == "half" and ctx.rng.random() < 0.5 else None,
                                        kind=kind, closer=closer, sizes=sizes))
        # boundary sizes of the transport's send loop: writes that are exact multiples of its 128 KiB send slice
        # (and one byte around it), a short delay, a small trailing write, orderly close; default socket buffers so that
        # whole slices are accepted
        for closer in (1, 2):
            k = ctx.rng.choice([1, 2, 2, 3, 8])
            delta = ctx.rng.choice([0, 0, 0, 0, 1, -1])
            # delay 0 = the next reactor iteration: the trailing write lands between two send slices
            ops = [["w", k * 131072 + delta], ["d", ctx.rng.choice([0, 0, 0, 1, 2])], ["w", ctx.rng.randint(1, 2000)]]
            if ctx.rng.random() < 0.5:
                ops += [["d", 1], ["ws", [3, 0, 5]]]
            tot = sum(o[1] if o[0] == "w" else sum(o[1]) if o[0] == "ws" else 0 for o in ops)
            kind = ctx.rng.choice(["lose", "half"])
            sc = dict(closer=closer, kind=kind, hc=[True, True] if kind == "half" else [ctx.rng.random() < 0.5, ctx.rng.random() < 0.5],
                      sndbuf=0, rcvbuf=0, ops=[[], []], rdpause=[[], []], abort_delay_ms=0, totals=[0, 0])
            sc["ops"][closer - 1] = ops
            sc["totals"][closer - 1] = tot
            scs.append(sc)
        # close-call sequences on one transport with a large, not yet flushed write and a peer that writes nothing:
        # loseWriteConnection() directly followed by loseConnection(); loseConnection() followed by abortConnection()
        # while the peer does not read (it reads again once the closer has been told of the loss)
        for closer in (1, 2):
            n = ctx.rng.choice([300000, 1000000, 2500000])
            base = dict(closer=closer, hc=[ctx.rng.random() < 0.5, ctx.rng.random() < 0.5], sndbuf=ctx.rng.choice([0, 4096]), rcvbuf=0,
                        rdpause=[[], []], totals=[0, 0])
            for extra in (dict(kind="half", half_then_lose=True, abort_delay_ms=0),
                          dict(kind="abort", lose_then_abort=True, peer_noread=True, abort_delay_ms=ctx.rng.choice([5, 20, 60]))):
                sc = dict(base, **extra)
                if sc.get("peer_noread"):        # buffers small enough that the write cannot disappear into the kernel
                    sc["sndbuf"], sc["rcvbuf"] = 4096, 65536
                sc["ops"] = [[], []]
                sc["ops"][closer - 1] = [["w", n]] if ctx.rng.random() < 0.5 else [["w", n // 2], ["ws", [n - n // 2 - 7, 0, 7]]]
                sc["totals"] = [n if closer == 1 else 0, n if closer == 2 else 0]
                scs.append(sc)
        chunk = 25
        for i in range(0, len(scs), chunk):
            jobs.append(dict(reactor=reactor, scenarios=scs[i:i + chunk], timeout_ms=TIMEOUT_MS, idle_ms=IDLE_MS))
    return jobs


# --------------------------------------------------------------------------- running

def run_job(job, repo_src):
    from harness.core import MachineryError
    env = dict(os.environ)
    env["PYTHONPATH"] = repo_src
    try:
        p = subprocess.run([py(), DRIVER], input=json.dumps(job), capture_output=True, text=True, env=env, timeout=3000)
    except subprocess.TimeoutExpired:
        raise MachineryError("C15 driver timed out (reactor=%s)" % job["reactor"])
    try:
        res = json.loads(p.stdout)
    except ValueError:
        raise MachineryError("C15 driver produced no result (reactor=%s rc=%s): %s" % (job["reactor"], p.returncode, p.stderr[-2000:]))
    if not os.path.realpath(res["twisted"]).startswith(os.path.realpath(repo_src)):
        raise MachineryError("driver imported twisted from %s" % res["twisted"])
    if len(res["traces"]) != len(job["scenarios"]):
        raise MachineryError("C15 driver returned %d traces for %d scenarios: %s" % (len(res["traces"]), len(job["scenarios"]), p.stderr[-1500:]))
    out = []
    for sc, t in zip(job["scenarios"], res["traces"]):
        out.append({"cfg": {"hc": sc["hc"], "reactor": job["reactor"], "reactor_class": res["reactor_class"], "kind": sc["kind"],
                            "closer": sc["closer"], "totals": sc["totals"], "sndbuf": sc["sndbuf"], "rcvbuf": sc["rcvbuf"]},
                    "ev": t["ev"], "timed_out": t["timed_out"], "scenario": sc})
    return out


def run_all(ctx, jobs):
    from concurrent.futures import ThreadPoolExecutor
    from harness.core import REPO
    src = os.path.join(REPO, "src")
    nw = max(1, min(int(os.environ.get("VERIF_SHARDS") or 8), 8))
    with ThreadPoolExecutor(nw) as ex:
        res = list(ex.map(lambda j: run_job(j, src), jobs))
    traces = [t for r in res for t in r]
    # a connection that did not finish within the (very generous) time limit is run once more on its own:
    # a genuine hang repeats (and is then judged by TLC: connectionLost missing), a starved machine does not
    retried = 0
    for k, t in enumerate(traces):
        if t["timed_out"] and retried < 3:      # (many hanging connections are not a starved machine)
            retried += 1
            t2 = run_job(dict(reactor=t["cfg"]["reactor"], scenarios=[t["scenario"]], timeout_ms=TIMEOUT_MS, idle_ms=IDLE_MS), src)[0]
            t2["first_attempt_timed_out"] = True
            traces[k] = t2
    ctx.extra["timeouts_retried"] = retried
    return traces


def nontrivial(t):
    kinds = {e["e"] for e in t["ev"]}
    return "r" in kinds and "lost" in kinds


def classify(t, reached):
    """Name of what the rejected event is -- for the fingerprint / message only (the verdict is TLC's)."""
    ev = t["ev"]
    if reached >= len(ev):
        return "complete"
    e = ev[reached]
    if e["e"] == "gaveup":
        return "connection-hangs:connectionLost-missing"
    prev = ev[:reached]
    if e["e"] == "r":
        got = sum(x["len"] for x in prev if x["e"] == "r" and x["s"] == e["s"])
        if any(x["e"] == "lost" and x["s"] == e["s"] for x in prev):
            return "data-after-connectionLost"
        if any(x["e"] == "rdl" and x["s"] == e["s"] for x in prev):
            return "data-after-readConnectionLost"
        if e["off"] != got:
            return "stream-out-of-order"
        return "bytes-never-written"
    if e["e"] == "lost":
        if any(x["e"] == "lost" and x["s"] == e["s"] for x in prev):
            return "connectionLost-twice"
        if e["why"] != "ConnectionDone" and not any(x["e"] == "req" and x["k"] == "abort" for x in prev):
            return "unclean-reason-%s-after-orderly-close" % e["why"]
        return "connectionLost-before-all-data"
    if e["e"] == "rdl":
        return "readConnectionLost-before-all-data-or-unexpected"
    if e["e"] == "end":
        return "end-without-both-lost"
    return e["e"]


def fingerprint(t, rej):
    c = t["cfg"]
    return "%s/%s/closer=%d/%s" % (c["reactor"], c["kind"], c["closer"], classify(t, rej.reached))


def mutate(t, rng):
    ev = t["ev"]
    rs = [k for k, e in enumerate(ev) if e["e"] == "r"]
    ls = [k for k, e in enumerate(ev) if e["e"] == "lost"]
    kind = rng.randrange(8)
    if kind == 7:
        ev[-1] = {"e": "gaveup"}                                     # the connection never came to its end
    elif kind == 0 and rs:
        ev[rng.choice(rs)]["off"] += rng.choice([1, 4])             # wrong bytes / shifted stream
    elif kind == 1:
        inner = [k for k in rs if any(j > k and ev[j]["s"] == ev[k]["s"] for j in rs)]
        if not inner:
            return None
        del ev[rng.choice(inner)]                                     # a delivery dropped (gap in the stream)
    elif kind == 2 and rs:
        k = rng.choice(rs)
        ev.insert(k + 1, dict(ev[k]))                                 # a delivery repeated
    elif kind == 3 and ls:
        ev.insert(len(ev) - 1, dict(ev[ls[0]]))                       # connectionLost twice
    elif kind == 4 and ls:
        del ev[ls[-1]]                                                # connectionLost never called
    elif kind == 5 and ls and not any(e["e"] == "req" and e["k"] == "abort" for e in ev):
        ev[rng.choice(ls)]["why"] = "ConnectionLost"                  # unclean reason after orderly close
    elif kind == 6 and rs and ls:
        k = rs[-1]
        e = ev.pop(k)
        ev.insert(len(ev) - 1, e)                                     # data after connectionLost
    else:
        return None
    return t


# --------------------------------------------------------------------------- the check

def model_checks(ctx):
    from harness.core import MachineryError
    r = ctx.mc("TcpStreamMC", ctx.pick("TcpStreamMC.cfg", "TcpStreamMC.thorough.cfg"))
    if not r.ok:
        raise MachineryError("TcpStream violates its own invariants: %s\n%s" % (r.error, r.out[-1500:]))
    ctx.require_actions("TcpStreamMC", ["WriteStep", "Recv", "Req", "ReadLost", "WriteLost", "ConnLost"])
    for cfg, what in (("TcpStreamMCReach.cfg", "orderly bidirectional half-close run to the end"),
                      ("TcpStreamMCReach2.cfg", "abort leaving a proper prefix")):
        r = ctx.mc("TcpStreamMC", cfg, must_pass=False, label="vacuity: " + what + " must be reachable")
        if r.ok or r.kind != "invariant":
            raise MachineryError("vacuity: %s not reachable in TcpStream (ok=%s kind=%s)" % (what, r.ok, r.kind))


def report(ctx, traces, rej):
    for x in rej[:20]:
        t = traces[x.idx]
        c = t["cfg"]
        ev = t["ev"][x.reached] if x.reached < len(t["ev"]) else None
        ctx.violation(fingerprint(t, x),
                      "%s: %s by side %d (hc=%s, totals=%s, sndbuf=%s rcvbuf=%s): connection not explained by TcpStream.tla at event %d: %s [%s]%s" % (
                          c["reactor_class"], c["kind"], c["closer"], c["hc"], c["totals"], c["sndbuf"], c["rcvbuf"], x.reached, ev,
                          classify(t, x.reached), " (scenario timed out)" if t.get("timed_out") else ""),
                      dict(reactor=c["reactor"], scenario=t["scenario"], rejected_at=x.reached, repeats=3))


def run(ctx):
    from concurrent.futures import ThreadPoolExecutor
    jobs = plan(ctx)
    with ThreadPoolExecutor(1) as bg:
        fut = bg.submit(run_all, ctx, jobs)
        model_checks(ctx)
        traces = fut.result()
    order = sorted(range(len(traces)), key=lambda k: len(traces[k]["ev"]))
    traces = [traces[k] for k in order]
    slim = [{"cfg": t["cfg"], "ev": t["ev"]} for t in traces]
    for t in slim:
        ctx.note_trace(t, nontrivial=nontrivial(t))
    ctx.extra["connections"] = len(traces)
    ctx.extra["connections_per_reactor"] = {r: sum(1 for t in traces if t["cfg"]["reactor"] == r) for r in REACTORS}
    ctx.extra["by_kind"] = {k: sum(1 for t in traces if t["cfg"]["kind"] == k) for k in ("lose", "half", "abort")}
    ctx.extra["bytes_written"] = sum(sum(t["cfg"]["totals"]) for t in traces)
    ctx.extra["max_stream_bytes"] = max(max(t["cfg"]["totals"]) for t in traces)
    ctx.extra["deliveries"] = sum(1 for t in traces for e in t["ev"] if e["e"] == "r")
    ctx.extra["timed_out_scenarios"] = sum(1 for t in traces if t["timed_out"])
    ctx.exhaustive = False
    ctx.log("recorded %d real connections, %d bytes written, %d deliveries" % (len(traces), ctx.extra["bytes_written"], ctx.extra["deliveries"]))
    nsh = ctx.pick(2, 8)
    rej = ctx.validate("TcpStreamTrace", slim, shard_size=max(1, (len(slim) + nsh - 1) // nsh))
    report(ctx, traces, rej)
    bad = {x.idx for x in rej}
    good = [t for k, t in enumerate(slim) if k not in bad and nontrivial(t)]
    ctx.selftest_rejects("TcpStreamTrace", good * 3, mutate, n=ctx.pick(20, 60))


def replay(ctx, obj):
    from harness.core import REPO
    job = dict(reactor=obj["reactor"], scenarios=[obj["scenario"]] * int(obj.get("repeats", 3)), timeout_ms=TIMEOUT_MS, idle_ms=IDLE_MS)
    traces = run_job(job, os.path.join(REPO, "src"))
    slim = [{"cfg": t["cfg"], "ev": t["ev"]} for t in traces]
    for t in slim:
        ctx.note_trace(t, nontrivial=nontrivial(t))
    rej = ctx.validate("TcpStreamTrace", slim)
    report(ctx, traces, rej)
    print("replayed %d connections, %d rejected" % (len(traces), len(rej)))
    for e in traces[0]["ev"]:
        if e["e"] != "r":
            print(e)
