"""X08 (extension, not a listed property) -- twisted.web.server session life cycle:
Site.makeSession/getSession, Session.touch/expire/notifyOnExpire/sessionTimeout with the expiration timer on a
task.Clock, and Request.getSession (cached session / cookie / new session).
Spec: specs/WebSession.tla.  Reported under coverage.extra_modules of the nearest property (C21)."""

META = dict(
    id="X08", extension=True, nearest="C21",
    specs=["WebSession.tla", "WebSessionMC.tla", "WebSessionTrace.tla"],
    technique="TLA+ spec of the Site/Session/Request.getSession life cycle + TLC trace validation of the real objects on task.Clock",
    level_text="extension module: grows the specification beyond the listed properties",
    level_note="not a listed property; alarms are reported as EXTRA-ALARM, never as VIOLATION.  Trusted: task.Clock as the "
               "reactor (tie order among equal deadlines left free), DummyChannel under Request; callbacks are plain "
               "(return or raise; no re-entrant calls into the session); only the insecure cookie path of Request.getSession",
    design_ref="4 (extensions)",
    rule="history of makeSession/getSession/touch/expire/notifyOnExpire/sessionTimeout=/advance/new request/Request.getSession "
         "calls: every sequence of a small alphabet up to a fixed length plus seeded random ones; distinct by event sequence",
)
BOGUS = -1
ERR = {"KeyError": 1, "Boom": 2, "AlreadyCalled": 3, "AlreadyCancelled": 4}


def run_history(cfg, ops):
    from twisted.internet import task
    from twisted.web import resource, server
    from twisted.web.test.requesthelper import DummyChannel

    class Boom(Exception):
        pass

    clock = task.Clock()

    class TimedSession(server.Session):
        sessionTimeout = cfg["timeout"]

    site = server.Site(resource.Resource(), reactor=clock)
    site.sessionFactory = TimedSession
    sess, uids, reqs = [], [], []
    ncb = [0]
    out = []
    ev = []

    def code(e):
        return ERR.get(type(e).__name__, 9)

    def idx(obj):
        """index of a session object (identity); an unseen object gets the next index"""
        for i, s in enumerate(sess):
            if s is obj:
                return i + 1, False
        fresh = obj.uid not in uids
        sess.append(obj)
        uids.append(obj.uid)
        return len(sess), fresh

    def call(f, okval=lambda r: 0):
        try:
            return ["ok", okval(f())]
        except Exception as e:
            return ["err", code(e)]

    def snapshot(e):
        live = []
        for i, s in enumerate(sess):
            try:
                if site.getSession(s.uid) is s:
                    live.append(i + 1)
            except KeyError:
                pass
        e["live"] = live
        e["timers"] = sorted(int(dc.getTime()) for dc in clock.getDelayedCalls())
        e["now"] = int(clock.seconds())
        e["out"] = list(out)
        ev.append(e)

    for op in ops:
        del out[:]
        k = op[0]
        if k in ("touch", "expire", "notify", "settmo") and not (1 <= op[1] <= len(sess)):
            continue
        if k == "make":
            n0 = len(sess)
            fresh = [False]

            def okmake(s):
                i, fr = idx(s)
                fresh[0] = fr and i == n0 + 1
                return i
            snapshot({"e": "make", "res": call(site.makeSession, okmake), "fresh": fresh[0], "n": site.counter})
        elif k == "get":
            u = op[1]
            if u > len(sess):
                continue
            uid = uids[u - 1] if u else b"no-such-session"
            snapshot({"e": "get", "u": u, "res": call(lambda: site.getSession(uid), lambda r: idx(r)[0])})
        elif k == "touch":
            s = sess[op[1] - 1]
            res = call(s.touch)
            snapshot({"e": "touch", "s": op[1], "res": res, "lm": int(s.lastModified)})
        elif k == "expire":
            snapshot({"e": "expire", "s": op[1], "res": call(sess[op[1] - 1].expire)})
        elif k == "notify":
            ncb[0] += 1

            def cb(c=ncb[0], bad=bool(op[2])):
                out.append(["cb", c])
                if bad:
                    raise Boom()
            snapshot({"e": "notify", "s": op[1], "c": ncb[0], "bad": bool(op[2]), "res": call(lambda: sess[op[1] - 1].notifyOnExpire(cb))})
        elif k == "settmo":
            sess[op[1] - 1].sessionTimeout = op[2]
            snapshot({"e": "settmo", "s": op[1], "t": op[2], "res": ["ok", 0]})
        elif k == "advance":
            amount = op[1]
            for _ in range(100):
                try:
                    clock.advance(amount)
                    break
                except Exception as e:      # a real reactor logs it and goes on with the next call
                    out.append(["err", code(e)])
                    amount = 0
            snapshot({"e": "advance", "d": op[1], "res": ["ok", 0]})
        elif k == "newreq":
            c = op[1]
            if c > len(sess):
                continue
            r = server.Request(DummyChannel(), False)
            r.site = site
            r.sitepath = []
            if c:
                r.received_cookies[b"TWISTED_SESSION"] = uids[c - 1] if c > 0 else b"bogus-uid"
            reqs.append(r)
            snapshot({"e": "newreq", "c": c, "res": ["ok", len(reqs)]})
        elif k == "rget":
            if not (1 <= op[1] <= len(reqs)):
                continue
            r = reqs[op[1] - 1]
            n0, c0 = len(sess), len(r.cookies)
            got = []

            def f():
                s = r.getSession()
                got.append(s)
                return s
            new = [False]

            def okval(s):
                i, fresh = idx(s)
                new[0] = i > n0 and fresh
                return i
            res = call(f, okval)
            added = r.cookies[c0:]
            cookie = len(added) == 1 and bool(got) and added[0].startswith(b"TWISTED_SESSION=" + got[0].uid + b";")
            if got and r.session is not got[0]:
                res = ["err", 8]
            snapshot({"e": "rget", "r": op[1], "res": res, "new": new[0], "cookie": cookie})
    return {"cfg": cfg, "ops": [list(o) for o in ops], "ev": ev}


ALPHABET = [("make",), ("get", 1), ("touch", 1), ("expire", 1), ("notify", 1, 0), ("notify", 1, 1), ("settmo", 1, 3),
            ("advance", 1), ("advance", 2), ("newreq", 1), ("newreq", 0), ("rget", 1)]


def exhaustive_ops(depth):
    """every sequence over ALPHABET of the given length, after one makeSession"""
    import itertools
    for tail in itertools.product(ALPHABET, repeat=depth):
        yield [("make",)] + list(tail)


def random_ops(rng, n):
    ops = []
    ns = ncb = nreq = 0
    for _ in range(n):
        r = rng.random()
        if r < 0.12 and ns < 4:
            ops.append(("make",))
            ns += 1
        elif r < 0.17:
            ops.append(("get", rng.randint(0, ns)))
        elif r < 0.30 and ns:
            ops.append(("touch", rng.randint(1, ns)))
        elif r < 0.40 and ns:
            ops.append(("expire", rng.randint(1, ns)))
        elif r < 0.52 and ns and ncb < 5:
            ops.append(("notify", rng.randint(1, ns), 1 if rng.random() < 0.3 else 0))
            ncb += 1
        elif r < 0.58 and ns:
            ops.append(("settmo", rng.randint(1, ns), rng.choice([0, 1, 2, 4])))
        elif r < 0.78:
            ops.append(("advance", rng.choice([0, 1, 1, 1, 2, 3])))
        elif r < 0.84 and nreq < 3:
            ops.append(("newreq", rng.choice([0, BOGUS] + list(range(1, ns + 1)) * 2)))
            nreq += 1
        elif nreq and ns < 4:
            ops.append(("rget", rng.randint(1, nreq)))
            ns += 1      # upper bound: it may make a session
    return ops


def key(t):
    import json
    return json.dumps([t["cfg"], t["ev"]], sort_keys=True)


def situations(traces):
    """how often the recorded real executions reached each modelled situation (vacuity guard on the code side)"""
    n = dict(timer_expiry=0, explicit_expiry=0, touch_after_timer_expiry_raises=0, touch_after_explicit_expiry_quiet=0,
             expire_twice_keyerror=0, callback_ran=0, raising_callback_aborts_expire=0, aborted_timer_fires_keyerror=0,
             rget_makes_session=0, rget_by_cookie=0, rget_returns_expired_cached=0, rget_replaces_timer_expired=0,
             two_timers_same_advance=0)
    for t in traces:
        dead = {}
        cached = {}
        for e in t["ev"]:
            k = e["e"]
            live = set(e["live"])
            if k == "advance":
                gone = [s for s in dead if s not in live and dead[s] is None]
                n["timer_expiry"] += len(gone)
                n["two_timers_same_advance"] += len(gone) + e["out"].count(["err", 1]) >= 2
                n["aborted_timer_fires_keyerror"] += ["err", 1] in e["out"]
                for s in gone:
                    dead[s] = "timer"
            if k == "expire":
                s = e["s"]
                if e["res"] == ["err", 1]:
                    n["expire_twice_keyerror"] += 1
                else:
                    n["explicit_expiry"] += 1
                    dead[s] = "explicit"
                    n["raising_callback_aborts_expire"] += e["res"] == ["err", 2]
            if k == "touch":
                n["touch_after_timer_expiry_raises"] += e["res"] == ["err", 3]
                n["touch_after_explicit_expiry_quiet"] += e["res"][0] == "ok" and dead.get(e["s"]) == "explicit"
            n["callback_ran"] += sum(1 for o in e["out"] if o[0] == "cb")
            if k == "rget" and e["res"][0] == "ok":
                s = e["res"][1]
                prev = cached.get(e["r"])
                n["rget_makes_session"] += e["new"]
                n["rget_by_cookie"] += (not e["new"]) and prev != s
                n["rget_returns_expired_cached"] += prev == s and s not in live
                n["rget_replaces_timer_expired"] += prev is not None and prev != s
                cached[e["r"]] = s
            for s in live:
                dead.setdefault(s, None)
    return n


def run(ctx):
    ctx.mc("WebSessionMC", ctx.pick("WebSessionMC.cfg", "WebSessionMC.thorough.cfg"))
    ctx.require_actions("WebSessionMC", ["Make", "Get", "Touch", "Expire", "Notify", "SetTmo", "Advance", "NewReq", "RGet"])
    traces, seen = [], set()

    def add(t):
        k = key(t)
        if t["ev"] and k not in seen:
            seen.add(k)
            traces.append(t)
    for timeout, depth in ctx.pick([(2, 3)], [(1, 3), (2, 4)]):
        for ops in exhaustive_ops(depth):
            add(run_history({"timeout": timeout}, ops))
    nex = len(traces)
    for _ in range(ctx.pick(1200, 10000)):
        add(run_history({"timeout": ctx.rng.choice([1, 2, 3])}, random_ops(ctx.rng, ctx.rng.randint(4, 28))))
    ctx.extra["histories"] = dict(exhaustive_short=nex, random=len(traces) - nex)
    reached = situations(traces)
    ctx.extra["situations_reached_in_real_executions"] = reached
    ctx.note_traces(traces)
    rej = ctx.validate("WebSessionTrace", traces, shard_size=ctx.pick(700, 2500))
    for x in rej[:10]:
        t = traces[x.idx]
        e = t["ev"][x.reached] if x.reached < len(t["ev"]) else None
        ctx.violation("websession/%s" % (e or {}).get("e"),
                      "Site/Session execution not explained by WebSession.tla at event %d: %s" % (x.reached, e),
                      dict(cfg=t["cfg"], ops=t["ops"]))
    if not rej and min(reached.values()) == 0:      # code-side vacuity guard (only meaningful when the code conforms)
        from harness.core import MachineryError
        raise MachineryError("vacuity: situations never reached by the real executions: %s" % [k for k, v in reached.items() if not v])

    def mutate(t, rng):
        """corrupt one observed field: the live set, the pending timers, a result, or a callback run"""
        i = rng.randrange(len(t["ev"]))
        e = t["ev"][i]
        what = rng.choice(["live", "timers", "res", "out"])
        if what == "live":
            e["live"] = e["live"][:-1] if e["live"] else [1]
        elif what == "timers":
            e["timers"] = e["timers"][:-1] if e["timers"] else [e["now"] + 1]
        elif what == "res":
            e["res"] = ["err", 1] if e["res"][0] == "ok" else ["ok", 0]
        else:
            e["out"] = e["out"][:-1] if e["out"] else [["cb", 1]]
        return t
    bad = {x.idx for x in rej}
    good = [t for i, t in enumerate(traces) if i not in bad]
    ctx.rng.shuffle(good)
    ctx.selftest_rejects("WebSessionTrace", good[:200], mutate, n=16)


def replay(ctx, obj):
    t = run_history(obj["cfg"], [tuple(o) for o in obj["ops"]])
    for e in t["ev"]:
        print(e)
    for x in ctx.validate("WebSessionTrace", [t]):
        ctx.violation("websession/replay", "rejected at %d" % x.reached, dict(cfg=t["cfg"], ops=t["ops"]))
