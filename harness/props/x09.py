"""X09 (extension, not a listed property) -- protocol.ReconnectingClientFactory exponential back-off.
Spec: specs/Reconnect.tla.  Reported under coverage.extra_modules of the nearest property (C58).

The REAL ReconnectingClientFactory drives a REAL base.BaseConnector (subclass whose _makeTransport returns a fake
client transport) on a task.Clock; the connector's own connection timeout runs on the same clock.  With jitter the
module-level `random` of twisted.internet.protocol is replaced (for the duration of one history) by an object whose
normalvariate(mu, sigma) returns mu + j*sigma for the harness-chosen draw j."""

META = dict(
    id="X09", extension=True, nearest="C58",
    specs=["Reconnect.tla", "ReconnectMC.tla", "ReconnectTrace.tla"],
    technique="TLA+ spec of ReconnectingClientFactory's retry scheduling + TLC trace validation of the real factory "
              "driving a real BaseConnector on task.Clock (exhaustive-short and seeded-random histories)",
    level_text="extension module: grows the specification beyond the listed properties",
    level_note="not a listed property; alarms are reported as EXTRA-ALARM, never as VIOLATION.  One connector per factory; "
               "the user never calls connector.connect() while a retry is scheduled and never calls retry() directly; "
               "integer factor, jitter only as harness-chosen draws in {-1,0,1,2} sigma; pickling not modelled",
    design_ref="4 (extensions)",
    rule="history of start/fail/made(+resetDelay)/lost/resetDelay/stopTrying/advance on one factory+connector; an op whose "
         "precondition does not hold is dropped; distinct by (cfg, event sequence)",
)
NONE = -1
BAD_TIME = -7          # a scheduled time that is not an integer number of seconds (never produced by the spec)


def run_history(cfg, ops):
    from twisted.internet import address, base, error, protocol, task
    from twisted.python.failure import Failure

    clock = task.Clock()
    cnt = dict(connect=0, rand=0)
    draw = [0]

    class FakeRandom:
        def normalvariate(self, mu, sigma):
            cnt["rand"] += 1
            return mu + draw[0] * sigma

    class FakeClient:
        """What tcp.Client is to its connector (cf. tcp.BaseClient.failIfNotConnected)."""
        connected = False
        disconnected = False

        def __init__(self, connector):
            self.connector = connector

        def failIfNotConnected(self, err):
            if self.connected or self.disconnected or not hasattr(self, "connector"):
                return
            self.disconnected = True
            self.connector.connectionFailed(Failure(err))
            del self.connector

        def loseConnection(self):
            pass

    class Connector(base.BaseConnector):
        def _makeTransport(self):
            cnt["connect"] += 1
            return FakeClient(self)

        def getDestination(self):
            return address.IPv4Address("TCP", "10.0.0.1", 80)

    class P(protocol.Protocol):
        callReset = False

        def connectionMade(self):
            if self.callReset:
                self.factory.resetDelay()

    class F(protocol.ReconnectingClientFactory):
        noisy = False
        protocol = P

    fac = F()
    fac.clock = clock
    fac.factor = cfg["factor"]
    fac.initialDelay = cfg["init"]
    fac.maxDelay = cfg["maxd"]
    fac.maxRetries = None if cfg["maxr"] == NONE else cfg["maxr"]
    fac.jitter = 0.5 if cfg["jit"] else 0
    con = Connector(fac, cfg["tmo"] if cfg["tmo"] else None, clock)

    def tm(x):
        return int(x) if float(x) == int(x) and 0 <= x < 2 ** 30 else BAD_TIME

    ev, eff = [], []
    saved = protocol.random
    protocol.random = FakeRandom()
    try:
        for op in ops:
            k = op[0]
            pending = [c for c in clock.getDelayedCalls() if c.active()]
            if k == "start" and (con.state != "disconnected" or pending):
                continue
            if k in ("fail", "made") and con.state != "connecting":
                continue
            if k == "lost" and con.state != "connected":
                continue
            c0, r0 = cnt["connect"], cnt["rand"]
            e = {"e": k}
            err = 0
            try:
                if k == "start":
                    con.connect()
                elif k == "fail":
                    draw[0] = e["j"] = op[1]
                    con.transport.failIfNotConnected(error.ConnectionRefusedError())
                elif k == "made":
                    e["r"] = op[1]
                    P.callReset = bool(op[1])
                    t = con.transport
                    p = con.buildProtocol(con.getDestination())
                    t.connected = True
                    p.makeConnection(t)
                elif k == "lost":
                    draw[0] = e["j"] = op[1]
                    con.transport.disconnected = True
                    con.connectionLost(Failure(error.ConnectionDone()))
                elif k == "reset":
                    fac.resetDelay()
                elif k == "stop":
                    fac.stopTrying()
                elif k == "adv":
                    e["d"] = op[1]
                    draw[0] = e["j"] = op[2]
                    clock.advance(op[1])
                else:
                    raise ValueError(op)
            except (RuntimeError, AssertionError, error.NotConnectingError, error.AlreadyCalled, error.AlreadyCancelled):
                err = 1            # an exception escaping a public call / the clock: never allowed by the spec
            e["conn"] = con.state
            e["pend"] = sorted(tm(c.getTime()) for c in clock.getDelayedCalls() if c.active())
            e["nconn"] = cnt["connect"] - c0
            e["nrand"] = cnt["rand"] - r0
            e["err"] = err
            ev.append(e)
            eff.append(list(op))
    finally:
        protocol.random = saved
    return {"cfg": cfg, "ops": eff, "ev": ev}


def mk_cfg(init=1, factor=2, maxd=4, maxr=NONE, tmo=0, jit=0):
    return dict(init=init, factor=factor, maxd=maxd, maxr=maxr, tmo=tmo, jit=jit)


def random_cfg(rng):
    if rng.random() < 0.35:
        return mk_cfg(init=rng.choice([1, 2, 3]), factor=2, maxd=rng.choice([2, 4, 6, 16, 60]),
                      maxr=rng.choice([NONE, NONE, 0, 1, 2, 3]), tmo=rng.choice([0, 0, 2, 5]), jit=1)
    return mk_cfg(init=rng.choice([1, 2, 3, 5]), factor=rng.choice([2, 2, 3]), maxd=rng.choice([1, 3, 4, 5, 8, 30, 100]),
                  maxr=rng.choice([NONE, NONE, 0, 1, 2, 3, 5]), tmo=rng.choice([0, 0, 2, 5]), jit=0)


def random_ops(rng, cfg, n):
    js = [-1, 0, 0, 1, 2] if cfg["jit"] else [0]
    ops = [("start",)]
    for _ in range(n):
        r = rng.random()
        if r < 0.08:
            ops.append(("start",))
        elif r < 0.30:
            ops.append(("fail", rng.choice(js)))
        elif r < 0.42:
            ops.append(("made", rng.choice([0, 1, 1])))
        elif r < 0.54:
            ops.append(("lost", rng.choice(js)))
        elif r < 0.60:
            ops.append(("reset",))
        elif r < 0.67:
            ops.append(("stop",))
        else:
            ops.append(("adv", rng.choice([0, 1, 1, 2, 2, 3, 4, 5, 8, 16, 40]), rng.choice(js)))
    return ops


def alphabet(cfg):
    js = [-1, 1] if cfg["jit"] else [0]
    ops = [("start",), ("made", 0), ("made", 1), ("reset",), ("stop",)]
    ops += [("fail", j) for j in js] + [("lost", j) for j in js]
    ops += [("adv", d, j) for d in (1, 2, 4) for j in (js if cfg["tmo"] else js[:1])]
    return ops


def exhaustive(cfg, depth):
    """Every history start.op_1...op_depth over alphabet(cfg) in which every op is applicable (real code decides)."""
    alpha = alphabet(cfg)
    level = [[("start",)]]
    out = []
    for k in range(depth):
        nxt = []
        for pre in level:
            for op in alpha:
                t = run_history(cfg, pre + [op])
                if len(t["ev"]) == len(pre) + 1:
                    nxt.append(pre + [op])
                    if k == depth - 1:
                        out.append(t)
        level = nxt
    return out


EXH_CFGS = [mk_cfg(), mk_cfg(init=2, maxr=2, tmo=2), mk_cfg(maxd=5, maxr=1), mk_cfg(factor=3, maxd=10, maxr=0, tmo=2),
            mk_cfg(jit=1), mk_cfg(init=2, maxr=2, tmo=2, jit=1)]


def fingerprint(t, x):
    e = t["ev"][x.reached] if x.reached < len(t["ev"]) else None
    return "reconnect/%s" % (e or {}).get("e"), e


def run(ctx):
    ctx.mc("ReconnectMC", ctx.pick("ReconnectMC.cfg", "ReconnectMC.thorough.cfg"))
    ctx.require_actions("ReconnectMC", ["Start", "Fail", "Made", "Lost", "Reset", "Stop", "Advance"])
    traces = []
    for cfg in EXH_CFGS:
        # ops after "start": quick 4 for two configurations, 3 elsewhere (2 with jitter: those alphabets are twice
        # as wide); thorough one more everywhere
        d = (4 if cfg in EXH_CFGS[1:3] else 2 if cfg["jit"] else 3) + ctx.pick(0, 1)
        ex = exhaustive(cfg, d)
        ctx.log("exhaustive histories of length %d for %s: %d" % (d + 1, cfg, len(ex)))
        traces += ex
    nexh = len(traces)
    for _ in range(ctx.pick(2000, 12000)):
        cfg = random_cfg(ctx.rng)
        traces.append(run_history(cfg, random_ops(ctx.rng, cfg, ctx.rng.randint(4, 40))))
    ctx.extra["exhaustive_short_histories"] = nexh
    ctx.extra["random_histories"] = len(traces) - nexh
    ctx.extra["retries_scheduled_observed"] = sum(1 for t in traces for i, e in enumerate(t["ev"])
                                                  if e["e"] in ("fail", "lost") and e["pend"])
    ctx.note_traces(traces)
    rej = ctx.validate("ReconnectTrace", traces, shard_size=3000)
    for x in rej[:10]:
        t = traces[x.idx]
        fp, e = fingerprint(t, x)
        ctx.violation(fp, "ReconnectingClientFactory execution not explained by Reconnect.tla at event %d: %s" % (x.reached, e),
                      dict(cfg=t["cfg"], ops=t["ops"]))

    def mutate(t, rng):
        i = rng.randrange(len(t["ev"]))
        e = t["ev"][i]
        which = rng.choice(["pend", "nconn", "conn", "drop"])
        if which == "pend":
            e["pend"] = [e["pend"][0] + 1] + e["pend"][1:] if e["pend"] else [t["cfg"]["maxd"]]
        elif which == "nconn":
            e["nconn"] = 1 - e["nconn"]
        elif which == "conn":
            e["conn"] = "connected" if e["conn"] != "connected" else "disconnected"
        else:
            c = [k for k, x in enumerate(t["ev"][:-1]) if x["e"] in ("fail", "lost", "made") or x["nconn"]]
            if not c:
                return None
            del t["ev"][rng.choice(c)]
        return t
    bad = {x.idx for x in rej}
    ctx.selftest_rejects("ReconnectTrace", [t for i, t in enumerate(traces) if i not in bad and len(t["ev"]) >= 3][nexh // 2:nexh // 2 + 300],
                         mutate, n=16)


def replay(ctx, obj):
    t = run_history(obj["cfg"], [tuple(o) for o in obj["ops"]])
    for e in t["ev"]:
        print(e)
    for x in ctx.validate("ReconnectTrace", [t]):
        ctx.violation("reconnect/replay", "rejected at %d" % x.reached, dict(cfg=t["cfg"], ops=t["ops"]))
