"""C02 -- Deferred chaining depth never exhausts the stack.

Spec:     specs/ChainProp.tla (the property on observables: every run of a chain shape completes, every
          link/probe/generator observation arrives once, in order, with the predicted argument, and the
          frame depth of each kind of observation point is one number for all links and all lengths);
          ChainPropMC (exhaustive TLC), ChainPropTrace (trace validation); ChainImplMC (the coded
          chain-list algorithm of _runCallbacks = DeferredImpl.tla driven along the chain shapes, lengths
          1..8: one activation only) and InlineLoop (the unfolded loop of _inlineCallbacks with an explicit
          activation stack: constant depth for fired awaits, bounded for any script, always completes).
Binding:  real Deferred chains (each callback returns the next Deferred; outer-first, inner-first, paused,
          failing), a Deferred whose n callbacks each return a fired Deferred, inlineCallbacks generators
          and coroutines awaiting n fired / failed Deferreds -- run at lengths 10 .. 10^5 with the default
          recursion limit.  Each observation logs sys._getframe-walk depth relative to the driver.  TLC decides.
"""
import sys

META = dict(
    id="C02",
    specs=["ChainProp.tla", "ChainPropMC.tla", "ChainPropTrace.tla", "ChainImplMC.tla", "DeferredImpl.tla",
           "InlineLoop.tla", "InlineLoopMC.tla"],
    technique="TLA+ statement of constant chaining depth on observables (TLC exhaustive over all shapes and small lengths; "
              "algorithm model with explicit activation stack checked against it) + TLC trace validation of real chains, "
              "generators and coroutines of length 10..10^5 with per-callback frame-depth observations",
    level_text="TLC validates every recorded run of the real code against ChainProp: completion without any escaping "
               "exception, each callback/resumption exactly once in order with the predicted argument, final result, and "
               "an identical frame depth for every observation of one kind across all links and all chain lengths; TLC "
               "checks the chain-list / unfolded-loop algorithms keep the activation stack bounded for all shapes at small lengths.",
    level_note="Trusted: TLC, sys._getframe as the measure of Python stack use (C-level stack use is not observed), the "
               "recorder closures. Chain shapes are the fixed families listed in ChainProp.tla; lengths are sampled "
               "(powers of ten), not enumerated.",
    design_ref="2.1 C02",
    rule="one trace = one chain shape run at several lengths; distinct = hash of (cfg, events); non-trivial = contains "
         "observations and a completed run",
)

CASCADE = ("S1", "S3", "S1E")
STEPWISE = ("S2", "S4")
GENS = ("G1", "G2", "G3", "G4", "G5", "G6")


def _depth(marker_code):
    """Python frames between the caller (an observation point) and the driver frame."""
    f = sys._getframe(1)
    n = 0
    while f is not None and f.f_code is not marker_code:
        f = f.f_back
        n += 1
    return n


def run_shape(cfg, lengths):
    """Run one chain shape at each length on the real code; return the trace dict."""
    from twisted.internet import defer
    from twisted.python.failure import Failure

    shape, kind = cfg["shape"], cfg["kind"]
    extra = cfg.get("extra", "none")
    has_pre = extra in ("pre", "both")
    has_post = extra in ("post", "both")

    class E1(Exception):
        pass

    class E2(Exception):
        pass

    excs = [None, E1, E2]
    ev = []

    def classify(x):
        if isinstance(x, Failure):
            return ["err", excs.index(x.type) if x.type in excs else 99]
        if isinstance(x, BaseException):
            return ["err", excs.index(type(x)) if type(x) in excs else 99]
        if type(x) is int:
            return ["ok", x]
        if x is None:
            return ["none", 0]
        return ["other", 0]

    for n in lengths:
        ev.append({"e": "begin", "n": n})
        final = [["none", 0]]

        def drive():
            marker = drive.__code__

            def obs(who, i, x):
                # the frame of obs() itself and of the observation point are a constant 2
                ev.append({"e": "obs", "who": who, "i": i, "in": classify(x), "f": _depth(marker)})

            def done(x):
                final[0] = classify(x)
                return None

            if shape in CASCADE or shape in STEPWISE:
                ds = [None] + [defer.Deferred() for _ in range(n)]

                def mk_link(i):
                    def link(x):
                        obs("link", i, x)
                        if i < n:
                            return ds[i + 1]
                        if shape == "S1E" or kind == "err":
                            raise E1()
                        return n + 1
                    return link

                def mk_probe(i):
                    who = "res" if (shape in CASCADE and i < n) else "own"

                    def probe(x):
                        obs(who, i, x)
                        return x
                    return probe

                def mk_pass(who, i):
                    def extra_cb(x):
                        obs(who, i, x)
                        return x
                    return extra_cb

                def chained(i):
                    # d_i's link has just returned d_(i+1): one more callback for d_(i+1), behind whatever
                    # the chaining put there
                    if has_post and i < n:
                        ds[i + 1].addBoth(mk_pass("late", i + 1))

                for i in range(1, n + 1):
                    if has_pre:
                        ds[i].addBoth(mk_pass("pre", i))
                    if shape == "S1E":
                        ds[i].addErrback(mk_link(i))
                    else:
                        ds[i].addCallback(mk_link(i))
                    ds[i].addBoth(mk_probe(i))
                if shape == "S1":
                    for i in range(1, n + 1):
                        ds[i].callback(i)
                        chained(i)
                elif shape == "S1E":
                    for i in range(1, n + 1):
                        ds[i].errback(E2())
                        chained(i)
                elif shape == "S2":
                    for i in range(n, 0, -1):
                        ds[i].callback(i)
                        chained(i)
                else:
                    for i in range(1, n + 1):
                        ds[i].pause()
                        ds[i].callback(i)
                    order = range(1, n + 1) if shape == "S3" else range(n, 0, -1)
                    for i in order:
                        ds[i].unpause()
                        chained(i)
                ds[1].addBoth(done)
                for i in range(2, n + 1):
                    ds[i].addErrback(lambda f: None)
            elif shape == "S6":
                d = defer.Deferred()

                def mk6(i):
                    def link(x):
                        obs("link", i, x)
                        return defer.succeed(i)
                    return link
                for i in range(1, n + 1):
                    d.addCallback(mk6(i))
                d.callback(0)
                d.addBoth(done)
            elif shape == "G1":
                @defer.inlineCallbacks
                def g():
                    for i in range(1, n + 1):
                        x = yield defer.succeed(i)
                        obs("gen", i, x)
                    return n
                g().addBoth(done)
            elif shape == "G2":
                async def c():
                    for i in range(1, n + 1):
                        x = await defer.succeed(i)
                        obs("gen", i, x)
                    return n
                defer.ensureDeferred(c()).addBoth(done)
            elif shape in ("G5", "G6"):
                class SubDeferred(defer.Deferred):
                    pass

                def fired(i):
                    """An already-fired Deferred of kind i % 4, and how user code reads i out of its result."""
                    k = i % 4
                    if k == 0:
                        return defer.succeed(i), (lambda r: r)
                    if k == 1:
                        return defer.DeferredList([defer.succeed(i)]), (lambda r: r[0][1])
                    if k == 2:
                        return defer.gatherResults([defer.succeed(i)]), (lambda r: r[0])
                    d = SubDeferred()
                    d.callback(i)
                    return d, (lambda r: r)

                if shape == "G5":
                    @defer.inlineCallbacks
                    def g():
                        for i in range(1, n + 1):
                            d, read = fired(i)
                            x = yield d
                            obs("gen", i, read(x))
                        return n
                    g().addBoth(done)
                else:
                    async def c():
                        for i in range(1, n + 1):
                            d, read = fired(i)
                            x = await d
                            obs("gen", i, read(x))
                        return n
                    defer.ensureDeferred(c()).addBoth(done)
            elif shape == "G3":
                @defer.inlineCallbacks
                def g():
                    for i in range(1, n + 1):
                        try:
                            yield defer.fail(E1())
                        except E1 as e:
                            obs("gen", i, e)
                    return n
                g().addBoth(done)
            elif shape == "G4":
                async def c():
                    for i in range(1, n + 1):
                        try:
                            await defer.fail(E1())
                        except E1 as e:
                            obs("gen", i, e)
                    return n
                defer.ensureDeferred(c()).addBoth(done)
            else:
                raise AssertionError(shape)

        exc = ""
        try:
            drive()
        except BaseException as x:   # RecursionError etc.: not an action of the spec
            exc = type(x).__name__
        ev.append({"e": "end", "n": n, "res": final[0], "exc": exc})
    return {"cfg": dict(cfg), "lengths": list(lengths), "ev": ev}


EXTRAS = ("none", "pre", "post", "both")


def all_shapes():
    out = []
    for x in EXTRAS:
        for s in ("S1", "S2", "S3", "S4"):
            for k in ("ok", "err"):
                out.append({"shape": s, "kind": k, "extra": x})
        out.append({"shape": "S1E", "kind": "err", "extra": x})
    out.append({"shape": "S6", "kind": "ok", "extra": "none"})
    for s in GENS:
        out.append({"shape": s, "kind": "ok", "extra": "none"})
    return out


def mutate(t, rng):
    """Corrupt one logged field / drop one event (binding self-test)."""
    evs = t["ev"]
    obs = [i for i, e in enumerate(evs) if e["e"] == "obs"]
    r = rng.random()
    if r < 0.4 and len(obs) > 3:
        i = rng.choice(obs[1:])
        evs[i]["f"] += 1 + rng.randrange(3)          # one link deeper than the others
    elif r < 0.55 and obs:
        del evs[rng.choice(obs)]                     # a callback that did not run
    elif r < 0.7 and obs:
        i = rng.choice(obs)
        evs[i]["in"] = [evs[i]["in"][0], evs[i]["in"][1] + 1]
    elif r < 0.85:
        ends = [i for i, e in enumerate(evs) if e["e"] == "end"]
        evs[rng.choice(ends)]["exc"] = "RecursionError"
    else:
        # depth growing with length: every observation of the last run one frame deeper
        begins = [i for i, e in enumerate(evs) if e["e"] == "begin"]
        if len(begins) < 2:
            return None
        for e in evs[begins[-1]:]:
            if e["e"] == "obs":
                e["f"] += 1
    return t


def fingerprint(t, rej):
    k = rej.reached
    e = t["ev"][k] if k < len(t["ev"]) else {"e": "eof"}
    if e["e"] == "obs":
        # what differs is decided by TLC; name the observation kind that could not be matched
        return "%s/%s/%s obs %s" % (t["cfg"]["shape"], t["cfg"]["kind"], t["cfg"].get("extra", "none"), e["who"])
    if e["e"] == "end":
        return "%s/%s/%s end exc=%s" % (t["cfg"]["shape"], t["cfg"]["kind"], t["cfg"].get("extra", "none"), e.get("exc"))
    return "%s/%s/%s %s" % (t["cfg"]["shape"], t["cfg"]["kind"], t["cfg"].get("extra", "none"), e["e"])


def report(ctx, traces, rej):
    for x in rej:
        t = traces[x.idx]
        k = x.reached
        e = t["ev"][k] if k < len(t["ev"]) else None
        n = 0
        prev = None
        for y in t["ev"][:k]:
            if y["e"] == "begin":
                n = y["n"]
            if e and y["e"] == "obs" and e.get("who") == y["who"]:
                prev = prev or y
        ctx.violation(fingerprint(t, x),
                      "run of shape %s/%s (extra callbacks: %s) with n=%d not explained by ChainProp.tla at event %d: %s (first observation of that kind: %s)"
                      % (t["cfg"]["shape"], t["cfg"]["kind"], t["cfg"].get("extra", "none"), n, k, e, prev),
                      dict(cfg=t["cfg"], lengths=t["lengths"], rejected_at=k))


def run(ctx):
    from harness.core import MachineryError
    r = ctx.mc("ChainPropMC", "ChainPropMC.cfg")
    if not r.ok:
        raise MachineryError("ChainProp violates its own invariants: " + r.error)
    ctx.require_actions("ChainPropMC", ["Begin", "Observe", "End"])
    # algorithm level: the coded _runCallbacks loop on chain-shaped programs (lengths 1..8), one activation only
    r = ctx.mc("ChainImplMC", "ChainImplMC.cfg")
    if not r.ok:
        raise MachineryError("ChainImplMC: the modelled chain-list algorithm breaks DepthOne/Refines: %s\n%s" % (r.error, (r.cex or [""])[-1][:1200]))
    ctx.require_actions("ChainImplMC", ["DoAdd", "DoFire", "DoPause", "DoUnpause", "LoopOuter", "LoopInner", "LoopAfter"])
    # algorithm level: the unfolded loop of _inlineCallbacks, all fired/unfired scripts up to 8 awaits
    r = ctx.mc("InlineLoopMC", "InlineLoopMC.cfg")
    if not r.ok:
        raise MachineryError("InlineLoopMC: the modelled _inlineCallbacks loop breaks its depth invariants: %s\n%s" % (r.error, (r.cex or [""])[-1][:1200]))
    ctx.require_actions("InlineLoopMC", ["Send", "AddBoth", "Got", "Check", "Ret", "Fire"])
    # vacuity witness: the naive (recursive) loop must violate the same invariants
    r = ctx.mc("InlineLoopMC", "InlineLoopMC.naive.cfg", must_pass=False, coverage=False, label="witness: naive recursion must fail")
    if r.ok or r.kind != "invariant":
        raise MachineryError("vacuity: the depth invariants of InlineLoop do not reject the recursive algorithm (%s)" % (r.error or "passed"))

    traces = []
    for cfg in all_shapes():
        key = (cfg["shape"], cfg["kind"], cfg["extra"])
        plain = cfg["extra"] == "none"
        if ctx.quick:
            lengths = [10, 100, 1000] if plain else [7, 40, 200]
            if key in (("S1", "ok", "none"), ("G1", "ok", "none")):
                lengths.append(10000)
        else:
            lengths = [7, 10, 100, 1000, 10000]
            # the property: both build orders, ok/failure, generators/coroutines up to 10^5
            if plain and cfg["shape"] in ("S1", "S2", "G1", "G2", "G3", "G4", "G5", "G6"):
                lengths.append(100000)
            if key in (("S1", "ok", "both"), ("S2", "err", "both"), ("S1", "err", "post")):
                lengths.append(100000)
        traces.append(run_shape(cfg, lengths))
    ctx.exhaustive = False
    for t in traces:
        ctx.note_trace(t, nontrivial=any(e["e"] == "obs" for e in t["ev"]))
    ctx.extra["runs"] = sum(len(t["lengths"]) for t in traces)
    ctx.extra["observations"] = sum(1 for t in traces for e in t["ev"] if e["e"] == "obs")
    ctx.extra["max_length"] = max(max(t["lengths"]) for t in traces)
    ctx.extra["recursion_limit"] = sys.getrecursionlimit()
    ctx.log("recorded %d shape traces, %d runs, %d observations" % (len(traces), ctx.extra["runs"], ctx.extra["observations"]))
    rej = ctx.validate("ChainPropTrace", traces, shard_size=ctx.pick(4, 2))
    report(ctx, traces, rej)
    bad = {x.idx for x in rej}
    small = [run_shape(t["cfg"], [5, 12, 40]) for i, t in enumerate(traces) if i not in bad]
    if small:
        ctx.selftest_rejects("ChainPropTrace", small * 2, mutate, n=20)


def replay(ctx, obj):
    t = run_shape(obj["cfg"], obj["lengths"])
    ctx.note_trace(t, nontrivial=True)
    rej = ctx.validate("ChainPropTrace", [t])
    report(ctx, [t], rej)
    print("lengths", t["lengths"], "events", len(t["ev"]))
    seen = set()
    for e in t["ev"]:
        if e["e"] != "obs" or (e["who"], e["f"]) not in seen:
            print(e)
        if e["e"] == "obs":
            seen.add((e["who"], e["f"]))
