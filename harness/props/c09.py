"""C09 -- task.Clock runs scheduled calls exactly once in time order.

Spec:     specs/TimersAbs.tla (abstract semantics of timed calls, clock flavour: advance() is the run phase),
          specs/TimersProp.tla (the clauses of the property as invariants over the recorded history, including
          nondecreasing scheduled time and creation order for never-rescheduled calls with equal time),
          specs/ClockImpl.tla (task.Clock's sorted list as coded; TLC checks it refines TimersAbs),
          TimersTrace (trace validation), TimersSim (behaviours).
Binding:  the real twisted.internet.task.Clock driven through callLater / IDelayedCall.cancel/reset/delay /
          advance / getDelayedCalls along exhaustive short histories, random long ones and TLC-generated
          behaviours; operations are also issued from inside running calls.  TLC decides.
"""

META = dict(
    id="C09",
    specs=["TimersAbs.tla", "TimersProp.tla", "TimersAbsMC.tla", "ClockImpl.tla", "ClockImplMC.tla", "ClockImplTrace.tla", "TimersTrace.tla", "TimersSim.tla"],
    technique="TLA+ abstract timer semantics + property invariants (TLC exhaustive), TLA+ transcription of task.Clock's sorted-list algorithm checked by TLC to refine it (exhaustive + deep simulation), TLC trace validation of real task.Clock executions (exhaustive short, random long, TLC-generated)",
    level_text="TLC checks on the specification that the abstract semantics implies every clause (exactly once iff not cancelled, during the first advance reaching the scheduled time, nondecreasing scheduled time, creation order for equal never-rescheduled times, getDelayedCalls = pending) for all histories within the stated bounds, that Clock's algorithm as transcribed refines that semantics, and validates every recorded execution of the real task.Clock as a behaviour of the specification with every logged observable matched.",
    level_note="Trusted: TLC, the adapter's logging. advance() is not called from inside a running call and calls do not raise (neither is part of the property). Histories beyond the exhaustive depth are sampled. ClockImpl is a hand transcription of task.py, bound to it by replaying recorded executions through it step by step (impl_drift). With negative delay() amounts the nondecreasing clause cannot hold for any implementation; for such histories the order clause is read as 'no eligible call is scheduled earlier'.",
    design_ref="2.4 C09",
    rule="history = top-level operations (callLater with a script of nested operations, cancel, reset, delay, getDelayedCalls, advance) on one Clock; distinct = hash of (cfg, events); non-trivial = at least two different event kinds",
)


def run(ctx):
    from harness.core import MachineryError
    from harness.adapters import c08_c09_timers as A

    r = ctx.mc("TimersAbsMC", ctx.pick("TimersAbsMC.clock.cfg", "TimersAbsMC.clock.thorough.cfg"))
    if not r.ok:
        raise MachineryError("TimersAbs violates the property clauses of TimersProp: " + r.error)
    A.pick_actions(ctx, "TimersAbsMC", [("NCallLater", "PCallLater"), ("NCancelOk", "PCancelOk"), ("NCancelRefused", "PCancelRefused"),
                                        ("NResetOk", "PResetOk"), ("NResetRefused", "PResetRefused"), ("NDelayOk", "PDelayOk"),
                                        ("NDelayRefused", "PDelayRefused"), ("NGdc", "PGdc"), ("NAdvanceClock", "PAdvanceClock"),
                                        ("NRunBegin", "PRunBegin"), ("NRunEnd", "PRunEnd"), ("NIterEnd", "PIterEnd")])
    r = ctx.mc("ClockImplMC", ctx.pick("ClockImplMC.cfg", "ClockImplMC.thorough.cfg"))
    if not r.ok:
        raise MachineryError("ClockImpl (task.Clock as transcribed) does not refine TimersAbs: %s\n%s" % (r.error, "".join(r.cex[-3:])[:3000]))
    A.pick_actions(ctx, "ClockImplMC", [("NCallLater", "ICallLater"), ("NCancelOk", "ICancelOk"), ("NResetOk", "IResetOk"), ("NDelayOk", "IDelayOk"),
                                        ("NGdc", "IGdc"), ("NAdvance", "IAdvance"), ("NLoopRun", "ILoopRun"), ("NRunEnd", "IRunEnd"),
                                        ("NAdvanceEnd", "IAdvanceEnd")])
    r = ctx.mc("ClockImplMC", "ClockImplMC.sim.cfg", workers=2, coverage=False, label="simulate",
               args=["-simulate", "num=%d" % ctx.pick(250, 60000), "-depth", "70", "-seed", str(ctx.seed)])
    if not r.ok:
        raise MachineryError("ClockImpl deep simulation: refinement of TimersAbs fails: %s\n%s" % (r.error, "".join(r.cex[-3:])[:3000]))
    A.run_flavour(ctx, "clock", "task.Clock")


def replay(ctx, obj):
    from harness.adapters import c08_c09_timers as A
    A.replay_history(ctx, obj, "task.Clock")
