"""X02 (extension, not a listed property) -- web.client.HTTPConnectionPool + HTTP11ClientProtocol quiescence.
Spec: specs/ConnPool.tla.  Reported under coverage.extra_modules of the nearest property (C23)."""

META = dict(
    id="X02", extension=True, nearest="C23",
    specs=["ConnPool.tla", "ConnPoolMC.tla", "ConnPoolTrace.tla"],
    technique="TLA+ spec of the persistent-connection cache + TLC trace validation of the real pool driven through real HTTP11ClientProtocol instances",
    level_text="extension module: grows the specification beyond the listed properties",
    level_note="not a listed property; alarms are reported as EXTRA-ALARM, never as VIOLATION",
    design_ref="4 (extensions)",
    rule="history of getConnection/response-complete/peer-close/advance/closeCachedConnections; distinct by event sequence",
)


def run_history(cfg, ops):
    from twisted.internet import defer, task
    from twisted.internet.error import ConnectionDone
    from twisted.python.failure import Failure
    from twisted.internet.testing import StringTransport
    from twisted.web import client
    from twisted.web._newclient import Request
    from twisted.web.http_headers import Headers

    clock = task.Clock()
    pool = client.HTTPConnectionPool(clock, persistent=True)
    pool.maxPersistentPerHost = cfg["max"]
    pool.cachedConnectionTimeout = cfg["timeout"]
    conns = []       # (protocol, transport)
    gone = set()     # ids the harness closed from the peer side or that finished with Connection: close

    class Endpoint:
        def connect(self, factory):
            p = factory.buildProtocol(None)
            t = StringTransport()
            p.makeConnection(t)
            conns.append((p, t))
            return defer.succeed(p)

    def cid_of_transport(t):
        for i, (p, tr) in enumerate(conns):
            if tr is t:
                return i + 1

    def closing():
        return {i + 1 for i, (p, t) in enumerate(conns) if t.disconnecting}

    # StringTransport has abortConnection setting disconnected; record through attribute
    ev = []
    inuse = {}
    for op in ops:
        before = closing()
        if op[0] == "get":
            k = op[1]
            n0 = len(conns)
            got = []
            pool.getConnection(("http", b"h%d" % k, 80), Endpoint()).addCallback(got.append)
            proto = got[0]
            d = proto.request(Request(b"GET", b"/", Headers({b"host": [b"x"]}), None, persistent=True))
            d.addErrback(lambda f: None)
            # which transport carries the request?
            c = None
            for i, (p, t) in enumerate(conns):
                if t.value():
                    c = i + 1
                    t.clear()
            inuse[c] = d
            ev.append({"e": "get", "k": k, "c": c if c is not None else 0, "new": len(conns) > n0, "closed": []})
        elif op[0] in ("finish", "finishclose"):
            c = op[1]
            if c not in inuse:
                continue
            p, t = conns[c - 1]
            extra = b"Connection: close\r\n" if op[0] == "finishclose" else b""
            p.dataReceived(b"HTTP/1.1 200 OK\r\nContent-Length: 0\r\n" + extra + b"\r\n")
            del inuse[c]
            if op[0] == "finishclose":
                gone.add(c)
                before = before | {c}
            ev.append({"e": op[0], "c": c, "closed": sorted(closing() - before - gone)})
        elif op[0] == "die":
            c = op[1]
            if c < 1 or c > len(conns) or c in inuse or c in gone or c in closing():
                continue
            p, t = conns[c - 1]
            if p.state != "QUIESCENT":
                continue
            p.connectionLost(Failure(ConnectionDone()))
            gone.add(c)
            ev.append({"e": "die", "c": c, "closed": []})
        elif op[0] in ("advance", "closeall"):
            order = []
            orig = {}
            for i, (p, t) in enumerate(conns):
                def lc(i=i, t=t, f=t.loseConnection):
                    if not t.disconnecting:
                        order.append(i + 1)
                    f()
                orig[i] = t.loseConnection
                t.loseConnection = lc
            if op[0] == "advance":
                clock.advance(op[1])
            else:
                pool.closeCachedConnections().addErrback(lambda f: None)
            for i, (p, t) in enumerate(conns):
                t.loseConnection = orig[i]
            cl = [c for c in order if c not in gone and c not in before]
            if op[0] == "advance":
                ev.append({"e": "advance", "d": op[1], "closed": cl})
            else:
                ev.append({"e": "closeall", "closed": cl})
    return {"cfg": cfg, "ops": [list(o) for o in ops], "ev": ev}


def random_ops(rng, n):
    ops = []
    nconn = 0
    for _ in range(n):
        r = rng.random()
        if r < 0.35:
            ops.append(("get", rng.choice([1, 2])))
            nconn += 1
        elif r < 0.6 and nconn:
            ops.append(("finish", rng.randint(1, nconn)))
        elif r < 0.66 and nconn:
            ops.append(("finishclose", rng.randint(1, nconn)))
        elif r < 0.76 and nconn:
            ops.append(("die", rng.randint(1, nconn)))
        elif r < 0.95:
            ops.append(("advance", rng.choice([0, 1, 1, 2, 3])))
        else:
            ops.append(("closeall",))
    return ops


def run(ctx):
    ctx.mc("ConnPoolMC", "ConnPoolMC.cfg")
    ctx.require_actions("ConnPoolMC", ["Get", "Finish", "FinishClose", "Die", "Advance", "CloseAll"])
    traces = []
    for _ in range(ctx.pick(1500, 30000)):
        cfg = {"max": ctx.rng.choice([1, 2, 3]), "timeout": ctx.rng.choice([1, 3, 5])}
        traces.append(run_history(cfg, random_ops(ctx.rng, ctx.rng.randint(4, 30))))
    ctx.note_traces(traces)
    rej = ctx.validate("ConnPoolTrace", traces, shard_size=2000)
    for x in rej[:10]:
        t = traces[x.idx]
        e = t["ev"][x.reached] if x.reached < len(t["ev"]) else None
        ctx.violation("connpool/%s" % (e or {}).get("e"), "HTTPConnectionPool execution not explained by ConnPool.tla at event %d: %s" % (x.reached, e),
                      dict(cfg=t["cfg"], ops=t["ops"]))

    def mutate(t, rng):
        c = [i for i, e in enumerate(t["ev"]) if e["e"] == "get"]
        if not c:
            return None
        i = rng.choice(c)
        t["ev"][i]["new"] = not t["ev"][i]["new"]
        return t
    bad = {x.idx for x in rej}
    ctx.selftest_rejects("ConnPoolTrace", [t for i, t in enumerate(traces) if i not in bad][:100], mutate, n=10)


def replay(ctx, obj):
    t = run_history(obj["cfg"], [tuple(o) for o in obj["ops"]])
    for e in t["ev"]:
        print(e)
    for x in ctx.validate("ConnPoolTrace", [t]):
        ctx.violation("connpool/replay", "rejected at %d" % x.reached, dict(cfg=t["cfg"], ops=t["ops"]))
