"""X15 (extension, not a listed property) -- twisted.names client resolver query scheduling: UDP retransmission
over the timeout sequence and the server list, truncated answer -> TCP retry, id matching, piggy-backing of equal
queries, timer / port / live-query bookkeeping (no leak).
Specs: specs/DnsRetry.tla (client.Resolver), specs/DnsRetryProto.tla (one shared DNSDatagramProtocol).
Reported under coverage.extra_modules of the nearest property (C10)."""

META = dict(
    id="X15", extension=True, nearest="C10",
    specs=["DnsRetry.tla", "DnsRetryMC.tla", "DnsRetryTrace.tla", "DnsRetryProto.tla", "DnsRetryProtoMC.tla", "DnsRetryProtoTrace.tla"],
    technique="TLA+ spec of client.Resolver's UDP retransmission schedule, TCP fallback and DNSDatagramProtocol/DNSProtocol "
              "live-query bookkeeping + TLC trace validation of the real Resolver / DNSDatagramProtocol on task.Clock with "
              "recording UDP ports and MemoryReactor TCP connectors",
    level_text="extension module: grows the specification beyond the listed properties",
    level_note="not a listed property; alarms are reported as EXTRA-ALARM, never as VIOLATION.  Trusted: dns.Message "
               "encoding/decoding (used by the harness to build answers and read datagrams), task.Clock, the fake UDP port "
               "(synchronous stopListening), dns.randomSource replaced by a seeded small-range source, DNSProtocol.callLater "
               "(documented test hook) pointed at the clock.  Not decided: resolv.conf parsing, IPv6 servers, lookupZone/AXFR, "
               "split TCP frames, cancellation of the returned Deferred.",
    design_ref="4 (extensions)",
    rule="history of lookup / reply(right id, wrong id, truncated, error rcode, garbage, closed port, spoofed source) / advance / "
         "TCP connect-succeeds / connect-fails / connection-lost / TCP reply; all histories of <= 3 (thorough 4) relative ops "
         "after the first lookup plus seeded random ones; distinct by event sequence",
)

ALPHABET = [
    ["lookup", 1], ["lookup", 2],
    ["reply", 0, 1, "right", "ok", 0, 0], ["reply", 0, 1, "right", "trunc", 0, 0], ["reply", -1, 1, "right", "trunc", 0, 0],
    ["reply", 0, 1, "right", "err", 3, 0], ["reply", 0, 1, "wrong", "ok", 0, 0],
    ["advance", 1], ["advance", 3],
    ["connup", 0], ["connfail", 0], ["connlost", 0],
    ["tcpreply", 0, 0, "right", "ok", 0], ["tcpreply", 0, 0, "right", "trunc", 0], ["tcpreply", 0, 0, "wrong", "ok", 0],
]


def random_ops(rng):
    ops = [["lookup", 1]]
    for _ in range(rng.randint(3, 30)):
        r = rng.random()
        if r < 0.18:
            ops.append(["lookup", rng.choice([1, 1, 2, 2, 3])])
        elif r < 0.40:
            kind = rng.choice(["ok", "ok", "trunc", "trunc", "trunc", "err"])
            ops.append(["reply", rng.randrange(4), 0 if rng.random() < 0.1 else 1, "right" if rng.random() < 0.8 else "wrong",
                        kind, rng.randint(1, 6) if kind == "err" else 0, 1 if rng.random() < 0.2 else 0,
                        rng.randint(1, 3) if rng.random() < 0.1 else 0])
        elif r < 0.43:
            ops.append(["garbage", rng.randrange(4), 1, "right", "garbage", 0, 0])
        elif r < 0.70:
            ops.append(["advance", rng.choice([0, 1, 1, 1, 2, 3, 4, 10])])
        elif r < 0.79:
            ops.append(["connup", rng.randrange(3)])
        elif r < 0.83:
            ops.append(["connfail", rng.randrange(3)])
        elif r < 0.87:
            ops.append(["connlost", rng.randrange(3)])
        else:
            kind = rng.choice(["ok", "ok", "ok", "trunc", "err", "err"])
            ops.append(["tcpreply", rng.randrange(3), rng.randrange(3), "right" if rng.random() < 0.8 else "wrong",
                        kind, rng.randint(1, 6) if kind == "err" else 0, rng.randint(1, 3) if rng.random() < 0.1 else 0])
    return ops


def short_histories(maxlen):
    import itertools
    for n in range(1, maxlen + 1):
        for seq in itertools.product(range(len(ALPHABET)), repeat=n):
            yield [["lookup", 1]] + [ALPHABET[i] for i in seq]


def fingerprint(t, reached):
    e = t["ev"][reached] if reached < len(t["ev"]) else {"e": "end"}
    return "dnsretry/%s%s" % (e["e"], ("/" + e["kind"]) if "kind" in e else "")


def mutate(t, rng):
    """corrupt one logged outcome"""
    ev = t["ev"]
    i = rng.randrange(len(ev))
    e = ev[i]
    c = rng.randrange(6)
    if c == 0 and e["fired"]:
        e["fired"][0][0] += 1
    elif c == 1 and e["sent"]:
        e["sent"][0][1] = e["sent"][0][1] % 3 + 1
    elif c == 2 and e["closed"]:
        e["closed"] = []
    elif c == 3:
        e["timers"] += 1
    elif c == 4 and (e["tcpsent"] or e["connects"]):
        e["tcpsent"], e["connects"] = [], []
    elif c == 5 and e["e"] == "fire":
        del ev[i]
    else:
        e["unexpected"] = 1 - e["unexpected"]
    return t


def random_proto_ops(rng, idmax):
    ops = []
    for _ in range(rng.randint(3, 25)):
        r = rng.random()
        if r < 0.3:
            ops.append(["query", 0 if rng.random() < 0.55 else rng.randint(1, idmax), rng.choice([1, 1, 2, 3])])
        elif r < 0.6:
            ops.append(["deliver", rng.randint(1, idmax)])
        elif r < 0.63:
            ops.append(["garbage"])
        elif r < 0.85:
            ops.append(["advance", rng.choice([0, 1, 1, 2, 3])])
        elif r < 0.93:
            ops.append(["rmresend", rng.randint(1, idmax)])
        else:
            ops.append(["stop"])
    return ops


def proto_fingerprint(t, reached):
    e = t["ev"][reached] if reached < len(t["ev"]) else {"e": "end"}
    return "dnsproto/%s" % e["e"]


def mutate_proto(t, rng):
    ev = t["ev"]
    i = rng.randrange(len(ev))
    e = ev[i]
    c = rng.randrange(4)
    if c == 0 and e["fired"]:
        e["fired"] = []
    elif c == 1 and e["sent"] and e.get("k"):      # only an explicitly requested id is determined by the spec (id=None: any free id)
        e["sent"][0] = e["sent"][0] % t["cfg"]["idmax"] + 1
    elif c == 2:
        e["timers"] += 1
    else:
        e["unexpected"] = 1 - e["unexpected"]
    return t


def _report(ctx, module, traces, fp, label, replay_key, shard_size):
    rej = ctx.validate(module, traces, shard_size=shard_size)
    for x in rej[:10]:
        t = traces[x.idx]
        e = t["ev"][x.reached] if x.reached < len(t["ev"]) else None
        ctx.violation(fp(t, x.reached), "%s execution not explained by %s at event %d: %s" % (label, module, x.reached, e),
                      dict(layer=replay_key, cfg=t["cfg"], ops=t["ops"], rseed=t["rseed"]))
    return {x.idx for x in rej}


def run(ctx):
    from harness.adapters import x15_dns as A

    # 1. TLC model-checks the specifications
    ctx.mc("DnsRetryMC", ctx.pick("DnsRetryMC.cfg", "DnsRetryMC.thorough.cfg"), label="breadth")
    ctx.mc("DnsRetryMC", ctx.pick("DnsRetryMC.deep.cfg", "DnsRetryMC.deep.thorough.cfg"), label="one job, whole schedule")
    ctx.require_actions("DnsRetryMC", ["Lookup", "ReplyAny", "AdvanceAny", "Fire", "ConnUpAny", "ConnFailAny", "ConnLostAny", "TcpReplyAny"])
    ctx.mc("DnsRetryProtoMC", ctx.pick("DnsRetryProtoMC.cfg", "DnsRetryProtoMC.thorough.cfg"))
    ctx.require_actions("DnsRetryProtoMC", ["Query", "Deliver", "Garbage", "Advance", "Fire", "RemoveResend", "Stop"])

    # 2. the real Resolver along exhaustive-short and seeded-random histories
    traces = []
    for cfg in ({"ns": 2, "T": [1, 2], "idmax": 3}, {"ns": 1, "T": [1], "idmax": 3}):
        for ops in short_histories(ctx.pick(3, 4)):
            t = A.run_history(cfg, ops, rseed=len(traces))
            if len([e for e in t["ev"] if e["e"] not in ("fire", "end")]) == len(ops):    # no op was inapplicable (= a shorter history)
                traces.append(t)
    nshort = len(traces)
    for _ in range(ctx.pick(1500, 20000)):
        cfg = {"ns": ctx.rng.choice([1, 2, 2, 3]), "T": ctx.rng.choice([[1], [1, 2], [1, 2, 4], [2, 1], [1, 1], [3]]),
               "idmax": ctx.rng.choice([3, 4, 6])}
        traces.append(A.run_history(cfg, random_ops(ctx.rng), rseed=ctx.rng.randrange(1 << 30)))
    ctx.note_traces(traces)
    ctx.extra["resolver_short_histories"] = nshort
    ctx.extra["resolver_events"] = sum(len(t["ev"]) for t in traces)
    ctx.extra["resolver_timeouts_seen"] = sum(1 for t in traces for e in t["ev"] for f in e["fired"] if f[1] == "TimeoutError")
    ctx.extra["resolver_tcp_answers_seen"] = sum(1 for t in traces for e in t["ev"] if e["e"] == "tcpreply" and e["fired"])
    bad = _report(ctx, "DnsRetryTrace", traces, fingerprint, "client.Resolver", "resolver", 1500)
    ctx.selftest_rejects("DnsRetryTrace", [t for i, t in enumerate(traces) if i not in bad and len(t["ev"]) > 6][-300:], mutate, n=12)

    # 3. the real shared DNSDatagramProtocol
    ptraces = []
    for _ in range(ctx.pick(1500, 15000)):
        cfg = {"idmax": ctx.rng.choice([2, 3, 4])}
        ptraces.append(A.run_proto_history(cfg, random_proto_ops(ctx.rng, cfg["idmax"]), rseed=ctx.rng.randrange(1 << 30)))
    ctx.note_traces(ptraces)
    ctx.extra["protocol_events"] = sum(len(t["ev"]) for t in ptraces)
    pbad = _report(ctx, "DnsRetryProtoTrace", ptraces, proto_fingerprint, "dns.DNSDatagramProtocol", "protocol", 3000)
    ctx.selftest_rejects("DnsRetryProtoTrace", [t for i, t in enumerate(ptraces) if i not in pbad and len(t["ev"]) > 5][:300], mutate_proto, n=10)
    ctx.assumptions.append("dns.randomSource replaced by a seeded source over 1..idmax (ids and UDP port numbers); "
                           "DNSProtocol.callLater pointed at the test clock (DNSClientFactory builds it on the global reactor)")


def replay(ctx, obj):
    from harness.adapters import x15_dns as A
    if obj.get("layer") == "protocol":
        t = A.run_proto_history(obj["cfg"], obj["ops"], rseed=obj.get("rseed", 0))
        mod, fp = "DnsRetryProtoTrace", proto_fingerprint
    else:
        t = A.run_history(obj["cfg"], obj["ops"], rseed=obj.get("rseed", 0))
        mod, fp = "DnsRetryTrace", fingerprint
    for e in t["ev"]:
        print(e)
    for x in ctx.validate(mod, [t]):
        ctx.violation(fp(t, x.reached), "rejected at %d" % x.reached, dict(layer=obj.get("layer", "resolver"), cfg=t["cfg"], ops=t["ops"], rseed=t["rseed"]))
