"""C19 -- HTTP/1.1 server framing follows RFC 9112 (no request smuggling).

Spec:     specs/HttpSrvWire.tla -- RFC 9112 / 9110 request syntax, section 6.3 framing, section 7.1 chunked coding and
          section 9 persistence written as TLA+ operators over octets: the independent parser (h11 is not used).
          HttpSrvWireMC: TLC checks the reference against an independent TLA+ serialiser (round trip, prefix
          monotonicity).  HttpSrvWireTrace: trace validation.  HttpServerMC (framing cfg): the channel algorithm
          model keeps the framing invariants for all item streams and splits.
Binding:  real twisted.web.http.HTTPChannel with a recording Request subclass over a recording StringTransport.
          Grammar-generated streams: a catalogue of single mutations (every octet value in the target; class
          representatives -- all 256 in the thorough tier -- in method, field name, field value, Content-Length value,
          chunk size, chunk extension; request-line, field, Content-Length / Transfer-Encoding, chunk-framing
          mutations), each followed by a well-formed request, plus random well-formed pipelines.  The trace
          carries the octets and everything the server did; TLC parses the octets and decides.
"""

META = dict(
    id="C19",
    specs=["HttpSrvWire.tla", "HttpSrvWireMC.tla", "HttpSrvWireTrace.tla", "HttpServer.tla", "HttpServerMC.tla"],
    technique="RFC 9112 request syntax + framing as a TLA+ reference parser over octets (checked by TLC against an independent TLA+ serialiser) + TLC trace validation: every recorded real HTTPChannel run on grammar-generated valid and mutated streams must be explained by the reference relation",
    level_text="TLC evaluates the RFC 9112 reference on the exact octets sent to the real HTTPChannel and accepts a run only if the delivered requests (method, target, version, field lines, body) are exactly those the reference assigns, invalid or conflicting framing/syntax was answered by 400 with nothing processed after it, and nothing was processed after a closing request; the reference itself is model-checked (round trip with a serialiser, prefix monotonicity) for all streams within the bounds.",
    level_note="Trusted: TLC, the adapter's recording of Request attributes / transport writes. Implementation-defined points of the RFC (obs-fold, empty lines before a request, CTLs in values, identity coding, lenient request-line whitespace, other HTTP versions, chunk-extension structure, trailer syntax) are accepted either way. A 400 is required only once a complete line follows the offending one. Limits (line length, header count/size, huge lengths) are not part of this property and are not generated. Streams beyond the catalogue are sampled.",
    design_ref="2.7 C18/C19/C21",
    rule="case = one generated octet stream (catalogue mutation or random valid pipeline) delivered to a fresh connection, whole and at sampled prefixes; distinct = hash of (stream, outputs); non-trivial = the server produced at least one output",
)


def _adapter():
    from harness.adapters import c18_c19_c21_http as A
    return A


def observe(stream, n=None):
    """Deliver stream[:n] in one piece to a fresh real connection; return the 'out' event."""
    A = _adapter()
    n = len(stream) if n is None else n
    c = A.Conn(record="c19")
    x = c.deliver(stream[:n])
    return {"e": "out", "n": n, "o": c.out, "closed": bool(c.transport.disconnecting)}, x


def make_trace(labels, stream, cuts=()):
    evs, diag = [], []
    for n in list(cuts) + [len(stream)]:
        e, x = observe(stream, n)
        evs.append(e)
        diag.append(x)
    return {"cfg": {}, "stream": list(stream), "ev": evs, "labels": labels, "diag": diag}


def outcome(ev):
    ks = []
    for o in ev["o"]:
        if o["k"] == "req":
            ks.append("req")
        elif o["k"] == "raw":
            w = bytes(o["w"])
            ks.append("raw" + w[9:12].decode("latin1") if w.startswith(b"HTTP/") else "raw?")
    return "+".join(ks) or "nothing"


def fingerprint(trace, rej):
    """<catalogue label of the single mutation in the stream>|<was a 400 written?>"""
    e = trace["ev"][rej.reached] if rej.reached < len(trace["ev"]) else None
    labels = [x for x in trace["labels"] if x != "after-valid"]
    return "%s|%s" % (",".join(labels), "answered-400" if e and "raw400" in outcome(e) else "no-400")


def mutate(t, rng):
    """Corrupt one logged field of an accepted trace (binding self-test)."""
    ev = t["ev"][-1]
    reqs = [o for o in ev["o"] if o["k"] == "req"]
    x = rng.random()
    if reqs and x < 0.7:
        o = rng.choice(reqs)
        f = rng.choice(["m", "t", "v", "b", "h", "drop", "dup"])
        if f in ("m", "t", "v"):
            o[f] = o[f][:-1] + [o[f][-1] ^ 1]
        elif f == "b":
            o["b"] = o["b"] + [65]                       # one octet of the following request taken as body
        elif f == "h":
            if not o["h"]:
                o["h"] = [[[88], [89]]]
            else:
                o["h"][0][1] = o["h"][0][1] + [33]
        elif f == "drop":
            ev["o"] = [y for y in ev["o"] if y is not o]
        else:
            ev["o"] = ev["o"] + [o]
        return t
    raws = [o for o in ev["o"] if o["k"] == "raw"]
    if raws:
        o = rng.choice(raws)
        if rng.random() < 0.5:
            ev["o"] = [y for y in ev["o"] if y is not o] + ([] if not reqs else [])   # 400 / 100 not written
            if bytes(o["w"]).startswith(b"HTTP/1.1 100"):
                return None
        else:
            ev["closed"] = False
            if not bytes(o["w"]).startswith(b"HTTP/1.1 400"):
                return None
        return t
    return None


def run(ctx):
    from harness.core import MachineryError

    A = _adapter()
    run_mc(ctx)
    traces = []
    for labels, s in A.c19_streams(ctx.rng, thorough=not ctx.quick, nrandom=ctx.pick(200, 1500)):
        cuts = ()
        x = ctx.rng.random()
        if x < ctx.pick(0.15, 0.3):
            cuts = sorted({ctx.rng.randrange(len(s)) for _ in range(2)})
        elif x < ctx.pick(0.4, 0.6) and s.endswith(A.FOLLOW):
            cuts = (len(s) - len(A.FOLLOW),)      # exactly the end of the request under test: complete => handed over now
        traces.append(make_trace(labels, s, cuts))
    crashes = sum(1 for t in traces for x in t["diag"] if x != "ok")
    ctx.extra["dataReceived_exceptions"] = crashes
    slim = [{"cfg": t["cfg"], "stream": t["stream"], "ev": t["ev"]} for t in traces]
    for t in slim:
        ctx.note_trace(t, nontrivial=any(e["o"] for e in t["ev"]))
    ctx.log("recorded %d streams (%d octets, %d real runs)" % (len(traces), sum(len(t["stream"]) for t in traces), sum(len(t["ev"]) for t in traces)))
    rej = ctx.validate("HttpSrvWireTrace", slim, shard_size=ctx.pick(150, 500))
    for x in rej:
        if len(ctx.violations) >= 25:
            break
        t = traces[x.idx]
        e = t["ev"][x.reached]
        ctx.violation(fingerprint(t, x),
                      "real HTTPChannel output not allowed by the RFC 9112 reference (HttpSrvWire.tla): stream %r delivered %d octets -> %s, closed=%s" % (
                          bytes(t["stream"]), e["n"], outcome(e), e["closed"]),
                      dict(stream=bytes(t["stream"]).hex(), labels=t["labels"], cuts=[v["n"] for v in t["ev"]]))
    bad = {x.idx for x in rej}
    good = [slim[i] for i in range(len(slim)) if i not in bad and slim[i]["ev"][-1]["o"]]
    ctx.rng.shuffle(good)
    ctx.selftest_rejects("HttpSrvWireTrace", good[:200], mutate, n=24)


def run_mc(ctx):
    import os
    from harness.core import MachineryError, SPECS

    if os.environ.get("VERIF_SKIP_MC"):
        # the design-level TLC runs do not depend on the twisted tree; mutant runs may skip them
        ctx.log("VERIF_SKIP_MC set: design-level TLC runs skipped (binding only)")
        ctx.assumptions.append("design-level TLC runs skipped in this run (VERIF_SKIP_MC)")
        return

    if os.path.exists(os.path.join(SPECS, "HttpSrvWireMC.tla")):
        # no -coverage here: TLC's cost model of the deeply recursive parser operators exhausts the heap
        for cfg in ctx.pick(["HttpSrvWireMC.cfg"], ["HttpSrvWireMC.pipe.cfg", "HttpSrvWireMC.thorough.cfg"]):
            r = ctx.mc("HttpSrvWireMC", cfg, coverage=False, timeout=ctx.pick(900, 3000))
            if not r.ok:
                raise MachineryError("HttpSrvWire reference inconsistent with its serialiser: %s\n%s" % (r.error, "".join(r.cex[-2:])[-3000:]))
            if r.distinct < 100:      # vacuity: both AddRequest and Cut must have produced states
                raise MachineryError("HttpSrvWireMC explored only %d states" % r.distinct)
    if os.path.exists(os.path.join(SPECS, "HttpServerMC.tla")):
        r = ctx.mc("HttpServerMC", ctx.pick("HttpServerMC.c19.cfg", "HttpServerMC.c19.thorough.cfg"), timeout=ctx.pick(900, 3000))
        if not r.ok:
            raise MachineryError("HttpServer (channel algorithm model) breaks a framing invariant: %s\n%s" % (r.error, "".join(r.cex[-3:])[-3000:]))
        ctx.require_actions("HttpServerMC", ["Deliver", "FinishLater", "Lose"])


def replay(ctx, obj):
    s = bytes.fromhex(obj["stream"])
    t = make_trace(obj.get("labels", ["replay"]), s, [n for n in obj.get("cuts", []) if n != len(s)])
    slim = {"cfg": t["cfg"], "stream": t["stream"], "ev": t["ev"]}
    ctx.note_trace(slim, nontrivial=True)
    rej = ctx.validate("HttpSrvWireTrace", [slim])
    print(s)
    for e in t["ev"]:
        print(e["n"], outcome(e), e["closed"])
    for x in rej:
        e = t["ev"][x.reached]
        ctx.violation(fingerprint(t, x), "replayed stream rejected: %r -> %s" % (s[:e["n"]], outcome(e)),
                      dict(stream=obj["stream"], labels=t["labels"], cuts=[v["n"] for v in t["ev"]]))
