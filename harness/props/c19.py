"""C19 -- HTTP/1.1 server framing follows RFC 9112 (no request smuggling).

Spec:     specs/HttpSrvWire.tla -- RFC 9112 / 9110 request syntax, section 6.3 framing, section 7.1 chunked coding and
          section 9 persistence written as TLA+ operators over octets: the independent parser (h11 is not used).
          HttpSrvWireMC: TLC checks the reference against an independent TLA+ serialiser (round trip, prefix
          monotonicity).  HttpSrvWireTrace: trace validation.  HttpServerMC (framing cfg): the channel algorithm
          model keeps the framing invariants for all item streams and splits.
Binding:  real twisted.web.http.HTTPChannel with a recording Request subclass over a recording StringTransport.
          Grammar-generated streams: a catalogue of single mutations (every octet value in the target; class
          representatives -- all 256 in the thorough tier -- in method, field name, field value, Content-Length value,
          chunk size, chunk extension; request-line, field, Content-Length / Transfer-Encoding, chunk-framing
          mutations), each followed by a well-formed request, plus random well-formed pipelines.  The trace
          carries the octets and everything the server did; TLC parses the octets and decides.
"""

META = dict(
    id="C19",
    specs=["HttpSrvWire.tla", "HttpSrvWireMC.tla", "HttpSrvWireTrace.tla", "HttpServer.tla", "HttpServerMC.tla"],
    technique="RFC 9112 request syntax + framing as a TLA+ reference parser over octets (checked by TLC against an independent TLA+ serialiser) + TLC trace validation: every recorded real HTTPChannel run on grammar-generated valid and mutated streams must be explained by the reference relation",
    level_text="TLC evaluates the RFC 9112 reference on the exact octets sent to the real HTTPChannel and accepts a run only if the delivered requests (method, target, version, field lines, body) are exactly those the reference assigns, invalid or conflicting framing/syntax was answered by 400 with nothing processed after it, and nothing was processed after a closing request; the reference itself is model-checked (round trip with a serialiser, prefix monotonicity) for all streams within the bounds.",
    level_note="Trusted: TLC, the adapter's recording of Request attributes / transport writes. Implementation-defined points of the RFC (obs-fold, empty lines before a request, CTLs in values, identity coding, lenient request-line whitespace, other HTTP versions, chunk-extension structure, trailer syntax) are accepted either way. A 400 is required only once a complete line follows the offending one. Limits (line length, header count/size, huge lengths) are not part of this property and are not generated. Streams beyond the catalogue are sampled.",
    design_ref="2.7 C18/C19/C21",
    rule="case = one generated octet stream (catalogue mutation or random valid pipeline) delivered to a fresh connection, whole and at sampled prefixes; distinct = hash of (stream, outputs); non-trivial = the server produced at least one output",
)


def _adapter():
    from harness.adapters import c18_c19_c21_http as A
    return A


def observe(stream, n=None):
    """Deliver stream[:n] in one piece to a fresh real connection; return the 'out' event."""
    A = _adapter()
    n = len(stream) if n is None else n
    c = A.Conn(record="c19")
    x = c.deliver(stream[:n])
    return {"e": "out", "n": n, "o": c.out, "closed": bool(c.transport.disconnecting)}, x


def observe_split(stream, cuts):
    """Deliver the whole stream to a fresh real connection in len(cuts)+1 pieces (nothing more once the server
    asked the transport to close, as a real transport); return the 'out' event for all the octets."""
    A = _adapter()
    c = A.Conn(record="c19")
    off = 0
    x = "ok"
    for n in list(cuts) + [len(stream)]:
        if n > off and c.can_deliver():
            y = c.deliver(stream[off:n])
            x = y if y != "ok" else x
        off = max(off, n)
    return {"e": "out", "n": len(stream), "o": c.out, "closed": bool(c.transport.disconnecting)}, x


def make_trace(labels, stream, cuts=(), plans=()):
    """One event per one-piece delivery of a prefix (cuts) and of the whole stream, plus one event per DISTINCT
    observation among the split deliveries in `plans` (identical observations are the same input to TLC's
    reference relation, so they are validated once; how many runs stand behind each event is kept in 'runs')."""
    import json
    evs, diag, runs = [], [], []
    for n in list(cuts) + [len(stream)]:
        e, x = observe(stream, n)
        evs.append(e)
        diag.append(x)
        runs.append(1)
    seen = {json.dumps(evs[-1], sort_keys=True): len(evs) - 1}
    examples = []
    for pl in plans:
        e, x = observe_split(stream, pl)
        if x != "ok":
            e["o"] = e["o"] + [{"k": "exc", "x": x}]
        key = json.dumps(e, sort_keys=True)
        if key in seen:
            runs[seen[key]] += 1
        else:
            seen[key] = len(evs)
            evs.append(e)
            diag.append(x)
            runs.append(1)
            examples.append([len(evs) - 1, list(pl)])
    return {"cfg": {}, "stream": list(stream), "ev": evs, "labels": labels, "diag": diag, "runs": runs,
            "split_examples": examples, "nplans": len(plans)}


def split_plans(stream, rng, quick, hot=None, chunked=False):
    """Cut plans for one stream.  hot = positions inside / next to chunk-size lines (known by construction)."""
    n = len(stream)
    if n < 2:
        return []
    near = sorted({p for i, b in enumerate(stream) if b in (13, 10) for p in (i, i + 1) if 0 < p < n})
    plans = set()
    if hot is not None:
        # the chunked family: every cut inside a size line (quick) / every cut (thorough); pairs of cuts
        ones = set(hot) | ({rng.randrange(1, n) for _ in range(8)} if quick else set(range(1, n)))
        plans.update((c,) for c in ones)
        if quick:
            for _ in range(40):
                a, b = rng.choice(hot), rng.choice(hot + near)
                if a != b:
                    plans.add(tuple(sorted((a, b))))
        elif n <= 200:
            plans.update((a, b) for a in range(1, n) for b in range(a + 1, n))
        else:
            hs = sorted(set(hot) | set(near))
            plans.update((a, b) for a in hs for b in hs if a < b)
            for _ in range(3000):
                a, b = rng.randrange(1, n), rng.randrange(1, n)
                if a != b:
                    plans.add(tuple(sorted((a, b))))
    elif chunked and n <= 400:
        # any other stream with a chunked body: every single cut (quick: those next to CR / LF and a sample)
        ones = set(near) | {rng.randrange(1, n) for _ in range(10)} if quick else set(range(1, n))
        plans.update((c,) for c in ones)
        for _ in range(3 if quick else 40):
            a, b = rng.choice(near), rng.randrange(1, n)
            if a != b:
                plans.add(tuple(sorted((a, b))))
    else:
        for _ in range(2 if quick else 6):
            k = rng.randint(1, 3)
            plans.add(tuple(sorted({rng.choice(near) if near and rng.random() < 0.6 else rng.randrange(1, n) for _ in range(k)})))
    return sorted(plans)


def outcome(ev):
    ks = []
    for o in ev["o"]:
        if o["k"] == "req":
            ks.append("req")
        elif o["k"] == "raw":
            w = bytes(o["w"])
            ks.append("raw" + w[9:12].decode("latin1") if w.startswith(b"HTTP/") else "raw?")
    return "+".join(ks) or "nothing"


def fingerprint(trace, rej):
    """<catalogue label of the single mutation in the stream>|<was a 400 written?>"""
    e = trace["ev"][rej.reached] if rej.reached < len(trace["ev"]) else None
    labels = [x for x in trace["labels"] if x != "after-valid"]
    split = any(i == rej.reached for (i, _) in trace.get("split_examples", []))
    return "%s|%s%s" % (",".join(labels), "answered-400" if e and "raw400" in outcome(e) else "no-400", "|split" if split else "")


def mutate(t, rng):
    """Corrupt one logged field of an accepted trace (binding self-test)."""
    ev = t["ev"][-1]
    reqs = [o for o in ev["o"] if o["k"] == "req"]
    x = rng.random()
    if reqs and x < 0.7:
        o = rng.choice(reqs)
        f = rng.choice(["m", "t", "v", "b", "h", "drop", "dup"])
        if f in ("m", "t", "v"):
            o[f] = o[f][:-1] + [o[f][-1] ^ 1]
        elif f == "b":
            o["b"] = o["b"] + [65]                       # one octet of the following request taken as body
        elif f == "h":
            if not o["h"]:
                o["h"] = [[[88], [89]]]
            else:
                o["h"][0][1] = o["h"][0][1] + [33]
        elif f == "drop":
            ev["o"] = [y for y in ev["o"] if y is not o]
        else:
            ev["o"] = ev["o"] + [o]
        return t
    raws = [o for o in ev["o"] if o["k"] == "raw"]
    if raws:
        o = rng.choice(raws)
        if rng.random() < 0.5:
            ev["o"] = [y for y in ev["o"] if y is not o] + ([] if not reqs else [])   # 400 / 100 not written
            if bytes(o["w"]).startswith(b"HTTP/1.1 100"):
                return None
        else:
            ev["closed"] = False
            if not bytes(o["w"]).startswith(b"HTTP/1.1 400"):
                return None
        return t
    return None


def run(ctx):
    from harness.core import MachineryError

    A = _adapter()
    run_mc(ctx)
    traces = []
    for label, s, hot in A.chunked_family():
        traces.append(make_trace([label], s, (), split_plans(s, ctx.rng, ctx.quick, hot=hot)))
    for labels, s in A.c19_streams(ctx.rng, thorough=not ctx.quick, nrandom=ctx.pick(200, 1500)):
        cuts = ()
        x = ctx.rng.random()
        if x < ctx.pick(0.15, 0.3):
            cuts = sorted({ctx.rng.randrange(len(s)) for _ in range(2)})
        elif x < ctx.pick(0.4, 0.6) and s.endswith(A.FOLLOW):
            cuts = (len(s) - len(A.FOLLOW),)      # exactly the end of the request under test: complete => handed over now
        chunked = b"chunked" in s.lower()
        traces.append(make_trace(labels, s, cuts, split_plans(s, ctx.rng, ctx.quick, chunked=chunked)))
    ctx.extra["split_deliveries"] = sum(t["nplans"] for t in traces)
    ctx.extra["distinct_split_observations"] = sum(len(t["split_examples"]) for t in traces)
    crashes = sum(1 for t in traces for x in t["diag"] if x != "ok")
    ctx.extra["dataReceived_exceptions"] = crashes
    slim = [{"cfg": t["cfg"], "stream": t["stream"], "ev": t["ev"]} for t in traces]
    for t in slim:
        ctx.note_trace(t, nontrivial=any(e["o"] for e in t["ev"]))
    ctx.log("recorded %d streams (%d octets), %d one-piece runs, %d split deliveries, %d events for TLC" % (
        len(traces), sum(len(t["stream"]) for t in traces), sum(len(t["ev"]) - len(t["split_examples"]) for t in traces),
        sum(t["nplans"] for t in traces), sum(len(t["ev"]) for t in traces)))
    rej = ctx.validate("HttpSrvWireTrace", slim, shard_size=ctx.pick(150, 500))
    for x in rej:
        if len(ctx.violations) >= 25:
            break
        t = traces[x.idx]
        e = t["ev"][x.reached]
        plan = [pl for (i, pl) in t["split_examples"] if i == x.reached]
        ctx.violation(fingerprint(t, x),
                      "real HTTPChannel output not allowed by the RFC 9112 reference (HttpSrvWire.tla): stream %r delivered %d octets %s -> %s, closed=%s" % (
                          bytes(t["stream"]), e["n"], ("cut at %s" % plan[0]) if plan else "in one piece", outcome(e), e["closed"]),
                      dict(stream=bytes(t["stream"]).hex(), labels=t["labels"],
                           cuts=[v["n"] for v in t["ev"][:len(t["ev"]) - len(t["split_examples"])]], plans=plan))
    bad = {x.idx for x in rej}
    good = [slim[i] for i in range(len(slim)) if i not in bad and slim[i]["ev"][-1]["o"]]
    ctx.rng.shuffle(good)
    ctx.selftest_rejects("HttpSrvWireTrace", good[:200], mutate, n=24)


def run_mc(ctx):
    import os
    from harness.core import MachineryError, SPECS

    if os.environ.get("VERIF_SKIP_MC"):
        # the design-level TLC runs do not depend on the twisted tree; mutant runs may skip them
        ctx.log("VERIF_SKIP_MC set: design-level TLC runs skipped (binding only)")
        ctx.assumptions.append("design-level TLC runs skipped in this run (VERIF_SKIP_MC)")
        return

    if os.path.exists(os.path.join(SPECS, "HttpSrvWireMC.tla")):
        # no -coverage here: TLC's cost model of the deeply recursive parser operators exhausts the heap
        for cfg in ctx.pick(["HttpSrvWireMC.cfg"], ["HttpSrvWireMC.pipe.cfg", "HttpSrvWireMC.thorough.cfg"]):
            r = ctx.mc("HttpSrvWireMC", cfg, coverage=False, timeout=ctx.pick(900, 3000))
            if not r.ok:
                raise MachineryError("HttpSrvWire reference inconsistent with its serialiser: %s\n%s" % (r.error, "".join(r.cex[-2:])[-3000:]))
            if r.distinct < 100:      # vacuity: both AddRequest and Cut must have produced states
                raise MachineryError("HttpSrvWireMC explored only %d states" % r.distinct)
    if os.path.exists(os.path.join(SPECS, "HttpServerMC.tla")):
        r = ctx.mc("HttpServerMC", ctx.pick("HttpServerMC.c19.cfg", "HttpServerMC.c19.thorough.cfg"), timeout=ctx.pick(900, 3000))
        if not r.ok:
            raise MachineryError("HttpServer (channel algorithm model) breaks a framing invariant: %s\n%s" % (r.error, "".join(r.cex[-3:])[-3000:]))
        ctx.require_actions("HttpServerMC", ["Deliver", "FinishLater", "Lose"])


def replay(ctx, obj):
    s = bytes.fromhex(obj["stream"])
    t = make_trace(obj.get("labels", ["replay"]), s, [n for n in obj.get("cuts", []) if n != len(s)],
                   [tuple(pl) for pl in obj.get("plans", [])])
    slim = {"cfg": t["cfg"], "stream": t["stream"], "ev": t["ev"]}
    ctx.note_trace(slim, nontrivial=True)
    rej = ctx.validate("HttpSrvWireTrace", [slim])
    print(s)
    for e in t["ev"]:
        print(e["n"], outcome(e), e["closed"])
    for x in rej:
        e = t["ev"][x.reached]
        ctx.violation(fingerprint(t, x), "replayed stream rejected: %r -> %s" % (s[:e["n"]], outcome(e)),
                      dict(stream=obj["stream"], labels=t["labels"], cuts=obj.get("cuts", []), plans=obj.get("plans", [])))
