"""C38 -- Telnet carries application bytes transparently.

Spec:     specs/TelnetData.tla (RFC 854 serialisation Wire, reference decoder Dec, incremental receiver
          machine), TelnetDataMC (exhaustive TLC), TelnetDataTrace (trace validation).
Binding:  a real twisted.conch.telnet.TelnetTransport writes application bytes with write()/
          writeSequence() onto a StringTransport; the bytes that appear there are cut at harness-chosen
          points and handed to a real peer (TelnetTransport + ITelnetProtocol, or a bare Telnet) through
          dataReceived.  Logged: per call the bytes put on the wire; per delivery what the peer's
          callbacks saw (application bytes, commands, subnegotiations, bytes it wrote back), any
          exception, and what a fresh peer sees when given the whole prefix in one piece.  TLC decides.
"""
import itertools

META = dict(
    id="C38",
    specs=["TelnetData.tla", "TelnetDataMC.tla", "TelnetDataTrace.tla", "TelnetDataSim.tla"],
    technique="TLA+ byte-class format spec of the RFC 854 data path (serialiser, reference decoder, incremental receiver) "
              "checked exhaustively by TLC over all short strings/token streams and all wire splits + TLC trace validation "
              "of real TelnetTransport.write/writeSequence -> wire -> real Telnet.dataReceived executions",
    level_text="TLC checks, for every application string up to the stated length over one representative per byte class, "
               "every grouping into calls and every wire split, that the receiver machine's output is the reference decoding "
               "of the consumed prefix and equals the bytes written, with no command; every recorded execution of the real "
               "sender and receiver is validated by TLC as a behaviour of that specification with all invariants conjoined.",
    level_note="Trusted: TLC, the adapter's logging of callback arguments and of the bytes on the StringTransport. "
               "Strings longer than the enumerated depth and byte values inside a class are sampled. CR in application "
               "data is outside the property and never generated. The sender relation requires each call to leave the "
               "wire between tokens (nothing held back), which the property implies only at the end of the stream.",
    design_ref="2.6 C38",
    rule="case = application byte string x grouping into write/writeSequence calls x wire segmentation (or injected RFC-valid "
         "token stream x segmentation); distinct = hash of (cfg, events); non-trivial = at least two different event kinds",
)

IAC, CR, LF, NUL, SE, SB = 255, 13, 10, 0, 240, 250
PLAIN = [b for b in range(256) if b not in (IAC, CR, LF, NUL) and not (239 <= b <= 254)]
PLAIN_EDGE = [1, 9, 11, 12, 14, 27, 32, 126, 127, 128, 238]
CMDS = list(range(239, 255))
SIMPLE = [239] + list(range(241, 250))
NEG = [251, 252, 253, 254]


# --------------------------------------------------------------------------- real objects

def make_sender():
    from twisted.conch import telnet
    from twisted.internet.testing import StringTransport

    tr = StringTransport()
    s = telnet.TelnetTransport()
    s.makeConnection(tr)
    return s, tr


def make_receiver(kind, items):
    """A real peer; everything its application-facing callbacks see is appended to `items`."""
    from twisted.conch import telnet
    from twisted.internet.testing import StringTransport

    def o(x):
        return -1 if x is None else (x if isinstance(x, int) else ord(x))

    def sub(command, data):
        items.append(["sb", o(command), 0])
        for b in data:
            items.append(["sb", o(b), 0])
        items.append(["se", 0, 0])

    tr = StringTransport()
    if kind == "transport":
        class App(telnet.TelnetProtocol):
            def dataReceived(self, data):
                items.extend(["d", b, 0] for b in data)

            def unhandledCommand(self, command, argument):
                items.append(["c", o(command), o(argument)])

            def unhandledSubnegotiation(self, command, data):
                sub(command, data)

            def enableLocal(self, option):
                items.append(["c", 253, o(option)])
                return False

            def enableRemote(self, option):
                items.append(["c", 251, o(option)])
                return False

            def disableLocal(self, option):
                items.append(["c", 254, o(option)])

            def disableRemote(self, option):
                items.append(["c", 252, o(option)])

        rx = telnet.TelnetTransport(App)
    else:
        class Rx(telnet.Telnet):
            def applicationDataReceived(self, data):
                items.extend(["d", b, 0] for b in data)

            def commandReceived(self, command, argument):
                items.append(["c", o(command), o(argument)])

            def unhandledSubnegotiation(self, command, data):
                sub(command, data)

        rx = Rx()
    rx.makeConnection(tr)
    return rx, tr


def feed(rx, tr, items, data):
    """One dataReceived call; returns (items seen during it, exception class name or '')."""
    n0 = len(items)
    exc = ""
    try:
        rx.dataReceived(data)
    except Exception as e:  # the reactor would log it and drop the connection
        exc = type(e).__name__
    back = tr.value()
    if back:
        tr.clear()
        items.extend(["w", b, 0] for b in back)   # the peer answered something: it saw a command
    return [list(x) for x in items[n0:]], exc


def run_case(cfg, ops):
    """ops: ["write", [bytes]] | ["seq", [[bytes],..]] | ["inject", [bytes]] | ["deliver", k]"""
    sender, stx = make_sender()
    items = []
    rx, rtr = make_receiver(cfg["recv"], items)
    wire = bytearray()
    consumed = 0
    ev = []
    for op in ops:
        if op[0] in ("write", "seq"):
            if op[0] == "write":
                pieces = [bytes(op[1])]
                sender.write(pieces[0])
            else:
                pieces = [bytes(p) for p in op[1]]
                sender.writeSequence(pieces)
            w = stx.value()
            stx.clear()
            wire += w
            ev.append({"e": "write", "kind": op[0], "app": [list(p) for p in pieces], "wire": list(w)})
        elif op[0] == "inject":
            wire += bytes(op[1])
            ev.append({"e": "inject", "wire": list(op[1])})
        else:
            k = min(op[1], len(wire) - consumed)
            if k <= 0:
                continue
            got, exc = feed(rx, rtr, items, bytes(wire[consumed:consumed + k]))
            consumed += k
            # differential: a fresh peer given the whole prefix at once
            items1 = []
            rx1, tr1 = make_receiver(cfg["recv"], items1)
            _, exc1 = feed(rx1, tr1, items1, bytes(wire[:consumed]))
            if exc1:
                items1.append(["exc", 0, 0])
            ev.append({"e": "deliver", "k": k, "out": got, "exc": exc, "one": [list(x) for x in items1]})
            if exc:
                break   # connection would be dropped
    return {"cfg": cfg, "ops": ops, "ev": ev}


# --------------------------------------------------------------------------- case generation

def concretise(rng, classes):
    out = []
    for c in classes:
        if c == "IAC":
            out.append(IAC)
        elif c == "LF":
            out.append(LF)
        elif c == "NUL":
            out.append(NUL)
        elif c == "CMD":
            out.append(rng.choice(CMDS))
        else:
            out.append(rng.choice(PLAIN_EDGE) if rng.random() < 0.3 else rng.choice(PLAIN))
    return out


def split_pieces(rng, data):
    """writeSequence argument: the data cut into pieces (empty pieces allowed)."""
    pieces = []
    i = 0
    while i < len(data):
        j = rng.randint(i, len(data)) if rng.random() < 0.15 else rng.randint(i + 1, len(data))
        pieces.append(data[i:j])
        i = j
    if rng.random() < 0.1:
        pieces.append([])
    return pieces or [[]]


def delivery_plan(rng, ops, style=None):
    """Interleave deliver ops with the write ops; everything is delivered by the end."""
    style = style or rng.choice(["end-random", "end-random", "interleaved", "bytewise", "onepiece"])
    out = []
    for op in ops:
        out.append(op)
        if style == "interleaved" and rng.random() < 0.6:
            out.append(["deliver", rng.randint(1, 4)])
    if style == "bytewise":
        out += [["deliver", 1]] * 24 + [["deliver", 10 ** 6]]
    elif style == "onepiece":
        out.append(["deliver", 10 ** 6])
    else:
        for _ in range(rng.randint(1, 10)):
            out.append(["deliver", rng.choice([1, 1, 2, 2, 3, 5, 8])])
        out.append(["deliver", 10 ** 6])
    return out


def compositions(n):
    """All ways to cut range(n) into consecutive non-empty groups."""
    for mask in range(1 << max(n - 1, 0)):
        groups, start = [], 0
        for i in range(1, n):
            if mask >> (i - 1) & 1:
                groups.append((start, i))
                start = i
        groups.append((start, n))
        yield groups


def exhaustive_cases(rng, maxlen):
    classes = ["IAC", "LF", "NUL", "CMD", "X"]
    for n in range(1, maxlen + 1):
        for cs in itertools.product(classes, repeat=n):
            for groups in compositions(n):
                for kinds in itertools.product(["write", "seq"], repeat=len(groups)):
                    data = concretise(rng, cs)
                    ops = []
                    for (a, b), kind in zip(groups, kinds):
                        ops.append(["write", data[a:b]] if kind == "write" else ["seq", split_pieces(rng, data[a:b])])
                    yield ops


def random_app_ops(rng):
    n = rng.randint(3, 40)
    w = rng.choice([(4, 3, 1, 3, 3), (1, 1, 1, 1, 6), (6, 1, 0, 4, 1), (1, 6, 1, 1, 2)])
    data = concretise(rng, rng.choices(["IAC", "LF", "NUL", "CMD", "X"], weights=w, k=n))
    ops = []
    i = 0
    pseq = rng.choice([0.0, 0.3, 0.5, 1.0])
    while i < n:
        j = rng.randint(i + 1, min(n, i + 12))
        ops.append(["seq", split_pieces(rng, data[i:j])] if rng.random() < pseq else ["write", data[i:j]])
        i = j
    return ops


def random_token(rng, recv):
    r = rng.random()
    if r < 0.35:
        return [rng.choice(PLAIN + CMDS + [NUL, LF])]
    if r < 0.45:
        return [IAC, IAC]
    if r < 0.55:
        return [CR, LF]
    if r < 0.60:
        return [CR, NUL]
    if r < 0.72:
        return [IAC, rng.choice(SIMPLE)]
    if r < 0.84 and recv == "telnet":
        return [IAC, rng.choice(NEG), rng.choice([0, 1, 3, 13, 10, 24, 240, 250, 254])]
    body = []
    for _ in range(rng.randint(0, 5)):
        b = rng.choice([IAC, 0, 1, 10, 13, 65, 240, 250, 251])
        body += [IAC, IAC] if b == IAC else [b]
    about = rng.choice([0, 1, 24, 31, 34, 240, 250])
    return [IAC, SB, about] + body + [IAC, SE]


def random_wire_ops(rng, recv):
    ops = []
    for _ in range(rng.randint(1, 6)):
        w = []
        for _ in range(rng.randint(1, 4)):
            w += random_token(rng, recv)
        ops.append(["inject", w])
    return ops


# --------------------------------------------------------------------------- verdict plumbing

def fingerprint(t, rej):
    ev = t["ev"][rej.reached] if rej.reached < len(t["ev"]) else None
    if ev is None:
        return "end"
    if ev["e"] == "write":
        data = [b for p in ev["app"] for b in p]
        cls = [n for n, b in (("IAC", IAC), ("LF", LF)) if b in data]
        call = "TelnetTransport.write" if ev["kind"] == "write" else "TelnetTransport.writeSequence"
        return "%s/%s" % (call, "+".join(cls) or "plain")
    if ev["e"] == "deliver":
        return "deliver/%s/%s/%s" % (t["cfg"]["mode"], t["cfg"]["recv"], ev["exc"] or ("split" if ev["out"] != ev["one"][-len(ev["out"]):] and ev["out"] else "decode"))
    return ev["e"]


def report(ctx, traces, rej):
    for x in rej:
        t = traces[x.idx]
        ev = t["ev"][x.reached] if x.reached < len(t["ev"]) else None
        ctx.violation(fingerprint(t, x),
                      "real telnet execution not explained by TelnetData.tla at event %d: %s" % (x.reached, ev),
                      dict(cfg=t["cfg"], ops=t["ops"], rejected_at=x.reached))


def mutate(t, rng):
    """Corrupt one logged field / drop one event (binding self-test)."""
    evs = t["ev"]
    dl = [i for i, e in enumerate(evs) if e["e"] == "deliver" and e["out"]]
    wr = [i for i, e in enumerate(evs) if e["e"] in ("write", "inject") and e["wire"]]
    r = rng.random()
    if dl and r < 0.4:
        e = evs[rng.choice(dl)]
        it = rng.choice(e["out"])
        it[1] = (it[1] + 1) % 256            # peer saw a different byte
    elif dl and r < 0.6:
        e = evs[rng.choice(dl)]
        del e["out"][rng.randrange(len(e["out"]))]   # peer lost an item
    elif wr and r < 0.8:
        e = evs[rng.choice(wr)]
        j = rng.randrange(len(e["wire"]))
        if e["e"] == "write":
            e["wire"][j] = IAC if e["wire"][j] != IAC else 65   # sender put something else on the wire
        else:
            return None
    elif dl:
        e = evs[rng.choice(dl)]
        e["one"] = e["one"][:-1] if e["one"] else [["d", 1, 0]]
    else:
        return None
    return t


def run(ctx):
    from harness.core import MachineryError

    r = ctx.mc("TelnetDataMC", ctx.pick("TelnetDataMC.cfg", "TelnetDataMC.thorough.cfg"))
    if not r.ok:
        raise MachineryError("TelnetData spec violates its own invariants: " + r.error)
    ctx.require_actions("TelnetDataMC", ["WriteSym", "InjectTok", "DeliverK"])

    rng = ctx.rng
    traces = []
    depth = ctx.pick(3, 4)
    for i, ops in enumerate(exhaustive_cases(rng, depth)):
        for recv in (("transport", "telnet")[i % 2],):
            traces.append(run_case({"mode": "app", "recv": recv}, delivery_plan(rng, ops)))
    ctx.exhaustive = False   # the class-level space is enumerated completely, byte values and wire splits are sampled
    ctx.extra["exhaustive_class_strings_up_to"] = depth
    ctx.extra["exhaustive_note"] = ("every class string up to that length x every grouping into calls x every write/writeSequence "
                                    "assignment (the two receiver kinds alternate); byte values within a class and wire splits are sampled")
    for _ in range(ctx.pick(400, 20000)):
        recv = rng.choice(["transport", "telnet"])
        traces.append(run_case({"mode": "app", "recv": recv}, delivery_plan(rng, random_app_ops(rng))))
    for _ in range(ctx.pick(400, 15000)):
        recv = rng.choice(["transport", "telnet", "telnet"])
        traces.append(run_case({"mode": "wire", "recv": recv}, delivery_plan(rng, random_wire_ops(rng, recv))))
    # spec -> code: behaviours generated by TLC from the specification are performed on the real objects; the
    # real wire bytes / peer output of every step must be what TLC predicted (checked again by TLC in validate()).
    behs = ctx.simulate("TelnetDataSim", "TelnetDataSim.cfg", num=ctx.pick(20, 600), depth=14)
    drift = 0
    for i, b in enumerate(behs):
        ops = []
        for h in b["hist"]:
            if h["e"] == "write":
                ops.append(["write", h["app"]] if h["kind"] == "write" else ["seq", [h["app"]]])
            elif h["e"] == "inject":
                ops.append(["inject", h["wire"]])
            else:
                ops.append(["deliver", h["k"]])
        recv = "telnet" if b["cfg"]["mode"] == "wire" or i % 2 else "transport"
        t = run_case({"mode": b["cfg"]["mode"], "recv": recv}, ops)
        pred = [(h["wire"] if h["e"] != "deliver" else h["out"]) for h in b["hist"]]
        real = [(e["wire"] if e["e"] != "deliver" else e["out"]) for e in t["ev"]]
        if pred != real:
            drift += 1
        traces.append(t)
    ctx.extra["spec_behaviours_replayed"] = len(behs)
    ctx.extra["spec_behaviours_not_reproduced"] = drift   # each of these is also rejected by TLC below
    ctx.note_traces(traces)
    ctx.log("recorded %d real executions" % len(traces))
    rej = ctx.validate("TelnetDataTrace", traces, shard_size=ctx.pick(400, 1500))
    report(ctx, traces, rej)
    bad = {x.idx for x in rej}
    ctx.extra["rejected_executions"] = len(rej)
    good = [t for i, t in enumerate(traces) if i not in bad]
    ctx.selftest_rejects("TelnetDataTrace", good[-300:], mutate, n=20)


def replay(ctx, obj):
    t = run_case(obj["cfg"], obj["ops"])
    ctx.note_trace(t)
    rej = ctx.validate("TelnetDataTrace", [t])
    report(ctx, [t], rej)
    for e in t["ev"]:
        print(e)
