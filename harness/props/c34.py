"""C34 -- RFC 1982 serial-number arithmetic is implemented exactly.

Spec:     specs/Serial.tla   (RFC 1982 3.1/3.2 transcribed; SerialMC proves the property's clauses for all
          pairs of all small widths and the limb arithmetic equal to the integer formulas; SerialTrace
          decides every logged result of the real class; SerialSim generates boundary cases at 16/32/64 bit)
Binding:  real twisted.names._rfc1982.SerialNumber: every comparison operator and `+` is applied to the
          operands of each case; the event carries the six comparison results / the sum (as 16-bit limbs),
          how the sum compares with s, or "refused" for ArithmeticError.  TLC decides.
"""

META = dict(
    id="C34",
    specs=["Serial.tla", "SerialMC.tla", "SerialTrace.tla", "SerialSim.tla"],
    technique="RFC 1982 transcribed as TLA+ operators (Pattern C); TLC proves trichotomy / <=,>= agreement / addition clauses for all pairs of all widths 1..W and the multi-limb arithmetic equal to the integer formulas; the same enumeration plus seeded 16..64-bit cases is executed on the real SerialNumber and every result validated by TLC",
    level_text="TLC checks the clauses of the property on the RFC 1982 definitions for every pair of values and every addend of every width up to the stated bound, and every comparison and addition performed on the real SerialNumber class (all pairs of the small widths, seeded and spec-generated boundary cases of the large ones) is validated by TLC against those definitions with every result field matched.",
    level_note="Trusted: TLC, the adapter's recording of operator results. Widths above the exhaustive bound are sampled (boundary-biased), not proved; wide values are decided by limb arithmetic that TLC proves equal to the integer formulas only at limb sizes 2, 3 (5) bits and widths <= W. The unbounded-width proof mentioned in the property text is not attempted.",
    design_ref="2.10 C34",
    rule="case = one (width, a, b) comparison or (width, s, n) addition on the real class; a trace = the cases of one row; distinct = hash of (cfg, events); non-trivial = the row contains both comparison and addition cases",
)

LB = 16


def limbs(v, bits):
    n = (bits + LB - 1) // LB
    out = []
    for i in range(n):
        out.append((v >> (LB * (n - 1 - i))) & 0xFFFF)
    return out


def unlimbs(x):
    v = 0
    for d in x:
        v = (v << LB) | d
    return v


def ev_cmp(SN, bits, a, b):
    x, y = SN(a, bits), SN(b, bits)
    try:
        r = dict(lt=x < y, gt=x > y, eq=x == y, ne=x != y, le=x <= y, ge=x >= y)
        if not all(isinstance(v, bool) for v in r.values()):
            return {"e": "cmp-error", "a": limbs(a, bits), "b": limbs(b, bits), "err": "non-bool:" + repr(r)}
    except BaseException as e:
        return {"e": "cmp-error", "a": limbs(a, bits), "b": limbs(b, bits), "err": type(e).__name__}
    r.update(e="cmp", a=limbs(a, bits), b=limbs(b, bits))
    return r


def ev_add(SN, bits, s, n):
    x, y = SN(s, bits), SN(n, bits)
    base = {"e": "add", "s": limbs(s, bits), "n": limbs(n, bits)}
    try:
        r = x + y
    except ArithmeticError:
        base["res"] = "refused"
        return base
    except BaseException as e:
        base["res"] = "EXC:" + type(e).__name__
        return base
    try:
        v = int(r)
        if not isinstance(r, SN) or v < 0 or v >= (1 << bits):
            base["res"] = "BAD:%r" % (r,)
            return base
        base.update(res="ok", v=limbs(v, bits), gts=r > x, lts=r < x, eqs=r == x)
        if not all(isinstance(base[k], bool) for k in ("gts", "lts", "eqs")):
            base["res"] = "BAD:non-bool comparison of sum"
    except BaseException as e:
        base["res"] = "EXC-after:" + type(e).__name__
    return base


def row_trace(SN, bits, a, others):
    ev = []
    for b in others:
        ev.append(ev_cmp(SN, bits, a, b))
        ev.append(ev_add(SN, bits, a, b))
    return {"cfg": {"bits": bits, "lb": LB}, "row": [bits, a], "cols": list(others), "ev": ev}


def interesting(bits, rng, k):
    """Boundary-biased values of a width: around 0, half, max, plus random ones."""
    m = 1 << bits
    h = m >> 1
    base = {0, 1, 2, h - 2, h - 1, h, h + 1, h + 2, m - 2, m - 1, (m >> 2), 3 * (m >> 2), 0xFFFF % m, 0x10000 % m, 0xFFFFFFFF % m, (1 << 32) % m}
    vals = {v % m for v in base}
    while len(vals) < k:
        vals.add(rng.randrange(m))
    return sorted(vals)


def partners(bits, a, rng, k):
    """Partners of a: same, neighbours, exactly / almost half the ring away (both directions), random."""
    m = 1 << bits
    h = m >> 1
    out = []
    for d in (0, 1, 2, h - 2, h - 1, h, h + 1, h + 2, m - 2, m - 1):
        out.append((a + d) % m)
    for _ in range(k):
        out.append(rng.randrange(m))
        out.append(rng.randrange(min(m, 1 << 16)))          # small addends / values
        out.append((h - 1 - rng.randrange(min(h, 1 << 16))) % m)   # addends just inside the defined range
        out.append((h + rng.randrange(min(h, 1 << 16))) % m)       # and just outside
    return out


def mutate(t, rng):
    evs = t["ev"]
    i = rng.randrange(len(evs))
    e = evs[i]
    if e["e"] == "cmp":
        k = rng.choice(["lt", "gt", "eq", "ne", "le", "ge"])
        e[k] = not e[k]
    elif e.get("res") == "ok":
        if rng.random() < 0.5:
            e["v"][-1] ^= 1
        else:
            e["res"] = "refused"
    else:
        e["res"] = "ok"
        e.update(v=list(e["s"]), gts=True, lts=False, eqs=False)
    return t


def fingerprint(e):
    if e is None:
        return "none"
    if e["e"] == "add":
        return "add/%s" % e.get("res", "?").split(":")[0]
    return e["e"]


def describe(t, x):
    e = t["ev"][x.reached] if x.reached < len(t["ev"]) else None
    bits = t["cfg"]["bits"]
    if e is None:
        return None, "trace rejected at its end"
    if e["e"] == "add":
        return e, "SerialNumber(%d, %d) + SerialNumber(%d, %d) -> %s" % (unlimbs(e["s"]), bits, unlimbs(e["n"]), bits, {k: v for k, v in e.items() if k not in ("e", "s", "n")})
    return e, "SerialNumber(%d, %d) vs SerialNumber(%d, %d) -> %s" % (unlimbs(e["a"]), bits, unlimbs(e["b"]), bits, {k: v for k, v in e.items() if k not in ("e", "a", "b")})


def case_of(e):
    if e["e"] == "add":
        return ["add", str(unlimbs(e["s"])), str(unlimbs(e["n"]))]
    return ["cmp", str(unlimbs(e["a"])), str(unlimbs(e["b"]))]


def report(ctx, traces, rej):
    for x in rej[:20]:
        t = traces[x.idx]
        e, what = describe(t, x)
        # cases are independent of each other: the failing case alone is the replay
        ctx.violation(fingerprint(e), "real SerialNumber result not the RFC 1982 result: " + what,
                      dict(bits=t["cfg"]["bits"], cases=[case_of(e)] if e else [], rejected_at=x.reached))


def run(ctx):
    from twisted.names._rfc1982 import SerialNumber as SN
    from harness.core import MachineryError

    r = ctx.mc("SerialMC", ctx.pick("SerialMC.cfg", "SerialMC.thorough.cfg"))
    if not r.ok:
        raise MachineryError("Serial spec violates its own clauses: " + r.error)
    ctx.require_actions("SerialMC", ["DoCmp", "DoAddOk", "DoAddRefused"])

    traces = []
    rng = ctx.rng
    wx = ctx.pick(6, 8)
    for bits in range(1, wx + 1):
        for a in range(1 << bits):
            traces.append(row_trace(SN, bits, a, range(1 << bits)))
    ctx.exhaustive = True
    ctx.extra["exhaustive_widths"] = [1, wx]
    # complete rows (every partner, every addend) of the widths just above the exhaustive bound
    for bits in range(wx + 1, ctx.pick(9, 11)):
        m = 1 << bits
        rows = {0, 1, m // 2 - 1, m // 2, m // 2 + 1, m - 1} | set(rng.sample(range(m), ctx.pick(4, 40)))
        for a in sorted(rows):
            traces.append(row_trace(SN, bits, a, range(m)))
    # wide serial numbers: boundary-biased rows
    nrows, k = ctx.pick((10, 4), (60, 20))
    for bits in [12, 15, 16, 17, 24, 31, 32, 33, 48, 63, 64]:
        for a in interesting(bits, rng, nrows + 16):
            traces.append(row_trace(SN, bits, a, partners(bits, a, rng, k)))
    # spec -> code: boundary cases generated by TLC from the specification (operands and predicted results)
    behs = ctx.simulate("SerialSim", "SerialSim.cfg", num=ctx.pick(60, 2000), depth=12, timeout=1200)
    drift = 0
    for b in behs:
        bits = b["cfg"]["bits"]
        ev = []
        for h in b["hist"]:
            if h["e"] == "cmp":
                ev.append(ev_cmp(SN, bits, unlimbs(h["a"]), unlimbs(h["b"])))
            else:
                ev.append(ev_add(SN, bits, unlimbs(h["s"]), unlimbs(h["n"])))
        if ev != b["hist"]:
            drift += 1
        traces.append({"cfg": b["cfg"], "row": [bits, "sim"], "cols": [], "ev": ev})
    ctx.extra["spec_behaviours_replayed"] = len(behs)
    ctx.extra["spec_behaviours_not_reproduced"] = drift
    ctx.extra["cases_on_real_class"] = sum(len(t["ev"]) for t in traces)
    for t in traces:
        ctx.note_trace(t, nontrivial=len({e["e"] for e in t["ev"]}) >= 2)
    ctx.log("recorded %d rows, %d cases on the real SerialNumber" % (len(traces), ctx.extra["cases_on_real_class"]))
    rej = ctx.validate("SerialTrace", traces, shard_size=ctx.pick(120, 200))
    report(ctx, traces, rej)
    bad = {x.idx for x in rej}
    good = [t for i, t in enumerate(traces) if i not in bad and len(t["ev"]) <= 64]
    ctx.selftest_rejects("SerialTrace", good[-200:] + good[:50], mutate, n=24)


def replay(ctx, obj):
    from twisted.names._rfc1982 import SerialNumber as SN
    bits = obj["bits"]
    ev = [ev_cmp(SN, bits, int(c[1]), int(c[2])) if c[0] == "cmp" else ev_add(SN, bits, int(c[1]), int(c[2])) for c in obj["cases"]]
    t = {"cfg": {"bits": bits, "lb": LB}, "ev": ev}
    ctx.note_trace(t)
    rej = ctx.validate("SerialTrace", [t])
    report(ctx, [t], rej)
    for e in t["ev"]:
        print(e)
