"""X19 (extension, not a listed property) -- twisted.web.http.HTTPChannel idle timeout and forced abort.
Spec: specs/HttpTimeouts.tla.  Reported under coverage.extra_modules of the nearest property (C21).

The real HTTPChannel (built by a real HTTPFactory whose reactor is a task.Clock) is driven over a recording
transport fake; one event per harness call with every observable outcome: process() calls, responses
finished, loseConnection / abortConnection calls, whether anything else was called on the transport, and
the delayed calls pending on the clock (due times)."""

META = dict(
    id="X19", extension=True, nearest="C21",
    specs=["HttpTimeouts.tla", "HttpTimeoutsMC.tla", "HttpTimeoutsTrace.tla"],
    technique="TLA+ spec of HTTPChannel's idle-timeout / forced-abort timers over the request life cycle + TLC "
              "trace validation of the real channel (HTTPFactory on task.Clock, recording transport)",
    level_text="extension module: grows the specification beyond the listed properties",
    level_note="not a listed property; alarms are reported as EXTRA-ALARM, never as VIOLATION.  Trusted: task.Clock "
               "as the reactor, a StringTransport made as lenient as abstract.FileDescriptor; HTTP/2, "
               "pause/resumeProducing, timeOut=0 and malformed input after the request line are not modelled",
    design_ref="4 (extensions)",
    rule="history of data(k units)/bad/write/finish/advance/connectionLost calls over a configuration "
         "(timeOut, abortTimeout, per-request answer mode and HTTP version); distinct by (cfg, event sequence)",
)
NONE = -1
NU = 6          # units per request
NREQ = 3        # requests described by a configuration


def unit(u, ver):
    """bytes of stream unit u (1-based); request r = (u-1)//6+1 is HTTP/1.<ver[r]>"""
    r, i = (u - 1) // NU + 1, (u - 1) % NU
    v = ver[r - 1] if r <= len(ver) else 1
    return [b"POST /%d HT" % r, b"TP/1.%d\r\n" % v, b"Content-Length: 2\r\n", b"\r\n", b"a", b"b"][i]


class Conn:
    """One server connection on a fake clock.  cfg = {to, ab, mode:[0|1]*3 (1 = answer later), ver:[0|1]*3}."""

    def __init__(self, cfg):
        from twisted.internet import address, task
        from twisted.internet.testing import StringTransport
        from twisted.web import http

        conn = self
        self.cfg = cfg
        self.clock = task.Clock()
        self.calls = []      # mutating transport calls of the current op
        self.proc = []
        self.done = []
        self.live = {}
        self.pos = 0
        self.nproc = 0
        self.lost = self.aborted = self.bad = False

        class RecTransport(StringTransport):
            # as forgiving as abstract.FileDescriptor: unregisterProducer never raises
            def unregisterProducer(self):
                conn.calls.append("unregisterProducer")
                self.producer = None
                self.streaming = None

        for name in ("write", "writeSequence", "loseConnection", "abortConnection", "registerProducer",
                     "pauseProducing", "resumeProducing", "stopProducing"):
            def mk(name):
                orig = getattr(StringTransport, name)

                def f(self, *a, **kw):
                    conn.calls.append(name)
                    if name == "abortConnection":      # do not count the nested loseConnection of the fake
                        self.disconnected = True
                        self.disconnecting = True
                        return None
                    return orig(self, *a, **kw)
                return f
            setattr(RecTransport, name, mk(name))

        class RecRequest(http.Request):
            def process(self):
                r = int(self.uri[1:])
                conn.proc.append(r)
                if conn.cfg["mode"][r - 1] == 0:
                    self.setHeader(b"content-length", b"1")
                    self.write(b"x")
                    conn.done.append(r)
                    self.finish()
                else:
                    conn.live[r] = self

        class Channel(http.HTTPChannel):
            abortTimeout = None if cfg["ab"] == NONE else cfg["ab"]
            requestFactory = RecRequest

        self.transport = RecTransport(
            hostAddress=address.IPv4Address("TCP", "127.0.0.1", 80),
            peerAddress=address.IPv4Address("TCP", "127.0.0.1", 54321), lenient=True)
        factory = http.HTTPFactory(timeout=None if cfg["to"] == NONE else cfg["to"], reactor=self.clock)
        factory.protocol = Channel
        self.channel = factory.buildProtocol(self.transport.getPeer())
        self.channel.makeConnection(self.transport)
        self.calls.clear()

    def timers(self):
        return sorted(int(c.getTime()) for c in self.clock.getDelayedCalls())

    def applicable(self, op):
        """what the harness is willing to do here (mirrors the enabling conditions of the spec's actions,
        decided from observables only: transport flags, process() calls seen, responses still owed)"""
        closing = self.transport.disconnecting
        if op[0] == "data":
            if self.lost or self.aborted or self.bad or self.pos + op[1] > NU * NREQ:
                return False
            return not closing or (op[1] == 1 and not self.live)
        if op[0] == "bad":
            return not (closing or self.lost or self.live) and self.pos == NU * self.nproc
        if op[0] in ("write", "finish"):
            return bool(self.live) and not self.lost
        if op[0] == "lost":
            return not self.lost
        return op[0] == "adv"

    def step(self, op):
        """perform one harness call; returns the event, or None when the op is not applicable here"""
        from twisted.internet import error
        from twisted.python.failure import Failure

        if not self.applicable(op):
            return None
        self.calls.clear()
        self.proc, self.done = [], []
        e = {"e": op[0], "a": 0}
        exc = "none"
        try:
            if op[0] == "data":
                k = e["a"] = op[1]
                data = b"".join(unit(u, self.cfg["ver"]) for u in range(self.pos + 1, self.pos + k + 1))
                self.pos += k
                self.channel.dataReceived(data)
            elif op[0] == "bad":
                self.bad = True
                self.channel.dataReceived(b"BAD\r\n")
            elif op[0] == "write":
                r = e["a"] = min(self.live)
                self.live[r].write(b"y")
            elif op[0] == "finish":
                r = e["a"] = min(self.live)
                req = self.live.pop(r)
                self.done.append(r)
                req.finish()
            elif op[0] == "adv":
                e["a"] = op[1]
                self.clock.advance(op[1])
            elif op[0] == "lost":
                self.lost = True
                self.live.clear()
                self.channel.connectionLost(Failure(error.ConnectionDone()))
        except Exception as x:       # an escaping exception is an observable outcome, never a harness crash
            exc = type(x).__name__
        self.nproc += len(self.proc)
        self.aborted = self.aborted or "abortConnection" in self.calls
        e.update(proc=list(self.proc), done=list(self.done),
                 lose=self.calls.count("loseConnection"), abort=self.calls.count("abortConnection"),
                 tc=bool(self.calls), timers=self.timers(), now=int(self.clock.seconds()), exc=exc)
        return e


def expand(c, op):
    """primitive ops of a harness symbol in the connection's present state.  ("req",) = the rest of the request
    being sent: in one call on an open transport, one unit per call on a closing one"""
    if op[0] != "req":
        return [tuple(op)]
    k = NU - c.pos % NU
    return [("data", 1)] * k if c.transport.disconnecting else [("data", k)]


def run_history(cfg, ops, strict=False):
    """drive one connection along ops (inapplicable ops are skipped; strict: give up and return None instead);
    the trace keeps the primitive ops actually performed"""
    c = Conn(cfg)
    ev, done_ops = [], []
    for op in ops:
        for prim in expand(c, op):
            e = c.step(prim)
            if e is not None:
                ev.append(e)
                done_ops.append(list(prim))
            elif strict:
                return None
    return {"cfg": cfg, "ops": done_ops, "ev": ev}


# --------------------------------------------------------------------------- history generators
SYMS = {
    "d1": ("data", 1), "d2": ("data", 2), "d4": ("data", 4), "d6": ("data", 6), "d7": ("data", 7), "d12": ("data", 12),
    "req": ("req",), "bad": ("bad",), "w": ("write",), "f": ("finish",), "lost": ("lost",),
    "a0": ("adv", 0), "a1": ("adv", 1), "a2": ("adv", 2), "a3": ("adv", 3),
}
# (configuration, alphabet, word lengths quick / thorough): every word over the alphabet is run; symbols that
# are not applicable at their position are skipped and the histories deduplicated by what was actually done
EXH = [
    # the life cycle of one persistent connection: partial request, rest, deferred answer, idle, timeout, abort, close
    (dict(to=2, ab=1, mode=[1, 0, 1], ver=[1, 1, 1]), ["d1", "req", "f", "a1", "a2", "lost"], 5, 6),
    # pipelining: two and a bit requests at once, answers now / later
    (dict(to=2, ab=2, mode=[1, 1, 0], ver=[1, 1, 1]), ["d7", "d12", "w", "f", "a1", "a2", "lost"], 4, 6),
    # bytes that keep arriving after the timeout closed the connection, timeOut < abortTimeout (ODDITIES 1, 3, 4)
    (dict(to=1, ab=3, mode=[0, 0, 0], ver=[1, 1, 1]), ["d1", "req", "a1", "a2", "lost"], 5, 7),
    (dict(to=1, ab=2, mode=[0, 1, 0], ver=[1, 1, 1]), ["req", "d1", "f", "a1", "a3", "lost"], 5, 6),
    # HTTP/1.0 request in the middle; malformed request line
    (dict(to=2, ab=1, mode=[0, 1, 0], ver=[1, 0, 1]), ["req", "d2", "bad", "f", "a1", "a2", "lost"], 4, 6),
    # no forced abort / no idle timeout configured
    (dict(to=2, ab=NONE, mode=[0, 1, 0], ver=[1, 1, 1]), ["d1", "req", "f", "a2", "bad", "lost"], 5, 6),
    (dict(to=NONE, ab=1, mode=[1, 0, 0], ver=[1, 1, 0]), ["d2", "req", "f", "a3", "bad", "lost"], 5, 6),
]


def exhaustive_histories(ctx):
    """every word of exactly n symbols all of which are applicable where they stand (depth-first, prefixes re-run)"""
    out = []
    for cfg, alpha, lq, lt in EXH:
        n = ctx.pick(lq, lt)

        def grow(word):
            t = run_history(cfg, [SYMS[s] for s in word], strict=True)
            if t is None:
                return
            if len(word) == n:
                out.append(t)
                return
            for s in alpha:
                grow(word + [s])
        grow([])
    return out


def random_cfg(rng):
    return dict(to=rng.choice([NONE, 1, 2, 2, 3, 4]), ab=rng.choice([NONE, 1, 2, 3, 5]),
                mode=[rng.randint(0, 1) for _ in range(NREQ)],
                ver=[0 if rng.random() < 0.2 else 1 for _ in range(NREQ)])


def random_ops(rng):
    ops = []
    for _ in range(rng.randint(6, 40)):
        x = rng.random()
        if x < 0.36:
            ops.append(("data", rng.choice([1, 1, 1, 2, 3, 4, 5, 6, 7, 9, 12])))
        elif x < 0.40:
            ops.append(("bad",))
        elif x < 0.47:
            ops.append(("write",))
        elif x < 0.60:
            ops.append(("finish",))
        elif x < 0.95:
            ops.append(("adv", rng.choice([0, 1, 1, 1, 2, 2, 3, 4])))
        else:
            ops.append(("lost",))
    if rng.random() < 0.7:
        ops += [("lost",), ("adv", rng.choice([1, 3, 6]))]
    return ops


def fingerprint(t, x):
    e = t["ev"][x.reached] if x.reached < len(t["ev"]) else {"e": "end"}
    return "httptimeouts/%s/lose%s-abort%s-exc:%s" % (e["e"], e.get("lose"), e.get("abort"), e.get("exc"))


def stats(traces):
    s = dict(timeouts=0, aborts=0, late=0, leaked_abort_after_lost=0, two_aborts=0, lost=0, bad=0)
    for t in traces:
        nl = na = 0
        closing = lost = late = False
        for e in t["ev"]:
            if e["e"] == "data" and closing:
                late = True
            if e["e"] == "adv":
                nl += e["lose"]
            na += e["abort"]
            closing = closing or e["lose"] > 0
            lost = lost or e["e"] == "lost"
        s["timeouts"] += nl > 0
        s["aborts"] += na > 0
        s["two_aborts"] += na > 1
        s["late"] += late
        s["lost"] += lost
        s["bad"] += any(e["e"] == "bad" for e in t["ev"])
        s["leaked_abort_after_lost"] += lost and bool(t["ev"][-1]["timers"] or any(
            e["abort"] for i, e in enumerate(t["ev"]) if any(f["e"] == "lost" for f in t["ev"][:i])))
    return s


# --------------------------------------------------------------------------- the check
ACTIONS = ["Data", "Bad", "Write", "Finish", "Adv", "ConnLost"]


def report(ctx, traces, rej, limit=10):
    for x in rej[:limit]:
        t = traces[x.idx]
        e = t["ev"][x.reached] if x.reached < len(t["ev"]) else None
        ctx.violation(fingerprint(t, x),
                      "HTTPChannel execution (cfg %s) not explained by HttpTimeouts.tla at event %d: %s; history so far %s"
                      % (t["cfg"], x.reached, e, t["ops"][:x.reached + 1]),
                      dict(cfg=t["cfg"], ops=t["ops"]))


def run(ctx):
    from harness.core import MachineryError

    th = not ctx.quick
    ctx.mc("HttpTimeoutsMC", ctx.pick("HttpTimeoutsMC.cfg", "HttpTimeoutsMC.thorough.cfg"),
           label="all configurations, every operation, relative-time view")
    ctx.require_actions("HttpTimeoutsMC", ACTIONS)
    # vacuity of the "~late" guards: with late bytes the guarded parts really fail in the model (ODDITIES 3, 4)
    for cfgfile, what in [("HttpTimeoutsMC.reach.cfg", "a forced-abort call survives connectionLost (ODDITY 4)"),
                          ("HttpTimeoutsMC.reach2.cfg", "abortConnection is called twice (ODDITY 3)")][:ctx.pick(1, 2)]:
        r = ctx.mc("HttpTimeoutsMC", cfgfile, must_pass=False, coverage=False, label="vacuity: reachable: " + what)
        if r.ok or r.kind != "invariant":
            raise MachineryError("vacuity: %s expected reachable, got ok=%s kind=%s" % (what, r.ok, r.kind))

    traces = exhaustive_histories(ctx)
    nexh = len(traces)
    for _ in range(ctx.pick(1500, 15000)):
        traces.append(run_history(random_cfg(ctx.rng), random_ops(ctx.rng)))
    ctx.note_traces(traces)
    ctx.extra["histories"] = dict(exhaustive_short=nexh, seeded_random=len(traces) - nexh, **stats(traces))
    ctx.log("X19: %d exhaustive-short + %d random histories: %s" % (nexh, len(traces) - nexh, ctx.extra["histories"]))
    rej = ctx.validate("HttpTimeoutsTrace", traces, shard_size=3000)
    report(ctx, traces, rej)

    def mutate(t, rng):
        c = [i for i, e in enumerate(t["ev"]) if e["timers"] or e["lose"] or e["abort"] or e["proc"]]
        if not c:
            return None
        i = rng.choice(c)
        e = t["ev"][i]
        k = rng.randrange(4)
        if k == 0 and e["timers"]:
            e["timers"][-1] += 1                      # a deadline one second late
        elif k == 1 and e["timers"]:
            e["timers"] = e["timers"][:-1]            # a pending call not seen
        elif k == 2 and (e["lose"] or e["abort"]):
            if e["lose"]:
                e["lose"] -= 1                         # a loseConnection not seen
            else:
                e["abort"] += 1                        # aborted twice
        elif k == 3 and e["proc"]:
            e["proc"] = []                             # a process() call not seen
        else:
            e["timers"] = e["timers"] + [e["now"] + 1]  # a leaked call
        return t
    bad = {x.idx for x in rej}
    ctx.selftest_rejects("HttpTimeoutsTrace", [t for i, t in enumerate(traces) if i not in bad][::7][:300], mutate, n=16)


def replay(ctx, obj):
    t = run_history(obj["cfg"], [tuple(o) for o in obj["ops"]])
    for e in t["ev"]:
        print(e)
    rej = ctx.validate("HttpTimeoutsTrace", [t])
    for x in rej:
        ctx.violation(fingerprint(t, x), "rejected at %d" % x.reached, dict(cfg=t["cfg"], ops=t["ops"]))
